#!/usr/bin/env python3
"""Regenerates MANIFEST.json from manifest_src.json (claimed checks) + properties.jsonl (for not_applicable)."""
import json
props=[json.loads(l) for l in open('/verif/properties.jsonl')]
src=json.load(open('/verif/manifest_src.json'))
claimed=src['claimed']
checks=[]
for pid in sorted(claimed):
    c=claimed[pid]
    checks.append({"property_id":pid,"quick_cmd":f"./check {pid} --tier quick","thorough_cmd":f"./check {pid} --tier thorough",
      "evidence_file":f"/verif/evidence/{pid}.json","replay_cmd_template":f"./check {pid} --replay {{path}}","engine":"rocq-proof+correspondence",
      "level_claimed":{"category":"proof","text":c['text'],"design_ref":c['ref']},
      "level_note":c.get('note',"Coq 8.16.1 kernel; no axioms (Print Assumptions: closed under the global context); translator + extraction (ExtrOcamlBasic only) + differential harness tie the model to /repo; see DESIGN.md section 4"),
      "technique":c.get('technique',"Rocq/Coq proof over an executable Gallina model + translator + differential correspondence via extraction")})
na=[{"property_id":p["id"],"reason":src['not_claimed'].get(p["id"],"check not built yet (work in progress; DESIGN.md section 8)")} for p in props if p["id"] not in claimed]
m={"version":1,"setup_cmd":"./check --setup",
 "hooks":{"guard":"isomdl_verif","enable":"RUSTFLAGS=\"--cfg isomdl_verif\" (set by ./check when building the harness against /repo); no hook is needed so far","baseline_off_cmd":"cd /repo && cargo test --workspace --no-fail-fast --offline","source_commits":[],"add_only":True},
 "engines":[{"name":"rocq-proof+correspondence","path":"/verif/check","serves_properties":sorted(claimed),"kind_free_text":"Coq 8.16.1 theorems over hand-written executable Gallina models (coq/Model, coq/Spec, coq/Proofs, coq/Props); syn-based translator regenerates coq/Gen from /repo on every run; models extracted to OCaml (runner) and compared with the Rust implementation by the harness; executable specs evaluated on the implementation's observations"}],
 "checks":checks,"not_applicable":na,"notes":"see DESIGN.md; fix: commits in /repo are recorded in known_findings.json"}
json.dump(m,open('/verif/MANIFEST.json','w'),indent=1)
print("claimed:",sorted(claimed))
