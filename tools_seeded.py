#!/usr/bin/env python3
"""Seeded-change bookkeeping (development aid; not part of any registered check).

  tools_seeded.py confirm <src_dir> <k> <seed_id> <property> "<needs>"
      confirm a candidate change produced by a fresh sub-agent in a scratch worktree of /repo:
      the baseline suite passes with the patch, the demonstration fails with it and passes without.
      On success store it as /verif/seeded/<seed_id>/{patch.diff, demo.rs, meta.json}.
  tools_seeded.py run <seed_id> [Cxx ...]
      apply /verif/seeded/<seed_id>/patch.diff to /repo, run the given checks (default: the property
      in meta.json), record which reported a VIOLATION, and undo the patch (git checkout -- .).
"""
import json, os, subprocess, sys, shutil, time, re

VERIF = os.path.dirname(os.path.abspath(__file__))
REPO = os.environ.get("VERIF_REPO", "/repo")


def sh(cmd, cwd=None, env=None, timeout=3600):
    p = subprocess.run(cmd, cwd=cwd, shell=isinstance(cmd, str), stdout=subprocess.PIPE, stderr=subprocess.STDOUT, text=True,
                       timeout=timeout, env=env or dict(os.environ, CARGO_NET_OFFLINE="true"))
    return p.returncode, p.stdout


def confirm(src, k, seed_id, prop, needs):
    patch = os.path.join(src, f"patch{k}.diff")
    demo = os.path.join(src, f"demo{k}.rs")
    assert os.path.exists(patch) and os.path.exists(demo), "patch/demo missing"
    wt = f"/tmp/confirm_{seed_id}"
    sh(["git", "-C", REPO, "worktree", "remove", "--force", wt])
    rc, out = sh(["git", "-C", REPO, "worktree", "add", wt, "HEAD"])
    assert rc == 0, out
    env = dict(os.environ, CARGO_NET_OFFLINE="true", CARGO_TARGET_DIR=os.environ.get("CONFIRM_TARGET", "/tmp/confirm_target"))
    res = {"seed": seed_id, "property": prop}
    try:
        shutil.copy(demo, os.path.join(wt, "tests", "seed_demo.rs"))
        rc, out = sh("cargo test --offline --test seed_demo 2>&1 | tail -15", cwd=wt, env=env)
        res["demo_without_patch"] = "ok" if "test result: ok" in out else "FAILS"
        res["demo_without_patch_tail"] = out[-600:]
        rc, out = sh(["git", "apply", patch], cwd=wt)
        assert rc == 0, "patch does not apply to the current /repo HEAD: " + out
        rc, out = sh("cargo test --offline --test seed_demo 2>&1 | tail -25", cwd=wt, env=env)
        res["demo_with_patch"] = "FAILS" if ("test result: FAILED" in out or "panicked" in out or "error: test failed" in out) else "ok"
        res["demo_with_patch_tail"] = out[-900:]
        os.remove(os.path.join(wt, "tests", "seed_demo.rs"))
        rc, out = sh("cargo test --workspace --no-fail-fast --offline 2>&1 | grep -E '^test result|FAILED|failed' ", cwd=wt, env=env)
        passed = sum(int(m) for m in re.findall(r"(\d+) passed", out))
        failed = sum(int(m) for m in re.findall(r"(\d+) failed", out))
        res["suite_with_patch"] = {"passed": passed, "failed": failed}
    finally:
        sh(["git", "-C", REPO, "worktree", "remove", "--force", wt])
    ok = res.get("demo_without_patch") == "ok" and res.get("demo_with_patch") == "FAILS" and res["suite_with_patch"]["failed"] == 0 and res["suite_with_patch"]["passed"] >= 114
    res["confirmed"] = ok
    print(json.dumps(res, indent=1))
    if ok:
        d = os.path.join(VERIF, "seeded", seed_id)
        os.makedirs(d, exist_ok=True)
        shutil.copy(patch, os.path.join(d, "patch.diff"))
        shutil.copy(demo, os.path.join(d, "demo.rs"))
        notes = os.path.join(src, "notes.md")
        if os.path.exists(notes):
            shutil.copy(notes, os.path.join(d, "notes.md"))
        meta = {"seed": seed_id, "breaks_property": prop, "needs_to_manifest": needs,
                "source": "fresh sub-agent given only the property text and a scratch worktree of /repo",
                "confirmed_by": "tools_seeded.py confirm (scratch worktree of /repo HEAD): demo passes without the patch, fails with it; existing suite passes with it",
                "confirmation": {k: v for k, v in res.items() if not k.endswith("_tail")},
                "repo_head": sh(["git", "-C", REPO, "rev-parse", "--short", "HEAD"])[1].strip()}
        json.dump(meta, open(os.path.join(d, "meta.json"), "w"), indent=1)
    return ok


def run(seed_id, checks):
    d = os.path.join(VERIF, "seeded", seed_id)
    meta = json.load(open(os.path.join(d, "meta.json")))
    checks = checks or [meta["breaks_property"]]
    rc, out = sh(["git", "-C", REPO, "status", "--porcelain", "--untracked-files=no"])
    assert out.strip() == "", "/repo has local changes"
    rc, out = sh(["git", "-C", REPO, "apply", os.path.join(d, "patch.diff")])
    assert rc == 0, out
    results = {}
    try:
        for c in checks:
            t0 = time.time()
            rc, out = sh([os.path.join(VERIF, "check"), c], cwd=VERIF, timeout=3000)
            lines = [l for l in out.split("\n") if l.startswith("VIOLATION") or l.startswith("OK ")]
            detail = ""
            m = re.search(r"replay=(\S+)", out)
            if m and os.path.exists(m.group(1)):
                r = json.load(open(m.group(1)))
                detail = r.get("what") or json.dumps([x.get("name") for x in r.get("no_longer_checks", [])])
                results_replay = r.get("broken")
            results[c] = {"exit": rc, "line": lines[-1] if lines else out[-200:], "what": detail, "wall_s": round(time.time() - t0)}
            print(c, results[c])
    finally:
        sh(["git", "-C", REPO, "checkout", "--", "."])
        shutil.rmtree(os.path.join(VERIF, "replay"), ignore_errors=True)
        # evidence written while /repo was patched is not evidence about /repo: restore the committed files
        sh(["git", "-C", VERIF, "checkout", "--"] + [f"evidence/{c}.json" for c in checks])
    meta.setdefault("check_results", {}).update(results)
    meta["caught_by"] = sorted(c for c, r in meta["check_results"].items() if r["exit"] != 0)
    json.dump(meta, open(os.path.join(d, "meta.json"), "w"), indent=1)


def table():
    """markdown table of every stored seeded change and what the checks reported for it"""
    rows = []
    for sid in sorted(os.listdir(os.path.join(VERIF, "seeded"))):
        mp = os.path.join(VERIF, "seeded", sid, "meta.json")
        if not os.path.exists(mp):
            continue
        m = json.load(open(mp))
        res = m.get("check_results", {})
        cells = []
        for c, r in sorted(res.items()):
            if r["exit"] == 0:
                cells.append(f"{c}: **missed**")
            elif "no-failing-input-found" in r["line"]:
                cells.append(f"{c}: broken obligation {r['what']}, no failing input")
            else:
                cells.append(f"{c}: {r['what'].replace('fail:', '')}")
        files = sorted(set(re.findall(r"^diff --git a/(\S+)", open(os.path.join(VERIF, "seeded", sid, "patch.diff")).read(), re.M)))
        rows.append(f"| {sid} | {', '.join(f.replace('src/', '') for f in files)} | {m['needs_to_manifest']} | {'; '.join(cells)} |")
    print("| seed | files changed | needs, to manifest | reported by |\n|---|---|---|---|")
    print("\n".join(rows))


if __name__ == "__main__":
    if sys.argv[1] == "table":
        table()
        sys.exit(0)
    if sys.argv[1] == "confirm":
        sys.exit(0 if confirm(sys.argv[2], sys.argv[3], sys.argv[4], sys.argv[5], sys.argv[6]) else 1)
    elif sys.argv[1] == "run":
        run(sys.argv[2], sys.argv[3:])
