(* I/O shell around the extracted model: one hex-encoded CBOR request per input line, one
   hex-encoded CBOR answer per output line.  Nothing here interprets the request. *)

let rec pos_of_int (i : int) : Model.positive =
  if i = 1 then Model.XH else if i land 1 = 0 then Model.XO (pos_of_int (i lsr 1)) else Model.XI (pos_of_int (i lsr 1))
let n_of_int (i : int) : Model.n = if i = 0 then Model.N0 else Model.Npos (pos_of_int i)
let rec int_of_pos = function Model.XH -> 1 | Model.XO p -> 2 * int_of_pos p | Model.XI p -> 2 * int_of_pos p + 1
let int_of_n = function Model.N0 -> 0 | Model.Npos p -> int_of_pos p

let hexval c = match c with
  | '0'..'9' -> Char.code c - 48 | 'a'..'f' -> Char.code c - 87 | 'A'..'F' -> Char.code c - 55
  | _ -> failwith "bad hex"

let bytes_of_hex (s : string) : Model.n list =
  let len = String.length s / 2 in
  let rec go i acc = if i < 0 then acc else go (i - 1) (n_of_int (16 * hexval s.[2*i] + hexval s.[2*i+1]) :: acc) in
  go (len - 1) []

let hex_of_bytes (l : Model.n list) : string =
  let b = Buffer.create 256 in
  List.iter (fun x -> Buffer.add_string b (Printf.sprintf "%02x" (int_of_n x))) l;
  Buffer.contents b

let () =
  try
    while true do
      let line = String.trim (input_line stdin) in
      if line <> "" then begin
        let out = try hex_of_bytes (Model.dispatch (bytes_of_hex line)) with e -> "!" ^ Printexc.to_string e in
        print_string out; print_newline ()
      end
    done
  with End_of_file -> ()
