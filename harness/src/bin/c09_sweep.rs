//! C09, thorough tier: every one of the 2^32 inputs of the real `DigestId::new`, in a release
//! build (no overflow checks), against the range predicate 0 <= id <= 2^31-1.  Prints one JSON line.
use isomdl::definitions::DigestId;

fn main() {
    let zero = DigestId::new(0);
    let max = DigestId::new(i32::MAX);
    // the two reference points are what they should be (read through serialisation, the only public view)
    assert_eq!(serde_json::to_value(zero).unwrap(), serde_json::json!(0));
    assert_eq!(serde_json::to_value(max).unwrap(), serde_json::json!(i32::MAX));
    let mut checked: u64 = 0;
    let mut count: u64 = 0;
    let mut violators: Vec<i64> = vec![];
    let mut values = serde_json::Map::new();
    let mut i = i32::MIN;
    loop {
        let d = DigestId::new(std::hint::black_box(i));
        checked += 1;
        if d < zero || d > max {
            count += 1;
            if violators.len() < 64 {
                violators.push(i as i64);
                values.insert(i.to_string(), serde_json::to_value(d).unwrap());
            }
        }
        if i == i32::MAX {
            break;
        }
        i += 1;
    }
    println!("{}", serde_json::json!({"checked": checked, "violator_count": count, "violators": violators, "values": values,
                                     "overflow_checks": cfg!(debug_assertions)}));
}
