//! C17 — COSE_Sign1 / COSE_Mac0 to-be-signed bytes, finalisation and verification vs Model/Cose.v
use crate::common::*;
use crate::runner::to_bytes;
use ciborium::Value;
use coset::{iana, CoseMac0Builder, CoseSign1Builder, Header, HeaderBuilder, RegisteredLabelWithPrivate};
use hmac::{Hmac, Mac};
use isomdl::cose::mac0::PreparedCoseMac0;
use isomdl::cose::sign1::PreparedCoseSign1;
use isomdl::cose::MaybeTagged;
use p256::ecdsa::{signature::Signer, signature::Verifier, Signature, SigningKey, VerifyingKey};
use rand::Rng;
use serde_json::json;
use sha2::Sha256;

#[derive(Clone, Debug)]
struct Hdr {
    name: &'static str,
    header: Header,
    bytes: Vec<u8>, // independent encoding of the protected bucket ([] for the empty header)
    alg: Option<i64>, // integer algorithm, if any
    alg_text: bool,
}

fn enc_map(entries: Vec<(i64, Value)>) -> Vec<u8> {
    to_bytes(&Value::Map(entries.into_iter().map(|(k, v)| (Value::Integer(k.into()), v)).collect()))
}

fn headers(kid: &[u8]) -> Vec<Hdr> {
    let mut v = vec![];
    v.push(Hdr { name: "empty", header: Header::default(), bytes: vec![], alg: None, alg_text: false });
    for (name, a, code) in [("es256", iana::Algorithm::ES256, -7i64), ("es384", iana::Algorithm::ES384, -35), ("hmac256", iana::Algorithm::HMAC_256_256, 5), ("eddsa", iana::Algorithm::EdDSA, -8)] {
        v.push(Hdr { name, header: HeaderBuilder::new().algorithm(a).build(), bytes: enc_map(vec![(1, Value::Integer(code.into()))]), alg: Some(code), alg_text: false });
    }
    v.push(Hdr {
        name: "es256+kid",
        header: HeaderBuilder::new().algorithm(iana::Algorithm::ES256).key_id(kid.to_vec()).build(),
        bytes: enc_map(vec![(1, Value::Integer((-7).into())), (4, Value::Bytes(kid.to_vec()))]),
        alg: Some(-7), alg_text: false,
    });
    v.push(Hdr {
        name: "hmac+kid",
        header: HeaderBuilder::new().algorithm(iana::Algorithm::HMAC_256_256).key_id(kid.to_vec()).build(),
        bytes: enc_map(vec![(1, Value::Integer(5.into())), (4, Value::Bytes(kid.to_vec()))]),
        alg: Some(5), alg_text: false,
    });
    v.push(Hdr { name: "kid-only", header: HeaderBuilder::new().key_id(kid.to_vec()).build(), bytes: enc_map(vec![(4, Value::Bytes(kid.to_vec()))]), alg: None, alg_text: false });
    let mut h = Header::default();
    h.alg = Some(RegisteredLabelWithPrivate::PrivateUse(-70000));
    v.push(Hdr { name: "private-alg", header: h, bytes: enc_map(vec![(1, Value::Integer((-70000).into()))]), alg: Some(-70000), alg_text: false });
    let mut h = Header::default();
    h.alg = Some(RegisteredLabelWithPrivate::Text("ES384".into()));
    v.push(Hdr { name: "text-alg", header: h, bytes: enc_map(vec![(1, Value::Text("ES384".into()))]), alg: None, alg_text: true });
    v
}

fn opt(v: &Option<Vec<u8>>) -> Value {
    match v { Some(b) => bytes(b), None => Value::Null }
}

/// the harness's own encoding of a COSE_Sign1 / COSE_Mac0 array
fn enc_cose(tag: Option<u64>, protected: &[u8], unprotected: &[(i64, Value)], payload: &Option<Vec<u8>>, sig: &[u8]) -> Vec<u8> {
    let body = Value::Array(vec![
        bytes(protected),
        Value::Map(unprotected.iter().map(|(k, v)| (Value::Integer((*k).into()), v.clone())).collect()),
        opt(payload),
        bytes(sig),
    ]);
    to_bytes(&match tag { Some(t) => Value::Tag(t, Box::new(body)), None => body })
}

fn rel(h: &Hdr, verifier_alg: i64) -> u64 {
    if h.alg_text { return 2; }
    match h.alg { None => 0, Some(a) if a == verifier_alg => 1, Some(_) => 2 }
}

pub fn run(ctx: &mut Ctx) {
    let n = ctx.budget(20, 500);
    for _ in 0..n {
        let key = SigningKey::random(&mut ctx.rng);
        let other = SigningKey::random(&mut ctx.rng);
        let vk = VerifyingKey::from(&key);
        let hkey: Vec<u8> = (0..32).map(|_| ctx.rng.gen()).collect();
        let hother: Vec<u8> = (0..32).map(|_| ctx.rng.gen()).collect();
        let kid: Vec<u8> = (0..ctx.rng.gen_range(1..12)).map(|_| ctx.rng.gen()).collect();
        let hs = headers(&kid);
        let plen = *[0usize, 1, 23, 24, 255, 256, 1000, 4096].get(ctx.rng.gen_range(0..8)).unwrap();
        let payload: Vec<u8> = (0..plen).map(|_| ctx.rng.gen()).collect();
        let aad_v: Vec<u8> = (0..ctx.rng.gen_range(0..40)).map(|_| ctx.rng.gen()).collect();
        for h in &hs {
            for mac in [false, true] {
                let attached = if ctx.rng.gen_bool(0.5) { Some(payload.clone()) } else { None };
                let detached = match ctx.rng.gen_range(0..10) { 0 => attached.clone().or(Some(vec![1])), 1 => None, _ => if attached.is_some() { None } else { Some(payload.clone()) } };
                let aad = if ctx.rng.gen_bool(0.5) { Some(aad_v.clone()) } else { None };
                let tagged = ctx.rng.gen_bool(0.5);
                let unprot: Vec<(i64, Value)> = if ctx.rng.gen_bool(0.5) { vec![(33, Value::Bytes(vec![0x30, 0x03, 1, 2, 3]))] } else { vec![] };
                let mut uh = Header::default();
                for (k, v) in &unprot { uh.rest.push((coset::Label::Int(*k), v.clone())); }
                let tag = if tagged { Some(if mac { 17 } else { 18 }) } else { None };
                let desc = json!({"mac": mac, "header": h.name, "attached": attached.as_ref().map(|p| p.len()), "detached": detached.as_ref().map(|p| p.len()), "aad": aad.as_ref().map(|a| a.len()), "tagged": tagged});
                // ---- prepare + finalize ----
                let (tbs, enc_signed): (Option<Vec<u8>>, Option<Vec<u8>>);
                let sig: Vec<u8>;
                let prep_obs;
                if !mac {
                    let mut b = CoseSign1Builder::new().protected(h.header.clone()).unprotected(uh.clone());
                    if let Some(p) = &attached { b = b.payload(p.clone()); }
                    // every third builder already carries a signature (a template copied from an earlier object): the one
                    // supplied to finalize is the one that counts
                    if ctx.evaluations % 3 == 0 { b = b.signature(vec![0x5a; 64]); ctx.count("prepare:builder-carries-a-signature"); }
                    match PreparedCoseSign1::new(b, detached.as_deref(), aad.as_deref(), tagged) {
                        Ok(p) => {
                            let t = p.signature_payload().to_vec();
                            let s: Signature = key.sign(&t);
                            sig = s.to_vec();
                            let fin = p.finalize(sig.clone());
                            let e = isomdl::cbor::to_vec(&fin).expect("encode sign1");
                            prep_obs = arr(vec![uint(0), bytes(&t), bytes(&e)]);
                            tbs = Some(t); enc_signed = Some(e);
                        }
                        Err(e) => { sig = vec![]; tbs = None; enc_signed = None;
                            prep_obs = arr(vec![uint(1), uint(match e { isomdl::cose::sign1::Error::DoublePayload => 1, isomdl::cose::sign1::Error::NoPayload => 2, _ => 9 })]); }
                    }
                } else {
                    let mut b = CoseMac0Builder::new().protected(h.header.clone()).unprotected(uh.clone());
                    if let Some(p) = &attached { b = b.payload(p.clone()); }
                    if ctx.evaluations % 3 == 0 { b = b.tag(vec![0x5a; 32]); ctx.count("prepare:builder-carries-a-tag"); }
                    match PreparedCoseMac0::new(b, detached.as_deref(), aad.as_deref(), tagged) {
                        Ok(p) => {
                            let t = p.signature_payload().to_vec();
                            let mut m = Hmac::<Sha256>::new_from_slice(&hkey).unwrap();
                            m.update(&t);
                            sig = m.finalize().into_bytes().to_vec();
                            let fin = p.finalize(sig.clone());
                            let e = isomdl::cbor::to_vec(&fin).expect("encode mac0");
                            prep_obs = arr(vec![uint(0), bytes(&t), bytes(&e)]);
                            tbs = Some(t); enc_signed = Some(e);
                        }
                        Err(e) => { sig = vec![]; tbs = None; enc_signed = None;
                            prep_obs = arr(vec![uint(1), uint(match e { isomdl::cose::mac0::Error::DoublePayload => 1, isomdl::cose::mac0::Error::NoPayload => 2, _ => 9 })]); }
                    }
                }
                let unsigned = enc_cose(tag, &h.bytes, &unprot, &attached, &[]);
                ctx.case("prepare", desc.clone(), prep_obs,
                    Some(("c17.prepare", vec![Value::Bool(mac), bytes(&unsigned), opt(&detached), opt(&aad), bytes(&sig)])), Some(("c17.spec_finalized", vec![bytes(&sig)])), true);
                if let Some(t) = &tbs {
                    let pl = attached.clone().or(detached.clone()).unwrap();
                    ctx.case("tbs_rfc", desc.clone(), bytes(t), None,
                        Some(("c17.spec_tbs", vec![Value::Bool(mac), bytes(&h.bytes), bytes(&aad.clone().unwrap_or_default()), bytes(&pl)])), true);
                }
                let Some(enc_signed) = enc_signed else { continue };
                // ---- verification matrix over single-field alterations ----
                let mut variants: Vec<(&str, Vec<u8>, Option<Vec<u8>>, Option<Vec<u8>>, bool)> = vec![];
                // (name, encoded cose, detached, aad, use_other_key)
                variants.push(("honest", enc_signed.clone(), detached.clone(), aad.clone(), false));
                variants.push(("other-key", enc_signed.clone(), detached.clone(), aad.clone(), true));
                let mut s2 = sig.clone(); let i = ctx.rng.gen_range(0..s2.len()); s2[i] ^= 1 << ctx.rng.gen_range(0..8);
                variants.push(("sig-flip", enc_cose(tag, &h.bytes, &unprot, &attached, &s2), detached.clone(), aad.clone(), false));
                variants.push(("sig-short", enc_cose(tag, &h.bytes, &unprot, &attached, &sig[..sig.len() - 1]), detached.clone(), aad.clone(), false));
                variants.push(("sig-zero", enc_cose(tag, &h.bytes, &unprot, &attached, &vec![0u8; sig.len()]), detached.clone(), aad.clone(), false));
                variants.push(("aad-changed", enc_signed.clone(), detached.clone(), Some([aad.clone().unwrap_or_default(), vec![7]].concat()), false));
                variants.push(("aad-dropped", enc_signed.clone(), detached.clone(), if aad.is_some() { None } else { Some(vec![]) }, false));
                if let Some(p) = &attached {
                    let mut p2 = p.clone(); p2.push(0);
                    variants.push(("payload-changed", enc_cose(tag, &h.bytes, &unprot, &Some(p2), &sig), detached.clone(), aad.clone(), false));
                    variants.push(("both-payloads", enc_signed.clone(), Some(p.clone()), aad.clone(), false));
                    variants.push(("payload-moved-to-detached", enc_cose(tag, &h.bytes, &unprot, &None, &sig), Some(p.clone()), aad.clone(), false));
                } else if let Some(d) = &detached {
                    let mut d2 = d.clone(); d2.push(0);
                    variants.push(("detached-changed", enc_signed.clone(), Some(d2), aad.clone(), false));
                    variants.push(("no-payload", enc_signed.clone(), None, aad.clone(), false));
                }
                for h2 in hs.iter().filter(|x| x.name != h.name).take(3) {
                    variants.push(("protected-replaced", enc_cose(tag, &h2.bytes, &unprot, &attached, &sig), detached.clone(), aad.clone(), false));
                }
                // the protected bucket as a third party may encode it (not the bytes coset's own encoder writes): the
                // signature is over the bytes AS SENT; a signature over their canonical re-encoding must fail
                if (h.name == "es256" && !mac) || (h.name == "hmac256" && mac) {
                    let foreigns: Vec<Vec<u8>> = if !mac {
                        vec![vec![0xa1, 0x01, 0x38, 0x06], vec![0xbf, 0x01, 0x26, 0xff], vec![0xa1, 0x18, 0x01, 0x26], vec![0xa2, 0x04, 0x41, 0x01, 0x01, 0x26], vec![0xb8, 0x01, 0x01, 0x26]]
                    } else {
                        vec![vec![0xa1, 0x01, 0x18, 0x05], vec![0xbf, 0x01, 0x05, 0xff], vec![0xa1, 0x18, 0x01, 0x05], vec![0xa2, 0x04, 0x41, 0x01, 0x01, 0x05]]
                    };
                    let pl = attached.clone().or(detached.clone()).unwrap_or_default();
                    for f in foreigns {
                        let t = to_bytes(&Value::Array(vec![text(if mac { "MAC0" } else { "Signature1" }), bytes(&f), bytes(&aad.clone().unwrap_or_default()), bytes(&pl)]));
                        let sf: Vec<u8> = if mac { let mut m = Hmac::<Sha256>::new_from_slice(&hkey).unwrap(); m.update(&t); m.finalize().into_bytes().to_vec() }
                                          else { let s: Signature = key.sign(&t); s.to_vec() };
                        variants.push(("protected-foreign-encoding", enc_cose(tag, &f, &unprot, &attached, &sf), detached.clone(), aad.clone(), false));
                        variants.push(("protected-foreign-encoding-signed-over-canonical", enc_cose(tag, &f, &unprot, &attached, &sig), detached.clone(), aad.clone(), false));
                    }
                }
                // HMAC 256/64 (alg 4): a correct 8-byte truncated tag over the MAC_structure that names alg 4 is still another
                // algorithm than the verifier's; and truncated tags under the right algorithm are not the tag
                if mac && h.name == "hmac256" {
                    let pl = attached.clone().or(detached.clone()).unwrap_or_default();
                    for (f, keep) in [(vec![0xa1u8, 0x01, 0x04], 8usize), (vec![0xa1, 0x01, 0x04], 32), (vec![0xa1, 0x01, 0x05], 8), (vec![0xa1, 0x01, 0x05], 16), (vec![0xa1, 0x01, 0x06], 32), (vec![0xa1, 0x01, 0x07], 32)] {
                        let t = to_bytes(&Value::Array(vec![text("MAC0"), bytes(&f), bytes(&aad.clone().unwrap_or_default()), bytes(&pl)]));
                        let mut m = Hmac::<Sha256>::new_from_slice(&hkey).unwrap(); m.update(&t);
                        let full = m.finalize().into_bytes().to_vec();
                        variants.push(("other-hmac-algorithm-or-truncated-tag", enc_cose(tag, &f, &unprot, &attached, &full[..keep]), detached.clone(), aad.clone(), false));
                    }
                }
                for (vname, enc, det, ad, otherkey) in variants {
                    let verifier_alg: i64 = if mac { 5 } else { -7 };
                    // which header is in this variant? (for the RFC relation) decode the protected bucket ourselves
                    let hv = crate::runner::from_bytes(&enc).map(|v| match v { Value::Tag(_, b) => *b, o => o });
                    let pbytes = hv.as_ref().and_then(|v| v.as_array()).and_then(|a| a[0].as_bytes().cloned()).unwrap_or_default();
                    let hrel = hs.iter().find(|x| x.bytes == pbytes).map(|x| rel(x, verifier_alg)).unwrap_or_else(|| {
                        // a bucket that is none of the table's: read label 1 with an independent decoder
                        match crate::runner::from_bytes(&pbytes) {
                            Some(Value::Map(m)) => match m.iter().find(|(k, _)| k.as_integer().map(i128::from) == Some(1)).map(|(_, v)| v.clone()) {
                                None => 0,
                                Some(Value::Integer(a)) if i128::from(a) == verifier_alg as i128 => 1,
                                Some(_) => 2,
                            },
                            _ => 9,
                        }
                    });
                    let att = hv.as_ref().and_then(|v| v.as_array()).and_then(|a| a[2].as_bytes().cloned());
                    let sgb = hv.as_ref().and_then(|v| v.as_array()).and_then(|a| a[3].as_bytes().cloned()).unwrap_or_default();
                    let model_tbs = ctx.runner.query("c17.tbs", vec![Value::Bool(mac), bytes(&enc), opt(&det), opt(&ad)]);
                    let d2 = json!({"base": desc, "variant": vname});
                    if !mac {
                        let k = if otherkey { VerifyingKey::from(&other) } else { vk };
                        let parsed = Signature::try_from(sgb.as_slice()).ok();
                        let authentic = match (&model_tbs, &parsed) { (Value::Bytes(t), Some(s)) => k.verify(t, s).is_ok(), _ => false };
                        let obs = match isomdl::cbor::from_slice::<MaybeTagged<coset::CoseSign1>>(&enc) {
                            Ok(c) => {
                                let r = catch(|| c.verify::<VerifyingKey, Signature>(&k, det.as_deref(), ad.as_deref()));
                                match r {
                                    Ok(isomdl::cose::sign1::VerificationResult::Success) => uint(0),
                                    Ok(isomdl::cose::sign1::VerificationResult::Failure(m)) => uint(if m.contains("algorithm") { 1 } else { 2 }),
                                    Ok(isomdl::cose::sign1::VerificationResult::Error(e)) => uint(match e {
                                        isomdl::cose::sign1::Error::NoPayload => 3, isomdl::cose::sign1::Error::DoublePayload => 4,
                                        isomdl::cose::sign1::Error::MalformedSignature(_) => 5, _ => 8 }),
                                    Err(_) => uint(7),
                                }
                            }
                            Err(_) => uint(9),
                        };
                        ctx.case("verify_sign1", d2, obs,
                            Some(("c17.verify", vec![Value::Bool(false), bytes(&enc), opt(&det), opt(&ad), Value::Integer(verifier_alg.into()), arr(vec![Value::Bool(parsed.is_some()), Value::Bool(authentic)])])),
                            Some(("c17.spec_verify", vec![arr(vec![opt(&att), opt(&det), uint(hrel), Value::Bool(authentic), Value::Bool(parsed.is_some())])])), true);
                    } else {
                        let kbytes = if otherkey { &hother } else { &hkey };
                        let authentic = match &model_tbs { Value::Bytes(t) => { let mut m = Hmac::<Sha256>::new_from_slice(kbytes).unwrap(); m.update(t); m.verify_slice(&sgb).is_ok() } _ => false };
                        let obs = match isomdl::cbor::from_slice::<MaybeTagged<coset::CoseMac0>>(&enc) {
                            Ok(c) => {
                                // every other case: the key object handed in has absorbed other data before (an instance the
                                // caller used for an earlier message): the tag is over the MAC_structure alone
                                let mut verifier = Hmac::<Sha256>::new_from_slice(kbytes).unwrap();
                                if ctx.evaluations % 2 == 1 { verifier.update(b"an earlier message of this key's owner"); ctx.count("mac0:verifier-used-before"); }
                                let r = catch(|| c.verify(&verifier, det.as_deref(), ad.as_deref()));
                                match r {
                                    Ok(isomdl::cose::mac0::VerificationResult::Success) => uint(0),
                                    Ok(isomdl::cose::mac0::VerificationResult::Failure(m)) => uint(if m.contains("algorithm") { 1 } else { 2 }),
                                    Ok(isomdl::cose::mac0::VerificationResult::Error(e)) => uint(match e {
                                        isomdl::cose::mac0::Error::NoPayload => 3, isomdl::cose::mac0::Error::DoublePayload => 4, _ => 8 }),
                                    Err(_) => uint(7),
                                }
                            }
                            Err(_) => uint(9),
                        };
                        ctx.case("verify_mac0", d2, obs,
                            Some(("c17.verify", vec![Value::Bool(true), bytes(&enc), opt(&det), opt(&ad), Value::Integer(verifier_alg.into()), bytes(kbytes)])),
                            Some(("c17.spec_verify", vec![arr(vec![opt(&att), opt(&det), uint(hrel), Value::Bool(authentic), Value::Bool(true)])])), true);
                    }
                }
            }
        }
    }
}
