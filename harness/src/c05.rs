//! C05 — device authentication bound to the issued key, this session and this document
use crate::common::*;
use crate::pki::Pki;
use crate::rauth::*;
use crate::sess::*;
use isomdl::definitions::DigestAlgorithm;
use p256::ecdsa::SigningKey;
use rand::Rng;
use serde_json::json;

pub fn run(ctx: &mut Ctx) {
    let scenes = ctx.budget(3, 60);
    for _ in 0..scenes {
        let mut rng = ctx.rng.clone();
        // two sessions over the SAME issued document
        let pki = Pki::generate(&mut rng);
        let other_pki = Pki::generate(&mut rng);
        let alg = [DigestAlgorithm::SHA256, DigestAlgorithm::SHA384, DigestAlgorithm::SHA512][rng.gen_range(0..3)];
        let device_key = SigningKey::random(&mut rng);
        let mdoc = issue_with_key(&pki, MDL, new_namespaces(&mut rng), alg, false, cose_key_of(&device_key));
        let Some(a) = scene_from(clone_pki(&pki), clone_pki(&other_pki), mdoc.clone(), device_key.clone(), alg) else { ctx.rng = rng; continue };
        let Some(b) = scene_from(pki, other_pki, mdoc, device_key, alg) else { ctx.rng = rng; continue };
        let reg = iaca_registry(&a.pki);
        for alt in &c05_alts(&mut rng, ctx.thorough) {
            let mut pt = a.plaintext.clone();
            apply(alt, &a, &mut pt, &mut rng);
            deliver(ctx, "device_auth", "c05.spec", &a, &a.rdr, &reg, "right-root", alt, &pt, None);
        }
        // another document type's authentic issuer-signed part under the mDL docType, device-signed for ITS docType
        // (the one in its MSO) and, separately, for the mDL docType
        for dt in ["org.example.other", MDL] {
            let pt = other_document_as_mdl(&a, &mut rng, dt);
            deliver(ctx, "relabelled_document", "c05.spec", &a, &a.rdr, &reg, "right-root", &Alt::None, &pt, None);
        }
        // someone else's mDL (same issuer, another device key) device-signed by this holder: in a fresh session and as
        // the SECOND response of a session whose first response was this holder's authentic one
        let pt = other_persons_mdl(&a, &mut rng);
        deliver(ctx, "other_persons_document", "c05.spec", &a, &a.rdr, &reg, "right-root", &Alt::None, &pt, None);
        if let Some(warm) = warmed_reader(&a, &a.rdr) {
            deliver(ctx, "other_persons_document_round2", "c05.spec", &a, &warm, &reg, "right-root", &Alt::None, &pt, None);
            for alt in [Alt::DevSigOtherKey, Alt::DevAttached(1), Alt::DevDocTypeOther, Alt::DevSigShape(4)] {
                let mut pt = a.plaintext.clone();
                apply(&alt, &a, &mut pt, &mut rng);
                deliver(ctx, "device_auth_round2", "c05.spec", &a, &warm, &reg, "right-root", &alt, &pt, None);
            }
        } else { ctx.count("round2:not-reached"); }
        // cross-session replay: session A's authentic response, re-encrypted for session B's reader
        deliver(ctx, "cross_session", "c05.spec", &b, &b.rdr, &reg, "right-root", &Alt::None, &a.plaintext, None);
        deliver(ctx, "cross_session", "c05.spec", &a, &a.rdr, &reg, "right-root", &Alt::None, &b.plaintext, None);
        ctx.rng = rng;
    }
    // the bytes the device hands to the holder's key, against the independent COSE / CBOR encoders of the model
    for i in 0..ctx.budget(6, 200) {
        let mut rng = ctx.rng.clone();
        let pki = Pki::generate(&mut rng);
        let mut mdocs = vec![];
        for dt in [MDL, "org.example.doc2", "org.example.doc-with-a-longer-name-3"].iter().take(1 + (i as usize % 3)) {
            let nsm = new_namespaces(&mut rng);
            let (m, _) = issue(&mut rng, &pki, dt, nsm, DigestAlgorithm::SHA256, false);
            mdocs.push(m);
        }
        let types: Vec<String> = mdocs.iter().map(|m| m.doc_type.clone()).collect();
        let first: std::collections::BTreeMap<String, Vec<String>> = [(NS.to_string(), vec!["family_name".to_string()])].into_iter().collect();
        let Ok(e) = establish(documents_of(mdocs), None, &first, Default::default(), Default::default()) else { ctx.rng = rng; continue };
        let de_bytes = base64::decode_config(e.qr.strip_prefix("mdoc:").unwrap(), base64::Config::new(base64::CharacterSet::UrlSafe, false)).unwrap();
        let est = crate::runner::from_bytes(&e.establishment).unwrap();
        let erk_bytes = match map_get(&est, "eReaderKey") { Some(ciborium::Value::Tag(24, b)) => b.as_bytes().unwrap().clone(), _ => vec![] };
        let mut dev = e.dev;
        let items: isomdl::presentation::device::RequestedItems = types.iter().map(|t| isomdl::definitions::device_request::ItemsRequest {
            doc_type: t.clone(), namespaces: namespaces_of(&first), request_info: None }).collect();
        let permitted: isomdl::presentation::device::PermittedItems = types.iter().map(|t| (t.clone(), first.clone().into_iter().collect())).collect();
        isomdl::presentation::device::SessionManager::prepare_response(&mut dev, &items, permitted);
        let mut guard = 0;
        while let Some((_, payload)) = dev.get_next_signature_payload().map(|(u, p)| (u, p.to_vec())) {
            let dt = crate::trace::doc_type_of_payload(&payload).unwrap_or_default();
            let prot = vec![0xa1u8, 0x01, 0x26]; // {1: -7}
            let args = vec![bytes(&prot), bytes(&de_bytes), bytes(&erk_bytes), ciborium::Value::Null, text(&dt), bytes(&[0xa0])];
            ctx.case("device_payload", json!({"doc_type": dt, "held": types.len()}), bytes(&payload),
                Some(("c05.device_payload", args.clone())), Some(("c05.spec_payload", args)), true);
            dev.submit_next_signature(vec![0; 64]).ok();
            guard += 1;
            if guard > 5 { break; }
        }
        ctx.rng = rng;
    }
    // the same with an engagement (a BLE address of the device's choosing) tuned so that DeviceAuthenticationBytes is EXACTLY
    // 65 536, 65 535, 65 537, 256 bytes long: the sizes at which the byte-string heads inside the Sig_structure change width
    for target in [65_536usize, 65_535, 65_537, 256] {
        use isomdl::definitions::device_engagement::{BleOptions, DeviceRetrievalMethod, PeripheralServerMode};
        use isomdl::definitions::helpers::NonEmptyVec;
        let mut rng = ctx.rng.clone();
        let pki = Pki::generate(&mut rng);
        let nsm = new_namespaces(&mut rng);
        let (m, _) = issue(&mut rng, &pki, MDL, nsm, DigestAlgorithm::SHA256, false);
        ctx.rng = rng;
        let first: std::collections::BTreeMap<String, Vec<String>> = [(NS.to_string(), vec!["family_name".to_string()])].into_iter().collect();
        let mut addr_len = if target > 1000 { 65_000usize } else { 10 };
        for pass in 0..3 {
            let drms = Some(NonEmptyVec::new(DeviceRetrievalMethod::BLE(BleOptions { peripheral_server_mode: Some(PeripheralServerMode { uuid: uuid::Uuid::from_bytes([7; 16]), ble_device_address: Some(vec![0x42; addr_len].into()) }), central_client_mode: None })));
            let Ok(e) = establish(documents_of(vec![m.clone()]), drms, &first, Default::default(), Default::default()) else { break };
            let de_bytes = base64::decode_config(e.qr.strip_prefix("mdoc:").unwrap(), base64::Config::new(base64::CharacterSet::UrlSafe, false)).unwrap();
            let est = crate::runner::from_bytes(&e.establishment).unwrap();
            let erk_bytes = match map_get(&est, "eReaderKey") { Some(ciborium::Value::Tag(24, b)) => b.as_bytes().unwrap().clone(), _ => vec![] };
            let mut dev = e.dev;
            let items: isomdl::presentation::device::RequestedItems = vec![isomdl::definitions::device_request::ItemsRequest { doc_type: MDL.to_string(), namespaces: namespaces_of(&first), request_info: None }];
            let permitted: isomdl::presentation::device::PermittedItems = [(MDL.to_string(), first.clone().into_iter().collect())].into_iter().collect();
            isomdl::presentation::device::SessionManager::prepare_response(&mut dev, &items, permitted);
            let Some((_, payload)) = dev.get_next_signature_payload().map(|(u, p)| (u, p.to_vec())) else { break };
            let dab_len = crate::runner::from_bytes(&payload).and_then(|v| v.as_array().and_then(|a| a.get(3).and_then(|x| x.as_bytes().map(|b| b.len())))).unwrap_or(0);
            if dab_len != target && pass < 2 && dab_len > 0 { addr_len = (addr_len + target).saturating_sub(dab_len); continue; }
            ctx.count(&format!("device_payload:device-authentication-bytes:{dab_len}"));
            let prot = vec![0xa1u8, 0x01, 0x26];
            let args = vec![bytes(&prot), bytes(&de_bytes), bytes(&erk_bytes), ciborium::Value::Null, text(MDL), bytes(&[0xa0])];
            ctx.case("device_payload_tuned", json!({"device_authentication_bytes": dab_len, "target": target}), bytes(&payload),
                Some(("c05.device_payload", args.clone())), Some(("c05.spec_payload", args)), true);
            break;
        }
    }
    // issued device keys with a coordinate that begins with a zero octet (00 8x.., 00 0x.. in x, in y): honest responses
    for shape in 0..4u8 {
        let mut rng = ctx.rng.clone();
        let key = ground_key(&mut rng, shape);
        match scene_with_signing_key(&mut rng, key) {
            Some(sc) => {
                let reg = iaca_registry(&sc.pki);
                deliver(ctx, &format!("device_key_leading_zero:{shape}"), "c05.spec", &sc, &sc.rdr, &reg, "right-root", &Alt::None, &sc.plaintext, None);
                let mut pt = sc.plaintext.clone();
                apply(&Alt::DevSigOtherKey, &sc, &mut pt, &mut rng);
                deliver(ctx, &format!("device_key_leading_zero:{shape}"), "c05.spec", &sc, &sc.rdr, &reg, "right-root", &Alt::DevSigOtherKey, &pt, None);
            }
            None => ctx.case(&format!("device_key_leading_zero:{shape}:no-response"), json!({}), ciborium::Value::Null, None, None, false),
        }
        ctx.rng = rng;
    }
    // MSO device keys the reader cannot use: must be reported, never a panic
    for (name, key) in weird_device_keys() {
        let mut rng = ctx.rng.clone();
        match scene_with_key(&mut rng, Some(key)) {
            Some(sc) => {
                let reg = iaca_registry(&sc.pki);
                deliver(ctx, &format!("device_key:{name}"), "c05.spec", &sc, &sc.rdr, &reg, "right-root", &Alt::None, &sc.plaintext, None);
            }
            None => ctx.case(&format!("device_key:{name}:no-response"), json!({}), ciborium::Value::Null, None, None, false),
        }
        ctx.rng = rng;
    }
}
