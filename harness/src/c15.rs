//! C15 — untrusted input never panics: structure-aware mutation of valid engagements,
//! establishments, requests, responses, MSOs and stored states (hostile contents correctly
//! encrypted by the harness so that they reach the inner decoders), plus raw random bytes,
//! under catch_unwind with a per-call wall-clock measurement.
use crate::common::*;
use crate::mutate::*;
use crate::rauth;
use crate::runner::{from_bytes, to_bytes};
use crate::sess::*;
use ciborium::Value;
use isomdl::definitions::helpers::Tag24;
use isomdl::definitions::device_request::DeviceRequest;
use isomdl::definitions::{DeviceEngagement, DeviceResponse, IssuerSigned, Mso, SessionData, SessionEstablishment, ValidityInfo, CoseKey};
use isomdl::presentation::{device, reader, Stringify};
use rand::rngs::StdRng;
use rand::Rng;
use serde_json::json;
use std::time::Instant;

fn attempt(ctx: &mut Ctx, entry: &str, input_hex: String, f: impl FnOnce() -> &'static str) {
    let t0 = Instant::now();
    let r = catch(f);
    let ms = t0.elapsed().as_millis();
    let obs = match &r {
        Ok(_) if ms > 5000 => arr(vec![uint(2), text("slow"), uint(ms as u64)]),
        Ok(_) => uint(0),
        Err(p) => arr(vec![uint(1), text(p)]),
    };
    ctx.count(&format!("entry:{entry}:{}", match &r { Ok(s) => s, Err(_) => "PANIC" }));
    let shown = if input_hex.len() > 4000 { format!("{}…({} hex chars)", &input_hex[..4000], input_hex.len()) } else { input_hex };
    ctx.case(entry, json!({"input_hex": shown}), obs, None, Some(("c15.spec", vec![text(entry)])), true);
}

fn decode_then_encode<T: serde::de::DeserializeOwned + serde::Serialize>(b: &[u8]) -> &'static str {
    match isomdl::cbor::from_slice::<T>(b) {
        Ok(v) => match isomdl::cbor::to_vec(&v) { Ok(_) => "decoded+encoded", Err(_) => "decoded,encode-error" },
        Err(_) => "rejected",
    }
}

pub fn run(ctx: &mut Ctx) {
    // (S3) authentic, correctly encrypted responses whose MSO carries a device key the reader cannot use as a P-256
    // point: other curves with THEIR coordinate sizes, wrong lengths, compressed form, OKP
    {
        use isomdl::definitions::device_key::cose_key::{EC2Curve, EC2Y, OKPCurve};
        let mut keys = rauth::weird_device_keys();
        for (crv, n) in [(EC2Curve::P256, 48usize), (EC2Curve::P384, 32), (EC2Curve::P384, 66), (EC2Curve::P521, 48), (EC2Curve::P256K, 32), (EC2Curve::P256K, 33)] {
            keys.push(("curve-by-length", CoseKey::EC2 { crv: crv.clone(), x: vec![3; n], y: EC2Y::Value(vec![4; n]) }));
            keys.push(("curve-by-length-signbit", CoseKey::EC2 { crv, x: vec![3; n], y: EC2Y::SignBit(false) }));
        }
        keys.push(("x448", CoseKey::OKP { crv: OKPCurve::X448, x: vec![9; 56] }));
        for (name, key) in keys {
            let mut rng: StdRng = ctx.rng.clone();
            let kc = format!("{key:?}");
            match rauth::scene_with_key(&mut rng, Some(key)) {
                Some(sc) => {
                    let mut rdr = sc.rdr.clone();
                    let rk = rdr_view(&rdr);
                    let msg = session_data(Some(&aes_encrypt(&rk.sk_device, &iso_iv(true, rk.device_ctr as u32 + 1), &to_bytes(&sc.plaintext))), None);
                    attempt(ctx, &format!("handle_response(mso device key {name})"), hex::encode(kc.as_bytes()), move || { let o = rdr.handle_response(&msg); if o.errors.is_empty() { "handled" } else { "errors" } });
                }
                None => ctx.count("mso-device-key:no-response"),
            }
            ctx.rng = rng;
        }
    }
    // (S4) peer-supplied certificates with boundary validity dates (1970-01-01T00:00:00Z and the seconds after it,
    // 2038, 2049/2050, 9999-12-31T23:59:59Z, notAfter before notBefore): in an issuerAuth x5chain handed to the reader
    // and in a readerAuth x5chain handed to the device; trusted and untrusted registries
    {
        let mut rng: StdRng = ctx.rng.clone();
        if let Some(sc) = rauth::scene_with_key(&mut rng, None) {
            let secs: [u64; 14] = [0, 1, 59, 299, 300, 301, 86_399, 2_147_483_647, 2_147_483_648, 2_524_607_999, 2_524_608_000, 4_102_444_800, 253_402_300_798, 253_402_300_799];
            let mut certs: Vec<(String, Vec<u8>, Vec<u8>)> = vec![];
            for (i, nb) in secs.iter().enumerate() {
                for na in [secs[(i + 1) % secs.len()], 253_402_300_799, 0] {
                    let k = p256::ecdsa::SigningKey::random(&mut rng);
                    let ds = crate::pki::leaf_cert_valid(&k, &sc.pki.iaca_key, "CN=Test IACA,C=US", "CN=Test DS,C=US", crate::pki::EKU_DS, 50 + i as u64, *nb, na);
                    let rd = crate::pki::leaf_cert_valid(&k, &sc.pki.reader_ca_key, "CN=Test Reader CA,C=US", "CN=Test Reader,C=US", crate::pki::EKU_READER, 70 + i as u64, *nb, na);
                    if let (Some(ds), Some(rd)) = (ds, rd) { certs.push((format!("notBefore={nb} notAfter={na}"), der::Encode::to_der(&ds).unwrap(), der::Encode::to_der(&rd).unwrap())); }
                }
            }
            // … and with key identifiers of every length but the usual one (a SHA-1 value has 20 octets)
            for len in [0usize, 1, 8, 19, 21, 32, 64, 200] {
                for which in 0..2 {
                    let k = p256::ecdsa::SigningKey::random(&mut rng);
                    let own = crate::pki::ski_of(&k).as_bytes().to_vec();
                    let odd: Vec<u8> = own.iter().cycle().take(len).cloned().collect();
                    let (ski, aki_ds, aki_rd) = if which == 0 { (Some(odd.clone()), Some(crate::pki::ski_of(&sc.pki.iaca_key).as_bytes().to_vec()), Some(crate::pki::ski_of(&sc.pki.reader_ca_key).as_bytes().to_vec())) }
                                               else { (Some(own.clone()), Some(odd.clone()), Some(odd.clone())) };
                    let ds = crate::pki::leaf_cert_with_ids(&k, &sc.pki.iaca_key, "CN=Test IACA,C=US", "CN=Test DS,C=US", crate::pki::EKU_DS, 150 + len as u64, ski.clone(), aki_ds);
                    let rd = crate::pki::leaf_cert_with_ids(&k, &sc.pki.reader_ca_key, "CN=Test Reader CA,C=US", "CN=Test Reader,C=US", crate::pki::EKU_READER, 170 + len as u64, ski, aki_rd);
                    if let (Some(ds), Some(rd)) = (ds, rd) { certs.push((format!("{} of {len} octets", if which == 0 { "subjectKeyIdentifier" } else { "authorityKeyIdentifier" }), der::Encode::to_der(&ds).unwrap(), der::Encode::to_der(&rd).unwrap())); }
                }
            }
            let first: std::collections::BTreeMap<String, Vec<String>> = [(NS.to_string(), vec!["family_name".to_string()])].into_iter().collect();
            let dev_regs = [isomdl::definitions::x509::trust_anchor::TrustAnchorRegistry::default(), registry(vec![(sc.pki.reader_ca.clone(), isomdl::definitions::x509::trust_anchor::TrustPurpose::ReaderCa)])];
            for (name, ds_der, rd_der) in certs {
                // reader side
                let mut pt = sc.plaintext.clone();
                if let Some(Value::Array(docs)) = rauth::map_get_mut(&mut pt, "documents") {
                    if let Some(Value::Array(ia)) = rauth::map_get_mut(&mut docs[0], "issuerSigned").and_then(|i| rauth::map_get_mut(i, "issuerAuth")) {
                        ia[1] = Value::Map(vec![(Value::Integer(33.into()), bytes(&ds_der))]);
                    }
                }
                let mut rdr = sc.rdr.clone();
                let rk = rdr_view(&rdr);
                let msg = session_data(Some(&aes_encrypt(&rk.sk_device, &iso_iv(true, rk.device_ctr as u32 + 1), &to_bytes(&pt))), None);
                attempt(ctx, "handle_response(certificate dates)", hex::encode(name.as_bytes()), move || { let o = rdr.handle_response(&msg); if o.errors.is_empty() { "handled" } else { "errors" } });
                // device side: a fresh device session per registry, request with a readerAuth carrying the certificate
                for reg in dev_regs.iter() {
                    let (m, _) = issue(&mut rng, &sc.pki, MDL, [(NS.to_string(), [("family_name".to_string(), Value::Text("Doe".into()))].into_iter().collect())].into_iter().collect(), isomdl::definitions::DigestAlgorithm::SHA256, false);
                    let Ok(e) = establish(documents_of(vec![m]), None, &first, Default::default(), reg.clone()) else { continue };
                    let request = Value::Map(vec![(text("version"), text("1.0")), (text("docRequests"), arr(vec![Value::Map(vec![
                        (text("itemsRequest"), Value::Tag(24, Box::new(bytes(&to_bytes(&Value::Map(vec![(text("docType"), text(MDL)), (text("nameSpaces"), Value::Map(vec![(text(NS), Value::Map(vec![(text("family_name"), Value::Bool(false))]))]))])))))),
                        (text("readerAuth"), arr(vec![bytes(&[0xa1, 0x01, 0x26]), Value::Map(vec![(Value::Integer(33.into()), bytes(&rd_der))]), Value::Null, bytes(&[7; 64])])),
                    ])]))]);
                    let mut dev = e.dev;
                    let (k, _) = dev_view(&dev);
                    let msg = session_data(Some(&aes_encrypt(&k.sk_reader, &iso_iv(false, k.reader_ctr as u32 + 1), &to_bytes(&request))), None);
                    attempt(ctx, "handle_request(certificate dates)", hex::encode(name.as_bytes()), move || { let o = dev.handle_request(&msg); if o.errors.is_empty() { "handled" } else { "errors" } });
                }
            }
        }
        ctx.rng = rng;
    }
    // (S6) stored sessions and configured registries whose trust-anchor PEM TEXT is not one clean certificate: markers in
    // the wrong order, missing, doubled, text around them, two certificates, CRLF, non-ASCII, a cut body
    {
        use isomdl::definitions::x509::trust_anchor::{PemTrustAnchor, TrustAnchorRegistry, TrustPurpose};
        let mut rng: StdRng = ctx.rng.clone();
        let pki = crate::pki::Pki::generate(&mut rng);
        let (m, _) = issue(&mut rng, &pki, MDL, [(NS.to_string(), [("family_name".to_string(), Value::Text("Doe".into()))].into_iter().collect())].into_iter().collect(), isomdl::definitions::DigestAlgorithm::SHA256, false);
        let first: std::collections::BTreeMap<String, Vec<String>> = [(NS.to_string(), vec!["family_name".to_string()])].into_iter().collect();
        let reg = registry(vec![(pki.iaca.clone(), TrustPurpose::Iaca), (pki.reader_ca.clone(), TrustPurpose::ReaderCa)]);
        if let Ok(e) = establish(documents_of(vec![m]), None, &first, reg.clone(), reg) {
            let (dev_s, rdr_s) = (e.dev.stringify().unwrap(), e.rdr.stringify().unwrap());
            const B: &str = "-----BEGIN CERTIFICATE-----";
            const E: &str = "-----END CERTIFICATE-----";
            let variants = |p: &str| -> Vec<(&'static str, String)> {
                let body: String = p.lines().filter(|l| !l.starts_with("-----")).collect::<Vec<_>>().join("\n");
                vec![
                    ("end-line-first", format!("{E}\n{p}")), ("end-before-begin", format!("{E}\n{body}\n{B}\n")), ("two-certificates", format!("{p}{p}")), ("text-before", format!("subject=CN=x\n{p}")),
                    ("text-after", format!("{p}trailing text\n")), ("no-end", format!("{B}\n{body}\n")), ("no-begin", format!("{body}\n{E}\n")), ("only-begin", B.to_string()), ("only-end", E.to_string()),
                    ("empty", String::new()), ("crlf", p.replace('\n', "\r\n")), ("non-ascii-before", format!("é{p}")), ("non-ascii-inside", format!("{B}\né{body}\n{E}\n")),
                    ("body-cut", format!("{B}\n{}\n{E}\n", &body[..body.len() / 2])), ("begin-twice", format!("{B}\n{p}")), ("end-twice", format!("{p}{E}\n")), ("markers-adjacent", format!("{B}{E}")),
                    ("other-label", p.replace("CERTIFICATE", "PUBLIC KEY")), ("lower-case-markers", p.replace("BEGIN", "begin").replace("END", "end")),
                ]
            };
            fn rewrite(v: &mut Value, f: &dyn Fn(&str) -> String) {
                match v {
                    Value::Text(t) if t.contains("-----BEGIN CERTIFICATE-----") => { *t = f(t); }
                    Value::Array(a) => for x in a { rewrite(x, f) },
                    Value::Map(m) => for (_, x) in m { rewrite(x, f) },
                    Value::Tag(_, b) => rewrite(b, f),
                    _ => {}
                }
            }
            let pem = { use der::EncodePem; pki.iaca.to_pem(Default::default()).unwrap_or_default() };
            for (name, _) in variants(&pem) {
                for (which, st) in [("device", &dev_s), ("reader", &rdr_s)] {
                    let mut v = state_value(st);
                    rewrite(&mut v, &|p| variants(p).into_iter().find(|(n, _)| *n == name).map(|(_, t)| t).unwrap_or_default());
                    let enc = base64::encode(to_bytes(&v));
                    let f2 = first.clone();
                    attempt(ctx, &format!("stored:{which}(trust anchor PEM text)"), hex::encode(name.as_bytes()), move || if which == "device" {
                        match device::SessionManager::parse(enc) { Ok(mut x) => { let _ = x.handle_request(&[0xa0]); let _ = x.stringify(); "restored+used" } Err(_) => "rejected" }
                    } else {
                        match reader::SessionManager::parse(enc) { Ok(mut x) => { let _ = x.new_request(namespaces_of(&f2)); let _ = x.stringify(); "restored+used" } Err(_) => "rejected" }
                    });
                }
            }
            for (name, text_) in variants(&pem) {
                attempt(ctx, "TrustAnchorRegistry::from_pem_certificates", hex::encode(name.as_bytes()), move || {
                    match TrustAnchorRegistry::from_pem_certificates(vec![PemTrustAnchor { certificate_pem: text_, purpose: TrustPurpose::Iaca }]) { Ok(_) => "built", Err(_) => "rejected" } });
            }
        }
        ctx.rng = rng;
    }
    // (S5) element values at the numeric extremes of CBOR (the reader renders every disclosed value): integers around
    // i64::MIN / u64::MAX / -2^64, floats, deep nesting; correctly encrypted, in the core and the AAMVA namespace
    {
        let mut rng: StdRng = ctx.rng.clone();
        if let Some(sc) = rauth::scene_with_key(&mut rng, None) {
            let ints: [i128; 9] = [i64::MIN as i128, i64::MIN as i128 - 1, -(1i128 << 64), -(1i128 << 64) + 1, i64::MAX as i128, i64::MAX as i128 + 1, u64::MAX as i128, -1, 0];
            let mut vals: Vec<(String, Value)> = ints.iter().filter_map(|i| ciborium::value::Integer::try_from(*i).ok().map(|x| (format!("int {i}"), Value::Integer(x)))).collect();
            vals.push(("array of extreme ints".into(), arr(vec![Value::Integer(ciborium::value::Integer::try_from(-(1i128 << 64)).unwrap()), Value::Integer(u64::MAX.into())])));
            vals.push(("map with extreme int".into(), Value::Map(vec![(text("k"), Value::Integer(ciborium::value::Integer::try_from(i64::MIN as i128 - 1).unwrap()))])));
            vals.push(("float nan".into(), Value::Float(f64::NAN)));
            vals.push(("float inf".into(), Value::Float(f64::INFINITY)));
            vals.push(("tagged extreme int".into(), Value::Tag(2, Box::new(Value::Bytes(vec![0xff; 40])))));
            for (name, v) in vals {
                for ns_i in 0..2usize {
                    let mut pt = sc.plaintext.clone();
                    let v2 = v.clone();
                    // edit the first item of the namespace through its decoded map
                    if let Some(Value::Array(docs)) = rauth::map_get_mut(&mut pt, "documents") {
                        if let Some(Value::Map(nss)) = rauth::map_get_mut(&mut docs[0], "issuerSigned").and_then(|i| rauth::map_get_mut(i, "nameSpaces")) {
                            let n = nss.len();
                            if let Value::Array(items) = &mut nss[ns_i % n].1 {
                                if let Some(Value::Tag(24, b)) = items.first_mut() {
                                    if let Value::Bytes(inner) = b.as_mut() {
                                        if let Some(Value::Map(mut m)) = from_bytes(inner) {
                                            for (k, x) in m.iter_mut() { if k.as_text() == Some("elementValue") { *x = v2.clone(); } }
                                            *inner = to_bytes(&Value::Map(m));
                                        }
                                    }
                                }
                            }
                        }
                    }
                    let mut rdr = sc.rdr.clone();
                    let rk = rdr_view(&rdr);
                    let msg = session_data(Some(&aes_encrypt(&rk.sk_device, &iso_iv(true, rk.device_ctr as u32 + 1), &to_bytes(&pt))), None);
                    attempt(ctx, "handle_response(extreme element value)", hex::encode(format!("{name} in namespace {ns_i}").as_bytes()), move || { let o = rdr.handle_response(&msg); if o.errors.is_empty() { "handled" } else { "errors" } });
                }
            }
        }
        ctx.rng = rng;
    }
    let per_scene = ctx.budget(2400, 60000);
    let scenes = ctx.budget(3, 40);
    for _ in 0..scenes {
        let mut rng: StdRng = ctx.rng.clone();
        let Some(sc) = rauth::scene_with_key(&mut rng, None) else { ctx.rng = rng; continue };
        // base values
        let de_v = from_bytes(&sc.de_bytes).unwrap();
        let response_v = sc.plaintext.clone();
        let mso_bytes = rauth_mso_bytes(&response_v);
        let issuer_signed_v = map_get(&map_get(&response_v, "documents").unwrap().as_array().unwrap()[0], "issuerSigned").unwrap().clone();
        // a second, engaged-only device for establishment fuzzing and stored states
        let pki = crate::pki::Pki::generate(&mut rng);
        let (m, _) = issue(&mut rng, &pki, MDL, [(NS.to_string(), [("family_name".to_string(), Value::Text("Doe".into()))].into_iter().collect())].into_iter().collect(), isomdl::definitions::DigestAlgorithm::SHA256, false);
        let init = device::SessionManagerInit::initialise(documents_of(vec![m.clone()]), None, None).unwrap();
        let init_s = init.stringify().unwrap();
        let (engaged, qr) = init.qr_engagement().unwrap();
        let engaged_s = engaged.stringify().unwrap();
        let first: std::collections::BTreeMap<String, Vec<String>> = [(NS.to_string(), vec!["family_name".to_string()])].into_iter().collect();
        let (rdr0, est_bytes, _) = reader::SessionManager::establish_session(qr.clone(), namespaces_of(&first), Default::default()).unwrap();
        let est_v = from_bytes(&est_bytes).unwrap();
        let se: SessionEstablishment = isomdl::cbor::from_slice(&est_bytes).unwrap();
        let (dev0, _) = engaged.clone().process_session_establishment(se, Default::default()).unwrap();
        let dev_s = dev0.stringify().unwrap();
        let rdr_s = rdr0.stringify().unwrap();
        let doc_s = device::Document::from(m.clone()).stringify().unwrap();
        // a valid request plaintext (with reader auth) for request fuzzing
        let request_v = Value::Map(vec![(text("version"), text("1.0")), (text("docRequests"), arr(vec![Value::Map(vec![
            (text("itemsRequest"), Value::Tag(24, Box::new(bytes(&to_bytes(&Value::Map(vec![(text("docType"), text(MDL)), (text("nameSpaces"), Value::Map(vec![(text(NS), Value::Map(vec![(text("family_name"), Value::Bool(false))]))]))])))))),
            (text("readerAuth"), arr(vec![bytes(&[0xa1, 0x01, 0x26]), Value::Map(vec![(Value::Integer(33.into()), bytes(&der::Encode::to_der(&pki.reader).unwrap()))]), Value::Null, bytes(&[7; 64])])),
        ])]))]);
        // ---- systematic streams (run once per scene, before the random mutations) ----
        // (S1) the QR text itself: every non-ASCII / truncated / re-cased variant around the scheme prefix and inside
        // the base64 part (a scanner hands over arbitrary text, not only well-formed URIs)
        {
            let mut texts: Vec<String> = vec!["".into(), "m".into(), "mdoc".into(), "mdoc:".into(), "MDOC:".into(), "mdoc:=".into(), "mdoc:\u{0}".into(), format!("MDOC:{}", &qr[5..]), format!("Mdoc:{}", &qr[5..])];
            let glyphs = ["\u{e9}", "\u{20ac}", "\u{fffd}", "\u{1d11e}", "\u{0}", " "];
            let qb: Vec<char> = qr.chars().collect();
            let mut offsets: Vec<usize> = (0..=12.min(qb.len())).collect();
            for _ in 0..6 { offsets.push(rng.gen_range(0..=qb.len())); }
            offsets.push(qb.len());
            for &o in &offsets {
                for g in glyphs {
                    let ins: String = qb[..o].iter().collect::<String>() + g + &qb[o..].iter().collect::<String>();
                    texts.push(ins);
                    if o < qb.len() { texts.push(qb[..o].iter().collect::<String>() + g + &qb[o + 1..].iter().collect::<String>()); }
                    texts.push(qb[..o].iter().collect::<String>() + g);
                }
                texts.push(qb[..o].iter().collect());
            }
            for t in texts {
                let (t1, t2, f2) = (t.clone(), t.clone(), first.clone());
                attempt(ctx, "from_qr_code_uri(text)", hex::encode(t.as_bytes()), move || match Tag24::<DeviceEngagement>::from_qr_code_uri(&t1) { Ok(_) => "accepted", Err(_) => "rejected" });
                attempt(ctx, "establish_session(text)", hex::encode(t.as_bytes()), move || match reader::SessionManager::establish_session(t2, namespaces_of(&f2), Default::default()) { Ok(_) => "accepted", Err(_) => "rejected" });
            }
        }
        // (S2) the peer's ephemeral COSE_Key: the full matrix of key type x curve x coordinate length x y form, as
        // EReaderKey (device side) and as EDeviceKey of the engagement (reader side).  Combinations, not single edits.
        {
            let good = from_bytes(&sc.erk_bytes).unwrap();
            let coord = |l: i64| good.as_map().unwrap().iter().find(|(k, _)| k.as_integer().map(i128::from) == Some(l as i128)).map(|(_, v)| v.as_bytes().unwrap().clone()).unwrap();
            let (gx, gy) = (coord(-2), coord(-3));
            let resize = |b: &Vec<u8>, n: usize| { let mut v = b.clone(); v.resize(n, 7); v };
            let mut keys: Vec<Vec<u8>> = vec![];
            for kty in [2i64, 1, 3] { for crv in [1i64, 2, 3, 8, 6, 99] {
                for xl in [0usize, 1, 31, 32, 33, 48, 66] {
                    let ys: Vec<Option<Value>> = vec![Some(bytes(&gy)), Some(bytes(&resize(&gy, 31))), Some(bytes(&resize(&gy, 33))), Some(bytes(&[])), Some(Value::Bool(true)), Some(Value::Bool(false)), None, Some(Value::Integer(1.into())), Some(Value::Null)];
                    for y in ys {
                        if kty != 2 && crv > 3 && xl % 2 == 1 { continue; } // thin the OKP / unknown-type corner
                        let mut m = vec![(Value::Integer(1.into()), Value::Integer(kty.into())), (Value::Integer((-1).into()), Value::Integer(crv.into())), (Value::Integer((-2).into()), bytes(&resize(&gx, xl)))];
                        if let Some(y) = y { m.push((Value::Integer((-3).into()), y)); }
                        keys.push(to_bytes(&Value::Map(m)));
                    }
                }
            } }
            for kb in keys {
                // device side
                let mut ev = est_v.clone();
                if let Some(slot) = rauth::map_get_mut(&mut ev, "eReaderKey") { *slot = Value::Tag(24, Box::new(bytes(&kb))); }
                let b = to_bytes(&ev);
                let eng = engaged.clone();
                attempt(ctx, "process_session_establishment(key matrix)", hex::encode(&kb), move || match isomdl::cbor::from_slice::<SessionEstablishment>(&b) {
                    Ok(se) => match eng.process_session_establishment(se, Default::default()) { Ok(_) => "accepted", Err(_) => "refused" },
                    Err(_) => "undecodable",
                });
                // reader side: the engagement's security element [cipher suite, EDeviceKeyBytes]
                let mut dv = de_v.clone();
                if let Value::Map(m) = &mut dv {
                    for (k, v) in m.iter_mut() { if k.as_integer().map(i128::from) == Some(1) { *v = arr(vec![uint(1), Value::Tag(24, Box::new(bytes(&kb)))]); } }
                }
                let uri = format!("mdoc:{}", base64::encode_config(to_bytes(&dv), base64::Config::new(base64::CharacterSet::UrlSafe, false)));
                let f2 = first.clone();
                attempt(ctx, "establish_session(key matrix)", hex::encode(&kb), move || match reader::SessionManager::establish_session(uri, namespaces_of(&f2), Default::default()) { Ok(_) => "accepted", Err(_) => "rejected" });
            }
        }
        for i in 0..per_scene {
            match i % 12 {
                0 => { // QR code parsing and reader establishment
                    let v = mutate(&de_v, &mut rng);
                    let b = to_bytes(&v);
                    let uri = format!("mdoc:{}", base64::encode_config(&b, base64::Config::new(base64::CharacterSet::UrlSafe, false)));
                    let u2 = uri.clone();
                    attempt(ctx, "from_qr_code_uri", hex::encode(&b), move || match Tag24::<DeviceEngagement>::from_qr_code_uri(&u2) { Ok(_) => "accepted", Err(_) => "rejected" });
                    let f2 = first.clone();
                    attempt(ctx, "establish_session", hex::encode(&b), move || match reader::SessionManager::establish_session(uri, namespaces_of(&f2), Default::default()) { Ok(_) => "accepted", Err(_) => "rejected" });
                }
                1 => { // session establishment processing on the device
                    let v = mutate(&est_v, &mut rng);
                    let b = to_bytes(&v);
                    let eng = engaged.clone();
                    attempt(ctx, "process_session_establishment", hex::encode(&b), move || match isomdl::cbor::from_slice::<SessionEstablishment>(&b) {
                        Ok(se) => match eng.process_session_establishment(se, Default::default()) { Ok(_) => "accepted", Err(_) => "refused" },
                        Err(_) => "undecodable",
                    });
                }
                2 | 3 => { // hostile request contents, correctly encrypted
                    let v = mutate(&request_v, &mut rng);
                    let pt = to_bytes(&v);
                    let mut dev = dev0.clone();
                    let (k, _) = dev_view(&dev);
                    let msg = session_data(Some(&aes_encrypt(&k.sk_reader, &iso_iv(false, k.reader_ctr as u32 + 1), &pt)), None);
                    attempt(ctx, "handle_request(encrypted hostile request)", hex::encode(&pt), move || {
                        let o = dev.handle_request(&msg);
                        let _ = dev.get_next_signature_payload().map(|_| ());
                        let _ = dev.submit_next_signature(vec![1; 64]);
                        let _ = dev.retrieve_response();
                        if o.errors.is_empty() { "handled" } else { "errors" }
                    });
                }
                4 | 5 | 6 => { // hostile response contents, correctly encrypted
                    let v = mutate(&response_v, &mut rng);
                    let pt = to_bytes(&v);
                    let mut rdr = sc.rdr.clone();
                    let rk = rdr_view(&rdr);
                    let msg = session_data(Some(&aes_encrypt(&rk.sk_device, &iso_iv(true, rk.device_ctr as u32 + 1), &pt)), None);
                    attempt(ctx, "handle_response(encrypted hostile response)", hex::encode(&pt), move || { let o = rdr.handle_response(&msg); if o.errors.is_empty() { "handled" } else { "errors" } });
                }
                7 => { // outer session data and raw bytes to both roles
                    let b = if rng.gen_bool(0.5) { random_bytes(&mut rng) } else { to_bytes(&mutate(&Value::Map(vec![(text("data"), bytes(&[1, 2, 3])), (text("status"), Value::Integer(20.into()))]), &mut rng)) };
                    let mut dev = dev0.clone();
                    let b1 = b.clone();
                    attempt(ctx, "handle_request(raw)", hex::encode(&b), move || { dev.handle_request(&b1); "returned" });
                    let mut rdr = sc.rdr.clone();
                    let b2 = b.clone();
                    attempt(ctx, "handle_response(raw)", hex::encode(&b), move || { rdr.handle_response(&b2); "returned" });
                }
                8 => { // wire decoders (and re-encoding of what they accept)
                    let (name, base): (&str, Value) = match rng.gen_range(0..7) {
                        0 => ("Mso", from_bytes(&mso_bytes).map(|v| match v { Value::Tag(24, b) => from_bytes(b.as_bytes().unwrap()).unwrap(), o => o }).unwrap()),
                        1 => ("IssuerSigned", issuer_signed_v.clone()),
                        2 => ("DeviceResponse", response_v.clone()),
                        3 => ("DeviceRequest", request_v.clone()),
                        4 => ("DeviceEngagement", de_v.clone()),
                        5 => ("SessionEstablishment", est_v.clone()),
                        _ => ("CoseKey", from_bytes(&sc.erk_bytes).unwrap()),
                    };
                    let b = to_bytes(&mutate(&base, &mut rng));
                    let b1 = b.clone();
                    attempt(ctx, &format!("decode:{name}"), hex::encode(&b), move || match name {
                        "Mso" => decode_then_encode::<Mso>(&b1),
                        "IssuerSigned" => decode_then_encode::<IssuerSigned>(&b1),
                        "DeviceResponse" => decode_then_encode::<DeviceResponse>(&b1),
                        "DeviceRequest" => decode_then_encode::<DeviceRequest>(&b1),
                        "DeviceEngagement" => decode_then_encode::<DeviceEngagement>(&b1),
                        "SessionEstablishment" => decode_then_encode::<SessionEstablishment>(&b1),
                        _ => decode_then_encode::<CoseKey>(&b1),
                    });
                    let b2 = random_bytes(&mut rng);
                    let b3 = b2.clone();
                    attempt(ctx, "decode:random", hex::encode(&b2), move || { let _ = isomdl::cbor::from_slice::<SessionData>(&b3); let _ = isomdl::cbor::from_slice::<ValidityInfo>(&b3); decode_then_encode::<DeviceResponse>(&b3) });
                }
                _ => { // stored states: parse, then keep using the restored object
                    let (which, s) = match rng.gen_range(0..5) { 0 => ("init", &init_s), 1 => ("engaged", &engaged_s), 2 => ("device", &dev_s), 3 => ("reader", &rdr_s), _ => ("document", &doc_s) };
                    let v = mutate(&state_value(s), &mut rng);
                    let enc = base64::encode(to_bytes(&v));
                    let est2 = est_bytes.clone();
                    let f2 = first.clone();
                    let hexin = hex::encode(to_bytes(&v));
                    attempt(ctx, &format!("stored:{which}"), hexin, move || match which {
                        "init" => match device::SessionManagerInit::parse(enc) { Ok(x) => { let _ = x.ble_ident(); match x.qr_engagement() { Ok(_) => "restored+used", Err(_) => "restored,error" } } Err(_) => "rejected" },
                        "engaged" => match device::SessionManagerEngaged::parse(enc) {
                            Ok(x) => match isomdl::cbor::from_slice::<SessionEstablishment>(&est2) { Ok(se) => match x.process_session_establishment(se, Default::default()) { Ok(_) => "restored+used", Err(_) => "restored,error" }, Err(_) => "restored" },
                            Err(_) => "rejected" },
                        "device" => match device::SessionManager::parse(enc) {
                            Ok(mut x) => {
                                let _ = x.handle_request(&[0xa0]);
                                let items = vec![isomdl::definitions::device_request::ItemsRequest { doc_type: MDL.into(), namespaces: namespaces_of(&f2), request_info: None }];
                                let permitted = [(MDL.to_string(), f2.clone().into_iter().collect())].into_iter().collect();
                                device::SessionManager::prepare_response(&mut x, &items, permitted);
                                let _ = x.get_next_signature_payload().map(|_| ());
                                let _ = x.submit_next_signature(vec![2; 64]);
                                let _ = x.response_ready();
                                let _ = x.retrieve_response();
                                let _ = x.stringify();
                                "restored+used" }
                            Err(_) => "rejected" },
                        "reader" => match reader::SessionManager::parse(enc) {
                            Ok(mut x) => { let _ = x.new_request(namespaces_of(&f2)); let _ = x.handle_response(&[0xa0]); let _ = x.stringify(); "restored+used" }
                            Err(_) => "rejected" },
                        _ => match device::Document::parse(enc) { Ok(x) => { let _ = x.stringify(); "restored" } Err(_) => "rejected" },
                    });
                }
            }
        }
        ctx.rng = rng;
    }
}

fn rauth_mso_bytes(response: &Value) -> Vec<u8> {
    let doc = &map_get(response, "documents").unwrap().as_array().unwrap()[0];
    map_get(map_get(doc, "issuerSigned").unwrap(), "issuerAuth").unwrap().as_array().unwrap()[2].as_bytes().unwrap().clone()
}
