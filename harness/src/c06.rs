//! C06 — tampered / replayed / reordered / reflected / foreign messages delivered to real sessions
use crate::common::*;
use crate::trace::*;
use rand::Rng;

pub fn run(ctx: &mut Ctx) {
    // directed: for each message of an honest exchange, every truncation length class and sampled bit flips
    let flips: Vec<usize> = if ctx.thorough { (0..2048).collect() } else { vec![0, 1, 7, 8, 63, 64, 127, 128, 300, 511, 512, 1000, 4095, 99_999, 99_998, 99_872] };
    for (i, bit) in flips.iter().enumerate() {
        let ops = vec![
            TOp::NewRequest(i % 3),
            TOp::DeliverReq(Delivery::BitFlip(1, *bit)),
            TOp::NextPayload, TOp::Ready,
            TOp::NewRequest(0), TOp::DeliverReq(Delivery::Truncate(2, *bit)), TOp::NextPayload,
        ];
        run_trace(ctx, "flip_request", 1, ops, Some("c06.spec"));
        let ops = vec![
            TOp::Prepare(vec![0], false), TOp::NextPayload, TOp::Submit(true), TOp::Retrieve,
            TOp::DeliverResp(Delivery::BitFlip(0, *bit)),
            TOp::DeliverResp(Delivery::Truncate(0, *bit)),
            TOp::DeliverResp(Delivery::Latest),
        ];
        run_trace(ctx, "flip_response", 1, ops, Some("c06.spec"));
    }
    let directed: Vec<Vec<TOp>> = vec![
        // replay of the establishment request and of a later one
        vec![TOp::DeliverReq(Delivery::Replay(0)), TOp::NewRequest(1), TOp::DeliverReq(Delivery::Latest), TOp::DeliverReq(Delivery::Replay(1)), TOp::DeliverReq(Delivery::Replay(0))],
        // reorder: second request delivered before the first
        vec![TOp::NewRequest(1), TOp::NewRequest(2), TOp::DeliverReq(Delivery::Replay(2)), TOp::DeliverReq(Delivery::Replay(1))],
        // reflection both ways
        vec![TOp::Prepare(vec![0], false), TOp::Submit(true), TOp::Retrieve, TOp::DeliverReq(Delivery::Reflect), TOp::NewRequest(0), TOp::DeliverResp(Delivery::Reflect), TOp::DeliverResp(Delivery::Latest)],
        // foreign session
        vec![TOp::DeliverReq(Delivery::Foreign), TOp::DeliverResp(Delivery::Foreign), TOp::Ready, TOp::NextPayload],
        // right key, wrong counter / wrong role identifier
        vec![TOp::DeliverReq(Delivery::CraftedWrongCounter(0)), TOp::DeliverReq(Delivery::CraftedWrongCounter(1)), TOp::DeliverReq(Delivery::CraftedWrongRole), TOp::DeliverResp(Delivery::CraftedWrongCounter(0)), TOp::DeliverResp(Delivery::CraftedWrongRole), TOp::Ready],
        // response replay
        vec![TOp::Prepare(vec![], false), TOp::Retrieve, TOp::DeliverResp(Delivery::Latest), TOp::DeliverResp(Delivery::Latest), TOp::DeliverResp(Delivery::Replay(0))],
        // a genuine message that also carries a status member (session termination, the error statuses), then a message
        // under the all-zero key, a replay, and the next genuine message — in both directions
        vec![TOp::NewRequest(1), TOp::DeliverReq(Delivery::LatestWithStatus(2)), TOp::DeliverReq(Delivery::CraftedZeroKey), TOp::DeliverReq(Delivery::Replay(1)), TOp::NewRequest(2), TOp::DeliverReq(Delivery::Latest),
             TOp::Prepare(vec![0], false), TOp::NextPayload, TOp::Submit(true), TOp::Retrieve, TOp::DeliverResp(Delivery::LatestWithStatus(2)), TOp::DeliverResp(Delivery::CraftedZeroKey), TOp::DeliverResp(Delivery::Replay(0))],
        vec![TOp::NewRequest(1), TOp::DeliverReq(Delivery::LatestWithStatus(0)), TOp::DeliverReq(Delivery::CraftedZeroKey), TOp::NewRequest(2), TOp::DeliverReq(Delivery::LatestWithStatus(1)), TOp::DeliverReq(Delivery::CraftedZeroKey),
             TOp::Prepare(vec![0], false), TOp::NextPayload, TOp::Submit(true), TOp::Retrieve, TOp::DeliverResp(Delivery::LatestWithStatus(0)), TOp::DeliverResp(Delivery::CraftedZeroKey)],
        // an undecodable but authentic request (answered with an error response), its replay, then a genuine round
        vec![TOp::DeliverReq(Delivery::CraftedNotCbor), TOp::Retrieve, TOp::DeliverReq(Delivery::CraftedNotStruct), TOp::Retrieve, TOp::NewRequest(0), TOp::DeliverReq(Delivery::Latest), TOp::Prepare(vec![0], false), TOp::NextPayload, TOp::Submit(true), TOp::Retrieve, TOp::DeliverResp(Delivery::Latest)],
    ];
    for (i, ops) in directed.into_iter().enumerate() {
        for ndocs in 1..=2 {
            run_trace(ctx, &format!("directed{i}"), ndocs, ops.clone(), Some("c06.spec"));
        }
    }
    let n = ctx.budget(400, 30000);
    let maxlen = if ctx.thorough { 40 } else { 14 };
    for _ in 0..n {
        let len = ctx.rng.gen_range(3..=maxlen);
        let ndocs = ctx.rng.gen_range(1..=3);
        let ops: Vec<TOp> = (0..len).map(|_| random_op(&mut ctx.rng, 0.75, 0.05)).collect();
        run_trace(ctx, "random", ndocs, ops, Some("c06.spec"));
    }
}
