//! C06 — tampered / replayed / reordered / reflected / foreign messages delivered to real sessions
use crate::common::*;
use crate::trace::*;
use rand::Rng;

pub fn run(ctx: &mut Ctx) {
    // directed: for each message of an honest exchange, every truncation length class and sampled bit flips
    let flips: Vec<usize> = if ctx.thorough { (0..2048).collect() } else { vec![0, 1, 7, 8, 63, 64, 127, 128, 300, 511, 512, 1000, 4095, 99_999, 99_998, 99_872] };
    for (i, bit) in flips.iter().enumerate() {
        let ops = vec![
            TOp::NewRequest(i % 3),
            TOp::DeliverReq(Delivery::BitFlip(1, *bit)),
            TOp::NextPayload, TOp::Ready,
            TOp::NewRequest(0), TOp::DeliverReq(Delivery::Truncate(2, *bit)), TOp::NextPayload,
        ];
        run_trace(ctx, "flip_request", 1, ops, Some("c06.spec"));
        let ops = vec![
            TOp::Prepare(vec![0], false), TOp::NextPayload, TOp::Submit(true), TOp::Retrieve,
            TOp::DeliverResp(Delivery::BitFlip(0, *bit)),
            TOp::DeliverResp(Delivery::Truncate(0, *bit)),
            TOp::DeliverResp(Delivery::Latest),
        ];
        run_trace(ctx, "flip_response", 1, ops, Some("c06.spec"));
    }
    let directed: Vec<Vec<TOp>> = vec![
        // replay of the establishment request and of a later one
        vec![TOp::DeliverReq(Delivery::Replay(0)), TOp::NewRequest(1), TOp::DeliverReq(Delivery::Latest), TOp::DeliverReq(Delivery::Replay(1)), TOp::DeliverReq(Delivery::Replay(0))],
        // reorder: second request delivered before the first
        vec![TOp::NewRequest(1), TOp::NewRequest(2), TOp::DeliverReq(Delivery::Replay(2)), TOp::DeliverReq(Delivery::Replay(1))],
        // reflection both ways
        vec![TOp::Prepare(vec![0], false), TOp::Submit(true), TOp::Retrieve, TOp::DeliverReq(Delivery::Reflect), TOp::NewRequest(0), TOp::DeliverResp(Delivery::Reflect), TOp::DeliverResp(Delivery::Latest)],
        // foreign session
        vec![TOp::DeliverReq(Delivery::Foreign), TOp::DeliverResp(Delivery::Foreign), TOp::Ready, TOp::NextPayload],
        // right key, wrong counter / wrong role identifier
        vec![TOp::DeliverReq(Delivery::CraftedWrongCounter(0)), TOp::DeliverReq(Delivery::CraftedWrongCounter(1)), TOp::DeliverReq(Delivery::CraftedWrongRole), TOp::DeliverResp(Delivery::CraftedWrongCounter(0)), TOp::DeliverResp(Delivery::CraftedWrongRole), TOp::Ready],
        // response replay
        vec![TOp::Prepare(vec![], false), TOp::Retrieve, TOp::DeliverResp(Delivery::Latest), TOp::DeliverResp(Delivery::Latest), TOp::DeliverResp(Delivery::Replay(0))],
        // a genuine message that also carries a status member (session termination, the error statuses), then a message
        // under the all-zero key, a replay, and the next genuine message — in both directions
        vec![TOp::NewRequest(1), TOp::DeliverReq(Delivery::LatestWithStatus(2)), TOp::DeliverReq(Delivery::CraftedZeroKey), TOp::DeliverReq(Delivery::Replay(1)), TOp::NewRequest(2), TOp::DeliverReq(Delivery::Latest),
             TOp::Prepare(vec![0], false), TOp::NextPayload, TOp::Submit(true), TOp::Retrieve, TOp::DeliverResp(Delivery::LatestWithStatus(2)), TOp::DeliverResp(Delivery::CraftedZeroKey), TOp::DeliverResp(Delivery::Replay(0))],
        vec![TOp::NewRequest(1), TOp::DeliverReq(Delivery::LatestWithStatus(0)), TOp::DeliverReq(Delivery::CraftedZeroKey), TOp::NewRequest(2), TOp::DeliverReq(Delivery::LatestWithStatus(1)), TOp::DeliverReq(Delivery::CraftedZeroKey),
             TOp::Prepare(vec![0], false), TOp::NextPayload, TOp::Submit(true), TOp::Retrieve, TOp::DeliverResp(Delivery::LatestWithStatus(0)), TOp::DeliverResp(Delivery::CraftedZeroKey)],
        // an undecodable but authentic request (answered with an error response), its replay, then a genuine round
        vec![TOp::DeliverReq(Delivery::CraftedNotCbor), TOp::Retrieve, TOp::DeliverReq(Delivery::CraftedNotStruct), TOp::Retrieve, TOp::NewRequest(0), TOp::DeliverReq(Delivery::Latest), TOp::Prepare(vec![0], false), TOp::NextPayload, TOp::Submit(true), TOp::Retrieve, TOp::DeliverResp(Delivery::Latest)],
    ];
    for (i, ops) in directed.into_iter().enumerate() {
        for ndocs in 1..=2 {
            run_trace(ctx, &format!("directed{i}"), ndocs, ops.clone(), Some("c06.spec"));
        }
    }
    far_sessions(ctx);
    let n = ctx.budget(400, 30000);
    let maxlen = if ctx.thorough { 40 } else { 14 };
    for _ in 0..n {
        let len = ctx.rng.gen_range(3..=maxlen);
        let ndocs = ctx.rng.gen_range(1..=3);
        let ops: Vec<TOp> = (0..len).map(|_| random_op(&mut ctx.rng, 0.75, 0.05)).collect();
        run_trace(ctx, "random", ndocs, ops, Some("c06.spec"));
    }
}

/// Sessions far into their life: the receive counters are moved forward in the stored state (2^8, 2^16, 2^24 and their
/// neighbours), then messages under the RIGHT key arrive whose IV counter is the next one, or one that agrees with the
/// next one only in its low 8 / 16 / 24 bits (an old message "coming round again"), or is off by one.
fn far_sessions(ctx: &mut Ctx) {
    use crate::sess::*;
    use ciborium::Value;
    use isomdl::presentation::{device, reader, Stringify};
    let mut rng = ctx.rng.clone();
    let pki = crate::pki::Pki::generate(&mut rng);
    let (m, _k) = issue(&mut rng, &pki, MDL, [(NS.to_string(), [("family_name".to_string(), Value::Text("Doe".into()))].into_iter().collect())].into_iter().collect(), isomdl::definitions::DigestAlgorithm::SHA256, false);
    let first: std::collections::BTreeMap<String, Vec<String>> = [(NS.to_string(), vec!["family_name".to_string()])].into_iter().collect();
    let Ok(e) = establish(documents_of(vec![m]), None, &first, Default::default(), Default::default()) else { ctx.rng = rng; return };
    ctx.rng = rng;
    let set = |v: &mut Value, name: &str, n: u64| { if let Value::Map(m) = v { for (k, x) in m.iter_mut() { if k.as_text() == Some(name) { *x = Value::Integer(n.into()); } } } };
    let bases: Vec<u64> = if ctx.thorough { vec![255, 256, 257, 65_534, 65_535, 65_536, 65_537, 131_071, 16_777_215, 16_777_216, 16_777_300, 3_000_000_000, 4_294_967_000] } else { vec![255, 256, 65_535, 65_536, 65_600, 16_777_215, 16_777_216, 3_000_000_000] };
    // two sessions whose keys agree in their leading octets (8, 16, 31 of 32) and differ afterwards: a message of one is a
    // message "encrypted under other keys" for the other.  Session A is used first, on this thread, then B receives A's message.
    for keep in [8usize, 16, 31, 1] {
        let set_key = |v: &mut Value, name: &str, keep: usize| {
            if let Value::Map(m) = v { for (k, x) in m.iter_mut() { if k.as_text() == Some(name) {
                match x {
                    Value::Bytes(b) => { for y in b.iter_mut().skip(keep) { *y ^= 0x5a; } }
                    Value::Array(a) => { for y in a.iter_mut().skip(keep) { if let Some(n) = y.as_integer().and_then(|i| u8::try_from(i).ok()) { *y = Value::Integer((n ^ 0x5a).into()); } } }
                    _ => {}
                }
            } } }
        };
        for to_device in [true, false] {
            let name = if to_device { "sk_reader" } else { "sk_device" };
            let a_state = if to_device { e.dev.stringify().unwrap() } else { e.rdr.stringify().unwrap() };
            let mut vb = state_value(&a_state);
            set_key(&mut vb, name, keep);
            let b_state = base64::encode(crate::runner::to_bytes(&vb));
            let pt = if to_device { vec![0xa0] } else { crate::runner::to_bytes(&Value::Map(vec![(text("version"), text("1.0")), (text("status"), uint(0))])) };
            let (accepted_by_a, accepted_by_b) = if to_device {
                let (Ok(mut a), Ok(mut b)) = (device::SessionManager::parse(a_state.clone()), device::SessionManager::parse(b_state)) else { continue };
                let ka = dev_view(&a).0;
                let msg = session_data(Some(&aes_encrypt(&ka.sk_reader, &iso_iv(false, ka.reader_ctr as u32 + 1), &pt)), None);
                (catch(|| !a.handle_request(&msg).errors.contains_key("decryption_errors")), catch(|| !b.handle_request(&msg).errors.contains_key("decryption_errors")))
            } else {
                let (Ok(mut a), Ok(mut b)) = (reader::SessionManager::parse(a_state.clone()), reader::SessionManager::parse(b_state)) else { continue };
                let ka = rdr_view(&a);
                let msg = session_data(Some(&aes_encrypt(&ka.sk_device, &iso_iv(true, ka.device_ctr as u32 + 1), &pt)), None);
                (catch(|| !a.handle_response(&msg).errors.contains_key("decryption_errors")), catch(|| !b.handle_response(&msg).errors.contains_key("decryption_errors")))
            };
            let obs = arr(vec![Value::Bool(accepted_by_a.unwrap_or(false)), Value::Bool(accepted_by_b.unwrap_or(true))]);
            ctx.case("sessions_with_a_common_key_prefix", serde_json::json!({"to_device": to_device, "common_octets": keep}), obs, None, Some(("c06.spec_other_key", vec![])), true);
        }
    }
    // the genuine next message, then the SAME message again to the same object (a replay), at every base and at the very
    // end of the counter range (receive counter 2^32 - 2: the last message of a direction, then its replay)
    let mut replay_bases = bases.clone();
    replay_bases.extend([4_294_967_293u64, 4_294_967_294]);
    for base in replay_bases {
        let c = base + 1;
        for to_device in [true, false] {
            let mut v = state_value(&if to_device { e.dev.stringify().unwrap() } else { e.rdr.stringify().unwrap() });
            set(&mut v, if to_device { "reader_message_counter" } else { "device_message_counter" }, base);
            let b64 = base64::encode(crate::runner::to_bytes(&v));
            let (mut dev, mut rdr) = (if to_device { device::SessionManager::parse(b64.clone()).ok() } else { None }, if to_device { None } else { reader::SessionManager::parse(b64).ok() });
            let key = if to_device { dev.as_ref().map(|d| dev_view(d).0.sk_reader) } else { rdr.as_ref().map(|r| rdr_view(r).sk_device) };
            let Some(key) = key else { continue };
            let pt = if to_device { vec![0xa0] } else { crate::runner::to_bytes(&Value::Map(vec![(text("version"), text("1.0")), (text("status"), uint(0))])) };
            let msg = session_data(Some(&aes_encrypt(&key, &iso_iv(!to_device, c as u32), &pt)), None);
            for (k, ctr_before) in [(0u64, base), (1, base + 1)] {
                // a debug build stops at the arithmetic overflow of the counter (2^32-th message of a direction, outside C07's
                // range); that is a refusal as far as THIS property goes and is counted apart
                let r = if to_device { let d = dev.as_mut().unwrap(); catch(|| !d.handle_request(&msg).errors.contains_key("decryption_errors")) }
                        else { let r = rdr.as_mut().unwrap(); catch(|| !r.handle_response(&msg).errors.contains_key("decryption_errors")) };
                let obs = match r { Ok(a) => Value::Bool(a), Err(_) => { ctx.count("far_session:stopped-at-counter-overflow"); Value::Bool(false) } };
                let args = vec![uint(if to_device { 0 } else { 1 }), uint(ctr_before), uint(c)];
                ctx.case(if k == 0 { "far_session:next" } else { "far_session:replay-of-next" }, serde_json::json!({"to_device": to_device, "receive_counter": ctr_before, "message_counter": c}), obs,
                    Some(("c06.far", args.clone())), Some(("c06.spec_far", args)), true);
                if r.is_err() { break; }
            }
        }
    }
    for base in bases {
        let next = base + 1;
        let mut crafted: Vec<u64> = vec![next, next % 256, next % 65_536, next % 16_777_216, next + 65_536, next + 256, next.wrapping_sub(65_536) % 4_294_967_296, base, next + 1, 1];
        crafted.retain(|c| *c < 4_294_967_296);
        crafted.dedup();
        for c in crafted {
            // to the device (sender: reader)
            let mut v = state_value(&e.dev.stringify().unwrap());
            set(&mut v, "reader_message_counter", base);
            let Ok(mut dev) = device::SessionManager::parse(base64::encode(crate::runner::to_bytes(&v))) else { continue };
            let (k, _) = dev_view(&dev);
            let req = Value::Map(vec![(text("version"), text("1.0")), (text("docRequests"), arr(vec![Value::Map(vec![(text("itemsRequest"), Value::Tag(24, Box::new(bytes(&crate::runner::to_bytes(&Value::Map(vec![(text("docType"), text(MDL)), (text("nameSpaces"), Value::Map(vec![(text(NS), Value::Map(vec![(text("family_name"), Value::Bool(false))]))]))]))))))])]))]);
            let msg = session_data(Some(&aes_encrypt(&k.sk_reader, &iso_iv(false, c as u32), &crate::runner::to_bytes(&req))), None);
            let obs = match catch(|| dev.handle_request(&msg)) { Ok(o) => Value::Bool(!o.errors.contains_key("decryption_errors")), Err(p) => arr(vec![text("panic"), text(&p)]) };
            let args = vec![uint(0), uint(base), uint(c)];
            ctx.case("far_session:to_device", serde_json::json!({"receive_counter": base, "message_counter": c}), obs, Some(("c06.far", args.clone())), Some(("c06.spec_far", args)), true);
            // to the reader (sender: device)
            let mut v = state_value(&e.rdr.stringify().unwrap());
            set(&mut v, "device_message_counter", base);
            let Ok(mut rdr) = reader::SessionManager::parse(base64::encode(crate::runner::to_bytes(&v))) else { continue };
            let rk = rdr_view(&rdr);
            let resp = Value::Map(vec![(text("version"), text("1.0")), (text("status"), uint(0))]);
            let msg = session_data(Some(&aes_encrypt(&rk.sk_device, &iso_iv(true, c as u32), &crate::runner::to_bytes(&resp))), None);
            let obs = match catch(|| rdr.handle_response(&msg)) { Ok(o) => Value::Bool(!o.errors.contains_key("decryption_errors")), Err(p) => arr(vec![text("panic"), text(&p)]) };
            let args = vec![uint(1), uint(base), uint(c)];
            ctx.case("far_session:to_reader", serde_json::json!({"receive_counter": base, "message_counter": c}), obs, Some(("c06.far", args.clone())), Some(("c06.spec_far", args)), true);
        }
    }
}
