//! C13 — device session state machine: random API call sequences on real sessions, compared with
//! Model/Session.v (correspondence) and with the documented diagram Spec/DeviceDiagram.v (spec).
use crate::common::*;
use crate::trace::*;
use rand::Rng;

pub fn device_op(rng: &mut rand::rngs::StdRng) -> TOp {
    match rng.gen_range(0..20) {
        0 | 1 => TOp::NewRequest(rng.gen_range(0..3)),
        2 | 3 => TOp::DeliverReq(Delivery::Latest),
        4 => TOp::DeliverReq(Delivery::CraftedNotCbor),
        5 => TOp::DeliverReq(Delivery::CraftedNotStruct),
        6 => TOp::DeliverReq(random_delivery(rng, 1.0)),
        7 | 8 | 9 => {
            let n = rng.gen_range(0..4);
            TOp::Prepare((0..n).map(|_| rng.gen_range(0..3)).collect(), rng.gen_bool(0.3))
        }
        10 | 11 => TOp::NextPayload,
        12 | 13 | 14 => TOp::Submit(rng.gen_bool(0.8)),
        15 | 16 => TOp::Ready,
        17 | 18 => TOp::Retrieve,
        _ => TOp::RestoreDev,
    }
}

pub fn run(ctx: &mut Ctx) {
    let n = ctx.budget(300, 20000);
    let maxlen = if ctx.thorough { 40 } else { 12 };
    // directed sequences first: the situations the property text names
    let directed: Vec<Vec<TOp>> = vec![
        // nothing to sign: must be retrievable without inventing a signature
        vec![TOp::Prepare(vec![], false), TOp::NextPayload, TOp::Ready, TOp::Retrieve],
        vec![TOp::Prepare(vec![], true), TOp::NextPayload, TOp::Ready, TOp::Retrieve, TOp::Retrieve],
        // malformed plaintext: a retrievable status 11 / 12 response
        vec![TOp::NewRequest(0), TOp::DeliverReq(Delivery::CraftedNotCbor), TOp::NextPayload, TOp::Ready, TOp::Retrieve],
        vec![TOp::NewRequest(0), TOp::DeliverReq(Delivery::CraftedNotStruct), TOp::Ready, TOp::Retrieve, TOp::Ready],
        vec![TOp::NewRequest(0), TOp::DeliverReq(Delivery::CraftedEmpty), TOp::NextPayload, TOp::Ready, TOp::Retrieve, TOp::Retrieve],
        // signatures handed over in DER form are attached as they are
        vec![TOp::Prepare(vec![0], false), TOp::NextPayload, TOp::SubmitDer, TOp::Ready, TOp::Retrieve],
        vec![TOp::Prepare(vec![0, 1, 2], false), TOp::SubmitDer, TOp::Submit(true), TOp::SubmitDer, TOp::Ready, TOp::Retrieve, TOp::DeliverResp(Delivery::Latest)],
        // multi-document signing order and pairing
        vec![TOp::Prepare(vec![0, 1, 2], false), TOp::NextPayload, TOp::Submit(true), TOp::Ready, TOp::NextPayload, TOp::Submit(true),
             TOp::NextPayload, TOp::Submit(true), TOp::NextPayload, TOp::Ready, TOp::Retrieve, TOp::Retrieve, TOp::Ready],
        // out-of-order calls
        vec![TOp::Submit(false), TOp::Retrieve, TOp::NextPayload, TOp::Ready],
        vec![TOp::Prepare(vec![0], false), TOp::Retrieve, TOp::Ready, TOp::Submit(true), TOp::Submit(false), TOp::Retrieve, TOp::Submit(false)],
        vec![TOp::Prepare(vec![0, 1], false), TOp::Submit(true), TOp::Prepare(vec![2], false), TOp::NextPayload, TOp::Submit(true), TOp::Retrieve],
        // a genuine request that ALSO carries a status member (10, 11, 20): it is the request it is
        vec![TOp::NewRequest(1), TOp::DeliverReq(Delivery::LatestWithStatus(0)), TOp::Prepare(vec![0], false), TOp::NextPayload, TOp::Submit(true), TOp::Ready, TOp::Retrieve],
        vec![TOp::NewRequest(2), TOp::DeliverReq(Delivery::LatestWithStatus(1)), TOp::Prepare(vec![0, 1], false), TOp::NextPayload, TOp::Submit(true), TOp::NextPayload, TOp::Submit(true), TOp::Retrieve],
        vec![TOp::NewRequest(0), TOp::DeliverReq(Delivery::LatestWithStatus(2)), TOp::Prepare(vec![], false), TOp::Ready, TOp::Retrieve],
        // an authentic but undecodable request that ALSO carries a status member still gets its status 11 / 12 response
        vec![TOp::NewRequest(0), TOp::DeliverReq(Delivery::WithStatus(Box::new(Delivery::CraftedNotCbor), 0)), TOp::Ready, TOp::Retrieve],
        vec![TOp::NewRequest(0), TOp::DeliverReq(Delivery::WithStatus(Box::new(Delivery::CraftedNotStruct), 2)), TOp::NextPayload, TOp::Ready, TOp::Retrieve, TOp::Retrieve],
        vec![TOp::DeliverReq(Delivery::WithStatus(Box::new(Delivery::CraftedBytesKeyed), 1)), TOp::Ready, TOp::Retrieve],
        // status-only frames of every kind while a response is pending / ready: nothing is lost
        vec![TOp::Prepare(vec![0, 1], false), TOp::DeliverReq(Delivery::NoData(0)), TOp::NextPayload, TOp::Submit(true), TOp::DeliverReq(Delivery::NoData(1)), TOp::NextPayload, TOp::Submit(true), TOp::DeliverReq(Delivery::NoData(4)), TOp::Ready, TOp::Retrieve],
    ];
    for (i, ops) in directed.into_iter().enumerate() {
        for ndocs in 1..=3 {
            run_trace(ctx, &format!("directed{i}"), ndocs, ops.clone(), Some("c13.spec"));
        }
    }
    for _ in 0..n {
        let len = ctx.rng.gen_range(3..=maxlen);
        let ndocs = ctx.rng.gen_range(1..=3);
        let ops: Vec<TOp> = (0..len).map(|_| device_op(&mut ctx.rng)).collect();
        run_trace(ctx, "random", ndocs, ops, Some("c13.spec"));
    }
}
