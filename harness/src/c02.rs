//! C02 — what the device puts into a response: real sessions, prepare_response with generated
//! (request, permitted) pairs over small alphabets, response decrypted and decoded independently.
use crate::common::*;
use crate::pki::Pki;
use crate::sess::*;
use ciborium::Value;
use isomdl::definitions::device_key::cose_key::{EC2Curve, EC2Y};
use isomdl::definitions::device_request::ItemsRequest;
use isomdl::definitions::{CoseKey, DigestAlgorithm};
use isomdl::presentation::device::{PermittedItems, RequestedItems};
use p256::ecdsa::SigningKey;
use rand::rngs::StdRng;
use rand::Rng;
use serde_json::json;
use signature::Signer;
use std::collections::BTreeMap;

const DTS: [&str; 4] = [MDL, "org.example.a", "org.example.b", "org.example.not-held"];
const NSS: [&str; 3] = [NS, "org.example.ns2", "org.example.ns3"];
const IDS: [&str; 6] = ["family_name", "given_name", "age_over_18", "portrait", "x", "y"];

type Held = BTreeMap<String, (bool, BTreeMap<String, BTreeMap<String, Vec<u8>>>)>; // docType -> (can sign, ns -> id -> item bytes)

fn subset<'a>(rng: &mut StdRng, all: &[&'a str], p: f64) -> Vec<&'a str> {
    all.iter().filter(|_| rng.gen_bool(p)).cloned().collect()
}

fn nss_cbor(m: &[(String, Vec<String>)]) -> Value {
    arr(m.iter().map(|(ns, ids)| arr(vec![text(ns), arr(ids.iter().map(|i| text(i)).collect())])).collect())
}

pub fn run(ctx: &mut Ctx) {
    let sessions = ctx.budget(200, 6000);
    let rounds_max = if ctx.thorough { 4 } else { 3 };
    // after the generated sessions: scripted ones (`script`), one round each — near-miss names (docType, namespace and
    // identifier spellings that differ from a held one in case or padding only) and age attestations that are not held
    // while a neighbouring one is
    const SCRIPTS: u64 = 9;
    for si in 0..sessions + SCRIPTS {
        let script: Option<u64> = if si >= sessions { Some(si - sessions) } else { None };
        let mut rng = ctx.rng.clone();
        let pki = Pki::generate(&mut rng);
        // held documents
        let mut held: Held = BTreeMap::new();
        let mut keys: BTreeMap<String, SigningKey> = BTreeMap::new();
        let mut mdocs = vec![];
        let ndocs = if script.is_some() { 1 } else { rng.gen_range(1..=3) };
        for (i, dt) in DTS.iter().take(ndocs).enumerate() {
            let mut namespaces: BTreeMap<String, BTreeMap<String, Value>> = BTreeMap::new();
            let mut chosen = subset(&mut rng, &NSS, 0.7);
            if i == 0 || chosen.is_empty() { chosen.push(NS); }
            for ns in chosen {
                let mut els = BTreeMap::new();
                for id in subset(&mut rng, &IDS, 0.6) { els.insert(id.to_string(), Value::Text(format!("{dt}/{ns}/{id}"))); }
                if els.is_empty() { els.insert("x".into(), Value::Bool(true)); }
                namespaces.insert(ns.to_string(), els);
            }
            if script == Some(6) || script == Some(8) {
                // a namespace name that is another one plus a dotted tail, and identifiers that contain that tail
                namespaces = [(NS.to_string(), [("aamva".to_string(), Value::Text("a".into())), ("aamva.sex".to_string(), Value::Text("b".into())), ("family_name".to_string(), Value::Text("Doe".into()))].into_iter().collect()),
                              (NS_AAMVA.to_string(), [("sex".to_string(), Value::Integer(1.into())), ("organ_donor".to_string(), Value::Integer(1.into()))].into_iter().collect())].into_iter().collect();
            } else if script == Some(7) {
                // the renamed AAMVA elements: only the `.v2` names are held
                namespaces = [(NS.to_string(), [("family_name".to_string(), Value::Text("Doe".into()))].into_iter().collect()),
                              (NS_AAMVA.to_string(), [("aka_family_name.v2".to_string(), Value::Text("X".into())), ("aka_given_name.v2".to_string(), Value::Text("Y".into())), ("sex".to_string(), Value::Integer(1.into()))].into_iter().collect())].into_iter().collect();
            } else if script.is_some() {
                namespaces = [(NS.to_string(), [("family_name".to_string(), Value::Text("Doe".into())), ("age_over_21".to_string(), Value::Bool(true)),
                                                ("age_over_65".to_string(), Value::Bool(false))].into_iter().collect())].into_iter().collect();
            }
            let cannot_sign = i > 0 && rng.gen_bool(0.2);
            let mdoc = if cannot_sign {
                issue_with_key(&pki, dt, namespaces, DigestAlgorithm::SHA256, false,
                    CoseKey::EC2 { crv: EC2Curve::P256K, x: vec![1; 32], y: EC2Y::Value(vec![2; 32]) })
            } else {
                let decoys = rng.gen_bool(0.3);
                let (m, k) = issue(&mut rng, &pki, dt, namespaces, DigestAlgorithm::SHA256, decoys);
                keys.insert(dt.to_string(), k);
                m
            };
            let mut nsm = BTreeMap::new();
            for (ns, items) in mdoc.namespaces.iter() {
                let mut im = BTreeMap::new();
                for it in items.iter() { im.insert(it.as_ref().element_identifier.clone(), it.inner_bytes.clone()); }
                nsm.insert(ns.clone(), im);
            }
            held.insert(dt.to_string(), (!cannot_sign, nsm));
            mdocs.push(mdoc);
        }
        let first: BTreeMap<String, Vec<String>> = [(NS.to_string(), vec!["family_name".to_string()])].into_iter().collect();
        let Ok(e) = establish(documents_of(mdocs), None, &first, Default::default(), Default::default()) else { ctx.rng = rng; continue };
        let mut dev = e.dev;
        let docs_cbor = arr(held.iter().map(|(dt, (cs, nsm))| arr(vec![text(dt), Value::Bool(*cs),
            arr(nsm.iter().map(|(ns, im)| arr(vec![text(ns), arr(im.iter().map(|(id, b)| arr(vec![text(id), bytes(b)])).collect())])).collect())])).collect());
        let nrounds = if script.is_some() { 1 } else { rng.gen_range(1..=rounds_max) };
        for round in 0..nrounds {
            // request entries (duplicated docTypes are rare on purpose: they have their own class)
            #[allow(unused_assignments)]
            let mut req: Vec<(String, Vec<(String, Vec<String>)>)> = vec![];
            let nreq = rng.gen_range(1..=4);
            for _ in 0..nreq {
                let dt = DTS[rng.gen_range(0..4)].to_string();
                if req.iter().any(|(d, _)| *d == dt) && !rng.gen_bool(0.15) { continue; }
                let mut nss: Vec<(String, Vec<String>)> = vec![];
                for ns in subset(&mut rng, &NSS, 0.6) {
                    let ids: Vec<String> = subset(&mut rng, &IDS, 0.5).into_iter().map(|s| s.to_string()).collect();
                    if !ids.is_empty() { nss.push((ns.to_string(), ids)); }
                }
                if nss.is_empty() { nss.push((NS.to_string(), vec!["family_name".to_string()])); }
                req.push((dt, nss));
            }
            // permitted: sub- and supersets, duplicates inside the Vec
            let mut perm: BTreeMap<String, BTreeMap<String, Vec<String>>> = BTreeMap::new();
            for dt in subset(&mut rng, &DTS, 0.75) {
                let mut m = BTreeMap::new();
                for ns in subset(&mut rng, &NSS, 0.7) {
                    let mut ids: Vec<String> = vec![];
                    for _ in 0..rng.gen_range(0..7) { ids.push(IDS[rng.gen_range(0..6)].to_string()); }
                    m.insert(ns.to_string(), ids);
                }
                perm.insert(dt.to_string(), m);
            }
            if let Some(k) = script {
                let sv = |v: &[&str]| -> Vec<String> { v.iter().map(|s| s.to_string()).collect() };
                let (dt, ns, ids, pdts, pnss): (&str, &str, Vec<String>, Vec<&str>, Vec<&str>) = match k {
                    0 => (MDL, NS, sv(&["age_over_18", "age_over_60", "age_over_70", "family_name"]), vec![MDL], vec![NS]),
                    1 => ("org.iso.18013.5.1.MDL", NS, sv(&["family_name", "age_over_21"]), vec![MDL], vec![NS]),
                    2 => ("ORG.ISO.18013.5.1.MDL", NS, sv(&["family_name", "age_over_21"]), vec![MDL, "ORG.ISO.18013.5.1.MDL"], vec![NS]),
                    3 => (MDL, "ORG.ISO.18013.5.1", sv(&["family_name"]), vec![MDL], vec![NS, "ORG.ISO.18013.5.1"]),
                    4 => (MDL, NS, sv(&["Family_Name", "family_name ", "age_over_021", "age_over_2", "AGE_OVER_21"]), vec![MDL], vec![NS]),
                    5 => (MDL, NS, sv(&["age_over_99", "age_over_00"]), vec![MDL], vec![NS]),
                    6 => (MDL, NS, sv(&["aamva", "aamva.sex"]), vec![MDL], vec![NS, NS_AAMVA]),
                    7 => (MDL, NS_AAMVA, sv(&["aka_family_name", "aka_given_name", "sex"]), vec![MDL], vec![NS_AAMVA]),
                    _ => (MDL, NS_AAMVA, sv(&["org.iso.18013.5.1.aamva.sex", "aamva.sex", ".sex"]), vec![MDL], vec![NS, NS_AAMVA]),
                };
                req = vec![(dt.to_string(), vec![(ns.to_string(), ids.clone())])];
                perm = pdts.iter().map(|d| (d.to_string(), pnss.iter().map(|n| (n.to_string(), [ids.clone(), sv(&["family_name", "age_over_21", "age_over_65", "sex", "aamva.sex", "aka_family_name.v2"])].concat())).collect())).collect();
                ctx.count(&format!("script:{k}"));
            }
            let items: RequestedItems = req.iter().map(|(dt, nss)| ItemsRequest {
                doc_type: dt.clone(),
                namespaces: namespaces_of(&nss.iter().cloned().collect()),
                request_info: None,
            }).collect();
            // NB: namespaces_of goes through a map, so an entry's namespaces are unique
            let req_cbor = arr(req.iter().map(|(dt, nss)| {
                let m: BTreeMap<String, Vec<String>> = nss.iter().cloned().collect();
                arr(vec![text(dt), nss_cbor(&m.into_iter().collect::<Vec<_>>())])
            }).collect());
            let perm_cbor = arr(perm.iter().map(|(dt, m)| arr(vec![text(dt), nss_cbor(&m.clone().into_iter().collect::<Vec<_>>())])).collect());
            let permitted: PermittedItems = perm.clone();
            // one round in four: an earlier answer to the same request was prepared with EVERYTHING permitted and then
            // abandoned (before signing, or signed but never retrieved); the answer sent must be the later one's
            let abandon = if script.is_some() { 7 } else { rng.gen_range(0..8) };
            if abandon < 2 {
                let all: PermittedItems = DTS.iter().map(|dt| (dt.to_string(), NSS.iter().map(|ns| (ns.to_string(), IDS.iter().map(|i| i.to_string()).collect())).collect())).collect();
                let _ = catch(|| {
                    dev.prepare_response(&items, all);
                    if abandon == 1 {
                        let mut guard = 0;
                        while let Some((_, payload)) = dev.get_next_signature_payload().map(|(u, p)| (u, p.to_vec())) {
                            let dt = crate::trace::doc_type_of_payload(&payload).unwrap_or_default();
                            let sig: Vec<u8> = match keys.get(&dt) { Some(k) => { let s: p256::ecdsa::Signature = k.sign(&payload); s.to_vec() } None => vec![0; 64] };
                            dev.submit_next_signature(sig).ok();
                            guard += 1;
                            if guard > 10 { break; }
                        }
                    }
                });
                ctx.count(if abandon == 0 { "round:earlier-answer-abandoned-unsigned" } else { "round:earlier-answer-abandoned-signed" });
            }
            let r = catch(|| {
                dev.prepare_response(&items, permitted);
                let mut guard = 0;
                while let Some((_, payload)) = dev.get_next_signature_payload().map(|(u, p)| (u, p.to_vec())) {
                    let dt = crate::trace::doc_type_of_payload(&payload).unwrap_or_default();
                    let sig: Vec<u8> = match keys.get(&dt) { Some(k) => { let s: p256::ecdsa::Signature = k.sign(&payload); s.to_vec() } None => vec![0; 64] };
                    dev.submit_next_signature(sig).ok();
                    guard += 1;
                    if guard > 10 { break; }
                }
                dev.retrieve_response()
            });
            let obs = match r {
                Ok(Some(resp)) => observe_response(&dev, &resp),
                Ok(None) => arr(vec![text("no response retrievable")]),
                Err(p) => arr(vec![text("panic"), text(&p)]),
            };
            let dup = { let mut d: Vec<&String> = req.iter().map(|(d, _)| d).collect(); d.sort(); d.windows(2).any(|w| w[0] == w[1]) };
            ctx.count(if dup { "request:duplicate-docType" } else { "request:distinct-docTypes" });
            let desc = json!({"round": round, "held": held.iter().map(|(dt, (cs, n))| json!([dt, cs, n.iter().map(|(ns, im)| json!([ns, im.keys().collect::<Vec<_>>()])).collect::<Vec<_>>()])).collect::<Vec<_>>(),
                              "request": req, "permitted": perm});
            let args = vec![docs_cbor.clone(), req_cbor, perm_cbor];
            ctx.case("prepare", desc, obs, Some(("c02.prepare", args.clone())), Some(("c02.spec", args)), true);
        }
        ctx.rng = rng;
    }
}

/// decrypt the response with the device key read from the stringified state and decode it with ciborium only
fn observe_response(dev: &isomdl::presentation::device::SessionManager, resp: &[u8]) -> Value {
    let (keys, _) = dev_view(dev);
    let Some(data) = data_of(resp) else { return arr(vec![text("no data")]) };
    let Some((_, pt)) = find_iv(&keys.sk_device, &data, keys.device_ctr as u32 + 2) else { return arr(vec![text("undecryptable")]) };
    let Some(v) = crate::runner::from_bytes(&pt) else { return arr(vec![text("not cbor")]) };
    let mut docs: Vec<(String, Value)> = vec![];
    if let Some(Value::Array(ds)) = map_get(&v, "documents") {
        for d in ds {
            let dt = map_get(d, "docType").and_then(|t| t.as_text()).unwrap_or("").to_string();
            let mut dis = vec![];
            if let Some(Value::Map(nsm)) = map_get(d, "issuerSigned").and_then(|i| map_get(i, "nameSpaces")) {
                for (ns, items) in nsm {
                    let its: Vec<Value> = items.as_array().map(|a| a.iter().map(|it| match it {
                        Value::Tag(24, b) => bytes(b.as_bytes().map(|x| x.as_slice()).unwrap_or(&[])),
                        _ => text("not tag24"),
                    }).collect()).unwrap_or_default();
                    dis.push(arr(vec![ns.clone(), arr(its)]));
                }
            }
            let mut errs = vec![];
            if let Some(Value::Map(em)) = map_get(d, "errors") {
                for (ns, ids) in em {
                    let mut l: Vec<String> = ids.as_map().map(|m| m.iter().filter_map(|(k, _)| k.as_text().map(|s| s.to_string())).collect()).unwrap_or_default();
                    l.sort();
                    errs.push(arr(vec![ns.clone(), arr(l.iter().map(|s| text(s)).collect())]));
                }
            }
            docs.push((dt.clone(), arr(vec![text(&dt), arr(dis), arr(errs)])));
        }
    }
    docs.sort_by(|a, b| a.0.as_bytes().cmp(b.0.as_bytes()));
    let mut des: Vec<String> = vec![];
    if let Some(Value::Array(es)) = map_get(&v, "documentErrors") {
        for e in es { if let Value::Map(m) = e { for (k, _) in m { if let Some(s) = k.as_text() { des.push(s.to_string()); } } } }
    }
    des.sort(); des.dedup();
    arr(vec![arr(docs.into_iter().map(|(_, v)| v).collect()), arr(des.iter().map(|s| text(s)).collect())])
}
