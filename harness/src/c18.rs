//! C18 — every emitted message conforms to the ISO 18013-5 definitions.  Real sessions over every
//! engagement configuration, requests, normal / partial / empty / error responses, issued MSOs;
//! the raw bytes of every emitted message go to the Gallina validator (`c18.validate`, spec cases)
//! and, where the components can be read back from the real message, are compared with the bytes
//! the Gallina composer produces from those components (`c18.compose`, correspondence cases).
use crate::common::*;
use crate::pki::Pki;
use crate::runner::{from_bytes, to_bytes};
use crate::sess::*;
use crate::trace::doc_type_of_payload;
use ciborium::Value;
use coset::iana::EnumI64;
use isomdl::definitions::device_engagement::{CentralClientMode, PeripheralServerMode, ServerRetrievalMethods};
use isomdl::definitions::device_key::cose_key::OKPCurve;
use isomdl::definitions::device_request::ItemsRequest;
use isomdl::definitions::device_signed::DeviceAuthType;
use isomdl::definitions::helpers::{NonEmptyVec, Tag24};
use isomdl::definitions::session::Handover;
use isomdl::definitions::x509::X5Chain;
use isomdl::definitions::{
    BleOptions, CoseKey, DeviceEngagement, DeviceKeyInfo, DeviceRetrievalMethod, DigestAlgorithm, EC2Curve, IssuerSigned,
    KeyAuthorizations, NfcOptions, SessionEstablishment, SessionTranscript180135, ValidityInfo, WifiOptions, EC2Y,
};
use isomdl::issuance::Mdoc;
use isomdl::presentation::device::{self, DeviceSession, Documents, PermittedItems, RequestedItems};
use isomdl::presentation::reader;
use p256::ecdsa::SigningKey;
use rand::rngs::StdRng;
use rand::seq::SliceRandom;
use rand::Rng;
use serde_json::json;
use signature::Signer;
use std::collections::BTreeMap;

const DOC_TYPES: [&str; 3] = [MDL, "org.example.doc2", "org.example.doc3"];
const NOT_HELD: &str = "org.example.not-held";

fn opt<T>(o: &Option<T>, f: impl Fn(&T) -> Value) -> Value {
    match o {
        Some(x) => f(x),
        None => Value::Null,
    }
}

/// spec case: the emitted bytes go to the validator
fn check(ctx: &mut Ctx, label: &str, desc: serde_json::Value, kind: &str, msg: &[u8]) {
    ctx.count(&format!("validated:{kind}"));
    // C18_DUMP=<dir>: keep every emitted message (hex) for inspection / reproduction
    if let Ok(dir) = std::env::var("C18_DUMP") {
        let _ = std::fs::create_dir_all(&dir);
        let _ = std::fs::write(format!("{dir}/{:05}_{}.{kind}.hex", ctx.evaluations, label.replace([':', '/'], "_")), hex::encode(msg));
    }
    ctx.case(label, desc, bytes(msg), None, Some(("c18.validate", vec![text(kind)])), true);
}

/// correspondence case: the composer's bytes for these components against the real bytes
fn corr(ctx: &mut Ctx, label: &str, desc: serde_json::Value, real: &[u8], what: &str, mut components: Vec<Value>) {
    ctx.count(&format!("composed:{what}"));
    let mut args = vec![text(what)];
    args.append(&mut components);
    ctx.case(label, desc, bytes(real), Some(("c18.compose", args)), None, true);
}

// ---------------------------------------------------------------------------------------------
// engagement configurations

#[derive(Clone, Debug)]
enum Method {
    Nfc(u64, u64),
    Ble { central: Option<[u8; 16]>, peripheral: Option<([u8; 16], Option<Vec<u8>>)> },
    Wifi { pass: Option<String>, class: Option<u64>, chan: Option<u64>, band: Option<Vec<u8>> },
}

type ServerMethod = (u64, String, String);
type Server = Option<(Option<ServerMethod>, Option<ServerMethod>)>;

fn imap(entries: Vec<(u64, Value)>) -> Value {
    Value::Map(entries.into_iter().map(|(k, v)| (uint(k), v)).collect())
}

impl Method {
    /// the library value; NFC and Wi-Fi options have private fields and are built from CBOR,
    /// the only public way
    fn to_lib(&self) -> Option<DeviceRetrievalMethod> {
        match self {
            Method::Nfc(c, r) => {
                let b = to_bytes(&imap(vec![(0, uint(*c)), (1, uint(*r))]));
                isomdl::cbor::from_slice::<NfcOptions>(&b).ok().map(DeviceRetrievalMethod::NFC)
            }
            Method::Ble { central, peripheral } => Some(DeviceRetrievalMethod::BLE(BleOptions {
                central_client_mode: central.map(|u| CentralClientMode { uuid: uuid::Uuid::from_bytes(u) }),
                peripheral_server_mode: peripheral.as_ref().map(|(u, a)| PeripheralServerMode {
                    uuid: uuid::Uuid::from_bytes(*u),
                    ble_device_address: a.clone().map(Into::into),
                }),
            })),
            Method::Wifi { pass, class, chan, band } => {
                let mut m = vec![];
                if let Some(p) = pass { m.push((0, text(p))); }
                if let Some(c) = class { m.push((1, uint(*c))); }
                if let Some(c) = chan { m.push((2, uint(*c))); }
                if let Some(b) = band { m.push((3, bytes(b))); }
                isomdl::cbor::from_slice::<WifiOptions>(&to_bytes(&imap(m))).ok().map(DeviceRetrievalMethod::WIFI)
            }
        }
    }
    /// descriptor understood by coq/Api/C18.v method_of
    fn to_model(&self) -> Value {
        match self {
            Method::Nfc(c, r) => arr(vec![uint(1), uint(*c), uint(*r)]),
            Method::Ble { central, peripheral } => arr(vec![
                uint(2),
                opt(central, |u| bytes(u)),
                opt(peripheral, |(u, a)| arr(vec![bytes(u), opt(a, |a| bytes(a))])),
            ]),
            Method::Wifi { pass, class, chan, band } => {
                arr(vec![uint(3), opt(pass, |p| text(p)), opt(class, |c| uint(*c)), opt(chan, |c| uint(*c)), opt(band, |b| bytes(b))])
            }
        }
    }
}

fn server_to_lib(s: &Server) -> Option<ServerRetrievalMethods> {
    s.as_ref().map(|(w, o)| {
        let mut m = vec![];
        let tri = |(v, a, b): &ServerMethod| arr(vec![uint(*v), text(a), text(b)]);
        if let Some(w) = w { m.push((text("webApi"), tri(w))); }
        if let Some(o) = o { m.push((text("oidc"), tri(o))); }
        isomdl::cbor::from_slice::<ServerRetrievalMethods>(&to_bytes(&Value::Map(m))).expect("server retrieval methods from cbor")
    })
}
fn server_to_model(s: &Server) -> Value {
    let tri = |(v, a, b): &ServerMethod| arr(vec![uint(*v), text(a), text(b)]);
    opt(s, |(w, o)| arr(vec![opt(w, tri), opt(o, tri)]))
}

fn uuid16(rng: &mut StdRng) -> [u8; 16] {
    rng.gen()
}

/// every option subset of every retrieval method type, boundary NFC lengths, combinations
fn engagement_configs(rng: &mut StdRng, thorough: bool) -> Vec<(Option<Vec<Method>>, Server)> {
    let mut singles: Vec<Method> = vec![];
    for central in [false, true] {
        for periph in 0..3 {
            singles.push(Method::Ble {
                central: central.then(|| uuid16(rng)),
                peripheral: match periph {
                    0 => None,
                    1 => Some((uuid16(rng), None)),
                    _ => Some((uuid16(rng), Some((0..6).map(|_| rng.gen()).collect()))),
                },
            });
        }
    }
    for mask in 0..16u32 {
        singles.push(Method::Wifi {
            pass: (mask & 1 != 0).then(|| format!("pass phrase {mask} \u{e9}")),
            class: (mask & 2 != 0).then(|| rng.gen_range(0..300)),
            chan: (mask & 4 != 0).then(|| rng.gen_range(0..70000)),
            band: (mask & 8 != 0).then(|| (0..rng.gen_range(0..5)).map(|_| rng.gen()).collect()),
        });
    }
    for (c, r) in [(255, 256), (65535, 65536), (256, 65535), (1000, 70000), (65535, 65537), (255, u32::MAX as u64)] {
        singles.push(Method::Nfc(c, r));
    }
    singles.push(Method::Nfc(rng.gen_range(255..=65535), rng.gen_range(256..=65536)));
    let mut out: Vec<(Option<Vec<Method>>, Server)> = vec![(None, None)];
    for m in &singles {
        out.push((Some(vec![m.clone()]), None));
    }
    let sm = |i: u64| (i, format!("https://issuer.example/{i}"), format!("token-{i}"));
    for s in [Some((None, None)), Some((Some(sm(1)), None)), Some((None, Some(sm(2)))), Some((Some(sm(3)), Some(sm(4))))] {
        out.push((None, s.clone()));
        out.push((Some(vec![singles[rng.gen_range(0..6)].clone()]), s));
    }
    let combos = if thorough { 200 } else { 12 };
    for _ in 0..combos {
        let n = rng.gen_range(2..=4);
        let ms: Vec<Method> = (0..n).map(|_| singles.choose(rng).unwrap().clone()).collect();
        let s = match rng.gen_range(0..4) { 0 => Some((Some(sm(5)), Some(sm(6)))), _ => None };
        out.push((Some(ms), s));
    }
    out
}

// ---------------------------------------------------------------------------------------------
// documents

#[derive(Clone)]
#[allow(dead_code)]
struct Held {
    doc_type: String,
    kty: &'static str,
    crv: &'static str,
    signer: Option<SigningKey>,
    sig_len: usize,
    namespaces: BTreeMap<String, BTreeMap<String, Value>>,
}

const CURVES: [(&str, &str, usize, usize); 8] = [
    // (kty, crv, coordinate length, signature length)
    ("EC2", "P256", 32, 64),
    ("EC2", "P384", 48, 96),
    ("EC2", "P521", 66, 132),
    ("EC2", "P256K", 32, 64),
    ("OKP", "Ed25519", 32, 64),
    ("OKP", "Ed448", 57, 114),
    ("OKP", "X25519", 32, 0),
    ("OKP", "X448", 56, 0),
];

fn rand_bytes(rng: &mut StdRng, n: usize) -> Vec<u8> {
    (0..n).map(|_| rng.gen()).collect()
}

fn make_key(rng: &mut StdRng, kty: &str, crv: &str, len: usize) -> (CoseKey, Option<SigningKey>) {
    if (kty, crv) == ("EC2", "P256") {
        let k = SigningKey::random(rng);
        return (cose_key_of(&k), Some(k));
    }
    let x = rand_bytes(rng, len);
    let key = match (kty, crv) {
        ("EC2", c) => {
            let crv = match c { "P384" => EC2Curve::P384, "P521" => EC2Curve::P521, _ => EC2Curve::P256K };
            let y = if rng.gen_bool(0.25) { EC2Y::SignBit(rng.gen()) } else { EC2Y::Value(rand_bytes(rng, len)) };
            CoseKey::EC2 { crv, x, y }
        }
        (_, c) => {
            let crv = match c { "Ed25519" => OKPCurve::Ed25519, "Ed448" => OKPCurve::Ed448, "X25519" => OKPCurve::X25519, _ => OKPCurve::X448 };
            CoseKey::OKP { crv, x }
        }
    };
    (key, None)
}

fn doc_namespaces(rng: &mut StdRng, i: usize) -> BTreeMap<String, BTreeMap<String, Value>> {
    let mut core = BTreeMap::new();
    core.insert("family_name".to_string(), Value::Text(format!("Doe{i}")));
    core.insert("given_name".to_string(), Value::Text("Jane \u{00e9}".into()));
    core.insert("age_over_18".to_string(), Value::Bool(true));
    core.insert("age_over_21".to_string(), Value::Bool(i % 2 == 0));
    core.insert("birth_date".to_string(), Value::Tag(1004, Box::new(Value::Text("1990-01-02".into()))));
    core.insert("driving_privileges".to_string(), Value::Array(vec![Value::Map(vec![(text("vehicle_category_code"), text("B"))])]));
    if rng.gen_bool(0.6) {
        let n = rng.gen_range(0..2000);
        core.insert("portrait".to_string(), Value::Bytes(rand_bytes(rng, n)));
    }
    let mut m: BTreeMap<String, BTreeMap<String, Value>> = [(NS.to_string(), core)].into_iter().collect();
    if rng.gen_bool(0.5) {
        let mut aamva = BTreeMap::new();
        aamva.insert("DHS_compliance".to_string(), Value::Text("F".into()));
        aamva.insert("sex".to_string(), Value::Integer(1.into()));
        m.insert(NS_AAMVA.to_string(), aamva);
    }
    m
}

fn key_authorizations(rng: &mut StdRng, namespaces: &BTreeMap<String, BTreeMap<String, Value>>, mode: u8) -> Option<KeyAuthorizations> {
    let nss: Vec<String> = namespaces.keys().cloned().collect();
    match mode % 4 {
        0 => None,
        1 => Some(KeyAuthorizations { namespaces: NonEmptyVec::maybe_new(nss), data_elements: None }),
        2 => {
            let m: BTreeMap<String, NonEmptyVec<String>> = namespaces
                .iter()
                .map(|(ns, els)| (ns.clone(), NonEmptyVec::maybe_new(els.keys().take(rng.gen_range(1..=2)).cloned().collect()).unwrap()))
                .collect();
            Some(KeyAuthorizations { namespaces: None, data_elements: m.try_into().ok() })
        }
        _ => {
            // first namespace authorised as a whole, the others element-wise (disjoint, as 9.1.2.4 demands)
            let first = nss[0].clone();
            let rest: BTreeMap<String, NonEmptyVec<String>> = namespaces
                .iter()
                .skip(1)
                .map(|(ns, els)| (ns.clone(), NonEmptyVec::maybe_new(els.keys().take(1).cloned().collect()).unwrap()))
                .collect();
            Some(KeyAuthorizations { namespaces: NonEmptyVec::maybe_new(vec![first]), data_elements: rest.try_into().ok() })
        }
    }
}

#[allow(clippy::too_many_arguments)]
fn issue_doc(
    ctx: &mut Ctx,
    rng: &mut StdRng,
    pki: &Pki,
    doc_type: &str,
    curve: (&'static str, &'static str, usize, usize),
    alg: DigestAlgorithm,
    decoys: bool,
    auth_mode: u8,
    i: usize,
) -> (Mdoc, Held) {
    let (kty, crv, len, sig_len) = curve;
    let (device_key, signer) = make_key(rng, kty, crv, len);
    let namespaces = doc_namespaces(rng, i);
    // sub-second parts of every size, the four dates in turn: none, below a millisecond, whole milliseconds, almost a second
    const FRACTIONS: [u32; 8] = [0, 1, 999, 1_000, 999_999, 1_000_000, 500_000_000, 999_999_999];
    let frac = |k: usize| FRACTIONS[(i + k * 3) % FRACTIONS.len()];
    let now = time::OffsetDateTime::now_utc();
    let validity_info = ValidityInfo {
        signed: now.replace_nanosecond(frac(0)).unwrap(),
        valid_from: now.replace_nanosecond(frac(1)).unwrap(),
        valid_until: (now + time::Duration::days(30)).replace_nanosecond(frac(2)).unwrap(),
        expected_update: if rng.gen_bool(0.5) || i % 4 == 1 { Some((now + time::Duration::days(10)).replace_nanosecond(frac(3)).unwrap()) } else { None },
    };
    ctx.count(&format!("validity:fractions:{}/{}/{}", frac(0), frac(1), frac(2)));
    let key_info: Option<BTreeMap<i128, Value>> =
        if rng.gen_bool(0.3) { Some([(1i128, Value::Text("info".into())), (-5i128, Value::Integer(7.into()))].into_iter().collect()) } else { None };
    let x5chain = X5Chain::builder().with_certificate(pki.ds.clone()).unwrap().build().unwrap();
    let auth = key_authorizations(rng, &namespaces, auth_mode);
    let mdoc = Mdoc::builder()
        .doc_type(doc_type.to_string())
        .namespaces(namespaces.clone())
        .validity_info(validity_info)
        .digest_algorithm(alg)
        .device_key_info(DeviceKeyInfo { device_key, key_authorizations: auth, key_info })
        .enable_decoy_digests(decoys)
        .issue::<SigningKey, p256::ecdsa::Signature>(x5chain, pki.ds_key.clone())
        .expect("issue mdoc");
    // every issued MSO, and the issuer-signed structure that carries it
    let algname = match alg { DigestAlgorithm::SHA256 => "SHA-256", DigestAlgorithm::SHA384 => "SHA-384", DigestAlgorithm::SHA512 => "SHA-512" };
    let desc = json!({"docType": doc_type, "device_key": format!("{kty}/{crv}"), "digest": algname, "decoys": decoys, "key_authorizations": auth_mode % 4});
    ctx.count(&format!("mso:{algname}:decoys={decoys}:auth={}", auth_mode % 4));
    ctx.count(&format!("mso:key:{kty}/{crv}"));
    let mso_bytes = isomdl::cbor::to_vec(&mdoc.mso).expect("encode mso");
    check(ctx, "mso", desc.clone(), "mso", &mso_bytes);
    let is = IssuerSigned { namespaces: Some(mdoc.namespaces.clone()), issuer_auth: mdoc.issuer_auth.clone() };
    check(ctx, "issuer_signed", desc, "issuer_signed", &isomdl::cbor::to_vec(&is).expect("encode issuer signed"));
    (mdoc, Held { doc_type: doc_type.to_string(), kty, crv, signer, sig_len, namespaces })
}

// ---------------------------------------------------------------------------------------------
// sessions

fn as_map(v: &Value) -> &Vec<(Value, Value)> {
    v.as_map().expect("map")
}
fn get<'a>(v: &'a Value, key: &str) -> Option<&'a Value> {
    map_get(v, key)
}

/// request element sets (namespace -> identifiers)
fn request_sets() -> Vec<BTreeMap<String, Vec<String>>> {
    let s = |ns: &str, ids: &[&str]| (ns.to_string(), ids.iter().map(|x| x.to_string()).collect::<Vec<_>>());
    vec![
        [s(NS, &["age_over_21"])].into_iter().collect(),
        [s(NS, &["family_name", "given_name", "age_over_18", "portrait"])].into_iter().collect(),
        [s(NS, &["family_name", "not_an_element", "birth_date"]), s(NS_AAMVA, &["sex", "DHS_compliance", "organ_donor"])].into_iter().collect(),
        [s(NS, &["driving_privileges"]), s("org.example.unknown-namespace", &["x", "y"])].into_iter().collect(),
        [s("org.example.unknown-namespace", &["only"])].into_iter().collect(),
    ]
}

fn namespaces_model(spec: &BTreeMap<String, Vec<String>>) -> Value {
    // the BTreeMap order of the library: sorted namespaces, sorted identifiers
    Value::Map(
        spec.iter()
            .map(|(ns, ids)| {
                let mut ids = ids.clone();
                ids.sort();
                ids.dedup();
                (text(ns), Value::Map(ids.iter().map(|i| (text(i), Value::Bool(false))).collect()))
            })
            .collect(),
    )
}

struct Session {
    dev: device::SessionManager,
    rdr: reader::SessionManager,
    held: Vec<Held>,
    label: String,
}

impl Session {
    fn keys(&self) -> Keys {
        dev_view(&self.dev).0
    }

    /// a SessionData emitted by either side: validate it, open it, validate the plaintext
    fn emitted(&self, ctx: &mut Ctx, what: &str, desc: &serde_json::Value, msg: &[u8], from_device: bool) -> Option<Vec<u8>> {
        check(ctx, &format!("{}:session_data:{what}", self.label), desc.clone(), "session_data", msg);
        // the composer, from the components read back from the real message
        if let Some(v) = from_bytes(msg) {
            let d = get(&v, "data").cloned().unwrap_or(Value::Null);
            let s = get(&v, "status").cloned().unwrap_or(Value::Null);
            corr(ctx, &format!("{}:compose:session_data", self.label), desc.clone(), msg, "session_data", vec![d, s]);
        }
        let data = data_of(msg)?;
        let keys = self.keys();
        let key = if from_device { &keys.sk_device } else { &keys.sk_reader };
        let pt = find_iv(key, &data, 64).map(|(_, pt)| pt);
        if pt.is_none() {
            ctx.count("undecryptable_emission");
        }
        pt
    }

    /// one reader request delivered to the device
    fn request(&mut self, ctx: &mut Ctx, spec: &BTreeMap<String, Vec<String>>) -> bool {
        let desc = json!({"request": spec});
        let msg = match self.rdr.new_request(namespaces_of(spec)) {
            Ok(m) => m,
            Err(_) => { ctx.count("new_request_failed"); return false; }
        };
        if let Some(pt) = self.emitted(ctx, "request", &desc, &msg, false) {
            check(ctx, &format!("{}:device_request", self.label), desc.clone(), "device_request", &pt);
            corr(ctx, &format!("{}:compose:device_request", self.label), desc, &pt, "device_request", vec![namespaces_model(spec)]);
        }
        let out = self.dev.handle_request(&msg);
        out.errors.is_empty()
    }

    /// prepare, sign, retrieve; validates the response.  `doc_types`: what to ask and permit.
    fn respond(&mut self, ctx: &mut Ctx, rng: &mut StdRng, doc_types: &[String], spec: &BTreeMap<String, Vec<String>>, permit_all: bool) {
        let mut items: RequestedItems = vec![];
        let mut permitted: PermittedItems = BTreeMap::new();
        for t in doc_types {
            items.push(ItemsRequest { doc_type: t.clone(), namespaces: namespaces_of(spec), request_info: None });
            let p: BTreeMap<String, Vec<String>> = spec
                .iter()
                .map(|(ns, ids)| (ns.clone(), ids.iter().filter(|_| permit_all || rng.gen_bool(0.7)).cloned().collect()))
                .collect();
            permitted.insert(t.clone(), p);
        }
        let desc = json!({"doc_types": doc_types, "elements": spec, "permit_all": permit_all});
        // (the inherent method; with the DeviceSession trait in scope `self.dev.prepare_response` would pick the trait's &self method)
        device::SessionManager::prepare_response(&mut self.dev, &items, permitted);
        let mut guard = 0;
        while let Some((_, payload)) = self.dev.get_next_signature_payload().map(|(i, p)| (i, p.to_vec())) {
            let t = doc_type_of_payload(&payload).unwrap_or_default();
            let h = self.held.iter().find(|h| h.doc_type == t);
            let sig: Vec<u8> = match h {
                Some(Held { signer: Some(k), .. }) => { let s: p256::ecdsa::Signature = k.sign(&payload); s.to_vec() }
                Some(h) => rand_bytes(rng, h.sig_len),
                None => rand_bytes(rng, 64),
            };
            if let Err(e) = self.dev.submit_next_signature(sig) { ctx.count(&format!("submit_next_signature_error:{e}")); }
            guard += 1;
            if guard > 10 { break; }
        }
        self.retrieve(ctx, &desc, None);
    }

    /// retrieve the ready response and validate it; `expect_error`: status name of an error response
    fn retrieve(&mut self, ctx: &mut Ctx, desc: &serde_json::Value, expect_error: Option<&str>) {
        let msg = match self.dev.retrieve_response() {
            Some(m) => m,
            None => { ctx.count("no_response_ready"); return; }
        };
        let pt = match self.emitted(ctx, "response", desc, &msg, true) { Some(p) => p, None => return };
        check(ctx, &format!("{}:device_response", self.label), desc.clone(), "device_response", &pt);
        self.compose_response(ctx, desc, &pt, expect_error);
    }

    /// components of a real DeviceResponse -> composer
    fn compose_response(&self, ctx: &mut Ctx, desc: &serde_json::Value, pt: &[u8], expect_error: Option<&str>) {
        let v = match from_bytes(pt) { Some(v) => v, None => return };
        let status = get(&v, "status").map(as_u64).unwrap_or(999);
        ctx.count(&format!("response:status={status}"));
        if let Some(name) = expect_error {
            corr(ctx, &format!("{}:compose:error_response", self.label), desc.clone(), pt, "error_response", vec![text(name)]);
            return;
        }
        let mut docs = vec![];
        let ndocs = get(&v, "documents").and_then(|d| d.as_array()).map(|a| a.len()).unwrap_or(0);
        ctx.count(&format!("response:documents={ndocs}"));
        if let Some(Value::Array(ds)) = get(&v, "documents") {
            for d in ds {
                let dt = get(d, "docType").and_then(|t| t.as_text()).unwrap_or("").to_string();
                let h = match self.held.iter().find(|h| h.doc_type == dt) { Some(h) => h, None => return };
                let sig = get(d, "deviceSigned")
                    .and_then(|s| get(s, "deviceAuth"))
                    .and_then(|a| get(a, "deviceSignature"))
                    .and_then(|c| c.as_array())
                    .and_then(|a| a.get(3))
                    .and_then(|s| s.as_bytes().cloned())
                    .unwrap_or_default();
                let errs = get(d, "errors").cloned().unwrap_or(Value::Null);
                if errs != Value::Null { ctx.count("response:document_with_element_errors"); }
                if get(d, "issuerSigned").map(|i| get(i, "nameSpaces").is_none()).unwrap_or(false) { ctx.count("response:document_without_elements"); }
                docs.push(arr(vec![text(&dt), get(d, "issuerSigned").cloned().unwrap_or(Value::Null), text(h.kty), text(h.crv), bytes(&sig), errs]));
            }
        }
        let mut errs = vec![];
        if let Some(Value::Array(es)) = get(&v, "documentErrors") {
            ctx.count(&format!("response:document_errors={}", es.len()));
            for e in es {
                for (k, _) in as_map(e) {
                    errs.push(k.clone());
                }
            }
        }
        corr(ctx, &format!("{}:compose:device_response", self.label), desc.clone(), pt, "device_response", vec![arr(docs), arr(errs)]);
    }

    /// a harness-encrypted plaintext that is not CBOR / not a DeviceRequest: status 11 / 12 responses
    fn malformed_request(&mut self, ctx: &mut Ctx, not_cbor: bool) {
        let keys = self.keys();
        let ctr = keys.reader_ctr as u32 + 1;
        let pt: Vec<u8> = if not_cbor { vec![0xff, 0x00, 0x1c] } else { vec![0x83, 0x01, 0x02, 0x03] };
        let ct = aes_encrypt(&keys.sk_reader, &iso_iv(false, ctr), &pt);
        let msg = session_data(Some(&ct), None);
        let _ = self.dev.handle_request(&msg);
        let name = if not_cbor { "CborDecodingError" } else { "CborValidationError" };
        self.retrieve(ctx, &json!({"malformed_request_plaintext": hex::encode(&pt)}), Some(name));
    }
}

#[allow(clippy::type_complexity)]
fn open_session(ctx: &mut Ctx, rng: &mut StdRng, label: &str, mdocs: &[Mdoc], held: &[Held], cfg: &(Option<Vec<Method>>, Server),
                first: &BTreeMap<String, Vec<String>>) -> Option<Session> {
    let (methods, server) = cfg;
    let desc = json!({"methods": format!("{methods:?}"), "server": format!("{server:?}")});
    let lib_methods: Option<Vec<DeviceRetrievalMethod>> = match methods {
        None => None,
        Some(ms) => {
            let v: Vec<Option<DeviceRetrievalMethod>> = ms.iter().map(|m| m.to_lib()).collect();
            if v.iter().any(|m| m.is_none()) {
                // the library refuses to build these options: nothing is emitted
                ctx.count("engagement:options_refused_by_library");
                return None;
            }
            Some(v.into_iter().flatten().collect())
        }
    };
    let drms = lib_methods.map(|v| NonEmptyVec::maybe_new(v).expect("non-empty methods"));
    let docs: Documents = documents_of(mdocs.to_vec());
    let init = device::SessionManagerInit::initialise(docs, drms, server_to_lib(server)).ok()?;
    let (engaged, qr) = init.qr_engagement().ok()?;
    // the engagement bytes: base64url (no padding) after "mdoc:", decoded by the harness
    let b64 = qr.strip_prefix("mdoc:").unwrap_or(&qr);
    let eng = base64::decode_config(b64, base64::URL_SAFE_NO_PAD).unwrap_or_default();
    for m in methods.iter().flatten() {
        ctx.count(&format!("engagement:method:{}", match m { Method::Nfc(..) => "nfc", Method::Ble { .. } => "ble", Method::Wifi { .. } => "wifi" }));
    }
    ctx.count(&format!("engagement:methods={}", methods.as_ref().map(|m| m.len()).unwrap_or(0)));
    ctx.count(&format!("engagement:server={}", server.is_some()));
    check(ctx, &format!("{label}:engagement"), desc.clone(), "engagement", &eng);
    if let Some(v) = from_bytes(&eng) {
        let key = as_map(&v).iter().find(|(k, _)| *k == uint(1)).and_then(|(_, s)| s.as_array()).and_then(|a| a.get(1)).and_then(|t| match t {
            Value::Tag(24, b) => b.as_bytes().cloned(),
            _ => None,
        });
        if let Some(kb) = key {
            check(ctx, &format!("{label}:e_device_key"), desc.clone(), "cose_key", &kb);
            corr(ctx, &format!("{label}:compose:engagement"), desc.clone(), &eng, "engagement",
                 vec![bytes(&kb), opt(methods, |ms| arr(ms.iter().map(|m| m.to_model()).collect())), server_to_model(server)]);
            // the ephemeral key itself from its coordinates
            if let Some(k) = from_bytes(&kb) {
                let coord = |l: i64| as_map(&k).iter().find(|(kk, _)| *kk == Value::Integer(l.into())).and_then(|(_, x)| x.as_bytes().cloned()).unwrap_or_default();
                corr(ctx, &format!("{label}:compose:ephemeral_key"), desc.clone(), &kb, "ephemeral_key", vec![bytes(&coord(-2)), bytes(&coord(-3))]);
            }
        }
    }
    let (rdr, establishment, _) = match reader::SessionManager::establish_session(qr.clone(), namespaces_of(first), Default::default()) {
        Ok(x) => x,
        Err(_) => { ctx.count("reader_refused_engagement"); return None; }
    };
    check(ctx, &format!("{label}:establishment"), desc.clone(), "establishment", &establishment);
    let se: SessionEstablishment = isomdl::cbor::from_slice(&establishment).ok()?;
    if let Some(v) = from_bytes(&establishment) {
        let kb = get(&v, "eReaderKey").and_then(|t| match t { Value::Tag(24, b) => b.as_bytes().cloned(), _ => None }).unwrap_or_default();
        let ct = get(&v, "data").and_then(|d| d.as_bytes().cloned()).unwrap_or_default();
        corr(ctx, &format!("{label}:compose:establishment"), desc.clone(), &establishment, "establishment", vec![bytes(&kb), bytes(&ct)]);
    }
    let (dev, _) = engaged.process_session_establishment(se, Default::default()).ok()?;
    let s = Session { dev, rdr, held: held.to_vec(), label: label.to_string() };
    // the first request travels inside the establishment
    if let Some(data) = data_of(&establishment) {
        if let Some((_, pt)) = find_iv(&s.keys().sk_reader, &data, 4) {
            check(ctx, &format!("{label}:device_request"), json!({"request": first, "in": "establishment"}), "device_request", &pt);
            corr(ctx, &format!("{label}:compose:device_request"), json!({"request": first}), &pt, "device_request", vec![namespaces_model(first)]);
        }
    }
    let _ = rng;
    Some(s)
}

// ---------------------------------------------------------------------------------------------
// a DeviceSession of the application's own (the trait is public): MAC device authentication

struct MacSession {
    documents: Documents,
    transcript: SessionTranscript180135,
}
impl DeviceSession for MacSession {
    type ST = SessionTranscript180135;
    fn documents(&self) -> &Documents {
        &self.documents
    }
    fn session_transcript(&self) -> SessionTranscript180135 {
        self.transcript.clone()
    }
    fn device_auth_type(&self) -> DeviceAuthType {
        DeviceAuthType::Mac0
    }
}

// ---------------------------------------------------------------------------------------------

fn iso_vectors(ctx: &mut Ctx) {
    // ISO D.5.1: the example SessionEstablishment and the DeviceRequest inside it (readerAuth present)
    let repo = std::env::var("VERIF_REPO").unwrap_or_else(|_| "/repo".into());
    let rd = |p: &str| std::fs::read_to_string(format!("{repo}/test/definitions/{p}")).ok().and_then(|s| hex::decode(s.trim()).ok());
    if let (Some(se), Some(key)) = (rd("session/session_establishment.cbor"), rd("session/reader_session_key.cbor")) {
        check(ctx, "vector:iso_session_establishment", json!({"file": "session_establishment.cbor"}), "establishment", &se);
        if let Some(pt) = data_of(&se).and_then(|d| aes_decrypt(&key, &iso_iv(false, 1), &d)) {
            check(ctx, "vector:iso_device_request_with_reader_auth", json!({"file": "session_establishment.cbor, decrypted"}), "device_request", &pt);
        }
    }
    if let Some(is) = rd("issuer_signed.cbor") {
        check(ctx, "vector:iso_issuer_signed", json!({"file": "issuer_signed.cbor"}), "issuer_signed", &is);
    }
    if let Some(k) = rd("cose_key/ec_p256.cbor") {
        check(ctx, "vector:cose_key", json!({"file": "cose_key/ec_p256.cbor"}), "cose_key", &k);
    }
}

/// the translated table CoseKey::signature_algorithm against the running code, row by row
fn sig_alg_rows(ctx: &mut Ctx, rng: &mut StdRng) {
    for (kty, crv, len, _) in CURVES {
        let (key, _) = make_key(rng, kty, crv, len);
        let alg = key.signature_algorithm().map(|a| a.to_i64());
        let enc = to_bytes(&Value::from(key.clone()));
        let kv = from_bytes(&enc).unwrap();
        let num = |l: i64| as_map(&kv).iter().find(|(k, _)| *k == Value::Integer(l.into())).map(|(_, v)| v.clone()).unwrap_or(Value::Null);
        let a = alg.map(|a| Value::Integer(a.into())).unwrap_or(Value::Null);
        // [model's algorithm, the RFC's algorithm for the numeric ids, [kty, crv]] must all be the running code's
        ctx.case(&format!("sig_alg:{kty}/{crv}"), json!({"kty": kty, "crv": crv}), arr(vec![a.clone(), a, arr(vec![num(1), num(-1)])]),
                 Some(("c18.compose", vec![text("sig_alg"), text(kty), text(crv)])), None, true);
        check(ctx, &format!("cose_key:{kty}/{crv}"), json!({"kty": kty, "crv": crv}), "cose_key", &enc);
    }
}

pub fn run(ctx: &mut Ctx) {
    let mut rng = StdRng::clone(&ctx.rng);
    let pki = Pki::generate(&mut rng);
    iso_vectors(ctx);
    sig_alg_rows(ctx, &mut rng);

    // ---- MSOs: every digest algorithm x decoys x key authorizations x device key curve
    let algs = [DigestAlgorithm::SHA256, DigestAlgorithm::SHA384, DigestAlgorithm::SHA512];
    let mut n = 0usize;
    for alg in algs {
        for decoys in [false, true] {
            for auth in 0..4u8 {
                let curve = CURVES[n % CURVES.len()];
                let _ = issue_doc(ctx, &mut rng, &pki, DOC_TYPES[n % 3], curve, alg, decoys, auth, n);
                n += 1;
            }
        }
    }

    // ---- sessions: one per engagement configuration
    let configs = engagement_configs(&mut rng, ctx.thorough);
    let sets = request_sets();
    let rounds = ctx.budget(1, 4) as usize;
    for (ci, cfg) in configs.iter().enumerate() {
        // 1..3 held documents, device keys over all curves (those without a signature algorithm give document errors)
        let ndocs = 1 + ci % 3;
        let mut mdocs = vec![];
        let mut held = vec![];
        for i in 0..ndocs {
            let curve = if i == 0 && ci % 4 != 3 { CURVES[0] } else { CURVES[(ci + i) % CURVES.len()] };
            let (m, h) = issue_doc(ctx, &mut rng, &pki, DOC_TYPES[i], curve, algs[(ci + i) % 3], (ci + i) % 2 == 0, (ci + i) as u8, ci * 3 + i);
            mdocs.push(m);
            held.push(h);
        }
        let label = format!("s{ci}");
        let first = &sets[ci % sets.len()];
        let mut s = match open_session(ctx, &mut rng, &label, &mdocs, &held, cfg, first) { Some(s) => s, None => continue };
        let all: Vec<String> = held.iter().map(|h| h.doc_type.clone()).collect();
        // response to the request that came with the establishment: all held documents
        s.respond(ctx, &mut rng, &all, first, true);
        for r in 0..rounds {
            let spec = &sets[(ci + r + 1) % sets.len()];
            if !s.request(ctx, spec) { break; }
            let mut types: Vec<String> = match (ci + r) % 5 {
                0 => all.clone(),
                1 => vec![all[0].clone()],
                2 => vec![],                                     // zero-document response
                3 => { let mut t = all.clone(); t.push(NOT_HELD.to_string()); t }   // document error
                _ => vec![NOT_HELD.to_string()],                 // only a document error
            };
            types.sort();
            types.dedup();
            s.respond(ctx, &mut rng, &types, spec, (ci + r) % 2 == 0);
        }
        // status 10: finalising a prepared response before every document is signed (public API)
        {
            let items: RequestedItems = vec![ItemsRequest { doc_type: all[0].clone(), namespaces: namespaces_of(&sets[0]), request_info: None }];
            let permitted: PermittedItems = [(all[0].clone(), sets[0].clone())].into_iter().collect();
            let prepared = DeviceSession::prepare_response(&s.dev, &items, permitted);
            if !prepared.is_complete() {
                let resp = prepared.finalize_response();
                if let Ok(b) = isomdl::cbor::to_vec(&resp) {
                    let desc = json!({"finalize_response": "before signing"});
                    check(ctx, &format!("{label}:device_response:general_error"), desc.clone(), "device_response", &b);
                    s.compose_response(ctx, &desc, &b, Some("GeneralError"));
                }
            }
        }
        // error responses last (they advance the device's receive counter past the reader's)
        s.malformed_request(ctx, ci % 2 == 0);
        s.malformed_request(ctx, ci % 2 != 0);

        // MAC device authentication through the public DeviceSession trait (first few sessions)
        if ci < 3 {
            mac_case(ctx, &mut rng, &label, &mdocs, &held);
        }
    }
    ctx.rng = rng;
}

/// DeviceAuthType::Mac0 through an application-defined DeviceSession
fn mac_case(ctx: &mut Ctx, rng: &mut StdRng, label: &str, mdocs: &[Mdoc], held: &[Held]) {
    let docs: Documents = documents_of(mdocs.to_vec());
    let init = match device::SessionManagerInit::initialise(docs.clone(), None, None) { Ok(i) => i, Err(_) => return };
    let (_, qr) = match init.qr_engagement() { Ok(x) => x, Err(_) => return };
    let de = match Tag24::<DeviceEngagement>::from_qr_code_uri(&qr) { Ok(d) => d, Err(_) => return };
    let (_, establishment, _) = match reader::SessionManager::establish_session(qr, namespaces_of(&request_sets()[0]), Default::default()) { Ok(x) => x, Err(_) => return };
    let se: SessionEstablishment = match isomdl::cbor::from_slice(&establishment) { Ok(s) => s, Err(_) => return };
    let ms = MacSession { documents: docs, transcript: SessionTranscript180135(de, se.e_reader_key, Handover::QR) };
    let h = &held[0];
    let spec = &request_sets()[1];
    let items: RequestedItems = vec![ItemsRequest { doc_type: h.doc_type.clone(), namespaces: namespaces_of(spec), request_info: None }];
    let permitted: PermittedItems = [(h.doc_type.clone(), spec.clone())].into_iter().collect();
    let mut prepared = ms.prepare_response(&items, permitted);
    let mut guard = 0;
    while prepared.get_next_signature_payload().is_some() && guard < 5 {
        prepared.submit_next_signature(rand_bytes(rng, 32));
        guard += 1;
    }
    let resp = prepared.finalize_response();
    if let Ok(b) = isomdl::cbor::to_vec(&resp) {
        ctx.count("mac_device_auth_response");
        check(ctx, &format!("{label}:device_response:mac"), json!({"device_auth_type": "Mac0", "via": "application-defined DeviceSession", "device_key": format!("{}/{}", h.kty, h.crv)}), "device_response", &b);
    }
}
