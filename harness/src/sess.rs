//! Shared session infrastructure: issuing documents, establishing device/reader sessions,
//! reading the stringified state, and AES-GCM done by the harness itself (aes-gcm directly).
use rand::Rng as _;
use crate::pki::Pki;
use aes_gcm::{aead::{Aead, KeyInit}, Aes256Gcm, Nonce};
use ciborium::Value;
use isomdl::definitions::device_key::cose_key::{EC2Curve, EC2Y};
use isomdl::definitions::device_request::{DataElements, Namespaces};
use isomdl::definitions::helpers::{NonEmptyMap, NonEmptyVec};
use isomdl::definitions::x509::trust_anchor::{TrustAnchor, TrustAnchorRegistry, TrustPurpose};
use isomdl::definitions::x509::X5Chain;
use isomdl::definitions::{CoseKey, DeviceKeyInfo, DeviceRetrievalMethod, DigestAlgorithm, SessionEstablishment, ValidityInfo};
use isomdl::issuance::Mdoc;
use isomdl::presentation::authentication::RequestAuthenticationOutcome;
use isomdl::presentation::device::{self, Document, Documents};
use isomdl::presentation::{reader, Stringify};
use p256::ecdsa::SigningKey;
use rand::rngs::StdRng;
use std::collections::BTreeMap;

pub const MDL: &str = "org.iso.18013.5.1.mDL";
pub const NS: &str = "org.iso.18013.5.1";
pub const NS_AAMVA: &str = "org.iso.18013.5.1.aamva";

pub fn cose_key_of(key: &SigningKey) -> CoseKey {
    let ep = key.verifying_key().to_encoded_point(false);
    CoseKey::EC2 { crv: EC2Curve::P256, x: ep.x().unwrap().to_vec(), y: EC2Y::Value(ep.y().unwrap().to_vec()) }
}

/// a P-256 key whose public point has a coordinate of a chosen shape (found by drawing keys):
/// 0: x = 00 [80..ff] …, 1: y = 00 [80..ff] …, 2: x = 00 [00..7f] …, 3: y = 00 [00..7f] …
pub fn ground_key(rng: &mut StdRng, shape: u8) -> SigningKey {
    loop {
        let k = SigningKey::random(&mut *rng);
        let ep = k.verifying_key().to_encoded_point(false);
        let c = if shape % 2 == 0 { ep.x().unwrap().to_vec() } else { ep.y().unwrap().to_vec() };
        if c[0] == 0 && ((c[1] >= 0x80) == (shape % 4 < 2)) { return k; }
    }
}

pub fn issue(
    rng: &mut StdRng,
    pki: &Pki,
    doc_type: &str,
    namespaces: BTreeMap<String, BTreeMap<String, Value>>,
    alg: DigestAlgorithm,
    decoys: bool,
) -> (Mdoc, SigningKey) {
    let device_key = SigningKey::random(rng);
    let ck = cose_key_of(&device_key);
    (issue_with_key(pki, doc_type, namespaces, alg, decoys, ck), device_key)
}

/// issue with an arbitrary device COSE key (e.g. one isomdl cannot sign with)
pub fn issue_with_key(
    pki: &Pki,
    doc_type: &str,
    namespaces: BTreeMap<String, BTreeMap<String, Value>>,
    alg: DigestAlgorithm,
    decoys: bool,
    device_cose_key: CoseKey,
) -> Mdoc {
    let now = time::OffsetDateTime::now_utc();
    let validity_info = ValidityInfo {
        signed: now,
        valid_from: now,
        valid_until: now + time::Duration::days(30),
        expected_update: None,
    };
    let x5chain = X5Chain::builder().with_certificate(pki.ds.clone()).unwrap().build().unwrap();
    let mdoc = Mdoc::builder()
        .doc_type(doc_type.to_string())
        .namespaces(namespaces)
        .validity_info(validity_info)
        .digest_algorithm(alg)
        .device_key_info(DeviceKeyInfo { device_key: device_cose_key, key_authorizations: None, key_info: None })
        .enable_decoy_digests(decoys)
        .issue::<SigningKey, p256::ecdsa::Signature>(x5chain, pki.ds_key.clone())
        .expect("issue mdoc");
    mdoc
}

/// A document as a THIRD-PARTY issuer may produce it: digestIDs numbered 0, 1, 2 … separately in every namespace
/// (so the same digestID occurs in several namespaces), items and MSO encoded by the harness, digests by sha2,
/// COSE_Sign1 by hand with the document signer's key.  Decoded by the library as an issued Mdoc.
pub fn issue_third_party(
    rng: &mut StdRng,
    pki: &Pki,
    doc_type: &str,
    namespaces: &BTreeMap<String, BTreeMap<String, Value>>,
    alg: DigestAlgorithm,
    device_cose_key: CoseKey,
) -> Option<Mdoc> {
    use sha2::Digest;
    let (first_ns, first_els) = namespaces.iter().next()?;
    let (first_id, first_v) = first_els.iter().next()?;
    let skeleton: BTreeMap<String, BTreeMap<String, Value>> = [(first_ns.clone(), [(first_id.clone(), first_v.clone())].into_iter().collect())].into_iter().collect();
    let template = issue_with_key(pki, doc_type, skeleton, alg, false, device_cose_key);
    let t = |s: &str| Value::Text(s.to_string());
    let mut ns_items: Vec<(Value, Value)> = vec![];
    let mut digests: Vec<(Value, Value)> = vec![];
    for (ns, els) in namespaces {
        let mut items = vec![];
        let mut ds = vec![];
        for (i, (id, v)) in els.iter().enumerate() {
            let item = Value::Map(vec![
                (t("digestID"), Value::Integer((i as u64).into())),
                (t("random"), Value::Bytes((0..16).map(|_| rng.gen()).collect())),
                (t("elementIdentifier"), t(id)),
                (t("elementValue"), v.clone()),
            ]);
            let tagged = Value::Tag(24, Box::new(Value::Bytes(crate::runner::to_bytes(&item))));
            let item_bytes = crate::runner::to_bytes(&tagged);
            let d = match alg {
                DigestAlgorithm::SHA256 => sha2::Sha256::digest(&item_bytes).to_vec(),
                DigestAlgorithm::SHA384 => sha2::Sha384::digest(&item_bytes).to_vec(),
                DigestAlgorithm::SHA512 => sha2::Sha512::digest(&item_bytes).to_vec(),
            };
            ds.push((Value::Integer((i as u64).into()), Value::Bytes(d)));
            items.push(tagged);
        }
        ns_items.push((t(ns), Value::Array(items)));
        digests.push((t(ns), Value::Map(ds)));
    }
    let mut mso_v = Value::serialized(&template.mso).ok()?;
    if let Value::Map(m) = &mut mso_v {
        for (k, v) in m.iter_mut() { if k.as_text() == Some("valueDigests") { *v = Value::Map(digests.clone()); } }
    }
    let payload = crate::runner::to_bytes(&Value::Tag(24, Box::new(Value::Bytes(crate::runner::to_bytes(&mso_v)))));
    let protected = vec![0xa1u8, 0x01, 0x26];
    let tbs = crate::runner::to_bytes(&Value::Array(vec![t("Signature1"), Value::Bytes(protected.clone()), Value::Bytes(vec![]), Value::Bytes(payload.clone())]));
    let sig: p256::ecdsa::Signature = signature::Signer::sign(&pki.ds_key, &tbs);
    use der::Encode;
    let issuer_auth = Value::Array(vec![Value::Bytes(protected), Value::Map(vec![(Value::Integer(33.into()), Value::Bytes(pki.ds.to_der().ok()?))]), Value::Bytes(payload), Value::Bytes(sig.to_vec())]);
    let mdoc_v = Value::Map(vec![(t("docType"), t(doc_type)), (t("mso"), mso_v), (t("namespaces"), Value::Map(ns_items)), (t("issuerAuth"), issuer_auth)]);
    isomdl::cbor::from_slice::<Mdoc>(&crate::runner::to_bytes(&mdoc_v)).ok()
}

pub fn registry(anchors: Vec<(x509_cert::Certificate, TrustPurpose)>) -> TrustAnchorRegistry {
    TrustAnchorRegistry { anchors: anchors.into_iter().map(|(certificate, purpose)| TrustAnchor { certificate, purpose }).collect() }
}

pub fn namespaces_of(req: &BTreeMap<String, Vec<String>>) -> Namespaces {
    let mut out: Option<Namespaces> = None;
    for (ns, ids) in req {
        let mut de: Option<DataElements> = None;
        for id in ids {
            match de.as_mut() {
                None => de = Some(DataElements::new(id.clone(), false)),
                Some(d) => { d.insert(id.clone(), false); }
            }
        }
        let de = de.expect("non-empty element list");
        match out.as_mut() {
            None => out = Some(Namespaces::new(ns.clone(), de)),
            Some(o) => { o.insert(ns.clone(), de); }
        }
    }
    out.expect("non-empty namespaces")
}

pub struct Established {
    pub dev: device::SessionManager,
    pub rdr: reader::SessionManager,
    pub first_outcome: RequestAuthenticationOutcome,
    pub qr: String,
    pub establishment: Vec<u8>,
    pub ble_reader: [u8; 16],
    pub ble_device: [u8; 16],
    pub engaged_state: String,
}

pub fn establish(
    docs: Documents,
    drms: Option<NonEmptyVec<DeviceRetrievalMethod>>,
    first_request: &BTreeMap<String, Vec<String>>,
    reader_registry: TrustAnchorRegistry,
    device_registry: TrustAnchorRegistry,
) -> anyhow::Result<Established> {
    let init = device::SessionManagerInit::initialise(docs, drms, None).map_err(|e| anyhow::anyhow!("{e}"))?;
    let ble_device = init.ble_ident()?;
    let (engaged, qr) = init.qr_engagement()?;
    let engaged_state = engaged.stringify()?;
    let (rdr, establishment, ble_reader) =
        reader::SessionManager::establish_session(qr.clone(), namespaces_of(first_request), reader_registry)?;
    let se: SessionEstablishment = isomdl::cbor::from_slice(&establishment)?;
    let (dev, first_outcome) = engaged.process_session_establishment(se, device_registry)?;
    Ok(Established { dev, rdr, first_outcome, qr, establishment, ble_reader, ble_device, engaged_state })
}

/// as documents_of, but every stored document gets the SAME `id` (a public field that nothing makes unique)
pub fn documents_of_same_id(mdocs: Vec<Mdoc>) -> Documents {
    let mut m: BTreeMap<String, Document> = BTreeMap::new();
    let shared = uuid::Uuid::from_bytes([7; 16]);
    for md in mdocs {
        let mut d: Document = md.clone().into();
        d.id = shared;
        m.insert(md.doc_type.clone(), d);
    }
    NonEmptyMap::try_from(m).expect("at least one document")
}

pub fn documents_of(mdocs: Vec<Mdoc>) -> Documents {
    let mut m: BTreeMap<String, Document> = BTreeMap::new();
    for md in mdocs {
        m.insert(md.doc_type.clone(), md.into());
    }
    NonEmptyMap::try_from(m).expect("at least one document")
}

// ---------- stringified state ----------

pub fn state_value(s: &str) -> Value {
    let data = base64::decode(s).expect("stringified state is base64");
    ciborium::from_reader(std::io::Cursor::new(&data)).expect("stringified state is cbor")
}

pub fn map_get<'a>(v: &'a Value, key: &str) -> Option<&'a Value> {
    v.as_map()?.iter().find(|(k, _)| k.as_text() == Some(key)).map(|(_, v)| v)
}

pub fn as_u8_array(v: &Value) -> Vec<u8> {
    match v {
        Value::Array(a) => a.iter().map(|x| i128::from(x.as_integer().unwrap()) as u8).collect(),
        Value::Bytes(b) => b.clone(),
        _ => panic!("expected byte array"),
    }
}

pub fn as_u64(v: &Value) -> u64 {
    i128::from(v.as_integer().expect("integer")) as u64
}

#[derive(Debug, Clone, PartialEq)]
pub enum StateView {
    Awaiting,
    Signing { prepared: usize, signed: usize },
    Ready(Vec<u8>),
}

#[derive(Debug, Clone)]
pub struct Keys {
    pub sk_device: Vec<u8>,
    pub sk_reader: Vec<u8>,
    pub device_ctr: u64,
    pub reader_ctr: u64,
}

pub fn dev_view(sm: &device::SessionManager) -> (Keys, StateView) {
    let v = state_value(&sm.stringify().expect("stringify device"));
    // a field missing from the serialised form reads as zero / empty (the comparison with the
    // model then shows the difference instead of the harness stopping)
    let keys = Keys {
        sk_device: map_get(&v, "sk_device").map(as_u8_array).unwrap_or_else(|| vec![0; 32]),
        sk_reader: map_get(&v, "sk_reader").map(as_u8_array).unwrap_or_else(|| vec![0; 32]),
        device_ctr: map_get(&v, "device_message_counter").map(as_u64).unwrap_or(0),
        reader_ctr: map_get(&v, "reader_message_counter").map(as_u64).unwrap_or(0),
    };
    let null = Value::Text("AwaitingRequest".into());
    let st = map_get(&v, "state").unwrap_or(&null);
    let view = match st {
        Value::Text(t) if t == "AwaitingRequest" => StateView::Awaiting,
        Value::Map(m) if m.len() == 1 => {
            let (k, inner) = &m[0];
            match k.as_text() {
                Some("Signing") => StateView::Signing {
                    prepared: map_get(inner, "prepared_documents").and_then(|x| x.as_array()).map(|a| a.len()).unwrap_or(0),
                    signed: map_get(inner, "signed_documents").and_then(|x| x.as_array()).map(|a| a.len()).unwrap_or(0),
                },
                Some("ReadyToRespond") => StateView::Ready(as_u8_array(inner)),
                _ => StateView::Awaiting,
            }
        }
        _ => StateView::Awaiting,
    };
    (keys, view)
}

pub fn rdr_view(sm: &reader::SessionManager) -> Keys {
    let v = state_value(&sm.stringify().expect("stringify reader"));
    Keys {
        sk_device: map_get(&v, "sk_device").map(as_u8_array).unwrap_or_else(|| vec![0; 32]),
        sk_reader: map_get(&v, "sk_reader").map(as_u8_array).unwrap_or_else(|| vec![0; 32]),
        device_ctr: map_get(&v, "device_message_counter").map(as_u64).unwrap_or(0),
        reader_ctr: map_get(&v, "reader_message_counter").map(as_u64).unwrap_or(0),
    }
}

// ---------- AES-GCM by the harness ----------

pub fn aes_encrypt(key: &[u8], iv: &[u8], pt: &[u8]) -> Vec<u8> {
    Aes256Gcm::new_from_slice(key).unwrap().encrypt(Nonce::from_slice(iv), pt).expect("encrypt")
}
pub fn aes_decrypt(key: &[u8], iv: &[u8], ct: &[u8]) -> Option<Vec<u8>> {
    Aes256Gcm::new_from_slice(key).unwrap().decrypt(Nonce::from_slice(iv), ct).ok()
}

pub fn iso_iv(device: bool, ctr: u32) -> Vec<u8> {
    let mut iv = vec![0u8; 7];
    iv.push(if device { 1 } else { 0 });
    iv.extend_from_slice(&ctr.to_be_bytes());
    iv
}

/// Identify the IV a ciphertext was produced with, by trial decryption over the ISO shapes for
/// counters 0..=max_ctr plus a few plausible wrong shapes (for diagnosis). Returns (iv, plaintext).
pub fn find_iv(key: &[u8], ct: &[u8], max_ctr: u32) -> Option<(Vec<u8>, Vec<u8>)> {
    for ctr in 0..=max_ctr {
        for dev in [false, true] {
            let iv = iso_iv(dev, ctr);
            if let Some(pt) = aes_decrypt(key, &iv, ct) {
                return Some((iv, pt));
            }
        }
    }
    for ctr in 0..=max_ctr {
        for id in 0u8..=2 {
            // little-endian counter, counter-first layout, other identifier bytes
            let mut a = vec![0u8; 7];
            a.push(id);
            a.extend_from_slice(&ctr.to_le_bytes());
            let mut b = ctr.to_be_bytes().to_vec();
            b.extend_from_slice(&[0, 0, 0, 0, 0, 0, 0, id]);
            let mut c = vec![id, 0, 0, 0, 0, 0, 0, 0];
            c.extend_from_slice(&ctr.to_be_bytes());
            for iv in [a, b, c] {
                if let Some(pt) = aes_decrypt(key, &iv, ct) {
                    return Some((iv, pt));
                }
            }
        }
    }
    None
}

pub fn session_data(data: Option<&[u8]>, status: Option<u64>) -> Vec<u8> {
    let mut m = vec![];
    if let Some(d) = data {
        m.push((Value::Text("data".into()), Value::Bytes(d.to_vec())));
    }
    if let Some(s) = status {
        m.push((Value::Text("status".into()), Value::Integer(s.into())));
    }
    crate::runner::to_bytes(&Value::Map(m))
}

/// the `data` byte string of an encoded SessionData / SessionEstablishment, if any
pub fn data_of(msg: &[u8]) -> Option<Vec<u8>> {
    let v = crate::runner::from_bytes(msg)?;
    map_get(&v, "data").and_then(|d| d.as_bytes().cloned())
}
