//! C09 — issuance (Mdoc::issue, Mdoc::prepare + PreparedMdoc::complete, DigestId::new) vs Model/Issuance.v.
//!
//! The implementation draws from thread_rng, so the correspondence is relational: from the returned
//! Mdoc the harness reads back what was drawn (digest ids, salts, number of decoys, decoy ids; the
//! decoy digests stand in for their unobservable 512-byte preimages), gives the model that tape and
//! requires the model's document to be byte-identical (MSO, item bytes, payload, protected bytes,
//! unprotected header, and for the prepare flow the offered signature payload).  The executable ISO
//! checker (Spec/IssuanceSpec.v) is evaluated on the implementation's document; the issuer
//! signature is checked with p256 / p384 directly over the RFC 8152 structure.
use crate::common::*;
use crate::pki::Pki;
use crate::runner::{from_bytes, to_bytes};
use crate::sess::cose_key_of;
use ciborium::Value;
use coset::iana;
use der::Encode;
use isomdl::definitions::device_key::KeyAuthorizations;
use isomdl::definitions::helpers::{NonEmptyMap, NonEmptyVec};
use isomdl::definitions::x509::X5Chain;
use isomdl::definitions::{DeviceKeyInfo, DigestAlgorithm, DigestId, ValidityInfo};
use isomdl::issuance::Mdoc;
use p256::ecdsa::{signature::Signer, signature::Verifier, SigningKey};
use rand::rngs::StdRng;
use rand::Rng;
use rand::SeedableRng;
use serde_json::json;
use std::collections::{BTreeMap, BTreeSet};

type Namespaces = BTreeMap<String, BTreeMap<String, Value>>;

// ---------- generators ----------

fn rand_string(rng: &mut StdRng, max: usize) -> String {
    let n = match rng.gen_range(0..10) { 0 => 0, 1 => rng.gen_range(0..=max), _ => rng.gen_range(1..=max.min(12)) };
    (0..n)
        .map(|_| match rng.gen_range(0..12) {
            0 => 'é',
            1 => '日',
            2 => '\u{1F600}',
            3 => '.',
            4 => '_',
            _ => (b'a' + rng.gen_range(0..26)) as char,
        })
        .collect()
}

fn rand_int(rng: &mut StdRng) -> Value {
    let v: i128 = match rng.gen_range(0..10) {
        0 => 0,
        1 => 23,
        2 => 24,
        3 => -1,
        4 => -25,
        5 => u64::MAX as i128,
        6 => -(u64::MAX as i128) - 1,
        7 => rng.gen::<u64>() as i128,
        8 => -(rng.gen::<u64>() as i128) - 1,
        _ => rng.gen_range(-70000..70000),
    };
    Value::Integer(ciborium::value::Integer::try_from(v).unwrap())
}

/// arbitrary CBOR: nested maps / arrays, tags, negative and 64-bit integers, empty strings, byte
/// strings (sometimes up to 2 KB), booleans, null, floats.  Tags 2 / 3 over byte strings are left
/// out: ciborium's *decoder* turns them into integers, so they cannot be carried to the model.
fn rand_value(rng: &mut StdRng, depth: u32, big: bool) -> Value {
    let k = if depth == 0 { rng.gen_range(0..7) } else { rng.gen_range(0..11) };
    match k {
        0 => rand_int(rng),
        1 => Value::Text(rand_string(rng, 40)),
        2 => {
            let n = if big && rng.gen_bool(0.5) { *[255usize, 256, 1000, 2048].get(rng.gen_range(0..4)).unwrap() } else { rng.gen_range(0..30) };
            Value::Bytes((0..n).map(|_| rng.gen()).collect())
        }
        3 => Value::Bool(rng.gen()),
        4 => Value::Null,
        5 => Value::Float(*[0.0f64, 1.5, -2.25, 1.0e300, 3.141592653589793, 65504.0, 100000.0].get(rng.gen_range(0..7)).unwrap()),
        6 => Value::Text(String::new()),
        7 => Value::Array((0..rng.gen_range(0..4)).map(|_| rand_value(rng, depth - 1, false)).collect()),
        8 => {
            let n = rng.gen_range(0..4);
            Value::Map((0..n).map(|i| {
                let key = if rng.gen_bool(0.5) { Value::Text(format!("k{i}{}", rand_string(rng, 4))) } else { Value::Integer((i as i64 - 1).into()) };
                (key, rand_value(rng, depth - 1, false))
            }).collect())
        }
        9 => {
            let t = *[0u64, 1, 24, 1004, 18013, 4294967296, u64::MAX].get(rng.gen_range(0..7)).unwrap();
            Value::Tag(t, Box::new(rand_value(rng, depth - 1, false)))
        }
        _ => Value::Array(vec![rand_int(rng), Value::Map(vec![(Value::Text("a".into()), Value::Array(vec![]))]), Value::Bytes(vec![])]),
    }
}

fn rand_namespaces(rng: &mut StdRng, allow_big: bool) -> Namespaces {
    let mut out = Namespaces::new();
    let nns = match rng.gen_range(0..10) { 0..=4 => 1, 5..=7 => 2, _ => 3 };
    for i in 0..nns {
        let name = match rng.gen_range(0..4) { 0 => "org.iso.18013.5.1".to_string(), 1 => "org.iso.18013.5.1.aamva".to_string(), _ => format!("ns{i}.{}", rand_string(rng, 8)) };
        let mut els = BTreeMap::new();
        let nel = match rng.gen_range(0..10) { 0..=3 => 1, 4..=6 => 2, 7..=8 => rng.gen_range(3..6), _ => rng.gen_range(6..12) };
        for j in 0..nel {
            let id = match rng.gen_range(0..6) { 0 => "family_name".to_string(), 1 => "age_over_18".to_string(), 2 => rand_string(rng, 30), _ => format!("e{j}_{}", rand_string(rng, 6)) };
            let big = allow_big && rng.gen_range(0..12) == 0;
            els.insert(id, rand_value(rng, 3, big));
        }
        out.insert(name, els);
    }
    out
}

// ---------- key authorisations ----------

#[derive(Clone, Debug)]
struct Auth {
    namespaces: Option<Vec<String>>,
    elements: Option<BTreeMap<String, Vec<String>>>,
}

fn rand_auth(rng: &mut StdRng, nss: &Namespaces, contradictory: bool) -> Option<Auth> {
    let names: Vec<String> = nss.keys().cloned().chain(["other.ns".to_string(), "x".to_string()]).collect();
    if contradictory {
        // some namespace both wholly and per element (possibly among others, in any position)
        let dup = names[rng.gen_range(0..names.len())].clone();
        let mut ns_list: Vec<String> = names.iter().filter(|_| rng.gen_bool(0.4)).cloned().collect();
        ns_list.insert(rng.gen_range(0..=ns_list.len()), dup.clone());
        let mut els = BTreeMap::new();
        els.insert(dup, vec!["a".to_string()]);
        if rng.gen_bool(0.5) { els.insert("zz.unrelated".to_string(), vec!["b".to_string(), "c".to_string()]); }
        return Some(Auth { namespaces: Some(ns_list), elements: Some(els) });
    }
    match rng.gen_range(0..6) {
        0 | 1 => None,
        2 => Some(Auth { namespaces: Some(vec![names[0].clone()]), elements: None }),
        3 => {
            let mut els = BTreeMap::new();
            els.insert(names[0].clone(), nss.values().next().map(|m| m.keys().cloned().collect::<Vec<_>>()).filter(|v: &Vec<String>| !v.is_empty()).unwrap_or(vec!["a".into()]));
            Some(Auth { namespaces: None, elements: Some(els) })
        }
        4 => {
            // both present, disjoint
            let mut els = BTreeMap::new();
            els.insert("only.per.element".to_string(), vec!["a".to_string()]);
            Some(Auth { namespaces: Some(names.clone()), elements: Some(els) })
        }
        _ => Some(Auth { namespaces: None, elements: None }),
    }
}

fn auth_to_isomdl(a: &Auth) -> KeyAuthorizations {
    KeyAuthorizations {
        namespaces: a.namespaces.as_ref().map(|v| NonEmptyVec::maybe_new(v.clone()).expect("non-empty")),
        data_elements: a.elements.as_ref().map(|m| {
            NonEmptyMap::maybe_new(m.iter().map(|(k, v)| (k.clone(), NonEmptyVec::maybe_new(v.clone()).expect("non-empty"))).collect()).expect("non-empty")
        }),
    }
}

fn auth_to_model(a: &Option<Auth>) -> Value {
    match a {
        None => Value::Null,
        Some(a) => arr(vec![
            match &a.namespaces { None => Value::Null, Some(v) => arr(v.iter().map(|s| text(s)).collect()) },
            match &a.elements {
                None => Value::Null,
                Some(m) => arr(m.iter().map(|(k, v)| arr(vec![text(k), arr(v.iter().map(|s| text(s)).collect())])).collect()),
            },
        ]),
    }
}

// ---------- observation ----------

fn alg_code(a: DigestAlgorithm) -> u64 {
    match a { DigestAlgorithm::SHA256 => 0, DigestAlgorithm::SHA384 => 1, DigestAlgorithm::SHA512 => 2 }
}

fn as_value<T: serde::Serialize>(t: &T) -> Value {
    from_bytes(&isomdl::cbor::to_vec(t).expect("encode")).expect("decode own encoding")
}

fn map_get<'a>(m: &'a Value, key: &str) -> Option<&'a Value> {
    m.as_map()?.iter().find(|(k, _)| k.as_text() == Some(key)).map(|(_, v)| v)
}

/// [docType, mso bytes, [[ns, [item bytes...]]...], protected, unprotected, payload, signature]
fn observe(mdoc: &Mdoc) -> Value {
    let mso_bytes = isomdl::cbor::to_vec(&mdoc.mso).expect("encode mso");
    let nss: Vec<Value> = mdoc.namespaces.iter().map(|(ns, items)| {
        arr(vec![text(ns), arr(items.iter().map(|it| bytes(&it.inner_bytes)).collect())])
    }).collect();
    let auth = as_value(&mdoc.issuer_auth);
    let a = match auth { Value::Tag(_, b) => *b, o => o };
    let a = a.as_array().cloned().expect("COSE_Sign1 array");
    arr(vec![text(&mdoc.doc_type), bytes(&mso_bytes), arr(nss), a[0].clone(), a[1].clone(), a[2].clone(), a[3].clone()])
}

struct Tape {
    ids: Vec<Value>,
    salt: Vec<u8>,
    counts: Vec<Value>,
    decoy_digests: Vec<Value>,
    n_items: usize,
    n_decoys: usize,
}

fn int_of(v: &Value) -> Option<i128> {
    v.as_integer().map(i128::from)
}

/// read back the draws from the document, in the order the model consumes them
fn reconstruct(mdoc: &Mdoc, decoys: bool) -> Option<Tape> {
    let mso = as_value(&mdoc.mso);
    let vds = map_get(&mso, "valueDigests")?;
    let mut item_ids: Vec<Value> = vec![];
    let mut decoy_ids: Vec<Value> = vec![];
    let mut tape = Tape { ids: vec![], salt: vec![], counts: vec![], decoy_digests: vec![], n_items: 0, n_decoys: 0 };
    for (ns, items) in mdoc.namespaces.iter() {
        let mut ids_here = BTreeSet::new();
        for it in items.iter() {
            let v = from_bytes(&it.inner_bytes)?;
            let id = int_of(map_get(&v, "digestID")?)?;
            ids_here.insert(id);
            item_ids.push(uint((id as i32) as u32 as u64));
            tape.salt.extend(map_get(&v, "random")?.as_bytes()?);
            tape.n_items += 1;
        }
        let vd = map_get(vds, ns)?.as_map()?;
        let mut n = 0u64;
        for (k, d) in vd.iter() {
            let id = int_of(k)?;
            if !ids_here.contains(&id) {
                decoy_ids.push(uint((id as i32) as u32 as u64));
                tape.decoy_digests.push(d.clone());
                n += 1;
            }
        }
        tape.n_decoys += n as usize;
        if decoys { tape.counts.push(uint(n.wrapping_sub(5))); }
        else if n > 0 { tape.counts.push(uint(n.wrapping_sub(5))); } // disabled but present: the model will disagree
    }
    tape.ids = item_ids.into_iter().chain(decoy_ids).collect();
    Some(tape)
}

fn tape_value(t: &Tape) -> Value {
    arr(vec![arr(t.ids.clone()), bytes(&t.salt), arr(t.counts.clone()), arr(t.decoy_digests.clone())])
}

fn request_value(doc_type: &str, nss: &Namespaces, validity: &Value, alg: DigestAlgorithm, dki: &Value, auth: &Option<Auth>, sig_alg: i64, decoys: bool) -> Value {
    arr(vec![
        text(doc_type),
        arr(nss.iter().map(|(ns, els)| arr(vec![text(ns), arr(els.iter().map(|(k, v)| arr(vec![text(k), v.clone()])).collect())])).collect()),
        validity.clone(),
        uint(alg_code(alg)),
        dki.clone(),
        auth_to_model(auth),
        Value::Integer(sig_alg.into()),
        Value::Bool(decoys),
    ])
}

enum SignerKey {
    P256(SigningKey),
    P384(p384::ecdsa::SigningKey),
}

impl SignerKey {
    fn alg(&self) -> (iana::Algorithm, i64) {
        match self { SignerKey::P256(_) => (iana::Algorithm::ES256, -7), SignerKey::P384(_) => (iana::Algorithm::ES384, -35) }
    }
    fn sign(&self, m: &[u8]) -> Vec<u8> {
        match self {
            SignerKey::P256(k) => { let s: p256::ecdsa::Signature = k.sign(m); s.to_vec() }
            SignerKey::P384(k) => { let s: p384::ecdsa::Signature = k.sign(m); s.to_vec() }
        }
    }
    fn verify(&self, m: &[u8], sig: &[u8]) -> bool {
        match self {
            SignerKey::P256(k) => p256::ecdsa::Signature::try_from(sig).map(|s| p256::ecdsa::VerifyingKey::from(k).verify(m, &s).is_ok()).unwrap_or(false),
            SignerKey::P384(k) => p384::ecdsa::Signature::try_from(sig).map(|s| p384::ecdsa::VerifyingKey::from(k).verify(m, &s).is_ok()).unwrap_or(false),
        }
    }
}

#[allow(clippy::too_many_arguments)]
fn one_issuance(ctx: &mut Ctx, pki: &Pki, label: &str, nss: Namespaces, auth: Option<Auth>, alg: DigestAlgorithm, decoys: bool, remote: bool, es384: bool, two_certs: bool) {
    let doc_type = if ctx.rng.gen_bool(0.7) { "org.iso.18013.5.1.mDL".to_string() } else { format!("doc.{}", rand_string(&mut ctx.rng, 10)) };
    let device_key = SigningKey::random(&mut ctx.rng);
    let now = time::OffsetDateTime::now_utc().replace_nanosecond(0).unwrap();
    // the issuer may hand over timestamps in any UTC offset (whole hours, +05:30, -03:30, +05:45 ...): the instant counts
    let in_some_offset = |ctx: &mut Ctx, t: time::OffsetDateTime| -> time::OffsetDateTime {
        let offs: [(i8, i8); 7] = [(0, 0), (0, 0), (1, 0), (5, 30), (-3, -30), (5, 45), (-11, 0)];
        let (h, m) = offs[ctx.rng.gen_range(0..offs.len())];
        t.to_offset(time::UtcOffset::from_hms(h, m, 0).unwrap())
    };
    // … and with any sub-second part (none, below a millisecond, whole milliseconds, almost a second): a tdate has none
    let fr = |ctx: &mut Ctx| -> u32 { let f = [0u32, 0, 1, 999, 999_999, 1_000_000, 500_000_000, 999_999_999]; f[ctx.rng.gen_range(0..f.len())] };
    let with_fraction = |t: time::OffsetDateTime, n: u32| t.replace_nanosecond(n).unwrap();
    let vf = with_fraction(now - time::Duration::days(ctx.rng.gen_range(0..400)), fr(ctx));
    let vu = with_fraction(now + time::Duration::days(ctx.rng.gen_range(1..4000)), fr(ctx));
    let now = with_fraction(now, fr(ctx));
    let validity_info = ValidityInfo {
        signed: in_some_offset(ctx, now),
        valid_from: in_some_offset(ctx, vf),
        valid_until: in_some_offset(ctx, vu),
        expected_update: if ctx.rng.gen_bool(0.3) { Some(in_some_offset(ctx, now + time::Duration::days(10))) } else { None },
    };
    let dki = DeviceKeyInfo {
        device_key: cose_key_of(&device_key),
        key_authorizations: auth.as_ref().map(auth_to_isomdl),
        key_info: if ctx.rng.gen_bool(0.2) { Some([(1i128, Value::Text("info".into())), (-3i128, Value::Bool(true))].into_iter().collect()) } else { None },
    };
    // the requested validity as the MSO must carry it, built WITHOUT the library's encoder: tdate of the instant in UTC
    let tdate = |t: &time::OffsetDateTime| -> Value {
        let utc = time::OffsetDateTime::from_unix_timestamp(t.unix_timestamp()).expect("instant");
        Value::Tag(0, Box::new(Value::Text(utc.format(&time::format_description::well_known::Rfc3339).expect("format"))))
    };
    let mut vm = vec![(text("signed"), tdate(&validity_info.signed)), (text("validFrom"), tdate(&validity_info.valid_from)), (text("validUntil"), tdate(&validity_info.valid_until))];
    if let Some(e) = &validity_info.expected_update { vm.push((text("expectedUpdate"), tdate(e))); }
    let validity_v = Value::Map(vm);
    let dki_v = as_value(&dki);
    // x5chain and its expected header value, built from the certificates' DER directly
    let certs: Vec<x509_cert::Certificate> = if two_certs { vec![pki.ds.clone(), pki.iaca.clone()] } else { vec![pki.ds.clone()] };
    // every fifth issuance: the chain is supplied as DER and ends with a certificate that parses but is NOT in canonical DER
    // (x509-cert would write it differently): the header must carry the bytes supplied
    let supplied_as_der = ctx.evaluations % 5 == 3;
    let mut ders: Vec<Vec<u8>> = certs.iter().map(|c| c.to_der().unwrap()).collect();
    if supplied_as_der { let mut r = ctx.rng.clone(); ders.push(crate::c10::noncanonical_cert(&mut r, (ctx.evaluations / 5 % 2) as u8)); ctx.rng = r; ctx.count("x5chain:supplied-as-non-canonical-der"); }
    let mut b = X5Chain::builder();
    if supplied_as_der { for d in &ders { b = b.with_der_certificate(d).expect("der cert"); } } else { for c in &certs { b = b.with_certificate(c.clone()).expect("cert"); } }
    let x5chain = b.build().expect("x5chain");
    let x5_expected = if ders.len() == 1 { bytes(&ders[0]) } else { arr(ders.iter().map(|d| bytes(d)).collect()) };
    let signer = if es384 { SignerKey::P384(p384::ecdsa::SigningKey::random(&mut ctx.rng)) } else { SignerKey::P256(pki.ds_key.clone()) };
    let (sig_alg, sig_alg_i) = signer.alg();

    let n_elems: usize = nss.values().map(|m| m.len()).sum();
    let desc = json!({"flow": if remote { "prepare+complete" } else { "issue" }, "alg": alg_code(alg), "decoys": decoys, "namespaces": nss.len(), "elements": n_elems,
                      "auth": auth.as_ref().map(|a| format!("{a:?}")), "sig_alg": sig_alg_i, "certs": certs.len(), "docType": doc_type});

    // ---- run the implementation ----
    let (result, tbs): (Result<Result<Mdoc, String>, String>, Option<Vec<u8>>);
    if remote {
        let mut tbs_seen = None;
        let r = catch(|| {
            Mdoc::prepare(doc_type.clone(), nss.clone(), validity_info.clone(), alg, dki.clone(), sig_alg, decoys).map_err(|e| e.to_string()).map(|p| {
                let t = p.signature_payload().to_vec();
                let sig = signer.sign(&t);
                tbs_seen = Some(t);
                p.complete(x5chain.clone(), sig)
            })
        });
        result = r; tbs = tbs_seen;
    } else {
        let r = catch(|| match &signer {
            SignerKey::P256(k) => Mdoc::issue::<SigningKey, p256::ecdsa::Signature>(doc_type.clone(), nss.clone(), validity_info.clone(), alg, dki.clone(), x5chain.clone(), decoys, k.clone()).map_err(|e| e.to_string()),
            SignerKey::P384(k) => Mdoc::issue::<p384::ecdsa::SigningKey, p384::ecdsa::Signature>(doc_type.clone(), nss.clone(), validity_info.clone(), alg, dki.clone(), x5chain.clone(), decoys, k.clone()).map_err(|e| e.to_string()),
        });
        result = r; tbs = None;
    }
    let request = request_value(&doc_type, &nss, &validity_v, alg, &dki_v, &auth, sig_alg_i, decoys);
    let release = !cfg!(debug_assertions);
    let nontrivial = n_elems >= 1;
    let code: u64 = match &result { Ok(Err(_)) => 1, Err(_) => 2, _ => 0 };
    match result {
        Ok(Ok(mdoc)) => {
            let o = observe(&mdoc);
            let oa = o.as_array().unwrap();
            let (prot, payload, sig) = (oa[3].as_bytes().cloned().unwrap_or_default(), oa[5].as_bytes().cloned(), oa[6].as_bytes().cloned().unwrap_or_default());
            // signature check by the harness, over the RFC structure of the *observed* protected bytes and payload
            let authentic = match &payload {
                Some(p) => match ctx.runner.query("c09.spec_tbs", vec![bytes(&prot), bytes(p)]) { Value::Bytes(t) => signer.verify(&t, &sig), _ => false },
                None => false,
            };
            if !authentic { ctx.count("signature_not_authentic"); }
            let tape = reconstruct(&mdoc, decoys);
            ctx.count(&format!("alg:{}", alg_code(alg)));
            ctx.count(if decoys { "decoys:on" } else { "decoys:off" });
            let spec = Some(("c09.spec", vec![request.clone(), x5_expected.clone(), Value::Bool(authentic)]));
            match tape {
                Some(t) => {
                    *ctx.dist.entry("items".into()).or_insert(0) += t.n_items as u64;
                    *ctx.dist.entry("decoy_digests".into()).or_insert(0) += t.n_decoys as u64;
                    let margs = vec![Value::Bool(release), request.clone(), tape_value(&t), x5_expected.clone(), bytes(&sig)];
                    if remote {
                        let obs = arr(vec![tbs.as_ref().map(|t| bytes(t)).unwrap_or(Value::Null), uint(0), o]);
                        ctx.case(label, desc, obs, Some(("c09.issue", margs)), spec, nontrivial);
                    } else {
                        ctx.case_with_prefix(label, desc, arr(vec![uint(0), o]), ("c09.issue", margs), 1, spec, nontrivial);
                    }
                }
                None => {
                    // the document cannot even be read back: only the spec can speak
                    ctx.count("tape_not_reconstructible");
                    ctx.case(label, desc, arr(vec![uint(0), o]), None, spec, nontrivial);
                }
            }
        }
        Ok(Err(_)) | Err(_) => {
            ctx.count(if code == 1 { "refused" } else { "panicked" });
            // a refusal reveals no draws; an empty namespace behind non-empty ones is reached only after
            // the earlier namespaces drew their ids and salts, so give the model a generous tape
            let ids: Vec<Value> = (1..=(n_elems as u64 + 4)).map(uint).collect();
            let margs = vec![Value::Bool(release), request.clone(), arr(vec![arr(ids), bytes(&vec![0u8; 16 * (n_elems + 1)]), arr(vec![]), arr(vec![])]), x5_expected.clone(), bytes(&[])];
            let spec = Some(("c09.spec", vec![request.clone(), x5_expected.clone(), Value::Bool(false)]));
            if remote {
                ctx.case(label, desc, arr(vec![Value::Null, uint(code)]), Some(("c09.issue", margs)), spec, nontrivial);
            } else {
                ctx.case_with_prefix(label, desc, arr(vec![uint(code)]), ("c09.issue", margs), 1, spec, nontrivial);
            }
        }
    }
}

// ---------- DigestId::new ----------

fn digest_id_obs(i: i32) -> Value {
    match catch(|| DigestId::new(i)) {
        Ok(d) => arr(vec![uint(0), as_value(&d)]),
        Err(_) => arr(vec![uint(1)]),
    }
}

fn digest_id_cases(ctx: &mut Ctx) {
    let release = !cfg!(debug_assertions);
    let mut inputs: Vec<i32> = vec![0, 1, -1, 2, -2, 23, 24, -24, -25, 255, 256, -256, 65535, 65536, -65536, i32::MAX, i32::MAX - 1, -i32::MAX, i32::MIN + 1, i32::MIN, 1 << 30, -(1 << 30)];
    let n = ctx.budget(300, 20000);
    for _ in 0..n {
        inputs.push(ctx.rng.gen());
    }
    for i in inputs {
        let obs = digest_id_obs(i);
        ctx.case("digest_id_new", json!({"i": i, "build": if release { "release" } else { "debug" }}), obs,
            Some(("c09.digest_id_new", vec![Value::Integer(i.into()), Value::Bool(release)])),
            Some(("c09.spec_id", vec![Value::Integer(i.into())])), true);
    }
}

/// thorough tier: all 2^32 inputs of the real constructor in a release build (second binary of this
/// crate), checked against the range predicate; every violating input then goes through the model
/// and the spec.  The debug-build behaviour at the boundary is covered by `digest_id_cases`.
fn digest_id_sweep(ctx: &mut Ctx) {
    let exe = std::env::current_exe().expect("current exe");
    let target_dir = exe.parent().and_then(|p| p.parent()).expect("target dir").to_path_buf();
    let manifest = concat!(env!("CARGO_MANIFEST_DIR"), "/Cargo.toml");
    let out = std::process::Command::new("cargo")
        .args(["run", "--offline", "--release", "--quiet", "--manifest-path", manifest, "--bin", "c09_sweep"])
        .env("CARGO_TARGET_DIR", &target_dir)
        .env("CARGO_NET_OFFLINE", "true")
        .env("RUSTFLAGS", "--cfg isomdl_verif")
        .output();
    let out = match out {
        Ok(o) if o.status.success() => String::from_utf8_lossy(&o.stdout).to_string(),
        Ok(o) => { ctx.notes.push(format!("c09_sweep failed: {}", String::from_utf8_lossy(&o.stderr).chars().rev().take(600).collect::<String>().chars().rev().collect::<String>())); ctx.count("sweep_not_run"); return; }
        Err(e) => { ctx.notes.push(format!("c09_sweep could not be started: {e}")); ctx.count("sweep_not_run"); return; }
    };
    let rep: serde_json::Value = match serde_json::from_str(out.trim()) { Ok(v) => v, Err(_) => { ctx.notes.push(format!("c09_sweep output unreadable: {out}")); ctx.count("sweep_not_run"); return; } };
    let checked = rep["checked"].as_u64().unwrap_or(0);
    let violators: Vec<i64> = rep["violators"].as_array().map(|a| a.iter().filter_map(|v| v.as_i64()).collect()).unwrap_or_default();
    let total = rep["violator_count"].as_u64().unwrap_or(0);
    ctx.notes.push(format!("release sweep of DigestId::new: {checked} inputs, {total} outside 0..2^31-1: {violators:?}"));
    *ctx.dist.entry("sweep_inputs".into()).or_insert(0) += checked;
    // the model's prediction (C09_digest_id_range / _refuted): exactly i32::MIN
    let obs = arr(vec![uint(checked), uint(total), arr(violators.iter().map(|v| Value::Integer((*v).into())).collect())]);
    ctx.case("digest_id_sweep_release", json!({"checked": checked, "violators": violators}), obs, Some(("c09.sweep_expect", vec![])), None, true);
    for v in violators {
        let val = rep["values"][v.to_string()].as_i64();
        let obs = match val { Some(x) => arr(vec![uint(0), Value::Integer(x.into())]), None => arr(vec![uint(1)]) };
        ctx.case("digest_id_new_release", json!({"i": v, "build": "release"}), obs,
            Some(("c09.digest_id_new", vec![Value::Integer(v.into()), Value::Bool(true)])),
            Some(("c09.spec_id", vec![Value::Integer(v.into())])), true);
    }
}

pub fn run(ctx: &mut Ctx) {
    let pki = Pki::generate(&mut ctx.rng);
    digest_id_cases(ctx);
    if ctx.thorough && !ctx.search && ctx.only_case.is_none() {
        digest_id_sweep(ctx);
    }
    let algs = [DigestAlgorithm::SHA256, DigestAlgorithm::SHA384, DigestAlgorithm::SHA512];
    // ---- structured-valid stream ----
    let n = ctx.budget(200, 5000);
    for i in 0..n {
        let big = i % 10 == 3;
        let nss = rand_namespaces(&mut ctx.rng, big);
        let alg = algs[(i % 3) as usize];
        let decoys = (i / 3) % 2 == 0;
        let remote = (i / 6) % 2 == 0;
        let es384 = i % 7 == 5;
        let two = i % 5 == 4;
        let auth = rand_auth(&mut ctx.rng, &nss, false);
        one_issuance(ctx, &pki, "issue_valid", nss, auth, alg, decoys, remote, es384, two);
    }
    // ---- items whose embedded encoding has EXACTLY a length at which a CBOR head changes width (255/256, 65535/65536):
    //      the digest input is #6.24(bstr) of those bytes in the shortest head ----
    {
        let probe = |n: usize| -> Option<usize> {
            let mut rng = rand::rngs::StdRng::seed_from_u64(7);
            let nsm: Namespaces = [("org.iso.18013.5.1".to_string(), [("portrait".to_string(), Value::Bytes(vec![7; n]))].into_iter().collect())].into_iter().collect();
            let (m, _) = crate::sess::issue(&mut rng, &pki, "org.iso.18013.5.1.mDL", nsm, DigestAlgorithm::SHA256, false);
            m.namespaces.iter().next().and_then(|(_, items)| items.iter().next().map(|it| it.inner_bytes.len()))
        };
        // overhead with a 3-byte byte-string head (n in 256..65536) and with a 2-byte head (n in 24..256)
        if let (Some(l3), Some(l2)) = (probe(1000), probe(100)) {
            let (c3, c2) = (l3 - 1000, l2 - 100);
            for (j, target) in [255usize, 256, 257, 65534, 65535, 65536, 65537].into_iter().enumerate() {
                let n = if target <= 300 { target.saturating_sub(c2) } else { target - c3 };
                for rep in 0..2 {
                    let nsm: Namespaces = [("org.iso.18013.5.1".to_string(), [("portrait".to_string(), Value::Bytes(vec![(j + rep) as u8; n]))].into_iter().collect())].into_iter().collect();
                    ctx.count(&format!("boundary_item:target={target}"));
                    one_issuance(ctx, &pki, "issue_boundary_item", nsm, None, algs[(j + rep) % 3], false, rep == 1, false, false);
                }
            }
        }
    }
    // ---- contradictory key authorisations, systematically: every ORDER of two or three wholly authorised namespaces
    //      (the list is a Vec in the caller's order, not sorted) x every position of the doubly authorised one ----
    {
        let names = ["org.iso.18013.5.1.aamva", "org.iso.18013.5.1", "zz.last", "a.first"];
        let mut lists: Vec<Vec<&str>> = vec![];
        for a in 0..names.len() { for b in 0..names.len() { if a != b {
            lists.push(vec![names[a], names[b]]);
            for c in 0..names.len() { if c != a && c != b { lists.push(vec![names[a], names[b], names[c]]); } }
        } } }
        let stride = if ctx.thorough { 1 } else { 3 };
        let mut k = 0usize;
        for l in lists.iter() {
            for dup in l.iter() {
                k += 1;
                if k % stride != 0 { continue; }
                let nss = rand_namespaces(&mut ctx.rng, false);
                let mut els = BTreeMap::new();
                els.insert(dup.to_string(), vec!["a".to_string()]);
                if k % 2 == 0 { els.insert("m.unrelated".to_string(), vec!["b".to_string()]); }
                let auth = Some(Auth { namespaces: Some(l.iter().map(|s| s.to_string()).collect()), elements: Some(els) });
                one_issuance(ctx, &pki, "issue_refusal_contradiction", nss, auth, algs[k % 3], false, k % 2 == 0, false, false);
            }
        }
    }
    // ---- refusal stream: empty maps, namespaces without elements, contradictory authorisations ----
    let n = ctx.budget(40, 800);
    for i in 0..n {
        let mut nss = rand_namespaces(&mut ctx.rng, false);
        let mut auth = rand_auth(&mut ctx.rng, &nss, false);
        match i % 4 {
            0 => nss = Namespaces::new(),
            1 => { let k = nss.keys().next().cloned().unwrap(); nss.insert(k, BTreeMap::new()); }
            2 => { nss.insert(format!("zz.empty{}", i), BTreeMap::new()); }
            _ => auth = rand_auth(&mut ctx.rng, &nss, true),
        }
        let alg = algs[(i % 3) as usize];
        one_issuance(ctx, &pki, "issue_refusal", nss, auth, alg, i % 2 == 0, (i / 2) % 2 == 0, false, false);
    }
    let _ = to_bytes;
}
