//! C11 — reader authentication on the device: DeviceRequests signed (or not) by the harness with
//! certificates from generated reader-CA chains, encrypted under the session key and delivered
//! through handle_request.
use crate::common::*;
use crate::pki::{self, Pki};
use crate::rauth::map_get_mut;
use crate::runner::{from_bytes, to_bytes};
use crate::sess::*;
use ciborium::Value;
use der::{Decode, Encode};
use isomdl::definitions::x509::trust_anchor::{TrustAnchorRegistry, TrustPurpose};
use isomdl::definitions::x509::validation::ValidationRuleset;
use isomdl::definitions::x509::X5Chain;
use isomdl::definitions::DigestAlgorithm;
use isomdl::presentation::{device, Stringify};
use p256::ecdsa::signature::{Signer, Verifier};
use p256::ecdsa::{Signature, SigningKey, VerifyingKey};
use rand::rngs::StdRng;
use rand::Rng;
use serde_json::json;

#[derive(Debug, Clone, Copy, PartialEq)]
enum Ra { Absent, Authentic, SigFlip, OtherSession, OtherItems, UntrustedCa, NoX5, GarbageX5, AttachedPayload, WrongAlg, OtherKey, ImpostorThenGenuine, GenuineThenCa, OtherSessionAttached, P384ThenSelfMade,
    /// the previous document request's readerAuth copied onto OTHER bytes that decode to the same ItemsRequest
    CopiedAuthReencoded }

pub fn items_request_bytes(rng: &mut StdRng, noncanonical: bool) -> Vec<u8> {
    let ids = ["family_name", "given_name", "age_over_18", "portrait"];
    let n = rng.gen_range(1..=3);
    let els: Vec<(Value, Value)> = ids.iter().take(n).map(|i| (text(i), Value::Bool(rng.gen()))).collect();
    let v = Value::Map(vec![(text("docType"), text(MDL)), (text("nameSpaces"), Value::Map(vec![(text(NS), Value::Map(els))]))]);
    let mut b = to_bytes(&v);
    if noncanonical {
        // same item, first map head written with a one-byte length argument (0xb8 0x02 instead of 0xa2)
        if b[0] == 0xa2 { b = [vec![0xb8, 0x02], b[1..].to_vec()].concat(); }
    }
    b
}

pub fn reader_auth(key: &SigningKey, cert_der: Option<Vec<u8>>, x5_override: Option<Value>, alg: i64, tbs_payload: &[u8], attach: bool) -> Value {
    let prot = to_bytes(&Value::Map(vec![(Value::Integer(1.into()), Value::Integer(alg.into()))]));
    let tbs = to_bytes(&arr(vec![text("Signature1"), bytes(&prot), bytes(&[]), bytes(tbs_payload)]));
    let s: Signature = key.sign(&tbs);
    let mut un = vec![];
    if let Some(v) = x5_override { un.push((Value::Integer(33.into()), v)); }
    else if let Some(d) = cert_der { un.push((Value::Integer(33.into()), bytes(&d))); }
    arr(vec![bytes(&prot), Value::Map(un), if attach { bytes(tbs_payload) } else { Value::Null }, bytes(&s.to_vec())])
}

pub fn rab(de: &[u8], erk: &[u8], items: &[u8]) -> Vec<u8> {
    let ra = arr(vec![text("ReaderAuthentication"),
        arr(vec![Value::Tag(24, Box::new(bytes(de))), Value::Tag(24, Box::new(bytes(erk))), Value::Null]),
        Value::Tag(24, Box::new(bytes(items)))]);
    to_bytes(&Value::Tag(24, Box::new(bytes(&to_bytes(&ra)))))
}

fn device_with_registry(dev: &device::SessionManager, reg: &TrustAnchorRegistry) -> device::SessionManager {
    let mut v = state_value(&dev.stringify().unwrap());
    if let Some(slot) = map_get_mut(&mut v, "trusted_verifiers") { *slot = Value::serialized(reg).unwrap(); }
    device::SessionManager::parse(base64::encode(to_bytes(&v))).expect("device with other registry")
}

pub fn run(ctx: &mut Ctx) {
    let scenes = ctx.budget(6, 200);
    // the LAST scene is the "expiry" scene: the reader's certificate is valid for three more seconds; a first, authentic request
    // is handled at once, the judged one (same chain, same session object) four seconds later
    for scene_i in 0..scenes + 1 {
        let expiry_scene = scene_i == scenes;
        let mut rng = ctx.rng.clone();
        let mut pki = Pki::generate(&mut rng);
        if expiry_scene {
            let now = std::time::SystemTime::now().duration_since(std::time::UNIX_EPOCH).unwrap().as_secs();
            if let Some(c) = pki::leaf_cert_valid(&pki.reader_key, &pki.reader_ca_key, "CN=Test Reader CA,C=US", "CN=Test Reader,C=US", pki::EKU_READER, 93, now - 60, now + 3) { pki.reader = c; }
        }
        let other_pki = Pki::generate(&mut rng);
        let (m, _) = issue(&mut rng, &pki, MDL, [(NS.to_string(), [("family_name".to_string(), Value::Text("Doe".into()))].into_iter().collect())].into_iter().collect(), DigestAlgorithm::SHA256, false);
        let first: std::collections::BTreeMap<String, Vec<String>> = [(NS.to_string(), vec!["family_name".to_string()])].into_iter().collect();
        let Ok(e) = establish(documents_of(vec![m.clone()]), None, &first, Default::default(), Default::default()) else { ctx.rng = rng; continue };
        let Ok(e2) = establish(documents_of(vec![m]), None, &first, Default::default(), Default::default()) else { ctx.rng = rng; continue };
        let tr = |e: &Established| -> (Vec<u8>, Vec<u8>) {
            let de = base64::decode_config(e.qr.strip_prefix("mdoc:").unwrap(), base64::Config::new(base64::CharacterSet::UrlSafe, false)).unwrap();
            let est = from_bytes(&e.establishment).unwrap();
            let erk = match map_get(&est, "eReaderKey") { Some(Value::Tag(24, b)) => b.as_bytes().unwrap().clone(), _ => vec![] };
            (de, erk)
        };
        let (de, erk) = tr(&e);
        let (de2, erk2) = tr(&e2);
        let regs: Vec<(&str, TrustAnchorRegistry)> = vec![
            ("right-reader-ca", registry(vec![(pki.reader_ca.clone(), TrustPurpose::ReaderCa)])),
            ("empty", TrustAnchorRegistry::default()),
            ("iaca-purpose-only", registry(vec![(pki.reader_ca.clone(), TrustPurpose::Iaca)])),
            ("unrelated-reader-ca", registry(vec![(other_pki.reader_ca.clone(), TrustPurpose::ReaderCa)])),
            ("mixed", registry(vec![(pki.iaca.clone(), TrustPurpose::Iaca), (other_pki.reader_ca.clone(), TrustPurpose::ReaderCa), (pki.reader_ca.clone(), TrustPurpose::ReaderCa)])),
            // the reader CA's certificate was renewed with the same key: the EXPIRED earlier issue / the NOT YET VALID next
            // issue (same name, same key identifier) is listed before the current one
            ("expired-twin-then-right-reader-ca", registry(vec![(pki::root_cert_valid(&pki.reader_ca_key, "CN=Test Reader CA,C=US", 71, 1_000_000_000, 1_100_000_000), TrustPurpose::ReaderCa), (pki.reader_ca.clone(), TrustPurpose::ReaderCa)])),
            ("future-twin-then-right-reader-ca", registry(vec![(pki::root_cert_valid(&pki.reader_ca_key, "CN=Test Reader CA,C=US", 72, 4_000_000_000, 4_100_000_000), TrustPurpose::ReaderCa), (pki.reader_ca.clone(), TrustPurpose::ReaderCa)])),
            ("iaca-then-right-reader-ca-as-iaca", registry(vec![(other_pki.reader_ca.clone(), TrustPurpose::ReaderCa), (pki.reader_ca.clone(), TrustPurpose::Iaca)])),
            ("expired-twin-only", registry(vec![(pki::root_cert_valid(&pki.reader_ca_key, "CN=Test Reader CA,C=US", 71, 1_000_000_000, 1_100_000_000), TrustPurpose::ReaderCa)])),
        ];
        let kinds = [Ra::Absent, Ra::Authentic, Ra::SigFlip, Ra::OtherSession, Ra::OtherItems, Ra::UntrustedCa, Ra::NoX5, Ra::GarbageX5, Ra::AttachedPayload, Ra::WrongAlg, Ra::OtherKey, Ra::ImpostorThenGenuine, Ra::GenuineThenCa, Ra::OtherSessionAttached, Ra::P384ThenSelfMade, Ra::CopiedAuthReencoded];
        let ncases = if ctx.thorough { 120 } else { 40 };
        // fixed patterns of several document requests (the verdict is over the WHOLE message)
        let patterns: Vec<Vec<Ra>> = vec![
            vec![Ra::Absent, Ra::Authentic], vec![Ra::Authentic, Ra::Absent], vec![Ra::Absent, Ra::Absent, Ra::Authentic], vec![Ra::Authentic, Ra::Authentic],
            vec![Ra::NoX5, Ra::Authentic], vec![Ra::GarbageX5, Ra::Authentic], vec![Ra::SigFlip, Ra::Authentic], vec![Ra::Authentic, Ra::SigFlip],
            vec![Ra::UntrustedCa, Ra::Authentic], vec![Ra::Authentic, Ra::OtherSession], vec![Ra::Authentic, Ra::Authentic, Ra::OtherItems], vec![Ra::AttachedPayload, Ra::Authentic],
            vec![Ra::Authentic, Ra::ImpostorThenGenuine], vec![Ra::Authentic, Ra::CopiedAuthReencoded], vec![Ra::Authentic, Ra::CopiedAuthReencoded, Ra::Authentic], vec![Ra::CopiedAuthReencoded, Ra::Authentic], vec![Ra::OtherKey, Ra::Authentic, Ra::Authentic], vec![Ra::P384ThenSelfMade], vec![Ra::Authentic, Ra::P384ThenSelfMade],
        ];
        // … and the single-request kinds that matter under each of the registries above (index into `regs`)
        let mut patterns: Vec<(usize, Vec<Ra>)> = patterns.into_iter().map(|p| (0, p)).collect();
        for ri in 1..regs.len() { for k in [Ra::Authentic, Ra::UntrustedCa, Ra::OtherKey] { patterns.push((ri, vec![k])); } }
        for ri in 5..regs.len() { patterns.push((ri, vec![Ra::Authentic, Ra::Authentic])); patterns.push((ri, vec![Ra::Authentic, Ra::Absent])); }
        let (ncases, patterns) = if expiry_scene { (0, vec![(0usize, vec![Ra::Authentic]), (0, vec![Ra::Authentic, Ra::Authentic])]) } else { (ncases, patterns) };
        let ncases = ncases + patterns.len();
        for ci in 0..ncases {
            let pattern_full: Option<&(usize, Vec<Ra>)> = if ci >= ncases - patterns.len() { Some(&patterns[ci - (ncases - patterns.len())]) } else { None };
            let pattern: Option<&Vec<Ra>> = pattern_full.map(|p| &p.1);
            let ndr = match pattern { Some(p) => p.len(), None => if ci < kinds.len() { 1 } else { rng.gen_range(1..=3) } };
            let (reg_name, reg) = &regs[if let Some(p) = pattern_full { p.0 } else if ci < kinds.len() * 2 { ci % 2 * (ci / kinds.len()) } else { rng.gen_range(0..regs.len()) }];
            let mut dev = device_with_registry(&e.dev, reg);
            // one case in four is the SECOND request of its session: an authentic, reader-authenticated request came first
            let warmed = ci % 4 == 3 || expiry_scene;
            if warmed {
                let items0 = items_request_bytes(&mut rng, false);
                let ra0 = reader_auth(&pki.reader_key, Some(pki.reader.to_der().unwrap()), None, -7, &rab(&de, &erk, &items0), false);
                let req0 = Value::Map(vec![(text("version"), text("1.0")), (text("docRequests"), arr(vec![Value::Map(vec![(text("itemsRequest"), Value::Tag(24, Box::new(bytes(&items0)))), (text("readerAuth"), ra0)])]))]);
                let (dk0, _) = dev_view(&dev);
                let msg0 = session_data(Some(&aes_encrypt(&dk0.sk_reader, &iso_iv(false, dk0.reader_ctr as u32 + 1), &to_bytes(&req0))), None);
                let _ = catch(|| dev.handle_request(&msg0));
                ctx.count("second-request-of-session");
                if expiry_scene && ci == 0 { std::thread::sleep(std::time::Duration::from_secs(4)); ctx.count("second-request-after-the-certificate-expired"); }
            }
            let mut doc_requests = vec![];
            let mut prev: Option<(Vec<u8>, Option<Value>)> = None;
            let mut model_reqs = vec![];
            let mut desc_kinds = vec![];
            for di in 0..ndr {
                let kind = if let Some(p) = pattern { p[di] } else if ci < kinds.len() { kinds[ci] } else if ci < kinds.len() * 2 { kinds[ci - kinds.len()] }
                           else if rng.gen_bool(0.6) { Ra::Authentic } else { kinds[rng.gen_range(0..kinds.len())] };
                desc_kinds.push(format!("{kind:?}"));
                let noncanon = rng.gen_bool(0.3);
                let mut items = items_request_bytes(&mut rng, noncanon);
                if matches!(kind, Ra::CopiedAuthReencoded) {
                    if let Some((pi, _)) = &prev {
                        // the same item in another encoding: the canonical one if the original was not, else a one-byte map head
                        let canon = from_bytes(pi).map(|v| to_bytes(&v)).unwrap_or_default();
                        items = if canon != *pi { canon } else if pi.first() == Some(&0xa2) { [vec![0xb8, 0x02], pi[1..].to_vec()].concat() } else { pi.clone() };
                    }
                }
                let payload = rab(&de, &erk, &items);
                let reader_der = pki.reader.to_der().unwrap();
                let ra: Option<Value> = match kind {
                    Ra::Absent => None,
                    Ra::CopiedAuthReencoded => prev.as_ref().and_then(|(_, r)| r.clone()),
                    Ra::Authentic => Some(reader_auth(&pki.reader_key, Some(reader_der), None, -7, &payload, false)),
                    Ra::SigFlip => { let mut v = reader_auth(&pki.reader_key, Some(reader_der), None, -7, &payload, false);
                        if let Value::Array(a) = &mut v { if let Value::Bytes(s) = &mut a[3] { let i = rng.gen_range(0..s.len()); s[i] ^= 1 << rng.gen_range(0..8); } } Some(v) }
                    Ra::OtherSession => Some(reader_auth(&pki.reader_key, Some(reader_der), None, -7, &rab(&de2, &erk2, &items), false)),
                    Ra::OtherItems => { let other = items_request_bytes(&mut rng, false); let mut o2 = other.clone(); o2.push(0); let _ = o2;
                        Some(reader_auth(&pki.reader_key, Some(reader_der), None, -7, &rab(&de, &erk, &[other, vec![]].concat().iter().rev().cloned().collect::<Vec<u8>>()), false)) }
                    Ra::UntrustedCa => Some(reader_auth(&other_pki.reader_key, Some(other_pki.reader.to_der().unwrap()), None, -7, &payload, false)),
                    Ra::NoX5 => Some(reader_auth(&pki.reader_key, None, None, -7, &payload, false)),
                    Ra::GarbageX5 => Some(reader_auth(&pki.reader_key, None, Some(bytes(&[1, 2, 3, 4])), -7, &payload, false)),
                    Ra::AttachedPayload => Some(reader_auth(&pki.reader_key, Some(reader_der), None, -7, &payload, true)),
                    Ra::WrongAlg => Some(reader_auth(&pki.reader_key, Some(reader_der), None, -35, &payload, false)),
                    Ra::OtherKey => Some(reader_auth(&other_pki.reader_key, Some(reader_der), None, -7, &payload, false)),
                    // x5chain [impostor's own certificate, a genuine trusted reader's certificate], signed by the impostor
                    Ra::ImpostorThenGenuine => Some(reader_auth(&other_pki.reader_key, None, Some(arr(vec![bytes(&other_pki.reader.to_der().unwrap()), bytes(&reader_der)])), -7, &payload, false)),
                    // x5chain [genuine reader certificate, its CA certificate], signed by the genuine reader
                    Ra::GenuineThenCa => Some(reader_auth(&pki.reader_key, None, Some(arr(vec![bytes(&reader_der), bytes(&pki.reader_ca.to_der().unwrap())])), -7, &payload, false)),
                    // x5chain [a TRUSTED reader certificate whose key is on P-384 (unusable for ES256), a self-made P-256
                    // certificate], signed with the self-made key
                    Ra::P384ThenSelfMade => {
                        let k384 = p384::ecdsa::SigningKey::random(&mut rng);
                        match pki::leaf_cert_p384(&k384, &pki.reader_ca_key, "CN=Test Reader CA,C=US", "CN=Test Reader 384,C=US", pki::EKU_READER, 44) {
                            Some(c384) => Some(reader_auth(&other_pki.reader_key, None, Some(arr(vec![bytes(&c384.to_der().unwrap()), bytes(&other_pki.reader.to_der().unwrap())])), -7, &payload, false)),
                            None => None,
                        }
                    }
                    // another session's authentic readerAuth replayed with THAT session's ReaderAuthenticationBytes attached
                    Ra::OtherSessionAttached => Some(reader_auth(&pki.reader_key, Some(reader_der), None, -7, &rab(&de2, &erk2, &items), true)),
                };
                prev = Some((items.clone(), ra.clone()));
                let mut dr = vec![(text("itemsRequest"), Value::Tag(24, Box::new(bytes(&items))))];
                if let Some(r) = &ra { dr.push((text("readerAuth"), r.clone())); }
                doc_requests.push(Value::Map(dr));
                // ---- oracles for this document request ----
                let (x5code, chain_valid, vk): (u64, bool, Option<VerifyingKey>) = match &ra {
                    None => (0, false, None),
                    Some(r) => {
                        let x5v = r.as_array().unwrap()[1].as_map().and_then(|m| m.iter().find(|(k, _)| k.as_integer().map(i128::from) == Some(33)).map(|(_, v)| v.clone()));
                        match x5v {
                            None => (0, false, None),
                            Some(v) => match X5Chain::from_cbor(v.clone()) {
                                Err(_) => (1, false, None),
                                Ok(chain) => {
                                    // the chain verdict is C12's subject; here it is an oracle, cross-checked by a necessary condition
                                    // computed with x509-cert and p256 only: the FIRST certificate is signed by a ReaderCa anchor's key
                                    let first_der = match &v { Value::Bytes(b) => b.clone(), Value::Array(a) => a.first().and_then(|x| x.as_bytes().cloned()).unwrap_or_default(), _ => vec![] };
                                    let indep = x509_cert::Certificate::from_der(&first_der).ok().map(|leaf| {
                                        use p256::pkcs8::DecodePublicKey;
                                        let tbs = leaf.tbs_certificate.to_der().unwrap_or_default();
                                        let t = std::time::SystemTime::now();
                                        if !(leaf.tbs_certificate.validity.not_before.to_system_time() <= t && t <= leaf.tbs_certificate.validity.not_after.to_system_time()) { return false; }
                                        let sig = leaf.signature.as_bytes().and_then(|b| Signature::from_der(b).ok());
                                        reg.anchors.iter().any(|a| a.purpose == TrustPurpose::ReaderCa
                                            && a.certificate.tbs_certificate.subject == leaf.tbs_certificate.issuer
                                            && { let now = std::time::SystemTime::now();
                                                 a.certificate.tbs_certificate.validity.not_before.to_system_time() <= now && now <= a.certificate.tbs_certificate.validity.not_after.to_system_time() }
                                            && match (&sig, a.certificate.tbs_certificate.subject_public_key_info.to_der().ok().and_then(|d| p256::PublicKey::from_public_key_der(&d).ok())) {
                                                (Some(s), Some(pk)) => VerifyingKey::from(&pk).verify(&tbs, s).is_ok(), _ => false })
                                    }).unwrap_or(false);
                                    // for the two reader certificates made by Pki::generate (conforming leaves by construction) the verdict
                                    // is the independent one alone: an anchor of the right purpose, name and key within its validity period
                                    let known_good_leaf = first_der == pki.reader.to_der().unwrap() || first_der == other_pki.reader.to_der().unwrap();
                                    let cv = if known_good_leaf { indep } else { ValidationRuleset::MdlReaderOneStep.validate(&chain, reg).success() && indep };
                                    let der = match &v { Value::Bytes(b) => b.clone(), Value::Array(a) => a[0].as_bytes().unwrap().clone(), _ => vec![] };
                                    let vk = x509_cert::Certificate::from_der(&der).ok().and_then(|c| c.tbs_certificate.subject_public_key_info.to_der().ok())
                                        .and_then(|d| { use p256::pkcs8::DecodePublicKey; p256::PublicKey::from_public_key_der(&d).ok() }).map(|pk| VerifyingKey::from(&pk));
                                    (2, cv, vk)
                                }
                            },
                        }
                    }
                };
                let ra_enc = ra.as_ref().map(|r| to_bytes(r));
                let (parses, authentic) = match (&ra, &ra_enc) {
                    (Some(r), Some(enc)) => {
                        let sig = r.as_array().unwrap()[3].as_bytes().cloned().unwrap_or_default();
                        let parsed = Signature::try_from(sig.as_slice()).ok();
                        let tbs = ctx.runner.query("c11.tbs", vec![bytes(&de), bytes(&erk), Value::Null, bytes(&items), bytes(enc)]);
                        let a = match (&tbs, &vk, &parsed) { (Value::Bytes(t), Some(k), Some(s)) => k.verify(t, s).is_ok(), _ => false };
                        (parsed.is_some(), a)
                    }
                    _ => (false, false),
                };
                model_reqs.push(arr(vec![bytes(&items), ra_enc.as_ref().map(|e| bytes(e)).unwrap_or(Value::Null), uint(x5code), Value::Bool(chain_valid), Value::Bool(vk.is_some()), arr(vec![Value::Bool(parses), Value::Bool(authentic)])]));
            }
            let request = Value::Map(vec![(text("version"), text("1.0")), (text("docRequests"), arr(doc_requests))]);
            let (dk, _) = dev_view(&dev);
            let req_bytes = if ci % 3 == 1 { ctx.loose_bytes(&request) } else { to_bytes(&request) };
            let msg = session_data(Some(&aes_encrypt(&dk.sk_reader, &iso_iv(false, dk.reader_ctr as u32 + 1), &req_bytes)), None);
            let r = catch(|| dev.handle_request(&msg));
            let obs = match &r {
                Ok(o) if o.errors.is_empty() || o.errors.keys().all(|k| k == "parsing_errors") && !o.items_request.is_empty() => uint(match o.reader_authentication {
                    isomdl::presentation::authentication::AuthenticationStatus::Unchecked => 0,
                    isomdl::presentation::authentication::AuthenticationStatus::Invalid => 1,
                    isomdl::presentation::authentication::AuthenticationStatus::Valid => 2 }),
                Ok(o) => arr(vec![text("errors"), text(&format!("{:?}", o.errors.keys().collect::<Vec<_>>()))]),
                Err(p) => arr(vec![text("panic"), text(p)]),
            };
            for k in &desc_kinds { ctx.count(&format!("reader_auth:{k}")); }
            ctx.count(&format!("registry:{reg_name}"));
            let args = vec![bytes(&de), bytes(&erk), Value::Null, arr(model_reqs)];
            ctx.case("reader_auth", json!({"doc_requests": desc_kinds, "registry": reg_name}), obs, Some(("c11.status", args.clone())), Some(("c11.spec", args)), true);
        }
        let _ = pki::EKU_READER;
        ctx.rng = rng;
    }
}
