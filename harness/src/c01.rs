//! C01 — honest end-to-end presentations against the composed model: keys, BLE ident, delivery
//! of every message over several rounds, exact reported elements, both authentication statuses.
use crate::common::*;
use crate::pki::Pki;
use crate::sess::*;
use ciborium::Value;
use isomdl::definitions::device_engagement::{BleOptions, CentralClientMode, DeviceRetrievalMethod, PeripheralServerMode, WifiOptions};
use isomdl::definitions::helpers::NonEmptyVec;
use isomdl::definitions::x509::trust_anchor::TrustPurpose;
use isomdl::definitions::DigestAlgorithm;
use isomdl::presentation::authentication::AuthenticationStatus;
use isomdl::presentation::device::PermittedItems;
use p256::ecdsa::{Signature, SigningKey};
use rand::rngs::StdRng;
use rand::Rng;
use serde_json::json;
use signature::Signer;
use std::collections::BTreeMap;

fn json_to_cbor(v: &serde_json::Value) -> Value {
    match v {
        serde_json::Value::Null => Value::Null,
        serde_json::Value::Bool(b) => Value::Bool(*b),
        serde_json::Value::Number(n) => match (n.as_u64(), n.as_i64()) {
            (Some(u), _) => Value::Integer(u.into()),
            (_, Some(i)) => Value::Integer(i.into()),
            _ => Value::Text(format!("number:{n}")),
        },
        serde_json::Value::String(s) => Value::Text(s.clone()),
        serde_json::Value::Array(a) => Value::Array(a.iter().map(json_to_cbor).collect()),
        serde_json::Value::Object(m) => { let mut e: Vec<(String, Value)> = m.iter().map(|(k, v)| (k.clone(), json_to_cbor(v))).collect(); e.sort_by(|a, b| a.0.as_bytes().cmp(b.0.as_bytes())); Value::Map(e.into_iter().map(|(k, v)| (Value::Text(k), v)).collect()) }
    }
}

/// element values over the mDL value grammar (plus a few that the reader cannot render)
fn value(rng: &mut StdRng, depth: u32) -> Value {
    match rng.gen_range(0..14) {
        0 | 1 => Value::Text(["Doe", "Jané", "", "D", "Ærøskøbing 12"][rng.gen_range(0..5)].to_string()),
        2 => Value::Tag(1004, Box::new(Value::Text("1990-0".to_string() + &rng.gen_range(1..10).to_string() + "-15"))),
        3 => Value::Tag(0, Box::new(Value::Text("2024-01-01T00:00:00Z".into()))),
        4 => Value::Integer(rng.gen_range(0..300u32).into()),
        5 => Value::Integer((-(rng.gen_range(1..100i64))).into()),
        6 => Value::Bool(rng.gen()),
        7 => Value::Bytes((0..rng.gen_range(0..if depth == 0 { 600 } else { 8 })).map(|_| rng.gen()).collect()),
        8 if depth < 2 => Value::Array((0..rng.gen_range(0..3)).map(|_| value(rng, depth + 1)).collect()),
        9 if depth < 2 => Value::Map((0..rng.gen_range(0..3)).map(|i| (Value::Text(format!("k{i}")), value(rng, depth + 1))).collect()),
        10 if depth < 2 => Value::Map(vec![(Value::Text("vehicle_category_code".into()), Value::Text("B".into())), (Value::Integer(7.into()), Value::Text("skipped".into())), (Value::Text("issue_date".into()), Value::Tag(1004, Box::new(Value::Text("2020-01-01".into()))))]),
        11 => Value::Integer(u64::MAX.into()),
        12 => if rng.gen_bool(0.5) { Value::Null } else { Value::Float(1.5) },
        _ => Value::Tag(24, Box::new(Value::Bytes(vec![1]))),
    }
}

// "sex" exists in both namespaces of the mDL data model: the same identifier under two namespaces
const CORE_IDS: [&str; 9] = ["family_name", "given_name", "birth_date", "portrait", "driving_privileges", "age_over_18", "height", "issue_date", "sex"];
const AAMVA_IDS: [&str; 5] = ["organ_donor", "DHS_compliance", "resident_county", "aamva_version", "sex"];

pub fn run(ctx: &mut Ctx) {
    let sessions = ctx.budget(25, 1200);
    let max_rounds = if ctx.thorough { 12 } else { 3 };
    // one more session at the end: the document signer's certificate becomes valid three seconds after the session starts; the
    // first round (before that) is played but not judged, the second round, four seconds later, is an honest presentation
    for si in 0..sessions + 1 {
        let late_ds = si == sessions;
        let mut rng = ctx.rng.clone();
        let mut pki = Pki::generate(&mut rng);
        if late_ds {
            let now = std::time::SystemTime::now().duration_since(std::time::UNIX_EPOCH).unwrap().as_secs();
            if let Some(c) = crate::pki::leaf_cert_valid(&pki.ds_key, &pki.iaca_key, "CN=Test IACA,C=US", "CN=Test DS,C=US", crate::pki::EKU_DS, 94, now + 3, now + 86_400) { pki.ds = c; }
            ctx.count("session:signer-certificate-valid-from-3s-after-start");
        }
        // held mDL
        let mut core: BTreeMap<String, Value> = BTreeMap::new();
        for id in CORE_IDS.iter() { if rng.gen_bool(0.75) { core.insert(id.to_string(), value(&mut rng, 0)); } }
        if core.is_empty() { core.insert("family_name".into(), Value::Text("Doe".into())); }
        let mut nsm: BTreeMap<String, BTreeMap<String, Value>> = [(NS.to_string(), core)].into_iter().collect();
        if rng.gen_bool(0.6) {
            let mut a: BTreeMap<String, Value> = BTreeMap::new();
            for id in AAMVA_IDS.iter() { if rng.gen_bool(0.7) { a.insert(id.to_string(), value(&mut rng, 0)); } }
            if !a.is_empty() { nsm.insert(NS_AAMVA.to_string(), a); }
        }
        // one session in four is the "shared identifier" scenario: `sex` held under both namespaces, requested under
        // ONE of them only, and a consent that covers everything
        let shared_scenario = si % 4 == 0;
        if shared_scenario {
            nsm.entry(NS.to_string()).or_default().insert("sex".into(), Value::Integer(1.into()));
            nsm.entry(NS.to_string()).or_default().insert("family_name".into(), Value::Text("Doe".into()));
            let a = nsm.entry(NS_AAMVA.to_string()).or_default();
            a.insert("sex".into(), Value::Integer(2.into()));
            a.insert("organ_donor".into(), Value::Integer(1.into()));
        }
        let alg = [DigestAlgorithm::SHA256, DigestAlgorithm::SHA384, DigestAlgorithm::SHA512][rng.gen_range(0..3)];
        let decoys = rng.gen_bool(0.5);
        // sessions 2, 6, 10 ...: the "colliding digestIDs" scenario — a third-party document with two elements in each of
        // the two namespaces (digestIDs 0 and 1 in both), all four requested and permitted in the first round
        let collide_scenario = si % 4 == 2;
        if collide_scenario {
            nsm = [(NS.to_string(), [("family_name".to_string(), Value::Text("Doe".into())), ("given_name".to_string(), Value::Text("Jane".into()))].into_iter().collect()),
                   (NS_AAMVA.to_string(), [("organ_donor".to_string(), Value::Integer(1.into())), ("sex".to_string(), Value::Integer(2.into()))].into_iter().collect())].into_iter().collect();
        }
        // one session in three presents a document of a third-party issuer (digestIDs restart at 0 in every namespace)
        let (mdoc, device_key): (_, SigningKey) = if si % 3 == 2 || collide_scenario {
            let dk = SigningKey::random(&mut rng);
            match issue_third_party(&mut rng, &pki, MDL, &nsm, alg, cose_key_of(&dk)) { Some(m) => { ctx.count("document:third-party-issuer"); (m, dk) } None => issue(&mut rng, &pki, MDL, nsm.clone(), alg, decoys) }
        } else if si % 6 == 3 {
            // a device key whose public point has a coordinate starting with a zero octet (the four shapes in turn)
            let dk = ground_key(&mut rng, (si / 6 % 4) as u8);
            ctx.count("device-key:coordinate-with-leading-zero");
            (issue_with_key(&pki, MDL, nsm.clone(), alg, decoys, cose_key_of(&dk)), dk)
        } else { issue(&mut rng, &pki, MDL, nsm.clone(), alg, decoys) };
        let mut mdocs = vec![mdoc];
        let mut keys: BTreeMap<String, SigningKey> = [(MDL.to_string(), device_key)].into_iter().collect();
        if rng.gen_bool(0.3) || si % 4 == 1 {
            let (m2, k2) = issue(&mut rng, &pki, "org.example.other", [(NS.to_string(), [("x".to_string(), Value::Bool(true))].into_iter().collect())].into_iter().collect(), alg, false);
            keys.insert("org.example.other".into(), k2);
            mdocs.push(m2);
        }
        let docs_cbor = arr(vec![arr(vec![text(MDL), Value::Bool(true),
            arr(nsm.iter().map(|(ns, els)| arr(vec![text(ns), arr(els.iter().map(|(id, v)| arr(vec![text(id), v.clone()])).collect())])).collect())])]);
        let drms: Option<NonEmptyVec<DeviceRetrievalMethod>> = match si % 5 {
            0 => None,
            1 => Some(NonEmptyVec::new(DeviceRetrievalMethod::BLE(BleOptions {
                peripheral_server_mode: Some(PeripheralServerMode { uuid: uuid::Uuid::from_bytes(rng.gen()), ble_device_address: None }),
                central_client_mode: Some(CentralClientMode { uuid: uuid::Uuid::from_bytes(rng.gen()) }) }))),
            2 => Some(NonEmptyVec::new(DeviceRetrievalMethod::WIFI(WifiOptions::default()))),
            3 => { let mut v = NonEmptyVec::new(DeviceRetrievalMethod::WIFI(WifiOptions::default()));
                   v.push(DeviceRetrievalMethod::BLE(BleOptions { peripheral_server_mode: None, central_client_mode: Some(CentralClientMode { uuid: uuid::Uuid::from_bytes(rng.gen()) }) })); Some(v) }
            _ => Some(NonEmptyVec::new(DeviceRetrievalMethod::BLE(BleOptions { peripheral_server_mode: Some(PeripheralServerMode { uuid: uuid::Uuid::from_bytes(rng.gen()), ble_device_address: Some(vec![1, 2, 3, 4, 5, 6].into()) }), central_client_mode: None }))),
        };
        let gen_req = |rng: &mut StdRng| -> BTreeMap<String, Vec<String>> {
            let mut r: BTreeMap<String, Vec<String>> = BTreeMap::new();
            let mut c: Vec<String> = CORE_IDS.iter().filter(|_| rng.gen_bool(0.6)).map(|s| s.to_string()).collect();
            if rng.gen_bool(0.3) { c.push("not_held_element".into()); }
            if c.is_empty() || rng.gen_bool(0.9) { c.push("family_name".into()); }
            c.sort(); c.dedup();
            r.insert(NS.to_string(), c);
            if rng.gen_bool(0.6) {
                let a: Vec<String> = AAMVA_IDS.iter().filter(|_| rng.gen_bool(0.6)).map(|s| s.to_string()).collect();
                if !a.is_empty() { r.insert(NS_AAMVA.to_string(), a); }
            }
            r
        };
        let first = if collide_scenario {
            [(NS.to_string(), vec!["family_name".to_string(), "given_name".to_string()]), (NS_AAMVA.to_string(), vec!["organ_donor".to_string(), "sex".to_string()])].into_iter().collect()
        } else if shared_scenario {
            let in_core = si % 8 == 0;
            [(NS.to_string(), if in_core { vec!["family_name".to_string(), "sex".to_string()] } else { vec!["family_name".to_string()] }),
             (NS_AAMVA.to_string(), if in_core { vec!["organ_donor".to_string()] } else { vec!["organ_donor".to_string(), "sex".to_string()] })].into_iter().collect()
        } else { gen_req(&mut rng) };
        // the reader trusts the issuer's root; in some sessions the registry also lists other roots first: an unrelated
        // one, and an EXPIRED earlier issue of the same root (same name, same key) as after a root renewal
        let mut anchors = vec![];
        if si % 4 == 1 { anchors.push((Pki::generate(&mut rng).iaca, TrustPurpose::Iaca)); }
        if si % 4 >= 2 { anchors.push((crate::pki::root_cert_valid(&pki.iaca_key, "CN=Test IACA,C=US", 7, 1_000_000_000, 1_100_000_000), TrustPurpose::Iaca)); ctx.count("registry:expired-earlier-issue-first"); }
        // ... or the root listed twice (merged trust lists), or next to a currently valid re-issue of itself (same name and key)
        if si % 8 == 0 { anchors.push((pki.iaca.clone(), TrustPurpose::Iaca)); ctx.count("registry:root-listed-twice"); }
        if si % 8 == 4 {
            let now = std::time::SystemTime::now().duration_since(std::time::UNIX_EPOCH).unwrap().as_secs();
            anchors.push((crate::pki::root_cert_valid(&pki.iaca_key, "CN=Test IACA,C=US", 17, now - 86_400, now + 10 * 86_400), TrustPurpose::Iaca));
            ctx.count("registry:valid-reissue-first");
        }
        anchors.push((pki.iaca.clone(), TrustPurpose::Iaca));
        if si % 4 == 3 { anchors.push((pki.reader_ca.clone(), TrustPurpose::ReaderCa)); }
        let reg = registry(anchors);
        let Ok(e) = establish(documents_of(mdocs), drms, &first, reg, Default::default()) else { ctx.rng = rng; continue };
        let (mut dev, mut rdr) = (e.dev, e.rdr);
        let ble_equal = e.ble_device == e.ble_reader;
        let nrounds = if late_ds { 2 } else if si % 4 == 1 { rng.gen_range(2..=max_rounds.max(2)) } else { rng.gen_range(1..=max_rounds) };
        let mut items = e.first_outcome.items_request.clone();
        let mut req = first;
        let mut foreign_sender = false;
        for round in 0..nrounds {
            if round > 0 {
                req = gen_req(&mut rng);
                // a holder with two documents, odd sessions: from the second round on the requests are made by the harness
                // acting as a third-party reader that names BOTH docTypes in one DeviceRequest (this library's reader can
                // only name the mDL); the real reader object keeps receiving the responses
                if keys.len() == 2 && si % 2 == 1 { foreign_sender = true; }
                let msg = if foreign_sender {
                    let items = |dt: &str, r: &BTreeMap<String, Vec<String>>| Value::Map(vec![(text("itemsRequest"), Value::Tag(24, Box::new(bytes(&crate::runner::to_bytes(&Value::Map(vec![
                        (text("docType"), text(dt)),
                        (text("nameSpaces"), Value::Map(r.iter().map(|(ns, ids)| (text(ns), Value::Map(ids.iter().map(|i| (text(i), Value::Bool(false))).collect()))).collect()))]))))))]);
                    let other_req: BTreeMap<String, Vec<String>> = [(NS.to_string(), vec!["x".to_string()])].into_iter().collect();
                    let dr = Value::Map(vec![(text("version"), text("1.0")), (text("docRequests"), arr(vec![items(MDL, &req), items("org.example.other", &other_req)]))]);
                    let (dk, _) = dev_view(&dev);
                    ctx.count("round:two-docTypes-in-one-request");
                    session_data(Some(&aes_encrypt(&dk.sk_reader, &iso_iv(false, dk.reader_ctr as u32 + 1), &crate::runner::to_bytes(&dr))), None)
                } else {
                    let Ok(msg) = rdr.new_request(namespaces_of(&req)) else { break };
                    msg
                };
                let o = dev.handle_request(&msg);
                items = o.items_request.clone();
                if !o.errors.is_empty() || items.is_empty() {
                    ctx.case("round", json!({"round": round, "stage": "request"}), arr(vec![text("request not delivered"), text(&format!("{:?}", o.errors))]), None, Some(("c01.spec", vec![docs_cbor.clone(), arr(vec![]), arr(vec![])])), true);
                    break;
                }
            }
            // permitted: subset or superset of the request
            let mut perm: BTreeMap<String, BTreeMap<String, Vec<String>>> = BTreeMap::new();
            let mut pm: BTreeMap<String, Vec<String>> = BTreeMap::new();
            for (ns, ids) in &req {
                let mut p: Vec<String> = ids.iter().filter(|_| rng.gen_bool(0.8)).cloned().collect();
                if rng.gen_bool(0.3) { p.push("given_name".into()); p.push("organ_donor".into()); }
                // one consent in four is as wide as it gets: every identifier of the data model under every requested namespace
                if rng.gen_bool(0.25) || ((shared_scenario || collide_scenario) && round == 0) { p = CORE_IDS.iter().chain(AAMVA_IDS.iter()).map(|s| s.to_string()).collect(); ctx.count("consent:everything"); }
                pm.insert(ns.clone(), p);
            }
            if rng.gen_bool(0.2) { pm.insert("org.example.ns-not-requested".into(), vec!["family_name".into()]); }
            // some rounds deliver nothing at all (the holder declines) or nothing from the core namespace; the
            // session must go on afterwards
            let declined = round + 1 < nrounds && rng.gen_bool(0.25) && !late_ds;
            if declined { if rng.gen_bool(0.5) { pm.clear(); } else { pm.remove(NS); } ctx.count("round:declined"); }
            perm.insert(MDL.to_string(), pm);
            if rng.gen_bool(0.3) || foreign_sender { perm.insert("org.example.other".into(), [(NS.to_string(), vec!["x".to_string()])].into_iter().collect()); }
            let permitted: PermittedItems = perm.clone();
            isomdl::presentation::device::SessionManager::prepare_response(&mut dev, &items, permitted);
            let mut guard = 0;
            while let Some((_, payload)) = dev.get_next_signature_payload().map(|(u, p)| (u, p.to_vec())) {
                let dt = crate::trace::doc_type_of_payload(&payload).unwrap_or_default();
                let sig: Vec<u8> = match keys.get(&dt) { Some(k) => { let s: Signature = k.sign(&payload); s.to_vec() } None => vec![0; 64] };
                dev.submit_next_signature(sig).ok();
                guard += 1; if guard > 5 { break; }
            }
            let resp = dev.retrieve_response();
            let (dk, _) = dev_view(&dev);
            let rk = rdr_view(&rdr);
            let keys_equal = dk.sk_reader == rk.sk_reader && dk.sk_device == rk.sk_device;
            let obs = match resp {
                None => arr(vec![text("no response retrievable")]),
                Some(msg) => {
                    let o = rdr.handle_response(&msg);
                    let st = |s: AuthenticationStatus| match s { AuthenticationStatus::Unchecked => 0u64, AuthenticationStatus::Invalid => 1, AuthenticationStatus::Valid => 2 };
                    if o.errors.contains_key("decryption_errors") { arr(vec![text("response not accepted"), text(&format!("{:?}", o.errors))]) }
                    else {
                        let rep = if o.response.is_empty() { Value::Null } else { json_to_cbor(&serde_json::to_value(&o.response).unwrap()) };
                        arr(vec![Value::Bool(keys_equal), Value::Bool(ble_equal), uint(st(o.issuer_authentication)), uint(st(o.device_authentication)), Value::Bool(o.errors.is_empty()), rep])
                    }
                }
            };
            let req_c = arr(vec![arr(vec![text(MDL), arr(req.iter().map(|(ns, ids)| arr(vec![text(ns), arr(ids.iter().map(|i| text(i)).collect())])).collect())])]);
            let perm_c = arr(perm.iter().map(|(dt, m)| arr(vec![text(dt), arr(m.iter().map(|(ns, ids)| arr(vec![text(ns), arr(ids.iter().map(|i| text(i)).collect())])).collect())])).collect());
            ctx.count(&format!("rounds:{}", round + 1));
            ctx.count(&format!("engagement:{}", si % 5));
            ctx.count(&format!("digest:{alg:?}"));
            let args = vec![docs_cbor.clone(), req_c, perm_c];
            if late_ds && round == 0 { std::thread::sleep(std::time::Duration::from_secs(4)); continue; }
            ctx.case("round", json!({"round": round, "request": req, "permitted": perm, "held": nsm.iter().map(|(ns, els)| (ns.clone(), els.iter().map(|(k, v)| json!([k, diag(v)])).collect::<Vec<_>>())).collect::<BTreeMap<_, _>>()}),
                obs, Some(("c01.round", args.clone())), Some(("c01.spec", args)), true);
        }
        ctx.rng = rng;
    }
}
