//! C12 — ValidationRuleset::validate against Model/X509.v and Spec/AnnexB.v.
//!
//! Certificates are assembled from x509-cert structures directly (TbsCertificate + raw extensions,
//! so that duplicates, criticality and undecodable values are expressible), signed with p256.
//! The abstraction function (`abs_cert`) turns the *parsed DER* into the abstract certificate of
//! the model using x509-cert / sha1 / p256 only, never isomdl.  isomdl's errors are strings;
//! `classify` maps each to an error code by its fixed shape (context prefix, extension name,
//! leading words), never by the variable parts.
use crate::common::*;
use ciborium::Value;
use const_oid::{AssociatedOid, ObjectIdentifier};
use der::asn1::{Any, BitString, Ia5String, OctetString, SetOfVec, UtcTime};
use der::{Decode, Encode, Tag};
use isomdl::definitions::x509::trust_anchor::{TrustAnchor, TrustAnchorRegistry, TrustPurpose};
use isomdl::definitions::x509::validation::ValidationRuleset;
use isomdl::definitions::x509::X5Chain;
use p256::ecdsa::signature::{Signer, Verifier};
use p256::ecdsa::{Signature, SigningKey, VerifyingKey};
use rand::seq::SliceRandom;
use rand::Rng;
use serde_json::json;
use sha1::{Digest, Sha1};
use std::time::Duration;
use x509_cert::attr::AttributeTypeAndValue;
use x509_cert::ext::pkix::crl::dp::DistributionPoint;
use x509_cert::ext::pkix::name::{DistributionPointName, GeneralName};
use x509_cert::ext::pkix::{
    AuthorityKeyIdentifier, BasicConstraints, CrlDistributionPoints, ExtendedKeyUsage, IssuerAltName, KeyUsage, KeyUsages,
    SubjectKeyIdentifier,
};
use x509_cert::ext::Extension;
use x509_cert::name::{Name, RdnSequence, RelativeDistinguishedName};
use x509_cert::serial_number::SerialNumber;
use x509_cert::spki::{DynSignatureAlgorithmIdentifier, SubjectPublicKeyInfoOwned};
use x509_cert::time::{Time, Validity};
use x509_cert::{Certificate, TbsCertificate, Version};

const EKU_DS: &str = "1.0.18013.5.1.2";
const EKU_READER: &str = "1.0.18013.5.1.6";
const NKEYS: usize = 6;

// ------------------------------------------------------------------------------------------------
// certificate plans
// ------------------------------------------------------------------------------------------------

#[derive(Clone, Debug, PartialEq)]
enum Gn {
    Rfc822,
    Uri,
    Dns,
    Dir,
}

#[derive(Clone, Debug, PartialEq)]
enum PName {
    Absent,
    Full(Vec<Gn>),
    Relative,
}

#[derive(Clone, Debug, PartialEq)]
struct Point {
    name: PName,
    reasons: bool,
    issuer: bool,
}

#[derive(Clone, Debug, PartialEq)]
enum ExtV {
    Ski(Vec<u8>),
    Aki(Option<Vec<u8>>),
    Ku(u16),
    Eku(Vec<&'static str>),
    Bc(bool, Option<u8>),
    Crl(Vec<Point>),
    Ian(Vec<Gn>),
    /// any other extension: dotted OID, value bytes
    Raw(&'static str, Vec<u8>),
}

#[derive(Clone, Debug, PartialEq)]
struct E {
    v: ExtV,
    critical: bool,
    /// replace the value by bytes that are not the DER of the extension's type
    garbage: bool,
}

#[derive(Clone, Copy, Debug, PartialEq)]
enum Kind {
    Ski,
    Aki,
    Ku,
    Eku,
    Bc,
    Crl,
    Ian,
}

impl E {
    fn kind(&self) -> Option<Kind> {
        Some(match self.v {
            ExtV::Ski(_) => Kind::Ski,
            ExtV::Aki(_) => Kind::Aki,
            ExtV::Ku(_) => Kind::Ku,
            ExtV::Eku(_) => Kind::Eku,
            ExtV::Bc(..) => Kind::Bc,
            ExtV::Crl(_) => Kind::Crl,
            ExtV::Ian(_) => Kind::Ian,
            ExtV::Raw(..) => return None,
        })
    }
}

/// (attribute short name, value, use UTF8String instead of the default string type)
type Attr = (&'static str, &'static str, bool);

#[derive(Clone, Debug)]
struct CertPlan {
    subject: Vec<Vec<Attr>>,
    issuer: Vec<Vec<Attr>>,
    /// seconds relative to `now`
    not_before: i64,
    not_after: i64,
    key: usize,
    signer: usize,
    corrupt_signature: bool,
    exts: Vec<E>,
}

impl CertPlan {
    fn pos(&self, k: Kind) -> Option<usize> {
        self.exts.iter().position(|e| e.kind() == Some(k))
    }
    fn remove(&mut self, k: Kind) {
        self.exts.retain(|e| e.kind() != Some(k));
    }
    fn set(&mut self, k: Kind, v: ExtV) {
        match self.pos(k) {
            Some(i) => self.exts[i].v = v,
            None => self.exts.push(E { v, critical: false, garbage: false }),
        }
    }
    fn dup(&mut self, k: Kind) {
        if let Some(i) = self.pos(k) {
            let e = self.exts[i].clone();
            self.exts.push(e);
        }
    }
    fn dup_with(&mut self, k: Kind, v: ExtV) {
        if let Some(i) = self.pos(k) {
            let mut e = self.exts[i].clone();
            e.v = v;
            self.exts.push(e);
        }
    }
    fn flip_critical(&mut self, k: Kind) {
        if let Some(i) = self.pos(k) {
            self.exts[i].critical = !self.exts[i].critical;
        }
    }
    fn garbage(&mut self, k: Kind) {
        if let Some(i) = self.pos(k) {
            self.exts[i].garbage = true;
        }
    }
    fn push_raw(&mut self, oid: &'static str, critical: bool) {
        // the value of an unknown extension: an ASN.1 NULL
        self.exts.push(E { v: ExtV::Raw(oid, vec![5, 0]), critical, garbage: false });
    }
    fn set_attr(&mut self, which: &'static str, value: Option<&'static str>) {
        for rdn in self.subject.iter_mut() {
            rdn.retain(|a| a.0 != which);
        }
        self.subject.retain(|r| !r.is_empty());
        if let Some(v) = value {
            self.subject.push(vec![(which, v, false)]);
        }
    }
}

/// other octets with the same digits when each octet is written in hexadecimal WITHOUT a leading zero:
/// 0X YZ  ->  XY 0Z  (X, Y non-zero)
fn ski_regrouped(d: &[u8]) -> Option<Vec<u8>> {
    let i = (0..d.len().saturating_sub(1)).find(|&i| (1..16).contains(&d[i]) && d[i + 1] >= 0x10)?;
    let mut o = d.to_vec();
    o[i] = (d[i] << 4) | (d[i + 1] >> 4);
    o[i + 1] = d[i + 1] & 0x0f;
    Some(o)
}

struct Keys {
    keys: Vec<SigningKey>,
    skis: Vec<Vec<u8>>,
}

impl Keys {
    fn new(ctx: &mut Ctx) -> Keys {
        let mut keys: Vec<SigningKey> = (0..NKEYS).map(|_| SigningKey::random(&mut ctx.rng)).collect();
        // the leaf key is drawn until its key identifier has an octet 01..0f followed by one >= 10 (see ski_regrouped)
        let digest = |k: &SigningKey| -> Vec<u8> { let spki = SubjectPublicKeyInfoOwned::from_key(*k.verifying_key()).unwrap(); Sha1::digest(spki.subject_public_key.raw_bytes()).to_vec() };
        while ski_regrouped(&digest(&keys[KEY_LEAF])).is_none() { keys[KEY_LEAF] = SigningKey::random(&mut ctx.rng); }
        let skis = keys
            .iter()
            .map(|k| {
                let spki = SubjectPublicKeyInfoOwned::from_key(*k.verifying_key()).unwrap();
                Sha1::digest(spki.subject_public_key.raw_bytes()).to_vec()
            })
            .collect();
        Keys { keys, skis }
    }
}

fn attr_oid(short: &str) -> ObjectIdentifier {
    ObjectIdentifier::new_unwrap(match short {
        "CN" => "2.5.4.3",
        "C" => "2.5.4.6",
        "L" => "2.5.4.7",
        "ST" => "2.5.4.8",
        "O" => "2.5.4.10",
        "OU" => "2.5.4.11",
        _ => panic!("attr"),
    })
}

fn build_name(n: &[Vec<Attr>]) -> Name {
    let rdns = n
        .iter()
        .map(|rdn| {
            let atvs: Vec<AttributeTypeAndValue> = rdn
                .iter()
                .map(|(k, v, utf8)| {
                    // default string types: PrintableString for countryName, UTF8String otherwise; `utf8` swaps them
                    let tag = if (*k == "C") != *utf8 { Tag::PrintableString } else { Tag::Utf8String };
                    AttributeTypeAndValue { oid: attr_oid(k), value: Any::new(tag, v.as_bytes()).unwrap() }
                })
                .collect();
            RelativeDistinguishedName(SetOfVec::try_from(atvs).unwrap())
        })
        .collect();
    RdnSequence(rdns)
}

fn gn(g: &Gn) -> GeneralName {
    match g {
        Gn::Rfc822 => GeneralName::Rfc822Name(Ia5String::new("iaca@example.com").unwrap()),
        Gn::Uri => GeneralName::UniformResourceIdentifier(Ia5String::new("http://example.com/crl").unwrap()),
        Gn::Dns => GeneralName::DnsName(Ia5String::new("example.com").unwrap()),
        Gn::Dir => GeneralName::DirectoryName(build_name(&[vec![("CN", "dir", false)]])),
    }
}

fn ext_der(v: &ExtV) -> (ObjectIdentifier, Vec<u8>) {
    match v {
        ExtV::Ski(b) => (SubjectKeyIdentifier::OID, SubjectKeyIdentifier(OctetString::new(b.clone()).unwrap()).to_der().unwrap()),
        ExtV::Aki(b) => (
            AuthorityKeyIdentifier::OID,
            AuthorityKeyIdentifier {
                key_identifier: b.as_ref().map(|b| OctetString::new(b.clone()).unwrap()),
                authority_cert_issuer: if b.is_none() { Some(vec![gn(&Gn::Dir)]) } else { None },
                authority_cert_serial_number: if b.is_none() { Some(SerialNumber::from(7u32)) } else { None },
            }
            .to_der()
            .unwrap(),
        ),
        ExtV::Ku(bits) => {
            let mut fs = der::flagset::FlagSet::<KeyUsages>::default();
            for f in [
                KeyUsages::DigitalSignature,
                KeyUsages::NonRepudiation,
                KeyUsages::KeyEncipherment,
                KeyUsages::DataEncipherment,
                KeyUsages::KeyAgreement,
                KeyUsages::KeyCertSign,
                KeyUsages::CRLSign,
                KeyUsages::EncipherOnly,
                KeyUsages::DecipherOnly,
            ] {
                if bits & der::flagset::FlagSet::<KeyUsages>::from(f).bits() != 0 {
                    fs |= f;
                }
            }
            (KeyUsage::OID, KeyUsage(fs).to_der().unwrap())
        }
        ExtV::Eku(oids) => (
            ExtendedKeyUsage::OID,
            ExtendedKeyUsage(oids.iter().map(|o| ObjectIdentifier::new_unwrap(o)).collect()).to_der().unwrap(),
        ),
        ExtV::Bc(ca, pl) => (BasicConstraints::OID, BasicConstraints { ca: *ca, path_len_constraint: *pl }.to_der().unwrap()),
        ExtV::Crl(points) => (
            CrlDistributionPoints::OID,
            CrlDistributionPoints(
                points
                    .iter()
                    .map(|p| DistributionPoint {
                        distribution_point: match &p.name {
                            PName::Absent => None,
                            PName::Full(names) => Some(DistributionPointName::FullName(names.iter().map(gn).collect())),
                            PName::Relative => Some(DistributionPointName::NameRelativeToCRLIssuer(RelativeDistinguishedName(
                                SetOfVec::try_from(vec![AttributeTypeAndValue {
                                    oid: attr_oid("CN"),
                                    value: Any::new(Tag::Utf8String, b"crl".as_slice()).unwrap(),
                                }])
                                .unwrap(),
                            ))),
                        },
                        reasons: if p.reasons { Some(x509_cert::ext::pkix::crl::dp::Reasons::KeyCompromise.into()) } else { None },
                        crl_issuer: if p.issuer { Some(vec![gn(&Gn::Dir)]) } else { None },
                    })
                    .collect(),
            )
            .to_der()
            .unwrap(),
        ),
        ExtV::Ian(names) => (IssuerAltName::OID, IssuerAltName(names.iter().map(gn).collect()).to_der().unwrap()),
        ExtV::Raw(oid, b) => (ObjectIdentifier::new_unwrap(oid), b.clone()),
    }
}

fn build_cert(p: &CertPlan, keys: &Keys, now: u64, serial: u32) -> Certificate {
    let key = &keys.keys[p.key];
    let signer = &keys.keys[p.signer];
    let spki = SubjectPublicKeyInfoOwned::from_key(*key.verifying_key()).unwrap();
    let t = |off: i64| Time::UtcTime(UtcTime::from_unix_duration(Duration::from_secs((now as i64 + off) as u64)).unwrap());
    let exts: Vec<Extension> = p
        .exts
        .iter()
        .map(|e| {
            let (oid, der) = ext_der(&e.v);
            // 0x04 0x81: an OCTET STRING header announcing a long length, then nothing
            let value = if e.garbage { vec![0x04, 0x81] } else { der };
            Extension { extn_id: oid, critical: e.critical, extn_value: OctetString::new(value).unwrap() }
        })
        .collect();
    let tbs = TbsCertificate {
        version: Version::V3,
        serial_number: SerialNumber::from(serial),
        signature: signer.signature_algorithm_identifier().unwrap(),
        issuer: build_name(&p.issuer),
        validity: Validity { not_before: t(p.not_before), not_after: t(p.not_after) },
        subject: build_name(&p.subject),
        subject_public_key_info: spki,
        issuer_unique_id: None,
        subject_unique_id: None,
        extensions: if exts.is_empty() { None } else { Some(exts) },
    };
    let tbs_der = tbs.to_der().unwrap();
    let sig: Signature = signer.sign(&tbs_der);
    let mut sig_der = sig.to_der().as_bytes().to_vec();
    if p.corrupt_signature {
        sig_der = vec![0x30, 0x03, 0x02, 0x01];
    }
    let cert = Certificate {
        tbs_certificate: tbs,
        signature_algorithm: signer.signature_algorithm_identifier().unwrap(),
        signature: BitString::from_bytes(&sig_der).unwrap(),
    };
    // what everybody looks at is the certificate parsed back from its DER
    Certificate::from_der(&cert.to_der().unwrap()).expect("re-parse")
}

// ------------------------------------------------------------------------------------------------
// abstraction: parsed certificate -> the model's abstract certificate (x509-cert / sha1 / p256 only)
// ------------------------------------------------------------------------------------------------

fn oid_val(o: &ObjectIdentifier) -> Value {
    arr(o.arcs().map(|a| uint(a as u64)).collect())
}

fn name_val(n: &Name) -> Value {
    arr(n.0.iter().map(|rdn| arr(rdn.0.iter().map(|atv| arr(vec![oid_val(&atv.oid), bytes(&atv.value.to_der().unwrap())])).collect())).collect())
}

fn gn_val(g: &GeneralName) -> Value {
    uint(match g {
        GeneralName::Rfc822Name(_) => 0,
        GeneralName::UniformResourceIdentifier(_) => 1,
        _ => 2,
    })
}

fn decoded_val(e: &Extension) -> Value {
    let v = e.extn_value.as_bytes();
    let und = arr(vec![uint(8)]);
    if e.extn_id == KeyUsage::OID {
        KeyUsage::from_der(v).map(|ku| arr(vec![uint(0), uint(ku.0.bits() as u64)])).unwrap_or(und)
    } else if e.extn_id == ExtendedKeyUsage::OID {
        ExtendedKeyUsage::from_der(v).map(|x| arr(vec![uint(1), arr(x.0.iter().map(oid_val).collect())])).unwrap_or(und)
    } else if e.extn_id == BasicConstraints::OID {
        BasicConstraints::from_der(v)
            .map(|b| arr(vec![uint(2), Value::Bool(b.ca), b.path_len_constraint.map(|n| uint(n as u64)).unwrap_or(Value::Null)]))
            .unwrap_or(und)
    } else if e.extn_id == CrlDistributionPoints::OID {
        CrlDistributionPoints::from_der(v)
            .map(|c| {
                arr(vec![
                    uint(3),
                    arr(c.0.iter()
                        .map(|p| {
                            let n = match &p.distribution_point {
                                None => arr(vec![uint(0)]),
                                Some(DistributionPointName::FullName(names)) => arr(vec![uint(1), arr(names.iter().map(gn_val).collect())]),
                                Some(DistributionPointName::NameRelativeToCRLIssuer(_)) => arr(vec![uint(2)]),
                            };
                            arr(vec![n, Value::Bool(p.reasons.is_some()), Value::Bool(p.crl_issuer.is_some())])
                        })
                        .collect()),
                ])
            })
            .unwrap_or(und)
    } else if e.extn_id == IssuerAltName::OID {
        IssuerAltName::from_der(v).map(|i| arr(vec![uint(4), arr(i.0.iter().map(gn_val).collect())])).unwrap_or(und)
    } else if e.extn_id == SubjectKeyIdentifier::OID {
        SubjectKeyIdentifier::from_der(v).map(|s| arr(vec![uint(5), bytes(s.0.as_bytes())])).unwrap_or(und)
    } else if e.extn_id == AuthorityKeyIdentifier::OID {
        AuthorityKeyIdentifier::from_der(v)
            .map(|a| arr(vec![uint(6), a.key_identifier.map(|k| bytes(k.as_bytes())).unwrap_or(Value::Null)]))
            .unwrap_or(und)
    } else {
        arr(vec![uint(7)])
    }
}

/// does `subject`'s signature verify under the key in `issuer_spki_der`?  (p256 directly)
fn sig_verifies(subject: &Certificate, issuer_spki_der: &[u8]) -> bool {
    use p256::pkcs8::DecodePublicKey;
    let Ok(vk) = VerifyingKey::from_public_key_der(issuer_spki_der) else { return false };
    let Ok(sig) = Signature::from_der(subject.signature.raw_bytes()) else { return false };
    let Ok(tbs) = subject.tbs_certificate.to_der() else { return false };
    vk.verify(&tbs, &sig).is_ok()
}

fn abs_cert(c: &Certificate, all_spkis: &[Vec<u8>]) -> Value {
    let tbs = &c.tbs_certificate;
    let sigkeys: Vec<Value> = all_spkis.iter().filter(|s| sig_verifies(c, s)).map(|s| bytes(s)).collect();
    arr(vec![
        uint(tbs.validity.not_before.to_unix_duration().as_secs()),
        uint(tbs.validity.not_after.to_unix_duration().as_secs()),
        name_val(&tbs.issuer),
        name_val(&tbs.subject),
        bytes(tbs.subject_public_key_info.subject_public_key.raw_bytes()),
        bytes(&tbs.subject_public_key_info.to_der().unwrap()),
        arr(sigkeys),
        arr(tbs.extensions.iter().flatten().map(|e| arr(vec![oid_val(&e.extn_id), Value::Bool(e.critical), decoded_val(e)])).collect()),
    ])
}

// ------------------------------------------------------------------------------------------------
// isomdl's error strings -> codes (must agree with Api/C12.v error_code)
// ------------------------------------------------------------------------------------------------

fn classify(msg: &str) -> u64 {
    let (ctx, rest) = if let Some(r) = msg.strip_prefix("DS certificate error: ") {
        (1, r)
    } else if let Some(r) = msg.strip_prefix("IACA certificate error: ") {
        (2, r)
    } else if let Some(r) = msg.strip_prefix("Reader CA certificate error: ") {
        (4, r)
    } else if let Some(r) = msg.strip_prefix("Reader certificate error: ") {
        (3, r)
    } else if let Some(r) = msg.strip_prefix("Comparison error: ") {
        (5, r)
    } else {
        return 999_999;
    };
    let name_attr = |r: &str| -> Option<u64> {
        // names.rs: the attribute is printed as const-oid's database name
        let n = r.split('\'').rev().nth(1)?;
        match n {
            "c" | "countryName" | "COUNTRY_NAME" | "id-at-countryName" => Some(0),
            "st" | "stateOrProvinceName" | "STATE_OR_PROVINCE_NAME" | "id-at-stateOrProvinceName" => Some(1),
            _ => None,
        }
    };
    let kind: u64 = if rest == "expired" {
        1
    } else if rest == "not yet valid" {
        2
    } else if rest.starts_with("extension is not allowed: ") {
        3
    } else if rest.starts_with("contains unknown critical extension: ") {
        4
    } else if rest == "no valid trust anchor found" {
        5
    } else if rest.starts_with('\'') && rest.contains(" has no subject '") {
        match name_attr(rest) {
            Some(a) => 10 + a,
            None => 900,
        }
    } else if rest.starts_with('\'') && rest.contains(" has multiple subject '") {
        // "'<cn>' has multiple subject '<name>'s"
        let r = rest.strip_suffix('s').unwrap_or(rest);
        match name_attr(r) {
            Some(a) => 12 + a,
            None => 901,
        }
    } else if rest.starts_with("subject '") && rest.contains("' does not match: ") {
        let n = rest.strip_prefix("subject '").unwrap().split('\'').next().unwrap_or("");
        match n {
            "c" | "countryName" | "COUNTRY_NAME" | "id-at-countryName" => 14,
            "st" | "stateOrProvinceName" | "STATE_OR_PROVINCE_NAME" | "id-at-stateOrProvinceName" => 15,
            _ => 902,
        }
    } else {
        let exts = [
            ("SubjectKeyIdentifier: ", 1u64),
            ("ExtendedKeyUsage: ", 2),
            ("KeyUsage: ", 3),
            ("BasicConstraints: ", 4),
            ("CrlDistributionPoints: ", 5),
            ("IssuerAlternativeName: ", 6),
        ];
        let mut k = 903;
        for (prefix, x) in exts {
            if let Some(r) = rest.strip_prefix(prefix) {
                k = if r == "required extension not found" {
                    100 + x
                } else if r.starts_with("failed to decode: ") {
                    200 + 10 * x
                } else {
                    let sub = match x {
                        1 if r == "public key digest did not match the expected value" => 1,
                        2 if r.starts_with("expected '") => 1,
                        3 if r.starts_with("unexpected usage: ") => 1,
                        4 if r.starts_with("expected to be CA:true, path_len:0, but found: ") => 1,
                        5 if r == "expected one or more distribution points" => 2,
                        5 if r.starts_with("crl_issuer cannot be set, but is set for: ") => 3,
                        5 if r.starts_with("reasons cannot be set, but is set for: ") => 4,
                        5 if r.starts_with("point is invalid: ") => 5,
                        6 if r.starts_with("invalid type in found in general names: ") => 1,
                        6 if r == "no general names found" => 6,
                        _ => 9,
                    };
                    200 + 10 * x + sub
                };
                break;
            }
        }
        k
    };
    1000 * ctx + kind
}

// ------------------------------------------------------------------------------------------------
// scenarios
// ------------------------------------------------------------------------------------------------

#[derive(Clone, Copy, Debug, PartialEq)]
enum Rs {
    Mdl,
    Aamva,
    Reader,
}

impl Rs {
    fn code(self) -> u64 {
        match self {
            Rs::Mdl => 0,
            Rs::Aamva => 1,
            Rs::Reader => 2,
        }
    }
    fn purpose(self) -> TrustPurpose {
        match self {
            Rs::Reader => TrustPurpose::ReaderCa,
            _ => TrustPurpose::Iaca,
        }
    }
}

fn other(p: TrustPurpose) -> TrustPurpose {
    match p {
        TrustPurpose::Iaca => TrustPurpose::ReaderCa,
        TrustPurpose::ReaderCa => TrustPurpose::Iaca,
    }
}

/// one registry entry of a scenario
#[derive(Clone, Debug)]
struct Entry {
    plan: CertPlan,
    right_purpose: bool,
}

#[derive(Clone, Debug)]
struct Scenario {
    rs: Rs,
    leaf: CertPlan,
    /// further certificates of the x5chain (ignored by the implementation)
    rest: Vec<CertPlan>,
    /// the intended anchor
    anchor: CertPlan,
    registry: Vec<Entry>,
    tags: Vec<String>,
}

const KEY_ANCHOR: usize = 0;
const KEY_LEAF: usize = 1;
const KEY_OTHER_CA: usize = 2;
const KEY_OTHER_LEAF: usize = 3;
const KEY_STRANGER: usize = 4;

fn uri_point() -> Point {
    Point { name: PName::Full(vec![Gn::Uri]), reasons: false, issuer: false }
}

fn e(v: ExtV, critical: bool) -> E {
    E { v, critical, garbage: false }
}

fn ca_plan(keys: &Keys, key: usize, cn: &'static str, with_state: bool) -> CertPlan {
    let mut subject = vec![vec![("C", "US", false)], vec![("CN", cn, false)]];
    if with_state {
        subject.insert(1, vec![("ST", "NY", false)]);
    }
    CertPlan {
        subject: subject.clone(),
        issuer: subject,
        not_before: -86_400,
        not_after: 86_400 * 365,
        key,
        signer: key,
        corrupt_signature: false,
        exts: vec![
            e(ExtV::Ski(keys.skis[key].clone()), false),
            e(ExtV::Ku(32 | 64), true),
            e(ExtV::Bc(true, Some(0)), true),
            e(ExtV::Ian(vec![Gn::Rfc822]), false),
            e(ExtV::Crl(vec![uri_point()]), false),
        ],
    }
}

fn leaf_plan(keys: &Keys, ca: &CertPlan, key: usize, cn: &'static str, eku: &'static str, with_state: bool) -> CertPlan {
    let mut subject = vec![vec![("C", "US", false)], vec![("CN", cn, false)]];
    if with_state {
        subject.insert(1, vec![("ST", "NY", false)]);
    }
    CertPlan {
        subject,
        issuer: ca.subject.clone(),
        not_before: -3_600,
        not_after: 86_400 * 90,
        key,
        signer: ca.key,
        corrupt_signature: false,
        exts: vec![
            e(ExtV::Ski(keys.skis[key].clone()), false),
            e(ExtV::Aki(Some(keys.skis[ca.key].clone())), false),
            e(ExtV::Ku(1), true),
            e(ExtV::Ian(vec![Gn::Rfc822]), false),
            e(ExtV::Crl(vec![uri_point()]), false),
            e(ExtV::Eku(vec![eku]), true),
        ],
    }
}

fn base(keys: &Keys, rs: Rs, with_state: bool) -> Scenario {
    let (ca_cn, leaf_cn, eku) = match rs {
        Rs::Reader => ("Test Reader CA", "Test Reader", EKU_READER),
        _ => ("Test IACA", "Test DS", EKU_DS),
    };
    let anchor = ca_plan(keys, KEY_ANCHOR, ca_cn, with_state);
    let leaf = leaf_plan(keys, &anchor, KEY_LEAF, leaf_cn, eku, with_state);
    Scenario {
        rs,
        leaf,
        rest: vec![],
        anchor: anchor.clone(),
        registry: vec![Entry { plan: anchor, right_purpose: true }],
        tags: vec![],
    }
}

type Dev = (&'static str, fn(&mut Scenario, &Keys));

fn other_eku(rs: Rs) -> &'static str {
    if rs == Rs::Reader {
        EKU_DS
    } else {
        EKU_READER
    }
}
fn own_eku(rs: Rs) -> &'static str {
    if rs == Rs::Reader {
        EKU_READER
    } else {
        EKU_DS
    }
}

/// keep the registry's copy of the intended anchor in step with `s.anchor`
fn sync_anchor(s: &mut Scenario) {
    let a = s.anchor.clone();
    for en in s.registry.iter_mut() {
        if en.plan.key == KEY_ANCHOR && en.right_purpose {
            en.plan = a.clone();
        }
    }
}

fn leaf_devs() -> Vec<Dev> {
    const DS: u16 = 1;
    vec![
        // validity
        ("leaf:not_yet_valid", |s, _| s.leaf.not_before = 3_600),
        ("leaf:expired", |s, _| s.leaf.not_after = -60),
        ("leaf:expired_long_ago", |s, _| {
            s.leaf.not_before = -86_400 * 800;
            s.leaf.not_after = -86_400 * 400
        }),
        // required extensions absent
        ("leaf:ski_absent", |s, _| s.leaf.remove(Kind::Ski)),
        ("leaf:ku_absent", |s, _| s.leaf.remove(Kind::Ku)),
        ("leaf:eku_absent", |s, _| s.leaf.remove(Kind::Eku)),
        ("leaf:crl_absent", |s, _| s.leaf.remove(Kind::Crl)),
        ("leaf:ian_absent", |s, _| s.leaf.remove(Kind::Ian)),
        ("leaf:no_extensions", |s, _| s.leaf.exts.clear()),
        // duplicated
        ("leaf:ski_dup", |s, _| s.leaf.dup(Kind::Ski)),
        ("leaf:ku_dup", |s, _| s.leaf.dup(Kind::Ku)),
        ("leaf:eku_dup", |s, _| s.leaf.dup(Kind::Eku)),
        ("leaf:crl_dup", |s, _| s.leaf.dup(Kind::Crl)),
        ("leaf:ian_dup", |s, _| s.leaf.dup(Kind::Ian)),
        ("leaf:aki_dup", |s, _| s.leaf.dup(Kind::Aki)),
        ("leaf:ku_dup_second_wrong", |s, _| s.leaf.dup_with(Kind::Ku, ExtV::Ku(DS | 2))),
        ("leaf:eku_dup_second_wrong", |s, _| {
            let o = other_eku(s.rs);
            s.leaf.dup_with(Kind::Eku, ExtV::Eku(vec![o]))
        }),
        ("leaf:ski_dup_second_wrong", |s, k| s.leaf.dup_with(Kind::Ski, ExtV::Ski(k.skis[KEY_STRANGER].clone()))),
        // criticality
        ("leaf:ku_noncritical", |s, _| s.leaf.flip_critical(Kind::Ku)),
        ("leaf:eku_noncritical", |s, _| s.leaf.flip_critical(Kind::Eku)),
        ("leaf:ski_critical", |s, _| s.leaf.flip_critical(Kind::Ski)),
        ("leaf:crl_critical", |s, _| s.leaf.flip_critical(Kind::Crl)),
        ("leaf:ian_critical", |s, _| s.leaf.flip_critical(Kind::Ian)),
        ("leaf:aki_critical", |s, _| s.leaf.flip_critical(Kind::Aki)),
        // undecodable values
        ("leaf:ski_garbage", |s, _| s.leaf.garbage(Kind::Ski)),
        ("leaf:ku_garbage", |s, _| s.leaf.garbage(Kind::Ku)),
        ("leaf:eku_garbage", |s, _| s.leaf.garbage(Kind::Eku)),
        ("leaf:crl_garbage", |s, _| s.leaf.garbage(Kind::Crl)),
        ("leaf:ian_garbage", |s, _| s.leaf.garbage(Kind::Ian)),
        ("leaf:aki_garbage", |s, _| s.leaf.garbage(Kind::Aki)),
        // key usage values
        ("leaf:ku_extra_nonrepudiation", |s, _| s.leaf.set(Kind::Ku, ExtV::Ku(DS | 2))),
        ("leaf:ku_keycertsign", |s, _| s.leaf.set(Kind::Ku, ExtV::Ku(32))),
        ("leaf:ku_ca_usages", |s, _| s.leaf.set(Kind::Ku, ExtV::Ku(96))),
        ("leaf:ku_empty", |s, _| s.leaf.set(Kind::Ku, ExtV::Ku(0))),
        ("leaf:ku_decipher_only_too", |s, _| s.leaf.set(Kind::Ku, ExtV::Ku(DS | 256))),
        // extended key usage values
        ("leaf:eku_other_role", |s, _| {
            let o = other_eku(s.rs);
            s.leaf.set(Kind::Eku, ExtV::Eku(vec![o]))
        }),
        ("leaf:eku_own_and_other", |s, _| {
            let (a, b) = (own_eku(s.rs), other_eku(s.rs));
            s.leaf.set(Kind::Eku, ExtV::Eku(vec![a, b]))
        }),
        ("leaf:eku_other_and_own", |s, _| {
            let (a, b) = (own_eku(s.rs), other_eku(s.rs));
            s.leaf.set(Kind::Eku, ExtV::Eku(vec![b, a]))
        }),
        ("leaf:eku_empty", |s, _| s.leaf.set(Kind::Eku, ExtV::Eku(vec![]))),
        ("leaf:eku_server_auth", |s, _| s.leaf.set(Kind::Eku, ExtV::Eku(vec!["1.3.6.1.5.5.7.3.1"]))),
        ("leaf:eku_own_twice", |s, _| {
            let a = own_eku(s.rs);
            s.leaf.set(Kind::Eku, ExtV::Eku(vec![a, a]))
        }),
        // subject key identifier
        ("leaf:ski_mismatch", |s, k| s.leaf.set(Kind::Ski, ExtV::Ski(k.skis[KEY_STRANGER].clone()))),
        ("leaf:ski_truncated", |s, k| s.leaf.set(Kind::Ski, ExtV::Ski(k.skis[KEY_LEAF][..8].to_vec()))),
        ("leaf:ski_empty", |s, _| s.leaf.set(Kind::Ski, ExtV::Ski(vec![]))),
        ("leaf:ski_same_digits_regrouped", |s, k| s.leaf.set(Kind::Ski, ExtV::Ski(ski_regrouped(&k.skis[KEY_LEAF]).unwrap_or_default()))),
        ("leaf:ski_sha256_leftmost_160_bits", |s, k| {
            use sha2::Digest as _;
            let spki = SubjectPublicKeyInfoOwned::from_key(*k.keys[KEY_LEAF].verifying_key()).unwrap();
            s.leaf.set(Kind::Ski, ExtV::Ski(sha2::Sha256::digest(spki.subject_public_key.raw_bytes())[..20].to_vec()))
        }),
        ("leaf:ski_sha1_of_whole_spki", |s, k| {
            let spki = SubjectPublicKeyInfoOwned::from_key(*k.keys[KEY_LEAF].verifying_key()).unwrap();
            s.leaf.set(Kind::Ski, ExtV::Ski(Sha1::digest(der::Encode::to_der(&spki).unwrap()).to_vec()))
        }),
        ("leaf:ski_padded", |s, k| s.leaf.set(Kind::Ski, ExtV::Ski([k.skis[KEY_LEAF].clone(), vec![0]].concat()))),
        ("leaf:ski_zero_prefixed", |s, k| s.leaf.set(Kind::Ski, ExtV::Ski([vec![0], k.skis[KEY_LEAF].clone()].concat()))),
        // CRL distribution points
        ("leaf:crl_empty", |s, _| s.leaf.set(Kind::Crl, ExtV::Crl(vec![]))),
        ("leaf:crl_reasons", |s, _| s.leaf.set(Kind::Crl, ExtV::Crl(vec![Point { reasons: true, ..uri_point() }]))),
        ("leaf:crl_issuer", |s, _| s.leaf.set(Kind::Crl, ExtV::Crl(vec![Point { issuer: true, ..uri_point() }]))),
        ("leaf:crl_reasons_and_issuer", |s, _| s.leaf.set(Kind::Crl, ExtV::Crl(vec![Point { issuer: true, reasons: true, ..uri_point() }]))),
        ("leaf:crl_no_name", |s, _| s.leaf.set(Kind::Crl, ExtV::Crl(vec![Point { name: PName::Absent, reasons: false, issuer: true }]))),
        ("leaf:crl_relative_name", |s, _| s.leaf.set(Kind::Crl, ExtV::Crl(vec![Point { name: PName::Relative, ..uri_point() }]))),
        ("leaf:crl_dns_only", |s, _| s.leaf.set(Kind::Crl, ExtV::Crl(vec![Point { name: PName::Full(vec![Gn::Dns]), ..uri_point() }]))),
        ("leaf:crl_dir_only", |s, _| s.leaf.set(Kind::Crl, ExtV::Crl(vec![Point { name: PName::Full(vec![Gn::Dir]), ..uri_point() }]))),
        ("leaf:crl_dns_and_uri", |s, _| s.leaf.set(Kind::Crl, ExtV::Crl(vec![Point { name: PName::Full(vec![Gn::Dns, Gn::Uri]), ..uri_point() }]))),
        ("leaf:crl_good_then_bad_point", |s, _| {
            s.leaf.set(Kind::Crl, ExtV::Crl(vec![uri_point(), Point { name: PName::Full(vec![Gn::Dns]), ..uri_point() }]))
        }),
        ("leaf:crl_two_good_points", |s, _| s.leaf.set(Kind::Crl, ExtV::Crl(vec![uri_point(), uri_point()]))),
        // issuer alternative name
        ("leaf:ian_empty", |s, _| s.leaf.set(Kind::Ian, ExtV::Ian(vec![]))),
        ("leaf:ian_dns", |s, _| s.leaf.set(Kind::Ian, ExtV::Ian(vec![Gn::Dns]))),
        ("leaf:ian_dir", |s, _| s.leaf.set(Kind::Ian, ExtV::Ian(vec![Gn::Dir]))),
        ("leaf:ian_rfc822_and_dns", |s, _| s.leaf.set(Kind::Ian, ExtV::Ian(vec![Gn::Rfc822, Gn::Dns]))),
        ("leaf:ian_uri", |s, _| s.leaf.set(Kind::Ian, ExtV::Ian(vec![Gn::Uri]))),
        ("leaf:ian_rfc822_and_uri", |s, _| s.leaf.set(Kind::Ian, ExtV::Ian(vec![Gn::Rfc822, Gn::Uri]))),
        // unknown / prohibited / other-profile extensions
        ("leaf:unknown_critical", |s, _| s.leaf.push_raw("1.2.3.4.5", true)),
        ("leaf:unknown_noncritical", |s, _| s.leaf.push_raw("1.2.3.4.5", false)),
        ("leaf:policy_mappings", |s, _| s.leaf.push_raw("2.5.29.33", false)),
        ("leaf:name_constraints", |s, _| s.leaf.push_raw("2.5.29.30", false)),
        ("leaf:policy_constraints", |s, _| s.leaf.push_raw("2.5.29.36", false)),
        ("leaf:inhibit_any_policy", |s, _| s.leaf.push_raw("2.5.29.54", false)),
        ("leaf:freshest_crl", |s, _| s.leaf.push_raw("2.5.29.46", false)),
        ("leaf:freshest_crl_critical", |s, _| s.leaf.push_raw("2.5.29.46", true)),
        ("leaf:subject_alt_name_noncritical", |s, _| s.leaf.push_raw("2.5.29.17", false)),
        ("leaf:certificate_policies_critical", |s, _| s.leaf.push_raw("2.5.29.32", true)),
        ("leaf:basic_constraints_ca_noncritical", |s, _| s.leaf.exts.push(e(ExtV::Bc(true, None), false))),
        ("leaf:basic_constraints_critical", |s, _| s.leaf.exts.push(e(ExtV::Bc(false, None), true))),
        // authority key identifier
        ("leaf:aki_absent", |s, _| s.leaf.remove(Kind::Aki)),
        ("leaf:aki_mismatch", |s, k| s.leaf.set(Kind::Aki, ExtV::Aki(Some(k.skis[KEY_STRANGER].clone())))),
        ("leaf:aki_without_key_id", |s, _| s.leaf.set(Kind::Aki, ExtV::Aki(None))),
        ("leaf:aki_dup_first_wrong", |s, k| {
            let good = ExtV::Aki(Some(k.skis[KEY_ANCHOR].clone()));
            s.leaf.set(Kind::Aki, ExtV::Aki(Some(k.skis[KEY_STRANGER].clone())));
            s.leaf.exts.push(e(good, false))
        }),
        // issuer name
        ("leaf:issuer_other_cn", |s, _| s.leaf.issuer = vec![vec![("C", "US", false)], vec![("CN", "Somebody Else", false)]]),
        ("leaf:issuer_reordered", |s, _| s.leaf.issuer.reverse()),
        ("leaf:issuer_merged_rdn", |s, _| {
            let flat: Vec<Attr> = s.leaf.issuer.iter().flatten().cloned().collect();
            s.leaf.issuer = vec![flat]
        }),
        ("leaf:issuer_country_utf8", |s, _| {
            for r in s.leaf.issuer.iter_mut() {
                for a in r.iter_mut() {
                    if a.0 == "C" {
                        a.2 = true
                    }
                }
            }
        }),
        ("leaf:issuer_empty", |s, _| s.leaf.issuer = vec![]),
        // signature
        ("leaf:signed_by_stranger", |s, _| s.leaf.signer = KEY_STRANGER),
        ("leaf:self_signed", |s, _| s.leaf.signer = KEY_LEAF),
        ("leaf:signature_not_der", |s, _| s.leaf.corrupt_signature = true),
        // subject country / state
        ("leaf:country_mismatch", |s, _| s.leaf.set_attr("C", Some("CA"))),
        ("leaf:country_absent", |s, _| s.leaf.set_attr("C", None)),
        ("leaf:country_twice", |s, _| s.leaf.subject.push(vec![("C", "US", false)])),
        ("leaf:country_twice_different", |s, _| s.leaf.subject.push(vec![("C", "CA", false)])),
        ("leaf:country_utf8string", |s, _| {
            s.leaf.set_attr("C", None);
            s.leaf.subject.push(vec![("C", "US", true)])
        }),
        ("leaf:country_lowercase", |s, _| s.leaf.set_attr("C", Some("us"))),
        ("leaf:country_in_multivalued_rdn", |s, _| {
            s.leaf.set_attr("C", None);
            s.leaf.subject.push(vec![("C", "US", false), ("O", "Org", false)])
        }),
        ("leaf:state_added", |s, _| s.leaf.set_attr("ST", Some("NY"))),
        ("leaf:state_other", |s, _| s.leaf.set_attr("ST", Some("CA"))),
        ("leaf:state_absent", |s, _| s.leaf.set_attr("ST", None)),
        ("leaf:state_twice", |s, _| s.leaf.subject.push(vec![("ST", "NY", false)])),
        ("leaf:subject_empty", |s, _| s.leaf.subject = vec![]),
        // x5chain shape
        ("chain:anchor_appended", |s, _| {
            let a = s.anchor.clone();
            s.rest.push(a)
        }),
        ("chain:junk_appended", |s, k| {
            let j = ca_plan(k, KEY_STRANGER, "Junk", false);
            s.rest.push(j.clone());
            s.rest.push(j)
        }),
    ]
}

fn anchor_devs() -> Vec<Dev> {
    vec![
        ("anchor:expired", |s, _| {
            s.anchor.not_after = -60;
            sync_anchor(s)
        }),
        ("anchor:not_yet_valid", |s, _| {
            s.anchor.not_before = 3_600;
            sync_anchor(s)
        }),
        ("anchor:ski_absent", |s, _| {
            s.anchor.remove(Kind::Ski);
            sync_anchor(s)
        }),
        ("anchor:ski_garbage", |s, _| {
            s.anchor.garbage(Kind::Ski);
            sync_anchor(s)
        }),
        ("anchor:ski_not_of_key_leaf_aki_follows", |s, k| {
            s.anchor.set(Kind::Ski, ExtV::Ski(k.skis[KEY_STRANGER].clone()));
            s.leaf.set(Kind::Aki, ExtV::Aki(Some(k.skis[KEY_STRANGER].clone())));
            sync_anchor(s)
        }),
        ("anchor:ski_not_of_key", |s, k| {
            s.anchor.set(Kind::Ski, ExtV::Ski(k.skis[KEY_STRANGER].clone()));
            sync_anchor(s)
        }),
        ("anchor:ski_dup", |s, _| {
            s.anchor.dup(Kind::Ski);
            sync_anchor(s)
        }),
        ("anchor:ski_dup_second_wrong", |s, k| {
            s.anchor.dup_with(Kind::Ski, ExtV::Ski(k.skis[KEY_STRANGER].clone()));
            sync_anchor(s)
        }),
        ("anchor:ku_absent", |s, _| {
            s.anchor.remove(Kind::Ku);
            sync_anchor(s)
        }),
        ("anchor:ku_digital_signature", |s, _| {
            s.anchor.set(Kind::Ku, ExtV::Ku(1));
            sync_anchor(s)
        }),
        ("anchor:ku_keycertsign_only", |s, _| {
            s.anchor.set(Kind::Ku, ExtV::Ku(32));
            sync_anchor(s)
        }),
        ("anchor:ku_extra_digital_signature", |s, _| {
            s.anchor.set(Kind::Ku, ExtV::Ku(97));
            sync_anchor(s)
        }),
        ("anchor:ku_noncritical", |s, _| {
            s.anchor.flip_critical(Kind::Ku);
            sync_anchor(s)
        }),
        ("anchor:ku_garbage", |s, _| {
            s.anchor.garbage(Kind::Ku);
            sync_anchor(s)
        }),
        ("anchor:ku_dup", |s, _| {
            s.anchor.dup(Kind::Ku);
            sync_anchor(s)
        }),
        ("anchor:bc_absent", |s, _| {
            s.anchor.remove(Kind::Bc);
            sync_anchor(s)
        }),
        ("anchor:bc_not_ca", |s, _| {
            s.anchor.set(Kind::Bc, ExtV::Bc(false, Some(0)));
            sync_anchor(s)
        }),
        ("anchor:bc_no_pathlen", |s, _| {
            s.anchor.set(Kind::Bc, ExtV::Bc(true, None));
            sync_anchor(s)
        }),
        ("anchor:bc_pathlen_1", |s, _| {
            s.anchor.set(Kind::Bc, ExtV::Bc(true, Some(1)));
            sync_anchor(s)
        }),
        ("anchor:bc_not_ca_no_pathlen", |s, _| {
            s.anchor.set(Kind::Bc, ExtV::Bc(false, None));
            sync_anchor(s)
        }),
        ("anchor:bc_noncritical", |s, _| {
            s.anchor.flip_critical(Kind::Bc);
            sync_anchor(s)
        }),
        ("anchor:bc_garbage", |s, _| {
            s.anchor.garbage(Kind::Bc);
            sync_anchor(s)
        }),
        ("anchor:bc_dup", |s, _| {
            s.anchor.dup(Kind::Bc);
            sync_anchor(s)
        }),
        ("anchor:crl_absent", |s, _| {
            s.anchor.remove(Kind::Crl);
            sync_anchor(s)
        }),
        ("anchor:crl_empty", |s, _| {
            s.anchor.set(Kind::Crl, ExtV::Crl(vec![]));
            sync_anchor(s)
        }),
        ("anchor:crl_dns_only", |s, _| {
            s.anchor.set(Kind::Crl, ExtV::Crl(vec![Point { name: PName::Full(vec![Gn::Dns]), ..uri_point() }]));
            sync_anchor(s)
        }),
        ("anchor:crl_reasons", |s, _| {
            s.anchor.set(Kind::Crl, ExtV::Crl(vec![Point { reasons: true, ..uri_point() }]));
            sync_anchor(s)
        }),
        ("anchor:ian_absent", |s, _| {
            s.anchor.remove(Kind::Ian);
            sync_anchor(s)
        }),
        ("anchor:ian_empty", |s, _| {
            s.anchor.set(Kind::Ian, ExtV::Ian(vec![]));
            sync_anchor(s)
        }),
        ("anchor:ian_dns", |s, _| {
            s.anchor.set(Kind::Ian, ExtV::Ian(vec![Gn::Dns]));
            sync_anchor(s)
        }),
        ("anchor:ian_uri", |s, _| {
            s.anchor.set(Kind::Ian, ExtV::Ian(vec![Gn::Uri]));
            sync_anchor(s)
        }),
        ("anchor:unknown_critical", |s, _| {
            s.anchor.push_raw("1.2.3.4.5", true);
            sync_anchor(s)
        }),
        ("anchor:unknown_noncritical", |s, _| {
            s.anchor.push_raw("1.2.3.4.5", false);
            sync_anchor(s)
        }),
        ("anchor:name_constraints", |s, _| {
            s.anchor.push_raw("2.5.29.30", true);
            sync_anchor(s)
        }),
        ("anchor:policy_mappings", |s, _| {
            s.anchor.push_raw("2.5.29.33", false);
            sync_anchor(s)
        }),
        ("anchor:aki_critical", |s, k| {
            s.anchor.exts.push(e(ExtV::Aki(Some(k.skis[KEY_ANCHOR].clone())), true));
            sync_anchor(s)
        }),
        ("anchor:eku_present_noncritical", |s, _| {
            s.anchor.exts.push(e(ExtV::Eku(vec![EKU_DS]), false));
            sync_anchor(s)
        }),
        ("anchor:no_extensions", |s, _| {
            s.anchor.exts.clear();
            sync_anchor(s)
        }),
        ("anchor:subject_other_cn", |s, _| {
            s.anchor.subject = vec![vec![("C", "US", false)], vec![("CN", "Renamed CA", false)]];
            sync_anchor(s)
        }),
        ("anchor:country_mismatch_leaf_issuer_follows", |s, _| {
            s.anchor.set_attr("C", Some("CA"));
            s.leaf.issuer = s.anchor.subject.clone();
            sync_anchor(s)
        }),
        ("anchor:country_absent_leaf_issuer_follows", |s, _| {
            s.anchor.set_attr("C", None);
            s.leaf.issuer = s.anchor.subject.clone();
            sync_anchor(s)
        }),
        ("anchor:country_twice_leaf_issuer_follows", |s, _| {
            s.anchor.subject.push(vec![("C", "US", false)]);
            s.leaf.issuer = s.anchor.subject.clone();
            sync_anchor(s)
        }),
        ("anchor:state_added_leaf_issuer_follows", |s, _| {
            s.anchor.set_attr("ST", Some("NY"));
            s.leaf.issuer = s.anchor.subject.clone();
            sync_anchor(s)
        }),
        ("anchor:state_other_leaf_issuer_follows", |s, _| {
            s.anchor.set_attr("ST", Some("TX"));
            s.leaf.issuer = s.anchor.subject.clone();
            sync_anchor(s)
        }),
        ("anchor:state_absent_leaf_issuer_follows", |s, _| {
            s.anchor.set_attr("ST", None);
            s.leaf.issuer = s.anchor.subject.clone();
            sync_anchor(s)
        }),
        ("anchor:state_twice_leaf_issuer_follows", |s, _| {
            s.anchor.subject.push(vec![("ST", "NY", false)]);
            s.leaf.issuer = s.anchor.subject.clone();
            sync_anchor(s)
        }),
    ]
}

/// registry shapes around the (possibly deviated) intended anchor
fn registry_shapes() -> Vec<Dev> {
    fn unrelated(k: &Keys, s: &Scenario) -> CertPlan {
        ca_plan(k, KEY_OTHER_CA, if s.rs == Rs::Reader { "Another Reader CA" } else { "Another IACA" }, false)
    }
    /// a second certificate for the anchor's key and name (a re-issued root) lacking BasicConstraints
    fn reissued_bad(s: &Scenario) -> CertPlan {
        let mut a = s.anchor.clone();
        a.remove(Kind::Bc);
        a.not_before -= 1000;
        a
    }
    vec![
        ("reg:empty", |s, _| s.registry.clear()),
        ("reg:only_other_purpose", |s, _| {
            for en in s.registry.iter_mut() {
                en.right_purpose = false
            }
        }),
        ("reg:unrelated_only", |s, k| {
            let u = unrelated(k, s);
            s.registry = vec![Entry { plan: u, right_purpose: true }]
        }),
        ("reg:unrelated_then_right", |s, k| {
            let u = unrelated(k, s);
            s.registry.insert(0, Entry { plan: u, right_purpose: true })
        }),
        ("reg:right_then_unrelated", |s, k| {
            let u = unrelated(k, s);
            s.registry.push(Entry { plan: u, right_purpose: true })
        }),
        ("reg:other_purpose_then_right", |s, _| {
            let a = s.anchor.clone();
            s.registry.insert(0, Entry { plan: a, right_purpose: false })
        }),
        ("reg:right_then_other_purpose", |s, _| {
            let a = s.anchor.clone();
            s.registry.push(Entry { plan: a, right_purpose: false })
        }),
        ("reg:other_purpose_and_unrelated", |s, k| {
            let u = unrelated(k, s);
            for en in s.registry.iter_mut() {
                en.right_purpose = false
            }
            s.registry.push(Entry { plan: u, right_purpose: true })
        }),
        ("reg:right_twice", |s, _| {
            let a = s.anchor.clone();
            s.registry.push(Entry { plan: a, right_purpose: true })
        }),
        ("reg:reissued_bad_then_right", |s, _| {
            let b = reissued_bad(s);
            s.registry.insert(0, Entry { plan: b, right_purpose: true })
        }),
        ("reg:right_then_reissued_bad", |s, _| {
            let b = reissued_bad(s);
            s.registry.push(Entry { plan: b, right_purpose: true })
        }),
        ("reg:reissued_bad_other_purpose_then_right", |s, _| {
            let b = reissued_bad(s);
            s.registry.insert(0, Entry { plan: b, right_purpose: false })
        }),
        ("reg:expired_twin_then_right", |s, _| {
            let mut b = s.anchor.clone();
            b.not_after = -10;
            s.registry.insert(0, Entry { plan: b, right_purpose: true })
        }),
        ("reg:other_key_same_name_then_right", |s, k| {
            let mut b = s.anchor.clone();
            b.key = KEY_OTHER_CA;
            b.signer = KEY_OTHER_CA;
            b.set(Kind::Ski, ExtV::Ski(k.skis[KEY_OTHER_CA].clone()));
            s.registry.insert(0, Entry { plan: b, right_purpose: true })
        }),
        ("reg:same_ski_other_key_then_right", |s, _| {
            // claims the anchor's name and key identifier but holds another key: the signature filter must drop it
            let mut b = s.anchor.clone();
            b.key = KEY_OTHER_CA;
            b.signer = KEY_OTHER_CA;
            s.registry.insert(0, Entry { plan: b, right_purpose: true })
        }),
        ("reg:leaf_as_anchor", |s, _| {
            let l = s.leaf.clone();
            s.registry = vec![Entry { plan: l, right_purpose: true }]
        }),
        ("reg:foreign_leaf_and_right", |s, k| {
            let l = leaf_plan(k, &s.anchor, KEY_OTHER_LEAF, "Other Leaf", EKU_DS, false);
            s.registry.push(Entry { plan: l, right_purpose: true })
        }),
    ]
}

fn run_scenario(ctx: &mut Ctx, keys: &Keys, s: &Scenario, label: &str) { let _ = run_scenario_keep(ctx, keys, s, label); }

/// builds the certificates, judges them now, and hands them back so that the SAME certificates can be judged again later
fn run_scenario_keep(ctx: &mut Ctx, keys: &Keys, s: &Scenario, label: &str) -> Option<(Certificate, Vec<Certificate>, Vec<(Certificate, TrustPurpose)>)> {
    let now = std::time::SystemTime::now().duration_since(std::time::UNIX_EPOCH).unwrap().as_secs();
    // a combination of deviations that x509-cert itself refuses to encode is not a certificate: skipped (and counted)
    let built = catch(|| {
        let leaf = build_cert(&s.leaf, keys, now, 100);
        let rest: Vec<Certificate> = s.rest.iter().enumerate().map(|(i, p)| build_cert(p, keys, now, 200 + i as u32)).collect();
        let reg: Vec<(Certificate, TrustPurpose)> = s
            .registry
            .iter()
            .enumerate()
            .map(|(i, en)| (build_cert(&en.plan, keys, now, 300 + i as u32), if en.right_purpose { s.rs.purpose() } else { other(s.rs.purpose()) }))
            .collect();
        (leaf, rest, reg)
    });
    let (leaf, rest, reg) = match built {
        Ok(b) => b,
        Err(msg) => {
            ctx.count("generator:not_encodable");
            if ctx.notes.len() < 20 {
                ctx.notes.push(format!("not encodable: {:?}: {msg}", s.tags));
            }
            return None;
        }
    };
    judge(ctx, s, label, &leaf, &rest, &reg, now);
    Some((leaf, rest, reg))
}

fn judge(ctx: &mut Ctx, s: &Scenario, label: &str, leaf: &Certificate, rest: &[Certificate], reg: &[(Certificate, TrustPurpose)], now: u64) {
    let (leaf, rest, reg) = (leaf.clone(), rest.to_vec(), reg.to_vec());
    // implementation
    let mut b = X5Chain::builder().with_certificate(leaf.clone()).expect("x5chain");
    for c in &rest {
        b = b.with_certificate(c.clone()).expect("x5chain");
    }
    let x5 = b.build().expect("x5chain build");
    let registry = TrustAnchorRegistry { anchors: reg.iter().map(|(c, p)| TrustAnchor { certificate: c.clone(), purpose: *p }).collect() };
    let ruleset = match s.rs {
        Rs::Mdl => ValidationRuleset::Mdl,
        Rs::Aamva => ValidationRuleset::AamvaMdl,
        Rs::Reader => ValidationRuleset::MdlReaderOneStep,
    };
    let t0 = std::time::SystemTime::now().duration_since(std::time::UNIX_EPOCH).unwrap().as_secs();
    let outcome = catch(|| ruleset.validate(&x5, &registry));
    let t1 = std::time::SystemTime::now().duration_since(std::time::UNIX_EPOCH).unwrap().as_secs();
    // a validity boundary that lies between the instant given to the model and the instant of the call (a loaded machine
    // can stall for seconds) makes the expectation ambiguous: such a case is not judged
    {
        let lo = now.min(t0).saturating_sub(1);
        let hi = t1 + 1;
        let crosses = |c: &Certificate| {
            let nb = c.tbs_certificate.validity.not_before.to_unix_duration().as_secs();
            let na = c.tbs_certificate.validity.not_after.to_unix_duration().as_secs();
            (lo <= nb && nb <= hi) || (lo <= na && na <= hi)
        };
        if crosses(&leaf) || reg.iter().any(|(c, _)| crosses(c)) { ctx.count("clock:boundary-at-the-instant-of-the-call:not-judged"); return; }
    }
    let obs = match &outcome {
        Ok(o) => {
            let mut codes: Vec<u64> = o.errors.iter().map(|m| classify(m)).collect();
            codes.sort();
            if o.success() != codes.is_empty() {
                codes.push(888_888);
            }
            arr(codes.into_iter().map(uint).collect())
        }
        Err(p) => arr(vec![text("panic"), text(p)]),
    };
    if let Ok(o) = &outcome {
        ctx.count(if o.success() { "impl:success" } else { "impl:errors" });
        for m in &o.errors {
            let c = classify(m);
            ctx.count(&format!("err:{c}"));
            if c % 1000 >= 900 || c >= 900_000 {
                ctx.notes.push(format!("unclassified error message: {m}"));
            }
        }
        ctx.count(&format!("nerrors:{}", o.errors.len().min(6)));
    }
    ctx.count(&format!("rs:{:?}", s.rs));
    ctx.count(&format!("registry_size:{}", reg.len().min(4)));

    // abstraction
    let mut all: Vec<&Certificate> = vec![&leaf];
    all.extend(rest.iter());
    all.extend(reg.iter().map(|(c, _)| c));
    let mut spkis: Vec<Vec<u8>> = all.iter().map(|c| c.tbs_certificate.subject_public_key_info.to_der().unwrap()).collect();
    spkis.sort();
    spkis.dedup();
    let mut ski_pairs: Vec<(Vec<u8>, Vec<u8>)> = all
        .iter()
        .map(|c| {
            let raw = c.tbs_certificate.subject_public_key_info.subject_public_key.raw_bytes().to_vec();
            let d = Sha1::digest(&raw).to_vec();
            (raw, d)
        })
        .collect();
    ski_pairs.sort();
    ski_pairs.dedup();
    let args = vec![
        uint(s.rs.code()),
        uint(now),
        arr(std::iter::once(&leaf).chain(rest.iter()).map(|c| abs_cert(c, &spkis)).collect()),
        arr(reg
            .iter()
            .map(|(c, p)| arr(vec![uint(if *p == TrustPurpose::Iaca { 0 } else { 1 }), abs_cert(c, &spkis)]))
            .collect()),
        arr(ski_pairs.iter().map(|(k, d)| arr(vec![bytes(k), bytes(d)])).collect()),
    ];
    let desc = json!({"ruleset": format!("{:?}", s.rs), "deviations": s.tags, "registry": s.registry.iter().map(|e| json!({"cn": e.plan.subject.iter().flatten().find(|a| a.0 == "CN").map(|a| a.1), "key": e.plan.key, "right_purpose": e.right_purpose})).collect::<Vec<_>>(),
        "impl_errors": outcome.as_ref().map(|o| o.errors.clone()).unwrap_or_default()});
    let nontrivial = !s.tags.is_empty();
    ctx.case(label, desc, obs, Some(("c12.validate", args.clone())), Some(("c12.spec", args)), nontrivial);
}

fn apply(s: &mut Scenario, keys: &Keys, d: &Dev) {
    (d.1)(s, keys);
    s.tags.push(d.0.to_string());
}

pub fn run(ctx: &mut Ctx) {
    let keys = Keys::new(ctx);
    let leafd = leaf_devs();
    let anchord = anchor_devs();
    let regd = registry_shapes();
    let rulesets = [Rs::Mdl, Rs::Aamva, Rs::Reader];
    let mut all_devs: Vec<Dev> = vec![];
    all_devs.extend(leafd.iter().cloned());
    all_devs.extend(anchord.iter().cloned());

    for rs in rulesets {
        for with_state in [false, true] {
            // the conformant profile, with every registry shape
            let b = base(&keys, rs, with_state);
            run_scenario(ctx, &keys, &b, "conformant");
            for r in &regd {
                let mut s = b.clone();
                apply(&mut s, &keys, r);
                run_scenario(ctx, &keys, &s, "registry");
            }
        }
        // every single deviation (AAMVA: from the profile with state; others: without)
        let with_state = rs == Rs::Aamva;
        for d in &all_devs {
            let mut s = base(&keys, rs, with_state);
            apply(&mut s, &keys, d);
            run_scenario(ctx, &keys, &s, "single");
        }
        // single deviations of the other state variant for the name rules
        for d in all_devs.iter().filter(|d| d.0.contains("state") || d.0.contains("country")) {
            let mut s = base(&keys, rs, !with_state);
            apply(&mut s, &keys, d);
            run_scenario(ctx, &keys, &s, "single_names");
        }
    }

    // pairs of deviations (all of them in the thorough tier, a sample in the quick tier), each with a random registry shape
    if ctx.thorough {
        for rs in rulesets {
            for i in 0..all_devs.len() {
                for j in 0..all_devs.len() {
                    if i == j {
                        continue;
                    }
                    let mut s = base(&keys, rs, rs == Rs::Aamva);
                    apply(&mut s, &keys, &all_devs[i]);
                    apply(&mut s, &keys, &all_devs[j]);
                    run_scenario(ctx, &keys, &s, "pair");
                }
            }
        }
    }
    // the clock crosses a validity boundary between two validations of the same chain against the same registry, in one
    // process: anchor / leaf about to expire, anchor / leaf about to become valid (all four judged together, one wait)
    for rs in rulesets {
        let mut plans = vec![];
        for (what, f) in [("anchor:expires-in-3s", (|s: &mut Scenario| { s.anchor.not_after = 3; sync_anchor(s) }) as fn(&mut Scenario)),
                          ("anchor:valid-in-3s", |s: &mut Scenario| { s.anchor.not_before = 3; sync_anchor(s) }),
                          ("leaf:expires-in-3s", |s: &mut Scenario| { s.leaf.not_after = 3 }),
                          ("leaf:valid-in-3s", |s: &mut Scenario| { s.leaf.not_before = 3 })] {
            let mut s = base(&keys, rs, rs == Rs::Aamva);
            f(&mut s);
            s.tags.push(what.to_string());
            plans.push(s);
        }
        // all four judged now; then, after ONE wait that takes the clock past every boundary, the SAME certificates again:
        // the verdict is the one of the moment of the call
        let kept: Vec<_> = plans.iter().map(|s| run_scenario_keep(ctx, &keys, s, "clock")).collect();
        std::thread::sleep(Duration::from_secs(6));
        let later = std::time::SystemTime::now().duration_since(std::time::UNIX_EPOCH).unwrap().as_secs();
        for (s, k) in plans.iter().zip(kept) {
            if let Some((leaf, rest, reg)) = k { ctx.count("clock:judged-again-later"); judge(ctx, s, "clock:later", &leaf, &rest, &reg, later); }
        }
        if !ctx.thorough { break; }
    }
    let n_random = ctx.budget(260, 12_000);
    for _ in 0..n_random {
        let rs = *rulesets.choose(&mut ctx.rng).unwrap();
        let with_state = ctx.rng.gen_bool(if rs == Rs::Aamva { 0.8 } else { 0.3 });
        let mut s = base(&keys, rs, with_state);
        let n = match ctx.rng.gen_range(0..10) {
            0 => 1,
            1..=6 => 2,
            _ => 3,
        };
        for _ in 0..n {
            let d = all_devs.choose(&mut ctx.rng).unwrap();
            apply(&mut s, &keys, d);
        }
        if ctx.rng.gen_bool(0.5) {
            let r = regd.choose(&mut ctx.rng).unwrap();
            apply(&mut s, &keys, r);
        }
        if ctx.rng.gen_bool(0.2) {
            s.registry.shuffle(&mut ctx.rng);
            s.tags.push("reg:shuffled".into());
        }
        run_scenario(ctx, &keys, &s, "random");
    }
}
