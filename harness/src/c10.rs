//! C10 — issuer-signed bytes survive decoding, storage and transfer byte for byte.
//!
//! The MODEL is the generator of encodings: `c10.encode_with` turns a value plus a random choice
//! tape into one of its valid CBOR encodings (any head widths, indefinite framing, chunking).  The
//! harness feeds them to the implementation and compares (a) with the model's observation and
//! (b) against the executable specification, which is given the bytes that were PUT IN.
use crate::common::*;
use crate::pki::Pki;
use crate::runner::{from_bytes, to_bytes};
use crate::sess::*;
use ciborium::Value;
use isomdl::definitions::device_request::ItemsRequest;
use isomdl::definitions::helpers::Tag24;
use isomdl::definitions::issuer_signed::IssuerSignedItem;
use isomdl::definitions::x509::trust_anchor::TrustPurpose;
use isomdl::definitions::x509::X5Chain;
use isomdl::definitions::{DeviceEngagement, DigestAlgorithm, IssuerSigned, Mso};
use isomdl::issuance::Mdoc;
use isomdl::presentation::authentication::AuthenticationStatus;
use isomdl::presentation::device::{self, Document, PermittedItems};
use isomdl::presentation::Stringify;
use p256::ecdsa::signature::Signer;
use p256::ecdsa::{Signature, SigningKey};
use rand::rngs::StdRng;
use rand::seq::SliceRandom;
use rand::Rng;
use serde_json::json;
use sha2::{Digest, Sha256, Sha384, Sha512};
use std::collections::BTreeMap;

// ---------- small CBOR helpers (the harness's own, independent of isomdl) ----------

fn int(i: i64) -> Value { Value::Integer(i.into()) }
fn tag24v(inner: &[u8]) -> Value { Value::Tag(24, Box::new(Value::Bytes(inner.to_vec()))) }

fn head(major: u8, n: u64) -> Vec<u8> {
    let m = major << 5;
    if n < 24 { vec![m | n as u8] }
    else if n < 256 { vec![m | 24, n as u8] }
    else if n < 65536 { let mut v = vec![m | 25]; v.extend((n as u16).to_be_bytes()); v }
    else if n < (1 << 32) { let mut v = vec![m | 26]; v.extend((n as u32).to_be_bytes()); v }
    else { let mut v = vec![m | 27]; v.extend(n.to_be_bytes()); v }
}
/// D8 18, shortest byte-string head, the embedded bytes
fn tag24_outer(inner: &[u8]) -> Vec<u8> {
    let mut v = vec![0xd8, 0x18];
    v.extend(head(2, inner.len() as u64));
    v.extend_from_slice(inner);
    v
}
fn vget<'a>(v: &'a Value, key: &str) -> Option<&'a Value> { map_get(v, key) }

// ---------- the model as generator ----------

fn tape(rng: &mut StdRng, n: usize, wild: bool) -> Value {
    // wild: every choice active; tame: mostly canonical with a few deviations
    arr((0..n).map(|_| uint(if wild || rng.gen_bool(0.3) { rng.gen_range(0..160) } else { 0 })).collect())
}

/// mode 0: every choice free; 1: map keys definite-length; 2: every text string definite-length
fn loose(ctx: &mut Ctx, v: &Value, mode: u64, wild: bool) -> Vec<u8> {
    let n = 60 + to_bytes(v).len().min(400);
    let tp = tape(&mut ctx.rng, n, wild);
    match ctx.runner.query("c10.encode_with", vec![tp, v.clone(), uint(mode)]) {
        Value::Bytes(b) => b,
        other => panic!("c10.encode_with answered {:?}", diag(&other)),
    }
}

// ---------- generators ----------

fn gen_text(rng: &mut StdRng) -> String {
    let alphabet = ["a", "b", "Z", "0", "_", " ", "é", "ß", "中", "😀", "x", "y"];
    (0..rng.gen_range(0..12)).map(|_| *alphabet.choose(rng).unwrap()).collect()
}

fn gen_value(rng: &mut StdRng, depth: u32) -> Value {
    let k = if depth == 0 { rng.gen_range(0..8) } else { rng.gen_range(0..12) };
    match k {
        0 => int(*[0i64, 1, 23, 24, 255, 256, 65535, 65536, 4294967295, 4294967296, i64::MAX].choose(rng).unwrap()),
        1 => int(-*[1i64, 24, 25, 256, 257, 65537, 4294967297, i64::MAX].choose(rng).unwrap()),
        2 => Value::Bytes((0..*[0usize, 1, 23, 24, 40, 300].choose(rng).unwrap()).map(|_| rng.gen()).collect()),
        3 => Value::Text(gen_text(rng)),
        4 => Value::Bool(rng.gen()),
        5 => Value::Null,
        6 => Value::Float(*[0.0f64, 1.5, -2.25, 65504.0, 100000.0, 1.0e300, 0.1].choose(rng).unwrap()),
        7 => Value::Tag(*[0u64, 1004, 1, 37, 1000].choose(rng).unwrap(), Box::new(Value::Text(gen_text(rng)))),
        8 | 9 => Value::Array((0..rng.gen_range(0..5)).map(|_| gen_value(rng, depth - 1)).collect()),
        _ => {
            let n = rng.gen_range(0..4);
            Value::Map((0..n).map(|i| {
                let key = if rng.gen_bool(0.7) { Value::Text(format!("k{i}{}", gen_text(rng))) } else { int(i as i64 * 7 - 3) };
                (key, gen_value(rng, depth - 1))
            }).collect())
        }
    }
}

/// an IssuerSignedItem as a map value: the four members in random order plus unknown extra entries
fn gen_item_value(rng: &mut StdRng, digest: i64, id: &str, value: Value, extras: usize) -> Value {
    let mut es = vec![
        (text("digestID"), int(digest)),
        (text("random"), Value::Bytes((0..rng.gen_range(16..33)).map(|_| rng.gen()).collect())),
        (text("elementIdentifier"), text(id)),
        (text("elementValue"), value),
    ];
    for i in 0..extras {
        es.push((text(&format!("x-unknown-{i}{}", gen_text(rng))), gen_value(rng, 1)));
    }
    es.shuffle(rng);
    Value::Map(es)
}

// ---------- implementation drivers ----------

fn obs_tag24_item(outer: &[u8]) -> Value {
    match catch(|| isomdl::cbor::from_slice::<Tag24<IssuerSignedItem>>(outer)) {
        Ok(Ok(t)) => {
            let re = isomdl::cbor::to_vec(&t).unwrap_or_default();
            let it = t.as_ref();
            arr(vec![uint(0), bytes(&t.inner_bytes), bytes(&re), Value::serialized(&it.digest_id).unwrap_or(Value::Null),
                bytes(it.random.as_ref()), text(&it.element_identifier), bytes(&to_bytes(&it.element_value))])
        }
        Ok(Err(_)) => arr(vec![uint(1)]),
        Err(p) => arr(vec![text("panic"), text(&p)]),
    }
}

fn obs_tag24_value(outer: &[u8]) -> Value {
    match catch(|| isomdl::cbor::from_slice::<Tag24<Value>>(outer)) {
        Ok(Ok(t)) => {
            let re = isomdl::cbor::to_vec(&t).unwrap_or_default();
            arr(vec![uint(0), bytes(&t.inner_bytes), bytes(&re), bytes(&to_bytes(t.as_ref()))])
        }
        Ok(Err(_)) => arr(vec![uint(1)]),
        Err(p) => arr(vec![text("panic"), text(&p)]),
    }
}

fn obs_tag24_typed<T: serde::de::DeserializeOwned + serde::Serialize>(outer: &[u8]) -> Value {
    match catch(|| isomdl::cbor::from_slice::<Tag24<T>>(outer)) {
        Ok(Ok(t)) => {
            let re = isomdl::cbor::to_vec(&t).unwrap_or_default();
            arr(vec![uint(0), bytes(&t.inner_bytes), bytes(&re)])
        }
        Ok(Err(_)) => arr(vec![uint(1)]),
        Err(p) => arr(vec![text("panic"), text(&p)]),
    }
}

/// components of an issuerAuth value (as found in emitted CBOR): [protected, payload, signature, encode(x5chain value)]
fn auth_comps(ia: &Value) -> Value {
    let body = match ia { Value::Tag(_, b) => b.as_ref(), b => b };
    let a = body.as_array().cloned().unwrap_or_default();
    if a.len() != 4 { return Value::Null; }
    let x5 = a[1].as_map().and_then(|m| m.iter().find(|(k, _)| k.as_integer().map(i128::from) == Some(33)).map(|(_, v)| bytes(&to_bytes(v)))).unwrap_or(Value::Null);
    arr(vec![a[0].clone(), a[2].clone(), a[3].clone(), x5])
}
/// [[ns, [inner..]]..] of an emitted nameSpaces map (ns -> array of tag-24 items)
fn ns_comps(nss: Option<&Value>) -> Value {
    match nss {
        Some(Value::Map(m)) => arr(m.iter().map(|(k, v)| arr(vec![k.clone(), arr(v.as_array().map(|a| a.iter().map(|it| match it {
            Value::Tag(24, b) => b.as_ref().clone(), other => other.clone() }).collect()).unwrap_or_default())])).collect()),
        _ => Value::Null,
    }
}
/// [[ns, [[id, inner]..]]..] of a stringified Document's `namespaces`
fn held_comps(nss: Option<&Value>) -> Value {
    match nss {
        Some(Value::Map(m)) => arr(m.iter().map(|(k, v)| arr(vec![k.clone(), arr(v.as_map().map(|a| a.iter().map(|(id, it)| arr(vec![id.clone(), match it {
            Value::Tag(24, b) => b.as_ref().clone(), other => other.clone() }])).collect()).unwrap_or_default())])).collect()),
        _ => Value::Null,
    }
}
fn strip_ids(held: &Value) -> Value {
    arr(held.as_array().map(|l| l.iter().map(|e| { let e = e.as_array().unwrap();
        arr(vec![e[0].clone(), arr(e[1].as_array().unwrap().iter().map(|x| x.as_array().unwrap()[1].clone()).collect())]) }).collect()).unwrap_or_default())
}

fn obs_issuer_signed(bs: &[u8]) -> Value {
    match catch(|| isomdl::cbor::from_slice::<IssuerSigned>(bs)) {
        Ok(Ok(x)) => {
            let re = isomdl::cbor::to_vec(&x).unwrap_or_default();
            let v = from_bytes(&re).unwrap_or(Value::Null);
            let comps = arr(vec![ns_comps(vget(&v, "nameSpaces")), vget(&v, "issuerAuth").map(auth_comps).unwrap_or(Value::Null)]);
            arr(vec![uint(0), bytes(&re), comps])
        }
        Ok(Err(_)) => arr(vec![uint(1)]),
        Err(p) => arr(vec![text("panic"), text(&p)]),
    }
}

fn doc_obs(doc: &Document) -> (String, Value, Value) {
    let s = doc.stringify().expect("stringify document");
    let v = state_value(&s);
    (s, held_comps(vget(&v, "namespaces")), vget(&v, "issuer_auth").map(auth_comps).unwrap_or(Value::Null))
}

// ---------- crafted issuer material ----------

struct Crafted {
    /// namespace -> (identifier, embedded bytes) in the order issued
    items: Vec<(String, Vec<(String, Vec<u8>)>)>,
    protected: Vec<u8>,
    payload: Vec<u8>,
    signature: Vec<u8>,
    x5: Value,
    unprotected: Vec<(Value, Value)>,
    tagged: bool,
}

impl Crafted {
    fn issuer_auth(&self) -> Value {
        let body = arr(vec![bytes(&self.protected), Value::Map(self.unprotected.clone()), bytes(&self.payload), bytes(&self.signature)]);
        if self.tagged { Value::Tag(18, Box::new(body)) } else { body }
    }
    fn auth_expected(&self) -> Value {
        arr(vec![bytes(&self.protected), bytes(&self.payload), bytes(&self.signature), bytes(&to_bytes(&self.x5))])
    }
    /// [[ns, [inner..]]..] sorted by namespace, items in issued order
    fn ns_expected(&self) -> Value {
        let mut m: Vec<_> = self.items.clone();
        m.sort_by(|a, b| a.0.as_bytes().cmp(b.0.as_bytes()));
        arr(m.iter().map(|(ns, its)| arr(vec![text(ns), arr(its.iter().map(|(_, b)| bytes(b)).collect())])).collect())
    }
    /// the same, items sorted by identifier (device storage order)
    fn ns_expected_by_id(&self) -> Value {
        let mut m: Vec<_> = self.items.clone();
        m.sort_by(|a, b| a.0.as_bytes().cmp(b.0.as_bytes()));
        arr(m.iter().map(|(ns, its)| { let mut its = its.clone(); its.sort_by(|a, b| a.0.as_bytes().cmp(b.0.as_bytes()));
            arr(vec![text(ns), arr(its.iter().map(|(_, b)| bytes(b)).collect())]) }).collect())
    }
    fn namespaces_value(&self) -> Value {
        Value::Map(self.items.iter().map(|(ns, its)| (text(ns), arr(its.iter().map(|(_, b)| tag24v(b)).collect()))).collect())
    }
}

fn protected_variants() -> Vec<(&'static str, Vec<u8>)> {
    vec![
        ("canonical", vec![0xa1, 0x01, 0x26]),
        ("nonminimal-int", vec![0xa1, 0x01, 0x38, 0x06]),
        ("indefinite-map", vec![0xbf, 0x01, 0x26, 0xff]),
        ("wide-map-head", vec![0xb8, 0x01, 0x18, 0x01, 0x26]),
        ("extra-label", vec![0xa2, 0x01, 0x26, 0x18, 0x63, 0x0a]),
        ("alg-last", vec![0xa2, 0x18, 0x63, 0x0a, 0x01, 0x26]),
    ]
}

const CORE_IDS: [&str; 8] = ["family_name", "given_name", "age_over_18", "portrait", "height", "issuing_country", "document_number", "resident_city"];
const AAMVA_IDS: [&str; 3] = ["organ_donor", "family_name_truncation", "sex"];

fn e2e_value(rng: &mut StdRng) -> Value {
    // the reader renders text, tagged text, bytes, bool, integers, arrays and maps of these
    match rng.gen_range(0..7) {
        0 => Value::Text(gen_text(rng)),
        1 => Value::Bool(rng.gen()),
        2 => int(rng.gen_range(-70000..70000)),
        3 => Value::Bytes((0..*[0usize, 5, 24, 300, 2000].choose(rng).unwrap()).map(|_| rng.gen()).collect()),
        4 => Value::Tag(1004, Box::new(Value::Text("1990-01-02".into()))),
        5 => arr(vec![Value::Map(vec![(text("vehicle_category_code"), text("B")), (text("issue_date"), Value::Tag(1004, Box::new(text("2020-01-01"))))])]),
        _ => Value::Text("Doe".into()),
    }
}

/// items in loose encodings, digests by the harness, MSO loosely encoded, signed with the DS key
fn craft(ctx: &mut Ctx, pki: &Pki, template: &Mdoc, alg: DigestAlgorithm, dup_ids: bool, wild: bool) -> (Crafted, Value) {
    let mut rng = ctx.rng.clone();
    let mut items: Vec<(String, Vec<(String, Vec<u8>)>)> = vec![];
    let mut digests: Vec<(Value, Value)> = vec![];
    let mut next_digest = 0i64;
    let mut plan: Vec<(String, Vec<String>)> = vec![];
    let n_core = rng.gen_range(1..=CORE_IDS.len());
    let mut core: Vec<String> = CORE_IDS[..n_core].iter().map(|s| s.to_string()).collect();
    if dup_ids { let d = core[rng.gen_range(0..core.len())].clone(); core.push(d); }
    // every other crafted document: identifiers that contain the dotted tail of the OTHER namespace's name
    // (`org.iso.18013.5.1` / `aamva.sex` next to `org.iso.18013.5.1.aamva` / `sex`)
    static CRAFTED: std::sync::atomic::AtomicUsize = std::sync::atomic::AtomicUsize::new(0);
    let dotted = CRAFTED.fetch_add(1, std::sync::atomic::Ordering::Relaxed) % 2 == 0;
    if dotted { core.push("aamva.sex".to_string()); core.push("aamva".to_string()); ctx.count("crafted:dotted-identifiers"); }
    core.shuffle(&mut rng);
    plan.push((NS.to_string(), core));
    if dotted || rng.gen_bool(0.6) {
        let n = if dotted { AAMVA_IDS.len() } else { rng.gen_range(1..=AAMVA_IDS.len()) };
        plan.push((NS_AAMVA.to_string(), AAMVA_IDS[..n].iter().map(|s| s.to_string()).collect()));
    }
    plan.shuffle(&mut rng);
    ctx.rng = rng;
    for (ns, ids) in plan {
        let mut its = vec![];
        let mut ds = vec![];
        for id in ids {
            let mut rng = ctx.rng.clone();
            let ev = e2e_value(&mut rng);
            let nx = if wild { rng.gen_range(0..3) } else { 0 };
            let v = gen_item_value(&mut rng, next_digest, &id, ev, nx);
            ctx.rng = rng;
            let inner = loose(ctx, &v, 1, wild);
            let item_bytes = tag24_outer(&inner);
            let d = match alg {
                DigestAlgorithm::SHA256 => Sha256::digest(&item_bytes).to_vec(),
                DigestAlgorithm::SHA384 => Sha384::digest(&item_bytes).to_vec(),
                DigestAlgorithm::SHA512 => Sha512::digest(&item_bytes).to_vec(),
            };
            ds.push((int(next_digest), bytes(&d)));
            next_digest += 1;
            its.push((id, inner));
        }
        digests.push((text(&ns), Value::Map(ds)));
        items.push((ns, its));
    }
    // MSO: the template's typed MSO with our digests
    let mut mso_v = Value::serialized(&template.mso).expect("mso value");
    if let Value::Map(m) = &mut mso_v {
        for (k, v) in m.iter_mut() {
            if k.as_text() == Some("valueDigests") { *v = Value::Map(digests.clone()); }
        }
    }
    let mso_inner = loose(ctx, &mso_v, 2, wild);
    let payload = tag24_outer(&mso_inner);
    let pv = protected_variants();
    let (_, protected) = pv[ctx.rng.gen_range(0..if wild { pv.len() } else { 1 })].clone();
    let tbs = to_bytes(&arr(vec![text("Signature1"), bytes(&protected), bytes(&[]), bytes(&payload)]));
    let sig: Signature = pki.ds_key.sign(&tbs);
    use der::Encode;
    let x5 = bytes(&pki.ds.to_der().unwrap());
    let mut unprotected = vec![(int(33), x5.clone())];
    if wild && ctx.rng.gen_bool(0.5) { unprotected.insert(0, (int(99), text("before"))); }
    if wild && ctx.rng.gen_bool(0.5) { unprotected.push((text("after"), int(1))); }
    let tagged = wild && ctx.rng.gen_bool(0.3);
    (Crafted { items, protected, payload, signature: sig.to_vec(), x5, unprotected, tagged }, mso_v)
}

fn mdoc_value(c: &Crafted, mso_v: &Value) -> Value {
    Value::Map(vec![(text("docType"), text(MDL)), (text("mso"), mso_v.clone()), (text("namespaces"), c.namespaces_value()), (text("issuerAuth"), c.issuer_auth())])
}

fn template(rng: &mut StdRng, pki: &Pki, alg: DigestAlgorithm) -> (Mdoc, SigningKey) {
    let mut core = BTreeMap::new();
    core.insert("family_name".to_string(), Value::Text("T".into()));
    issue(rng, pki, MDL, [(NS.to_string(), core)].into_iter().collect(), alg, false)
}

// ---------- streams ----------

fn stream_tag24(ctx: &mut Ctx) {
    let n = ctx.budget(500, 20000);
    for i in 0..n {
        let mut rng = ctx.rng.clone();
        let wild = rng.gen_bool(0.8);
        let digest = *[0i64, 1, 23, 24, 255, 65536, 2147483647].choose(&mut rng).unwrap();
        let extras = rng.gen_range(0..3);
        let mut id = format!("elem{}{}", i % 7, gen_text(&mut rng));
        let mut gv = gen_value(&mut rng, 2);
        // every 20th item: an age attestation whose value is NOT a boolean (0, 1, "true", null): the view is what the bytes say
        if i % 20 == 3 { id = format!("age_over_{}", [18, 21, 65, 0, 99][(i / 20 % 5) as usize]); gv = [int(1), int(0), text("true"), Value::Null, int(1)][(i / 20 % 5) as usize].clone(); ctx.count("item:age-attestation-not-boolean"); }
        let mut v = gen_item_value(&mut rng, digest, &id, gv, extras);
        // every 20th item: one more unknown member whose NAME is long (65 … 4096 bytes, the sizes in turn)
        if i % 20 == 7 {
            let len = [65usize, 66, 100, 255, 256, 257, 1000, 4095, 4096][(i / 20 % 9) as usize];
            if let Value::Map(es) = &mut v { let at = rng.gen_range(0..=es.len()); es.insert(at, (text(&"n".repeat(len)), int(1))); }
            ctx.count("item:unknown-member-with-long-name");
        }
        // 1 in 12: keys may come out with indefinite length (a valid encoding the struct reader refuses)
        let keys_def = rng.gen_range(0..12) != 0;
        ctx.rng = rng;
        let mut inner = loose(ctx, &v, if keys_def { 1 } else { 0 }, wild);
        // every 20th item: the embedded item starts with the self-described-CBOR tag 55799 (RFC 8949 3.4.6)
        if i % 20 == 13 { inner = [vec![0xd9, 0xd9, 0xf7], inner].concat(); ctx.count("item:self-described-cbor-tag"); }
        let outer = tag24_outer(&inner);
        let desc = json!({"kind": "IssuerSignedItem", "inner_len": inner.len(), "canonical_len": to_bytes(&v).len(), "extras": extras, "keys_definite": keys_def});
        if inner != to_bytes(&v) { ctx.count("enc:non-canonical"); } else { ctx.count("enc:canonical"); }
        let o = obs_tag24_item(&outer);
        let view = match o.as_array() { Some(a) if a.len() == 7 => arr(a[3..].to_vec()), _ => Value::Null };
        ctx.case("tag24_item", desc.clone(), o, Some(("c10.tag24_item", vec![bytes(&outer)])), Some(("c10.spec_tag24", vec![Value::Bool(true), bytes(&inner)])), true);
        ctx.case("item_view", desc.clone(), view, None, Some(("c10.spec_item", vec![Value::Bool(true), bytes(&inner)])), true);
        if i % 4 == 0 {
            let o = obs_tag24_value(&outer);
            let vw = match o.as_array() { Some(a) if a.len() == 4 => a[3].clone(), _ => Value::Null };
            ctx.case("tag24_value", desc.clone(), o, Some(("c10.tag24_value", vec![bytes(&outer)])), Some(("c10.spec_tag24", vec![Value::Bool(false), bytes(&inner)])), true);
            ctx.case("value_view", desc, vw, None, Some(("c10.spec_view", vec![bytes(&inner)])), true);
        }
    }
    // arbitrary embedded values under Tag24<ciborium::Value>, every choice active
    let n = ctx.budget(300, 10000);
    for _ in 0..n {
        let mut rng = ctx.rng.clone();
        let v = gen_value(&mut rng, 3);
        ctx.rng = rng;
        let mut inner = loose(ctx, &v, 0, true);
        if ctx.evaluations % 10 < 2 { inner = [vec![0xd9, 0xd9, 0xf7], inner].concat(); ctx.count("value:self-described-cbor-tag"); }
        let outer = tag24_outer(&inner);
        let desc = json!({"kind": "Value", "inner_len": inner.len()});
        let o = obs_tag24_value(&outer);
        let vw = match o.as_array() { Some(a) if a.len() == 4 => a[3].clone(), _ => Value::Null };
        ctx.case("tag24_any_value", desc.clone(), o, Some(("c10.tag24_value", vec![bytes(&outer)])), Some(("c10.spec_tag24", vec![Value::Bool(true), bytes(&inner)])), true);
        ctx.case("any_value_view", desc, vw, None, Some(("c10.spec_view", vec![bytes(&inner)])), true);
    }
    // typed Tag24<Mso>, Tag24<ItemsRequest>, Tag24<DeviceEngagement> taken from a real issuance / engagement
    let mut rng = ctx.rng.clone();
    let pki = Pki::generate(&mut rng);
    let (tpl, _) = template(&mut rng, &pki, DigestAlgorithm::SHA256);
    ctx.rng = rng;
    let mso_v = Value::serialized(&tpl.mso).expect("mso");
    let req_v = Value::Map(vec![
        (text("docType"), text(MDL)),
        (text("nameSpaces"), Value::Map(vec![(text(NS), Value::Map(vec![(text("family_name"), Value::Bool(true)), (text("portrait"), Value::Bool(false))]))])),
        (text("requestInfo"), Value::Map(vec![(text("x"), int(1))])),
    ]);
    let docs = documents_of(vec![tpl.clone()]);
    let de_v = device::SessionManagerInit::initialise(docs, None, None).ok().and_then(|i| i.qr_engagement().ok()).and_then(|(_, qr)| {
        base64::decode_config(qr.strip_prefix("mdoc:")?, base64::Config::new(base64::CharacterSet::UrlSafe, false)).ok() }).and_then(|b| from_bytes(&b));
    let n = ctx.budget(60, 2000);
    for _ in 0..n {
        for (kind, v) in [("Mso", Some(&mso_v)), ("ItemsRequest", Some(&req_v)), ("DeviceEngagement", de_v.as_ref())] {
            let Some(v) = v else { continue };
            // 1 in 4 MSOs: text strings may be chunked (the digestAlgorithm enum then refuses them)
            let mode = if kind == "Mso" && ctx.rng.gen_range(0..4) != 0 { 2 } else { 1 };
            let inner = loose(ctx, v, mode, true);
            let outer = tag24_outer(&inner);
            let o = match kind {
                "Mso" => obs_tag24_typed::<Mso>(&outer),
                "ItemsRequest" => obs_tag24_typed::<ItemsRequest>(&outer),
                _ => obs_tag24_typed::<DeviceEngagement>(&outer),
            };
            // the model does not type-check an MSO: where the enum quirk can strike, only the specification judges
            let model = if kind == "Mso" && mode == 1 { None } else { Some(("c10.tag24_bytes", vec![bytes(&outer)])) };
            ctx.case(&format!("tag24_{kind}"), json!({"kind": kind, "inner_len": inner.len(), "mode": mode}), o,
                model, Some(("c10.spec_tag24", vec![Value::Bool(true), bytes(&inner)])), true);
        }
    }
}

fn stream_malformed(ctx: &mut Ctx) {
    let h = |s: &str| hex::decode(s.replace(' ', "")).unwrap();
    let (kd, kr, ki, kv) = ("68 6469676573744944", "66 72616e646f6d", "71 656c656d656e744964656e746966696572", "6c 656c656d656e7456616c7565");
    let (ed, er, ei, ev) = (format!("{kd} 05"), format!("{kr} 42 0102"), format!("{ki} 61 61"), format!("{kv} 61 76"));
    let mut inners: Vec<(&str, Vec<u8>)> = vec![
        ("canonical", h(&format!("a4 {ed} {er} {ei} {ev}"))),
        ("dup digestID", h(&format!("a5 {ed} {er} {ei} {ev} {ed}"))),
        ("dup elementValue first", h(&format!("a5 {ev} {ev} {ed} {er} {ei}"))),
        ("dup unknown", h(&format!("a6 {ed} 61 7a 01 61 7a 02 {er} {ei} {ev}"))),
        ("missing elementValue", h(&format!("a3 {ed} {er} {ei}"))),
        ("int key", h(&format!("a5 {ev} 07 01 {ei} {er} {ed}"))),
        ("null key", h(&format!("a5 {ev} f6 01 {ei} {er} {ed}"))),
        ("array key", h(&format!("a5 {ev} 80 01 {ei} {er} {ed}"))),
        ("bytes key unknown", h(&format!("a5 {ev} 41 7a 01 {ei} {er} {ed}"))),
        ("bytes key digestID", h(&format!("a4 48 6469676573744944 05 {er} {ei} {ev}"))),
        ("tagged key", h(&format!("a4 c1 {kd} 05 {er} {ei} {ev}"))),
        ("doubly tagged key", h(&format!("a4 c1 d8 63 {kd} 05 {er} {ei} {ev}"))),
        ("indefinite key", h(&format!("a4 7f 64 64696765 64 73744944 ff 05 {er} {ei} {ev}"))),
        ("wide key head", h(&format!("a4 78 08 6469676573744944 05 {er} {ei} {ev}"))),
        ("indefinite map", h(&format!("bf {ed} {er} {ei} {ev} ff"))),
        ("indefinite map no break", h(&format!("bf {ed} {er} {ei} {ev}"))),
        ("tagged map", h(&format!("c1 a4 {ed} {er} {ei} {ev}"))),
        ("tagged identifier", h(&format!("a4 {ed} {er} {ki} d8 18 61 61 {ev}"))),
        ("indefinite identifier", h(&format!("a4 {ed} {er} {ki} 7f 61 61 61 62 ff {ev}"))),
        ("identifier split code point", h(&format!("a4 {ed} {er} {ki} 7f 61 c3 61 a9 ff {ev}"))),
        ("identifier bytes", h(&format!("a4 {ed} {er} {ki} 41 61 {ev}"))),
        ("identifier invalid utf8", h(&format!("a4 {ed} {er} {ki} 62 c328 {ev}"))),
        ("tagged digest", h(&format!("a4 {kd} c1 05 {er} {ei} {ev}"))),
        ("bignum digest", h(&format!("a4 {kd} c2 41 05 {er} {ei} {ev}"))),
        ("bignum digest 17 bytes", h(&format!("a4 {kd} c2 51 0000000000000000000000000000000005 {er} {ei} {ev}"))),
        ("negative bignum digest", h(&format!("a4 {kd} c3 41 04 {er} {ei} {ev}"))),
        ("tag 2 over int", h(&format!("a4 {kd} c2 05 {er} {ei} {ev}"))),
        ("negative digest", h(&format!("a4 {kd} 24 {er} {ei} {ev}"))),
        ("digest 2^31-1", h(&format!("a4 {kd} 1a 7fffffff {er} {ei} {ev}"))),
        ("digest 2^31", h(&format!("a4 {kd} 1a 80000000 {er} {ei} {ev}"))),
        ("digest -2^31", h(&format!("a4 {kd} 3a 7fffffff {er} {ei} {ev}"))),
        ("digest -2^31-1", h(&format!("a4 {kd} 3a 80000000 {er} {ei} {ev}"))),
        ("digest float", h(&format!("a4 {kd} f9 3c00 {er} {ei} {ev}"))),
        ("digest null", h(&format!("a4 {kd} f6 {er} {ei} {ev}"))),
        ("random tagged", h(&format!("a4 {ed} {kr} c1 42 0102 {ei} {ev}"))),
        ("random text", h(&format!("a4 {ed} {kr} 62 3132 {ei} {ev}"))),
        ("random indefinite", h(&format!("a4 {ed} {kr} 5f 41 01 41 02 ff {ei} {ev}"))),
        ("random array", h(&format!("a4 {ed} {kr} 82 01 02 {ei} {ev}"))),
        ("value undefined", h(&format!("a4 {ed} {er} {ei} {kv} f7"))),
        ("value float64", h(&format!("a4 {ed} {er} {ei} {kv} fb 3ff0000000000000"))),
        ("value map dup keys", h(&format!("a4 {ed} {er} {ei} {kv} a2 01 02 01 03"))),
        ("ignored invalid utf8", h(&format!("a5 {ed} {er} {ei} {ev} 61 7a 62 c328"))),
        ("ignored simple 16", h(&format!("a5 {ed} {er} {ei} {ev} 61 7a f0"))),
        ("ignored nested indefinite", h(&format!("a5 {ed} {er} {ei} {ev} 61 7a 9f 01 bf 01 02 ff ff"))),
        ("trailing bytes", h(&format!("a4 {ed} {er} {ei} {ev} 00 01"))),
        ("truncated", h(&format!("a4 {ed} {er} {ei} {kv}"))),
        ("array instead of map", h("84 05 42 0102 61 61 61 76")),
        ("empty", vec![]),
        ("key invalid utf8", h(&format!("a5 {ed} {er} {ei} {ev} 62 c328 01"))),
        ("empty text key", h(&format!("a5 {ed} {er} {ei} {ev} 60 01"))),
    ];
    for (name, len) in [("key 4096", 4096usize), ("key 4097", 4097), ("key 5000", 5000)] {
        let mut v = h("a5");
        v.push(0x79); v.extend((len as u16).to_be_bytes()); v.extend(vec![0x61; len]); v.push(1);
        v.extend(h(&format!("{ed} {er} {ei} {ev}")));
        inners.push((name, v));
    }
    let canonical = inners[0].1.clone();
    for (name, inner) in &inners {
        let outer = tag24_outer(inner);
        let o = obs_tag24_item(&outer);
        let (o, margs) = if *name == "value float64" {
            (match o.as_array() { Some(a) if a.len() == 7 => arr(a[..6].to_vec()), _ => o }, vec![bytes(&outer), Value::Bool(false)])
        } else { (o, vec![bytes(&outer)]) };
        ctx.case("malformed_inner", json!({"case": name, "inner": hex::encode(&inner[..inner.len().min(80)])}), o,
            Some(("c10.tag24_item", margs)), Some(("c10.spec_tag24", vec![Value::Bool(*name == "indefinite key"), bytes(inner)])), true); // the recorded witness is a valid encoding: in the domain
    }
    // outer framing
    let n = canonical.len() as u8;
    let outers: Vec<(&str, Vec<u8>, bool)> = vec![
        ("shortest", [h("d8 18 58"), vec![n], canonical.clone()].concat(), true),
        ("wide tag head", [h("d9 0018 58"), vec![n], canonical.clone()].concat(), true),
        ("wide bstr head", [h("d8 18 59 00"), vec![n], canonical.clone()].concat(), true),
        ("widest heads", [h("db 0000000000000018 5b 00000000000000"), vec![n], canonical.clone()].concat(), true),
        ("indefinite bstr", [h("d8 18 5f 58"), vec![n], canonical.clone(), h("ff")].concat(), true),
        ("indefinite bstr two chunks", [h("d8 18 5f 41"), canonical[..1].to_vec(), h("58"), vec![n - 1], canonical[1..].to_vec(), h("ff")].concat(), true),
        ("tag 24 over text", [h("d8 18 78"), vec![n], canonical.clone()].concat(), false),
        ("tag 25", [h("d8 19 58"), vec![n], canonical.clone()].concat(), false),
        ("not tagged", [h("58"), vec![n], canonical.clone()].concat(), false),
        ("double tag 24", [h("d8 18 d8 18 58"), vec![n], canonical.clone()].concat(), false),
        ("tag 99 then 24", [h("d8 63 d8 18 58"), vec![n], canonical.clone()].concat(), false),
        ("trailing after outer", [h("d8 18 58"), vec![n], canonical.clone(), h("00")].concat(), true),
        ("truncated outer", [h("d8 18 58"), vec![n], canonical[..10].to_vec()].concat(), false),
        ("text chunk in bstr", [h("d8 18 5f 78"), vec![n], canonical.clone(), h("ff")].concat(), false),
    ];
    for (name, outer, _) in &outers {
        ctx.case("outer_framing", json!({"case": name}), obs_tag24_item(outer),
            Some(("c10.tag24_item", vec![bytes(outer)])), Some(("c10.spec_tag24", vec![Value::Bool(false), bytes(&canonical)])), true);
    }
    // random single-byte edits of a valid loosely encoded item: accept / reject must agree
    let n = ctx.budget(300, 20000);
    for _ in 0..n {
        let mut rng = ctx.rng.clone();
        let gv = gen_value(&mut rng, 1);
        let nx = rng.gen_range(0..2);
        let v = gen_item_value(&mut rng, 7, "a", gv, nx);
        ctx.rng = rng;
        let mut inner = loose(ctx, &v, 1, true);
        let pos = ctx.rng.gen_range(0..inner.len());
        match ctx.rng.gen_range(0..3) { 0 => inner[pos] ^= 1 << ctx.rng.gen_range(0..8), 1 => { inner.truncate(pos); } _ => inner[pos] = ctx.rng.gen() }
        let outer = tag24_outer(&inner);
        let o = obs_tag24_item(&outer);
        let o = match o.as_array() { Some(a) if a.len() == 7 => arr(a[..6].to_vec()), _ => o };
        ctx.case("mutated_inner", json!({"inner": hex::encode(&inner[..inner.len().min(120)])}), o,
            Some(("c10.tag24_item", vec![bytes(&outer), Value::Bool(false)])), Some(("c10.spec_tag24", vec![Value::Bool(false), bytes(&inner)])), true);
    }
}

fn stream_issuer_signed(ctx: &mut Ctx) {
    let mut rng = ctx.rng.clone();
    let pki = Pki::generate(&mut rng);
    let (tpl, _) = template(&mut rng, &pki, DigestAlgorithm::SHA256);
    ctx.rng = rng;
    let n = ctx.budget(40, 1500);
    for i in 0..n {
        let wild = i % 5 != 0;
        let (mut c, _) = craft(ctx, &pki, &tpl, DigestAlgorithm::SHA256, false, wild);
        // more header shapes than the end-to-end run uses
        match ctx.rng.gen_range(0..6) {
            0 => { use der::Encode; c.x5 = arr(vec![bytes(&pki.ds.to_der().unwrap()), bytes(&pki.iaca.to_der().unwrap())]); c.unprotected = vec![(int(33), c.x5.clone())]; }
            1 => { c.unprotected.push((int(4), bytes(&[1, 2, 3]))); }
            2 => { c.protected = vec![]; }
            _ => {}
        }
        let v = Value::Map(vec![(text("nameSpaces"), c.namespaces_value()), (text("issuerAuth"), c.issuer_auth())]);
        let bs = if wild { loose(ctx, &v, 1, true) } else { to_bytes(&v) };
        let expected = arr(vec![c.ns_expected(), c.auth_expected()]);
        let o = obs_issuer_signed(&bs);
        let comps = match o.as_array() { Some(a) if a.len() == 3 => a[2].clone(), _ => o.clone() };
        let desc = json!({"len": bs.len(), "loose_outer": wild, "tagged": c.tagged, "protected": hex::encode(&c.protected), "unprotected_entries": c.unprotected.len()});
        ctx.case("issuer_signed", desc.clone(), o, Some(("c10.issuer_signed", vec![bytes(&bs)])), None, true);
        ctx.case("issuer_signed_components", desc, comps, None, Some(("c10.spec_same", vec![expected])), true);
    }
    // headers on which acceptance must agree
    let h = |s: &str| hex::decode(s.replace(' ', "")).unwrap();
    let (c, _) = craft(ctx, &pki, &tpl, DigestAlgorithm::SHA256, false, false);
    let x5 = c.x5.clone();
    let cases: Vec<(&str, Vec<u8>, Vec<(Value, Value)>, Option<u64>)> = vec![
        ("tag 17", h("a10126"), vec![(int(33), x5.clone())], Some(17)),
        ("protected trailing byte", h("a1012600"), vec![(int(33), x5.clone())], None),
        ("protected not a map", h("01"), vec![(int(33), x5.clone())], None),
        ("protected alg 1000", h("a1011903e8"), vec![(int(33), x5.clone())], None),
        ("protected alg -70000", h("a1013a0001116f"), vec![(int(33), x5.clone())], None),
        ("protected text alg", h("a101624553"), vec![(int(33), x5.clone())], None),
        ("protected dup label", h("a201260126"), vec![(int(33), x5.clone())], None),
        ("protected a0", h("a0"), vec![(int(33), x5.clone())], None),
        ("unprotected dup 33", h("a10126"), vec![(int(33), x5.clone()), (int(33), x5.clone())], None),
        ("unprotected empty kid", h("a10126"), vec![(int(4), bytes(&[])), (int(33), x5.clone())], None),
        ("unprotected bytes label", h("a10126"), vec![(bytes(&[1]), text("x")), (int(33), x5.clone())], None),
        ("unprotected alg after x5", h("a10126"), vec![(int(33), x5.clone()), (int(1), int(-7))], None),
        ("unprotected iv and partial iv", h("a10126"), vec![(int(5), bytes(&[1])), (int(6), bytes(&[2])), (int(33), x5.clone())], None),
        ("unprotected x5 not bytes", h("a10126"), vec![(int(33), int(5))], None),
        ("no x5chain", h("a10126"), vec![], None),
    ];
    issuer_signed_shapes(ctx, &c);
    for (name, prot, unprot, tag) in cases {
        let body = arr(vec![bytes(&prot), Value::Map(unprot), bytes(&c.payload), bytes(&c.signature)]);
        let ia = match tag { Some(t) => Value::Tag(t, Box::new(body)), None => body };
        let bs = to_bytes(&Value::Map(vec![(text("nameSpaces"), c.namespaces_value()), (text("issuerAuth"), ia)]));
        ctx.case("issuer_auth_header", json!({"case": name}), obs_issuer_signed(&bs), Some(("c10.issuer_signed", vec![bytes(&bs)])), None, true);
    }
}

/// shapes of the outer IssuerSigned map on which acceptance and the kept items must agree
fn issuer_signed_shapes(ctx: &mut Ctx, c: &Crafted) {
    let ia = c.issuer_auth();
    let ns = c.namespaces_value();
    let first_items = match &ns { Value::Map(m) => m[0].clone(), _ => return };
    let shapes: Vec<(&str, Value)> = vec![
        ("no nameSpaces", Value::Map(vec![(text("issuerAuth"), ia.clone())])),
        ("nameSpaces null", Value::Map(vec![(text("nameSpaces"), Value::Null), (text("issuerAuth"), ia.clone())])),
        ("nameSpaces empty map", Value::Map(vec![(text("nameSpaces"), Value::Map(vec![])), (text("issuerAuth"), ia.clone())])),
        ("namespace with no items", Value::Map(vec![(text("nameSpaces"), Value::Map(vec![(text("ns"), arr(vec![]))])), (text("issuerAuth"), ia.clone())])),
        ("duplicate namespace key", Value::Map(vec![(text("nameSpaces"), Value::Map(vec![
            (first_items.0.clone(), arr(first_items.1.as_array().unwrap()[..1].to_vec())), first_items.clone()])), (text("issuerAuth"), ia.clone())])),
        ("item not tag 24", Value::Map(vec![(text("nameSpaces"), Value::Map(vec![(text("ns"), arr(vec![bytes(&[0xa0])]))])), (text("issuerAuth"), ia.clone())])),
        ("item that is not an IssuerSignedItem", Value::Map(vec![(text("nameSpaces"), Value::Map(vec![(text("ns"), arr(vec![tag24v(&[0xa0])]))])), (text("issuerAuth"), ia.clone())])),
        ("unknown extra member", Value::Map(vec![(text("nameSpaces"), ns.clone()), (text("x"), int(1)), (text("issuerAuth"), ia.clone())])),
        ("issuerAuth twice", Value::Map(vec![(text("issuerAuth"), ia.clone()), (text("nameSpaces"), ns.clone()), (text("issuerAuth"), ia.clone())])),
        ("nameSpaces twice", Value::Map(vec![(text("nameSpaces"), ns.clone()), (text("nameSpaces"), ns.clone()), (text("issuerAuth"), ia.clone())])),
        ("issuerAuth missing", Value::Map(vec![(text("nameSpaces"), ns.clone())])),
        ("members reordered", Value::Map(vec![(text("issuerAuth"), ia.clone()), (text("nameSpaces"), ns.clone())])),
        ("not a map", arr(vec![ns.clone(), ia.clone()])),
    ];
    for (name, v) in shapes {
        let bs = to_bytes(&v);
        ctx.case("issuer_signed_shape", json!({"case": name}), obs_issuer_signed(&bs), Some(("c10.issuer_signed", vec![bytes(&bs)])), None, true);
    }
}

fn stream_storage(ctx: &mut Ctx) {
    let mut rng = ctx.rng.clone();
    let pki = Pki::generate(&mut rng);
    let (tpl, _) = template(&mut rng, &pki, DigestAlgorithm::SHA256);
    ctx.rng = rng;
    let n = ctx.budget(30, 1000);
    for i in 0..n {
        let dup = i % 6 == 5;
        let wild = i % 4 != 0;
        let (c, mso_v) = craft(ctx, &pki, &tpl, DigestAlgorithm::SHA256, dup, wild);
        let mv = mdoc_value(&c, &mso_v);
        let bs = if wild { loose(ctx, &mv, 2, true) } else { to_bytes(&mv) };
        let desc = json!({"duplicate_identifiers": dup, "loose_outer": wild, "namespaces": c.items.len(), "items": c.items.iter().map(|(_, v)| v.len()).sum::<usize>()});
        let md = catch(|| isomdl::cbor::from_slice::<Mdoc>(&bs));
        let Ok(Ok(md)) = md else {
            ctx.case("storage", desc, arr(vec![uint(1)]), Some(("c10.mdoc_doc", vec![bytes(&bs)])), Some(("c10.spec_storage", vec![c.ns_expected(), c.auth_expected()])), true);
            continue;
        };
        let doc: Document = md.into();
        let (s0, held, auth) = doc_obs(&doc);
        ctx.case("storage", desc.clone(), arr(vec![uint(0), held.clone(), auth.clone()]), Some(("c10.mdoc_doc", vec![bytes(&bs)])),
            Some(("c10.spec_storage", vec![c.ns_expected(), c.auth_expected()])), true);
        if dup { ctx.count("storage:duplicate-identifiers"); continue; }
        // 1..5 stringify / parse cycles
        let mut s = s0;
        let cycles = ctx.rng.gen_range(1..=5);
        for k in 1..=cycles {
            let o = match catch(|| Document::parse(s.clone())) {
                Ok(Ok(d)) => { let (s2, held, auth) = doc_obs(&d); arr(vec![uint(0), bytes(s2.as_bytes()), held, auth]) }
                _ => arr(vec![uint(1)]),
            };
            let comps = match o.as_array() { Some(a) if a.len() == 4 => arr(vec![strip_ids(&a[2]), a[3].clone()]), _ => o.clone() };
            let next = match o.as_array() { Some(a) if a.len() == 4 => String::from_utf8(a[1].as_bytes().unwrap().clone()).unwrap(), _ => break };
            ctx.case("stringify_cycle", json!({"cycle": k, "len": s.len()}), o, Some(("c10.doc_cycle", vec![bytes(s.as_bytes())])), None, true);
            ctx.case("stringify_cycle_components", json!({"cycle": k}), comps, None, Some(("c10.spec_same", vec![arr(vec![c.ns_expected_by_id(), c.auth_expected()])])), true);
            s = next;
        }
    }
}

fn tlv(tag: u8, content: &[u8]) -> Vec<u8> {
    let mut v = vec![tag];
    let n = content.len();
    if n < 128 { v.push(n as u8) } else if n < 256 { v.extend([0x81, n as u8]) } else { v.extend([0x82, (n >> 8) as u8, n as u8]) }
    v.extend(content);
    v
}

/// a certificate that x509-cert parses but would re-encode differently:
/// kind 0 = the two attributes of a multi-valued RDN are not in DER SET order; kind 1 = version v1 written explicitly
pub(crate) fn noncanonical_cert(rng: &mut StdRng, kind: u8) -> Vec<u8> {
    let h = |s: &str| hex::decode(s).unwrap();
    let cn: Vec<u8> = (0..rng.gen_range(1..12)).map(|_| rng.gen_range(b'a'..=b'z')).collect();
    let atv_cn = tlv(0x30, &[h("0603550403"), tlv(0x0c, &cn)].concat());
    let atv_c = tlv(0x30, &[h("0603550406"), tlv(0x13, b"US")].concat());
    let rdn = if kind == 0 { tlv(0x31, &[atv_c, atv_cn].concat()) } else { tlv(0x31, &[atv_cn, atv_c].concat()) };
    let name = tlv(0x30, &rdn);
    let alg = tlv(0x30, &h("06082a8648ce3d040302"));
    let validity = tlv(0x30, &[tlv(0x17, b"250101000000Z"), tlv(0x17, b"350101000000Z")].concat());
    let key = SigningKey::random(rng);
    let point = key.verifying_key().to_encoded_point(false);
    let spki = tlv(0x30, &[tlv(0x30, &h("06072a8648ce3d020106082a8648ce3d030107")), tlv(0x03, &[vec![0u8], point.as_bytes().to_vec()].concat())].concat());
    let mut tbs = vec![];
    tbs.extend(tlv(0xa0, &tlv(0x02, &[if kind == 1 { 0 } else { 2 }])));
    tbs.extend(tlv(0x02, &[rng.gen_range(1..127)]));
    tbs.extend(alg.clone()); tbs.extend(name.clone()); tbs.extend(validity); tbs.extend(name); tbs.extend(spki);
    let tbs = tlv(0x30, &tbs);
    let sig: Signature = key.sign(&tbs);
    tlv(0x30, &[tbs, alg, tlv(0x03, &[vec![0u8], sig.to_der().as_bytes().to_vec()].concat())].concat())
}

fn stream_x5chain(ctx: &mut Ctx) {
    use der::{Decode, Encode};
    let n = ctx.budget(12, 300);
    let mut rng = ctx.rng.clone();
    let pki = Pki::generate(&mut rng);
    for i in 0..n {
        let der1 = noncanonical_cert(&mut rng, (i % 2) as u8);
        let reencodes_differently = x509_cert::Certificate::from_der(&der1).ok().and_then(|c| c.to_der().ok()).map(|d| d != der1);
        ctx.count(&format!("x5chain:parses-and-reencodes-differently={reencodes_differently:?}"));
        let two = i % 3 == 2;
        let ders: Vec<Vec<u8>> = if two { vec![der1.clone(), noncanonical_cert(&mut rng, ((i + 1) % 2) as u8)] } else { vec![der1.clone()] };
        let expected_x5 = if two { arr(ders.iter().map(|d| bytes(d)).collect()) } else { bytes(&ders[0]) };
        let expected = arr(vec![Value::Null, arr(vec![bytes(&[]), Value::Null, bytes(&[]), bytes(&to_bytes(&expected_x5))])]);
        let chain = catch(|| { let mut b = X5Chain::builder(); for d in &ders { b = b.with_der_certificate(d).expect("der accepted"); } b.build().expect("chain") });
        let Ok(chain) = chain else { ctx.case("x5chain_into_cbor", json!({"certs": ders.len()}), arr(vec![uint(1)]), None, Some(("c10.spec_same", vec![expected])), true); continue };
        let o = arr(vec![Value::Null, arr(vec![bytes(&[]), Value::Null, bytes(&[]), bytes(&to_bytes(&chain.into_cbor()))])]);
        ctx.case("x5chain_into_cbor", json!({"certs": ders.len(), "kind": i % 2}), o, None, Some(("c10.spec_same", vec![expected.clone()])), true);
        // and through issuance: the certificate bytes placed in issuerAuth are the bytes the issuer supplied
        let device_key = SigningKey::random(&mut rng);
        let mut core = BTreeMap::new();
        core.insert("family_name".to_string(), Value::Text("T".into()));
        let now = time::OffsetDateTime::now_utc();
        let md = catch(|| Mdoc::builder().doc_type(MDL.to_string()).namespaces([(NS.to_string(), core)].into_iter().collect())
            .validity_info(isomdl::definitions::ValidityInfo { signed: now, valid_from: now, valid_until: now + time::Duration::days(1), expected_update: None })
            .digest_algorithm(DigestAlgorithm::SHA256)
            .device_key_info(isomdl::definitions::DeviceKeyInfo { device_key: cose_key_of(&device_key), key_authorizations: None, key_info: None })
            .issue::<SigningKey, Signature>(chain.clone(), pki.ds_key.clone()));
        if let Ok(Ok(md)) = md {
            let v = from_bytes(&isomdl::cbor::to_vec(&md.issuer_auth).unwrap()).unwrap();
            let got = auth_comps(&v);
            let x5 = got.as_array().map(|a| a[3].clone()).unwrap_or(Value::Null);
            let o = arr(vec![Value::Null, arr(vec![bytes(&[]), Value::Null, bytes(&[]), x5])]);
            ctx.case("x5chain_issued", json!({"certs": ders.len()}), o, None, Some(("c10.spec_same", vec![expected])), true);
        }
    }
    ctx.rng = rng;
}

fn request_of(c: &Crafted) -> BTreeMap<String, Vec<String>> {
    let mut m: BTreeMap<String, Vec<String>> = BTreeMap::new();
    for (ns, its) in &c.items {
        let e = m.entry(ns.clone()).or_default();
        for (id, _) in its { if !e.contains(id) { e.push(id.clone()); } }
    }
    m
}

fn stream_e2e(ctx: &mut Ctx) {
    let n = ctx.budget(8, 200);
    for i in 0..n {
        let mut rng = ctx.rng.clone();
        let pki = Pki::generate(&mut rng);
        let alg = [DigestAlgorithm::SHA256, DigestAlgorithm::SHA384, DigestAlgorithm::SHA512][rng.gen_range(0..3)];
        let (tpl, device_key) = template(&mut rng, &pki, alg);
        ctx.rng = rng;
        let wild = i % 4 != 3;
        let (c, mso_v) = craft(ctx, &pki, &tpl, alg, false, wild);
        let mv = mdoc_value(&c, &mso_v);
        let bs = if wild && i % 2 == 0 { loose(ctx, &mv, 2, true) } else { to_bytes(&mv) };
        let doc_cycles = ctx.rng.gen_range(0..=3);
        let sess_cycles = ctx.rng.gen_range(0..=3);
        let desc = json!({"digest_alg": format!("{alg:?}"), "document_cycles": doc_cycles, "session_cycles": sess_cycles, "items": c.items.iter().map(|(_, v)| v.len()).sum::<usize>(),
            "protected": hex::encode(&c.protected), "tagged": c.tagged, "loose": wild});
        let expected = arr(vec![c.ns_expected(), c.auth_expected()]);
        let run = catch(|| -> Option<(Value, bool)> {
            let md = isomdl::cbor::from_slice::<Mdoc>(&bs).ok()?;
            let mut doc: Document = md.into();
            for _ in 0..doc_cycles { doc = Document::parse(doc.stringify().ok()?).ok()?; }
            let docs = isomdl::definitions::helpers::NonEmptyMap::new(MDL.to_string(), doc);
            let req = request_of(&c);
            let e = establish(docs, None, &req, registry(vec![(pki.iaca.clone(), TrustPurpose::Iaca)]), Default::default()).ok()?;
            let mut dev = e.dev;
            let mut rdr = e.rdr;
            for _ in 0..sess_cycles { dev = device::SessionManager::parse(dev.stringify().ok()?).ok()?; }
            let items = e.first_outcome.items_request.clone();
            let permitted: PermittedItems = [(MDL.to_string(), req.clone().into_iter().collect())].into_iter().collect();
            dev.prepare_response(&items, permitted);
            if sess_cycles > 0 { dev = device::SessionManager::parse(dev.stringify().ok()?).ok()?; }
            while let Some((_, payload)) = dev.get_next_signature_payload().map(|(u, p)| (u, p.to_vec())) {
                let s: Signature = device_key.sign(&payload);
                dev.submit_next_signature(s.to_vec()).ok()?;
            }
            if sess_cycles > 1 { dev = device::SessionManager::parse(dev.stringify().ok()?).ok()?; }
            let resp = dev.retrieve_response()?;
            let (keys, _) = dev_view(&dev);
            let (_, pt) = find_iv(&keys.sk_device, &data_of(&resp)?, 3)?;
            let ptv = from_bytes(&pt)?;
            let d0 = vget(&ptv, "documents")?.as_array()?.first()?.clone();
            let isg = vget(&d0, "issuerSigned")?.clone();
            let comps = arr(vec![ns_comps(vget(&isg, "nameSpaces")), vget(&isg, "issuerAuth").map(auth_comps).unwrap_or(Value::Null)]);
            let out = rdr.handle_response(&resp);
            Some((comps, matches!(out.issuer_authentication, AuthenticationStatus::Valid) && matches!(out.device_authentication, AuthenticationStatus::Valid)))
        });
        match run {
            Ok(Some((comps, valid))) => {
                // (a) + (b): what the device sent is byte-identical to what the issuer produced
                ctx.case("e2e_response_bytes", desc.clone(), comps, None, Some(("c10.spec_subset", vec![expected])), true);
                // (c): the reader, which recomputes digests and verifies the issuer signature, says Valid
                ctx.case("e2e_reader_valid", desc, Value::Bool(valid), None, Some(("c10.spec_valid", vec![])), true);
            }
            Ok(None) => { ctx.case("e2e_response_bytes", desc, arr(vec![uint(1)]), None, Some(("c10.spec_subset", vec![expected])), true); }
            Err(p) => { ctx.case("e2e_response_bytes", desc, arr(vec![text("panic"), text(&p)]), None, Some(("c10.spec_subset", vec![expected])), true); }
        }
    }
}

/// the one public function that hands a stored item back outside a response: the selected age attestation must be
/// the held item, embedded bytes included
fn stream_age_attestation(ctx: &mut Ctx) {
    let n = ctx.budget(40, 2000);
    for i in 0..n {
        let mut rng = ctx.rng.clone();
        let ages = [18i64, 21, 25, 65];
        let mut vals = vec![];
        for (k, a) in ages.iter().enumerate() {
            let extras = rng.gen_range(0..2);
            let v = gen_item_value(&mut rng, 10 + k as i64, &format!("age_over_{a}"), Value::Bool(*a <= 21), extras);
            vals.push((format!("age_over_{a}"), v));
        }
        ctx.rng = rng;
        let mut held: BTreeMap<String, Tag24<IssuerSignedItem>> = BTreeMap::new();
        let mut inners: BTreeMap<String, Vec<u8>> = BTreeMap::new();
        for (id, v) in &vals {
            let inner = loose(ctx, v, 1, true);
            if let Ok(t) = Tag24::<IssuerSignedItem>::from_bytes(inner.clone()) { held.insert(id.clone(), t); inners.insert(id.clone(), inner); }
        }
        let Ok(nem) = isomdl::definitions::helpers::NonEmptyMap::try_from(held) else { continue };
        let req = format!("age_over_{}", [17, 18, 20, 21, 22, 30][i as usize % 6]);
        let r = catch(|| isomdl::presentation::device::nearest_age_attestation(req.clone(), nem));
        let Ok(Ok(Some(it))) = r else { ctx.count("age_attestation:none"); continue };
        let Some(inner) = inners.get(&it.as_ref().element_identifier) else { continue };
        let re = isomdl::cbor::to_vec(&it).unwrap_or_default();
        ctx.count("age_attestation:returned");
        ctx.case("age_attestation_item", json!({"request": req, "returned": it.as_ref().element_identifier}), arr(vec![uint(0), bytes(&it.inner_bytes), bytes(&re)]),
            None, Some(("c10.spec_tag24", vec![Value::Bool(true), bytes(inner)])), true);
    }
}

pub fn run(ctx: &mut Ctx) {
    stream_age_attestation(ctx);
    stream_tag24(ctx);
    stream_malformed(ctx);
    stream_issuer_signed(ctx);
    stream_storage(ctx);
    stream_x5chain(ctx);
    stream_e2e(ctx);
}
