//! C19 — FromJson::from_json + ToNamespaceMap::to_ns_map of the two mDL namespaces against
//! Model/FromJson.v (c19.from_json / c19.leaf) and Spec/MdlDataModel.v (c19.spec / c19.spec_leaf),
//! plus the row-by-row cross-check of every translator-emitted code-table row (c19.tables / c19.table).
use crate::common::*;
use ciborium::Value;
use isomdl::definitions::helpers::ByteStr;
use isomdl::definitions::namespaces::org_iso_18013_5_1 as mdl;
use isomdl::definitions::namespaces::org_iso_18013_5_1_aamva as aamva;
use isomdl::definitions::traits::{FromJson, FromJsonError, ToCbor, ToNamespaceMap};
use rand::seq::SliceRandom;
use rand::Rng;
use serde_json::{json, Map, Value as J};
use std::str::FromStr;

const MDL: u64 = 0;
const AAMVA: u64 = 1;

// ------------------------------------------------------------------------------------------
// JSON -> the CBOR form the runner reads

fn json_cbor(v: &J) -> Value {
    match v {
        J::Null => Value::Null,
        J::Bool(b) => Value::Bool(*b),
        J::Number(n) => match n.as_u64() {
            Some(u) => Value::Integer(u.into()),
            None => Value::Integer((-1).into()), // "a number that is not a u64"
        },
        J::String(s) => Value::Text(s.clone()),
        J::Array(a) => Value::Array(a.iter().map(json_cbor).collect()),
        J::Object(m) => Value::Map(m.iter().map(|(k, v)| (Value::Text(k.clone()), json_cbor(v))).collect()),
    }
}

// ------------------------------------------------------------------------------------------
// the implementation

fn err_entry(e: &FromJsonError, out: &mut Vec<Value>) {
    if let FromJsonError::WithContext(name, inner) = e {
        out.push(arr(vec![text(name), Value::Bool(matches!(**inner, FromJsonError::Missing))]));
    }
}

fn err_obs(e: &FromJsonError) -> Value {
    let mut out = vec![];
    match e {
        FromJsonError::Multiple(v) => v.iter().for_each(|x| err_entry(x, &mut out)),
        other => err_entry(other, &mut out),
    }
    arr(out)
}

fn elements_obs<T: FromJson + ToNamespaceMap>(v: &J) -> Value {
    match catch(|| T::from_json(v).map(|x| x.to_ns_map())) {
        Ok(Ok(m)) => arr(vec![uint(0), arr(m.into_iter().map(|(k, v)| arr(vec![text(&k), v])).collect())]),
        Ok(Err(e)) => arr(vec![uint(1), err_obs(&e)]),
        Err(_) => arr(vec![uint(2)]),
    }
}

fn real_elements(ns: u64, v: &J) -> Value {
    if ns == MDL {
        elements_obs::<mdl::OrgIso1801351>(v)
    } else {
        elements_obs::<aamva::OrgIso1801351Aamva>(v)
    }
}

fn leaf_obs<T: FromJson + ToCbor>(v: &J) -> Value {
    match catch(|| T::from_json(v).map(|x| x.to_cbor())) {
        Ok(Ok(c)) => arr(vec![uint(0), c]),
        Ok(Err(_)) => arr(vec![uint(1)]),
        Err(_) => arr(vec![uint(2)]),
    }
}

fn real_leaf(ns: u64, ty: &str, v: &J) -> Option<Value> {
    Some(match (ns, ty) {
        (_, "String") => leaf_obs::<String>(v),
        (_, "u32") => leaf_obs::<u32>(v),
        (_, "Latin1") => leaf_obs::<mdl::Latin1>(v),
        (_, "FullDate") => leaf_obs::<mdl::FullDate>(v),
        (_, "TDate") => leaf_obs::<mdl::TDate>(v),
        (_, "TDateOrFullDate") => leaf_obs::<mdl::TDateOrFullDate>(v),
        (_, "ByteStr") => leaf_obs::<ByteStr>(v),
        (MDL, "Alpha2") => leaf_obs::<mdl::Alpha2>(v),
        (MDL, "UNDistinguishingSign") => leaf_obs::<mdl::UNDistinguishingSign>(v),
        (MDL, "EyeColour") => leaf_obs::<mdl::EyeColour>(v),
        (MDL, "HairColour") => leaf_obs::<mdl::HairColour>(v),
        (MDL, "Sex") => leaf_obs::<mdl::Sex>(v),
        (MDL, "VehicleCategoryCode") => leaf_obs::<mdl::VehicleCategoryCode>(v),
        (MDL, "DrivingPrivileges") => leaf_obs::<mdl::DrivingPrivileges>(v),
        (MDL, "DrivingPrivilege") => leaf_obs::<mdl::DrivingPrivilege>(v),
        (MDL, "Codes") => leaf_obs::<mdl::Codes>(v),
        (MDL, "Code") => leaf_obs::<mdl::Code>(v),
        (AAMVA, "CountyCode") => leaf_obs::<aamva::CountyCode>(v),
        (AAMVA, "Present") => leaf_obs::<aamva::Present>(v),
        (AAMVA, "NameSuffix") => leaf_obs::<aamva::NameSuffix>(v),
        (AAMVA, "NameTruncation") => leaf_obs::<aamva::NameTruncation>(v),
        (AAMVA, "RaceAndEthnicity") => leaf_obs::<aamva::RaceAndEthnicity>(v),
        (AAMVA, "DHSCompliance") => leaf_obs::<aamva::DHSCompliance>(v),
        (AAMVA, "Sex") => leaf_obs::<aamva::Sex>(v),
        (AAMVA, "WeightRange") => leaf_obs::<aamva::WeightRange>(v),
        (AAMVA, "EDLIndicator") => leaf_obs::<aamva::EDLIndicator>(v),
        (AAMVA, "DomesticDrivingPrivileges") => leaf_obs::<aamva::DomesticDrivingPrivileges>(v),
        (AAMVA, "DomesticDrivingPrivilege") => leaf_obs::<aamva::DomesticDrivingPrivilege>(v),
        (AAMVA, "DomesticVehicleClass") => leaf_obs::<aamva::DomesticVehicleClass>(v),
        (AAMVA, "DomesticVehicleRestrictions") => leaf_obs::<aamva::DomesticVehicleRestrictions>(v),
        (AAMVA, "DomesticVehicleRestriction") => leaf_obs::<aamva::DomesticVehicleRestriction>(v),
        (AAMVA, "DomesticVehicleEndorsements") => leaf_obs::<aamva::DomesticVehicleEndorsements>(v),
        (AAMVA, "DomesticVehicleEndorsement") => leaf_obs::<aamva::DomesticVehicleEndorsement>(v),
        _ => return None,
    })
}

fn record_case(ctx: &mut Ctx, label: &str, ns: u64, v: &J, nontrivial: bool) {
    let obs = real_elements(ns, v);
    if let Value::Array(a) = &obs {
        match a.first() {
            Some(Value::Integer(i)) if i128::from(*i) == 0 => ctx.count("out:ok"),
            Some(Value::Integer(i)) if i128::from(*i) == 1 => ctx.count("out:err"),
            _ => ctx.count("out:panic"),
        }
    }
    let args = vec![uint(ns), json_cbor(v)];
    ctx.case(label, json!({"ns": ns, "json": v}), obs, Some(("c19.from_json", args.clone())), Some(("c19.spec", args)), nontrivial);
}

fn leaf_case(ctx: &mut Ctx, label: &str, ns: u64, ty: &str, v: &J) {
    let obs = match real_leaf(ns, ty, v) {
        Some(o) => o,
        None => {
            ctx.notes.push(format!("no implementation driver for type {ty}"));
            return;
        }
    };
    let args = vec![uint(ns), text(ty), json_cbor(v)];
    ctx.case(label, json!({"ns": ns, "type": ty, "json": v}), obs, Some(("c19.leaf", args.clone())), Some(("c19.spec_leaf", args)), true);
}

// ------------------------------------------------------------------------------------------
// code tables: every translator-emitted row against the running code

/// the real conversions of one table: input (text or u32) -> (Debug name of the variant, code)
fn table_conv(ns: u64, name: &str) -> Option<Box<dyn Fn(&Value) -> Option<(String, Value)>>> {
    fn s<T: FromStr + std::fmt::Debug + Clone + 'static>(to: fn(T) -> Value) -> Box<dyn Fn(&Value) -> Option<(String, Value)>> {
        Box::new(move |i| match i {
            Value::Text(x) => T::from_str(x).ok().map(|v| (format!("{v:?}"), to(v))),
            _ => None,
        })
    }
    fn n<T: TryFrom<u32> + std::fmt::Debug + Clone + 'static>(to: fn(T) -> Value) -> Box<dyn Fn(&Value) -> Option<(String, Value)>> {
        Box::new(move |i| match i {
            Value::Integer(x) => u32::try_from(i128::from(*x)).ok().and_then(|u| T::try_from(u).ok()).map(|v| (format!("{v:?}"), to(v))),
            _ => None,
        })
    }
    Some(match (ns, name) {
        (MDL, "Alpha2") => s::<mdl::Alpha2>(|v| v.to_cbor()),
        (MDL, "EyeColour") => s::<mdl::EyeColour>(|v| v.to_cbor()),
        (MDL, "HairColour") => s::<mdl::HairColour>(|v| v.to_cbor()),
        (MDL, "VehicleCategoryCode") => Box::new(|i| match i {
            // the normalisation lives in from_json, not in FromStr: go through from_json
            Value::Text(x) => mdl::VehicleCategoryCode::from_json(&J::String(x.clone())).ok().map(|v| (format!("{v:?}"), v.to_cbor())),
            _ => None,
        }),
        (MDL, "UNDistinguishingSign") => Box::new(|i| match i {
            Value::Text(x) => {
                let v = mdl::UNDistinguishingSign::from(x.clone());
                let d = format!("{v:?}");
                Some((if d.starts_with("NoneApplicable") { "NoneApplicable".to_string() } else { d }, v.to_cbor()))
            }
            _ => None,
        }),
        (MDL, "Sex") => n::<mdl::Sex>(|v| v.to_cbor()),
        (AAMVA, "NameSuffix") => s::<aamva::NameSuffix>(|v| v.to_cbor()),
        (AAMVA, "NameTruncation") => s::<aamva::NameTruncation>(|v| v.to_cbor()),
        (AAMVA, "RaceAndEthnicity") => s::<aamva::RaceAndEthnicity>(|v| v.to_cbor()),
        (AAMVA, "DHSCompliance") => s::<aamva::DHSCompliance>(|v| v.to_cbor()),
        (AAMVA, "Sex") => n::<aamva::Sex>(|v| v.to_cbor()),
        (AAMVA, "WeightRange") => n::<aamva::WeightRange>(|v| v.to_cbor()),
        (AAMVA, "EDLIndicator") => n::<aamva::EDLIndicator>(|v| v.to_cbor()),
        _ => return None,
    })
}

fn as_u(v: &Value) -> u64 {
    match v {
        Value::Integer(i) => i128::from(*i) as u64,
        _ => u64::MAX,
    }
}

fn case_variants(s: &str, rng: &mut impl Rng) -> Vec<String> {
    let mut v = vec![s.to_lowercase(), s.to_uppercase()];
    let mixed: String = s.chars().map(|c| if rng.gen_bool(0.5) { c.to_ascii_uppercase() } else { c.to_ascii_lowercase() }).collect();
    v.push(mixed);
    v.push(format!("{s} "));
    v.push(format!(" {s}"));
    // the non-ASCII scalars whose case mapping is ASCII
    v.push(s.replace('k', "\u{212A}").replace('K', "\u{212A}"));
    v.push(s.replace('S', "\u{17F}").replace('s', "\u{17F}"));
    v.push(s.replace('I', "\u{131}").replace('i', "\u{131}"));
    v.push(s.replace("SS", "\u{DF}").replace("ss", "\u{DF}"));
    v.push(s.replace("ST", "\u{FB06}").replace("FI", "\u{FB01}").replace("FL", "\u{FB02}").replace("FF", "\u{FB00}"));
    v.sort();
    v.dedup();
    v
}

fn tables(ctx: &mut Ctx) {
    let all = ctx.runner.query("c19.tables", vec![]);
    let Value::Array(all) = all else { panic!("c19.tables") };
    for t in &all {
        let Value::Array(t) = t else { continue };
        let ns = as_u(&t[0]);
        let Value::Text(name) = &t[1] else { continue };
        let (Value::Array(to), Value::Array(from)) = (&t[3], &t[4]) else { continue };
        let conv = match table_conv(ns, name) {
            Some(c) => c,
            None => {
                // a table the harness has no driver for: report as a correspondence mismatch
                ctx.case("table_unknown", json!({"ns": ns, "table": name}), Value::Null, Some(("c19.table", vec![uint(ns), text(name), uint(0), text("")])), None, false);
                ctx.case("table_unknown", json!({"ns": ns, "table": name}), text("no driver"), Some(("c19.table", vec![uint(ns), text(name), uint(0), text("")])), None, false);
                continue;
            }
        };
        ctx.count(&format!("table:{ns}:{name}"));
        // from rows: the running code maps the key to the variant the translator copied
        let mut by_variant: std::collections::BTreeMap<String, Value> = Default::default();
        for r in from {
            let Value::Array(r) = r else { continue };
            let (key, Value::Text(variant)) = (&r[0], &r[1]) else { continue };
            by_variant.entry(variant.clone()).or_insert(key.clone());
            let real = catch(|| conv(key)).unwrap_or(None);
            // observation: [variant name, code] ; model: the emitted row + the model's from/to pipeline
            let obs = match &real {
                Some((d, c)) => arr(vec![text(d), c.clone()]),
                None => Value::Null,
            };
            let model_code = ctx.runner.query("c19.table", vec![uint(ns), text(name), uint(1), key.clone()]);
            let expect = arr(vec![text(variant), model_code]);
            let desc = json!({"ns": ns, "table": name, "dir": "from", "key": diag(key), "emitted_variant": variant});
            // compare through `case` by asking the model for the same shape
            row_case(ctx, "table_from_row", desc, obs, expect);
            // normalisation: case / whitespace / special-scalar variants of the key
            if let Value::Text(k) = key {
                let vars = { let rng = &mut ctx.rng; case_variants(k, rng) };
                for kv in vars {
                    let i = text(&kv);
                    let real = catch(|| conv(&i)).unwrap_or(None).map(|(_, c)| c).unwrap_or(Value::Null);
                    ctx.case("table_norm", json!({"ns": ns, "table": name, "input": kv}), real, Some(("c19.table", vec![uint(ns), text(name), uint(1), i])), None, true);
                }
            }
        }
        // to rows: the running code renders the variant with the code the translator copied
        for r in to {
            let Value::Array(r) = r else { continue };
            let (Value::Text(variant), code) = (&r[0], &r[1]) else { continue };
            let obs = match by_variant.get(variant) {
                Some(key) => match catch(|| conv(key)).unwrap_or(None) {
                    Some((d, c)) if d == *variant => c,
                    _ => Value::Null,
                },
                None => Value::Null, // variant unreachable from any from-row
            };
            let desc = json!({"ns": ns, "table": name, "dir": "to", "variant": variant, "emitted_code": diag(code)});
            ctx.case("table_to_row", desc.clone(), obs.clone(), Some(("c19.table", vec![uint(ns), text(name), uint(0), text(variant)])), None, true);
            row_case(ctx, "table_to_row_emitted", desc, obs, code.clone());
        }
        // non-rows
        let is_int = as_u(&t[2]) == 1;
        for _ in 0..40 {
            let i = if is_int {
                uint(if ctx.rng.gen_bool(0.5) { ctx.rng.gen_range(0..20) } else { ctx.rng.gen::<u32>() as u64 })
            } else {
                let n = ctx.rng.gen_range(0..5);
                text(&(0..n).map(|_| *b"ABCDEFGHIJKLMNOPQRSTUVWXYZabc019 ".choose(&mut ctx.rng).unwrap() as char).collect::<String>())
            };
            let real = catch(|| conv(&i)).unwrap_or(None).map(|(_, c)| c).unwrap_or(Value::Null);
            ctx.case("table_random", json!({"ns": ns, "table": name, "input": diag(&i)}), real, Some(("c19.table", vec![uint(ns), text(name), uint(1), i])), None, false);
        }
    }
}

/// a comparison whose expected value was assembled by the harness from runner answers
fn row_case(ctx: &mut Ctx, label: &str, desc: serde_json::Value, obs: Value, expect: Value) {
    let idx = ctx.evaluations;
    ctx.evaluations += 1;
    if let Some(only) = ctx.only_case {
        if only != idx {
            return;
        }
    }
    ctx.count(&format!("case:{label}"));
    if obs != expect {
        ctx.count("corr_mismatch");
        if ctx.corr_mismatches.len() < ctx.max_reports {
            ctx.corr_mismatches.push(json!({"case_index": idx, "label": label, "desc": desc, "first_difference": first_diff(&obs, &expect)}));
        }
    }
}

// ------------------------------------------------------------------------------------------
// value generators

const ALPHA2: [&str; 12] = ["US", "GB", "DE", "FR", "AD", "ZW", "AQ", "CA", "NL", "JP", "SS", "XK_not"];
const EYES: [&str; 10] = ["black", "blue", "brown", "dichromatic", "grey", "green", "hazel", "maroon", "pink", "unknown"];
const HAIR: [&str; 10] = ["bald", "black", "blond", "brown", "grey", "red", "auburn", "sandy", "white", "unknown"];
const VCC: [&str; 15] = ["A", "B", "C", "D", "BE", "CE", "DE", "AM", "A1", "A2", "B1", "C1", "D1", "C1E", "D1E"];
const SUFFIX: [&str; 20] = ["JR", "SR", "1ST", "I", "2ND", "II", "3RD", "III", "4TH", "IV", "5TH", "V", "6TH", "VI", "7TH", "VII", "8TH", "VIII", "9TH", "IX"];

fn b64(bytes: &[u8]) -> String {
    base64::encode(bytes)
}

fn latin1_ok(rng: &mut impl Rng) -> String {
    let pool: Vec<char> = " !0AZaz~\u{a0}\u{bf}\u{c0}\u{e9}\u{ff}-'.".chars().collect();
    let n = match rng.gen_range(0..10) {
        0 => 0,
        1 => 1,
        2 => 150,
        3 => 149,
        _ => rng.gen_range(1..40),
    };
    let ascii_only = n > 75 || rng.gen_bool(0.5);
    (0..n).map(|_| if ascii_only { *b"ABCxyz 019-".choose(rng).unwrap() as char } else { *pool.choose(rng).unwrap() }).collect()
}

fn full_date_ok(rng: &mut impl Rng) -> String {
    let y = match rng.gen_range(0..10) {
        0 => 1000,
        1 => 9999,
        2 => 2000,
        3 => 1900,
        4 => 2024,
        _ => rng.gen_range(1000..=9999),
    };
    let m = rng.gen_range(1..=12);
    let leap = y % 4 == 0 && (y % 100 != 0 || y % 400 == 0);
    let dim = match m { 2 => if leap { 29 } else { 28 }, 4 | 6 | 9 | 11 => 30, _ => 31 };
    let d = if rng.gen_bool(0.3) { dim } else { rng.gen_range(1..=dim) };
    format!("{y:04}-{m:02}-{d:02}")
}

fn tdate_ok(rng: &mut impl Rng) -> String {
    let date = full_date_ok(rng);
    // keep clear of the year boundaries so that the UTC form stays in range
    let date = if date.starts_with("9999") || date.starts_with("1000") { format!("2{}", &date[1..]) } else { date };
    let date = if date.ends_with("02-29") { format!("2024{}", &date[4..]) } else { date };
    let (h, mi, s) = match rng.gen_range(0..6) {
        0 => (0, 0, 0),
        1 => (23, 59, 59),
        _ => (rng.gen_range(0..24), rng.gen_range(0..60), rng.gen_range(0..60)),
    };
    let frac = match rng.gen_range(0..5) { 0 => ".5".to_string(), 1 => ".123456789".to_string(), 2 => ".000".to_string(), _ => String::new() };
    let off = match rng.gen_range(0..8) {
        0 => "z".to_string(),
        1 => "+00:00".to_string(),
        2 => "-00:00".to_string(),
        3 => format!("+{:02}:{:02}", rng.gen_range(0..24), rng.gen_range(0..60)),
        4 => format!("-{:02}:{:02}", rng.gen_range(0..24), rng.gen_range(0..60)),
        5 => "+23:59".to_string(),
        _ => "Z".to_string(),
    };
    let sep = match rng.gen_range(0..10) { 0 => "t", 1 => " ", _ => "T" };
    format!("{date}{sep}{h:02}:{mi:02}:{s:02}{frac}{off}")
}

fn codes_ok(rng: &mut impl Rng) -> J {
    let n = rng.gen_range(1..4);
    J::Array((0..n).map(|_| {
        let mut m = Map::new();
        m.insert("code".into(), json!(["01", "78", "S01", ""].choose(rng).unwrap()));
        if rng.gen_bool(0.5) { m.insert("sign".into(), json!(["=", "<", ">="].choose(rng).unwrap())); }
        if rng.gen_bool(0.5) { m.insert("value".into(), json!("12")); }
        if rng.gen_bool(0.1) { m.insert("sign".into(), J::Null); }
        J::Object(m)
    }).collect())
}

fn driving_privileges_ok(rng: &mut impl Rng) -> J {
    let n = rng.gen_range(0..4);
    J::Array((0..n).map(|_| {
        let mut m = Map::new();
        let c = *VCC.choose(rng).unwrap();
        m.insert("vehicle_category_code".into(), json!(if rng.gen_bool(0.2) { c.to_lowercase() } else { c.to_string() }));
        if rng.gen_bool(0.6) { m.insert("issue_date".into(), json!(full_date_ok(rng))); }
        if rng.gen_bool(0.6) { m.insert("expiry_date".into(), json!(full_date_ok(rng))); }
        if rng.gen_bool(0.4) { m.insert("codes".into(), codes_ok(rng)); }
        if rng.gen_bool(0.1) { m.insert("unknown_key".into(), json!(1)); }
        J::Object(m)
    }).collect())
}

fn domestic_privileges_ok(rng: &mut impl Rng) -> J {
    let n = rng.gen_range(0..3);
    J::Array((0..n).map(|_| {
        let mut m = Map::new();
        if rng.gen_bool(0.7) {
            let mut c = Map::new();
            c.insert("domestic_vehicle_class_code".into(), json!("A"));
            c.insert("domestic_vehicle_class_description".into(), json!("Class A"));
            if rng.gen_bool(0.5) { c.insert("issue_date".into(), json!(full_date_ok(rng))); }
            if rng.gen_bool(0.5) { c.insert("expiry_date".into(), json!(full_date_ok(rng))); }
            m.insert("domestic_vehicle_class".into(), J::Object(c));
        }
        if rng.gen_bool(0.5) {
            let k = rng.gen_range(1..3);
            m.insert("domestic_vehicle_restrictions".into(), J::Array((0..k).map(|i| {
                let mut r = Map::new();
                if rng.gen_bool(0.5) { r.insert("domestic_vehicle_restriction_code".into(), json!(format!("R{i}"))); }
                r.insert("domestic_vehicle_restriction_description".into(), json!("corrective lenses"));
                J::Object(r)
            }).collect()));
        }
        if rng.gen_bool(0.5) {
            let k = rng.gen_range(1..3);
            m.insert("domestic_vehicle_endorsements".into(), J::Array((0..k).map(|i| {
                let mut r = Map::new();
                if rng.gen_bool(0.5) { r.insert("domestic_vehicle_endorsement_code".into(), json!(format!("E{i}"))); }
                r.insert("domestic_vehicle_endorsement_description".into(), json!("tank"));
                J::Object(r)
            }).collect()));
        }
        J::Object(m)
    }).collect())
}

#[derive(Clone, Copy, PartialEq)]
enum Cl {
    Latin1, Text, FullDate, TDate, TDateOrFull, Alpha2, Bytes, U32, Eye, Hair, SexMdl, UnSign, DrivPriv, Jurisdiction,
    Suffix, Present, Trunc, Weight, Race, Edl, SexAamva, Dhs, County, DomPriv,
}

fn gen_ok(c: Cl, rng: &mut impl Rng, country: &str) -> J {
    match c {
        Cl::Latin1 => json!(latin1_ok(rng)),
        Cl::Text => json!(["", "Ünïcødé ✓", "李", "plain"].choose(rng).unwrap()),
        Cl::FullDate => json!(full_date_ok(rng)),
        Cl::TDate => json!(tdate_ok(rng)),
        Cl::TDateOrFull => if rng.gen_bool(0.5) { json!(full_date_ok(rng)) } else { json!(tdate_ok(rng)) },
        Cl::Alpha2 => json!(ALPHA2[rng.gen_range(0..11)]),
        Cl::Bytes => { let n = [0usize, 1, 2, 3, 31, 64][rng.gen_range(0..6)]; let b: Vec<u8> = (0..n).map(|_| rng.gen()).collect(); let e = b64(&b); json!(if rng.gen_bool(0.2) { e.trim_end_matches('=').to_string() } else { e }) }
        Cl::U32 => json!([0u64, 1, 170, 4294967295][rng.gen_range(0..4)]),
        Cl::Eye => { let s = *EYES.choose(rng).unwrap(); json!(if rng.gen_bool(0.2) { s.to_uppercase() } else { s.to_string() }) }
        Cl::Hair => { let s = *HAIR.choose(rng).unwrap(); json!(if rng.gen_bool(0.2) { s.to_uppercase() } else { s.to_string() }) }
        Cl::SexMdl => json!([0, 1, 2, 9][rng.gen_range(0..4)]),
        Cl::UnSign => json!(["USA", "D", "GB", "", "XYZ", "usa"].choose(rng).unwrap()),
        Cl::DrivPriv => driving_privileges_ok(rng),
        Cl::Jurisdiction => json!(format!("{country}{}", ["-NY", "", "-CA", "X"].choose(rng).unwrap())),
        Cl::Suffix => json!(SUFFIX.choose(rng).unwrap()),
        Cl::Present => json!(1),
        Cl::Trunc => json!(["T", "N", "U"].choose(rng).unwrap()),
        Cl::Weight => json!(rng.gen_range(0..10)),
        Cl::Race => json!(["AI", "AP", "BK", "H", "O", "U", "W"].choose(rng).unwrap()),
        Cl::Edl => json!(rng.gen_range(1..3)),
        Cl::SexAamva => json!([1, 2, 9][rng.gen_range(0..3)]),
        Cl::Dhs => json!(["F", "N"].choose(rng).unwrap()),
        Cl::County => json!(format!("{:03}", rng.gen_range(0..1000))),
        Cl::DomPriv => domestic_privileges_ok(rng),
    }
}

/// out-of-domain value classes of a value class: (class label, value)
fn gen_bad(c: Cl) -> Vec<(&'static str, J)> {
    let mut v: Vec<(&'static str, J)> = vec![];
    let wrong_types: Vec<(&'static str, J)> = vec![("type:bool", json!(true)), ("type:number", json!(7)), ("type:float", json!(1.5)), ("type:neg", json!(-1)), ("type:string", json!("x")), ("type:array", json!([1])), ("type:object", json!({"a": 1}))];
    let is_str = !matches!(c, Cl::U32 | Cl::SexMdl | Cl::Present | Cl::Weight | Cl::Edl | Cl::SexAamva | Cl::DrivPriv | Cl::DomPriv);
    let is_num = matches!(c, Cl::U32 | Cl::SexMdl | Cl::Present | Cl::Weight | Cl::Edl | Cl::SexAamva);
    for (l, x) in wrong_types {
        let skip = (is_str && l == "type:string") || (is_num && l == "type:number") || (matches!(c, Cl::DrivPriv | Cl::DomPriv) && l == "type:array");
        if !skip {
            v.push((l, x));
        }
    }
    match c {
        Cl::Latin1 => {
            v.push(("latin1:151 ascii", json!("a".repeat(151))));
            v.push(("latin1:control", json!("a\u{7f}b")));
            v.push(("latin1:c1 control", json!("a\u{85}b")));
            v.push(("latin1:tab", json!("a\tb")));
            v.push(("latin1:U+0100", json!("a\u{100}")));
            // characters that LOOK like Latin-1 punctuation or letters (or are in Windows-1252) but are not in ISO 8859-1
            for c in ['\u{2018}', '\u{2019}', '\u{201a}', '\u{201c}', '\u{201d}', '\u{2013}', '\u{2014}', '\u{2010}', '\u{2011}', '\u{2212}', '\u{2026}', '\u{20ac}', '\u{152}', '\u{153}', '\u{160}',
                      '\u{178}', '\u{17d}', '\u{2bc}', '\u{2b9}', '\u{ff07}', '\u{ff0d}', '\u{2003}', '\u{202f}', '\u{200b}', '\u{feff}', '\u{301}', '\u{308}', '\u{131}', '\u{141}', '\u{391}', '\u{410}'] {
                v.push(("latin1:lookalike", json!(format!("O{c}Brien"))));
            }
            v.push(("latin1:cjk", json!("李")));
            v.push(("latin1:emoji", json!("\u{1F600}")));
            v.push(("latin1:151 chars upper", json!("é".repeat(151))));
        }
        Cl::FullDate | Cl::TDateOrFull | Cl::TDate => {
            for s in ["", "2020-02-30", "2021-02-29", "1900-02-29", "2020-13-01", "2020-00-10", "2020-01-00", "2020-1-01", "20200101", "2020/01/01", "2020-01-01 ", " 2020-01-01", "٢٠٢٠-01-01", "2020-01-32", "12345-01-01", "2020-01-01T", "2020-01-01T12:00:00", "2020-01-01T24:00:00Z", "2020-01-01T12:60:00Z", "2020-01-01T12:00:61Z", "2020-01-01T12:00:00+24:00", "2020-01-01T12:00:00+00:60", "2020-01-01T12:00:00.Z", "2020-01-01T12:00:00ZZ", "2020-01-01T12:00:00+0100", "2020-02-30T12:00:00Z", "2020-01-01T1:00:00Z", "not a date"] {
                v.push(("date:malformed", json!(s)));
            }
            if c == Cl::FullDate { v.push(("date:datetime for full-date", json!("2020-01-01T00:00:00Z"))); }
            if c == Cl::TDate { v.push(("date:full-date for tdate", json!("2020-01-01"))); }
        }
        Cl::Alpha2 => for s in ["us", "USA", "XX", "", "U", "ZZ", "UK", " US"] { v.push(("code:not listed", json!(s))); },
        Cl::Bytes => for s in ["!", "A", "QUJD*", "QUJDR", "QR==", "Q===", "QUI=QUI=", "QUJD\n", "-_-_", "QU JD"] { v.push(("base64:invalid", json!(s))); },
        Cl::U32 => { v.push(("uint:2^32", json!(4294967296u64))); v.push(("uint:u64 max", json!(u64::MAX))); }
        Cl::Eye | Cl::Hair => for s in ["", "purple", "blue ", "bl ue", "blu"] { v.push(("code:not listed", json!(s))); },
        Cl::SexMdl => for n in [3u64, 8, 10, 255, 256, 4294967296] { v.push(("code:not listed", json!(n))); },
        Cl::UnSign => {}
        Cl::DrivPriv => {
            v.push(("nested:element not object", json!([1])));
            v.push(("nested:missing code", json!([{}])));
            v.push(("nested:bad code", json!([{"vehicle_category_code": "Z"}])));
            v.push(("nested:bad date", json!([{"vehicle_category_code": "A", "issue_date": "2020-02-30"}])));
            v.push(("nested:empty codes", json!([{"vehicle_category_code": "A", "codes": []}])));
            v.push(("nested:code without code", json!([{"vehicle_category_code": "A", "codes": [{"sign": "="}]}])));
            v.push(("nested:code wrong type", json!([{"vehicle_category_code": "A", "codes": [{"code": 1}]}])));
            v.push(("nested:second bad", json!([{"vehicle_category_code": "A"}, {"vehicle_category_code": "B", "expiry_date": 5}])));
        }
        Cl::Jurisdiction => { v.push(("jurisdiction:other country", json!("ZZ-1"))); v.push(("jurisdiction:lower", json!("us-ny"))); }
        Cl::Suffix => for s in ["jr", "10TH", "", "X"] { v.push(("code:not listed", json!(s))); },
        Cl::Present => for n in [0u64, 2, 255, 256, 257, 513, 65537, 16777217, 4294967041, 4294967295, 4294967296, 4294967297] { v.push(("code:not listed", json!(n))); },
        Cl::Trunc | Cl::Dhs | Cl::Race => for s in ["t", "X", "", "TN"] { v.push(("code:not listed", json!(s))); },
        Cl::Weight => for n in [10u64, 255, 4294967296] { v.push(("code:not listed", json!(n))); },
        Cl::Edl => for n in [0u64, 3] { v.push(("code:not listed", json!(n))); },
        Cl::SexAamva => for n in [0u64, 3, 10] { v.push(("code:not listed", json!(n))); },
        Cl::County => for s in ["", "1", "12", "1234", "12a", "١٢٣", "+12"] { v.push(("county:malformed", json!(s))); },
        Cl::DomPriv => {
            v.push(("nested:element not object", json!(["x"])));
            v.push(("nested:class incomplete", json!([{"domestic_vehicle_class": {"domestic_vehicle_class_code": "A"}}])));
            v.push(("nested:empty restrictions", json!([{"domestic_vehicle_restrictions": []}])));
            v.push(("nested:restriction without description", json!([{"domestic_vehicle_restrictions": [{"domestic_vehicle_restriction_code": "B"}]}])));
            v.push(("nested:bad date", json!([{"domestic_vehicle_class": {"domestic_vehicle_class_code": "A", "domestic_vehicle_class_description": "d", "issue_date": "2020-13-01"}}])));
            v.push(("nested:endorsement wrong type", json!([{"domestic_vehicle_endorsements": [{"domestic_vehicle_endorsement_description": 1}]}])));
        }
        Cl::Text => {}
    }
    v
}

const MDL_FIELDS: [(&str, Cl, bool); 31] = [
    ("family_name", Cl::Latin1, true), ("given_name", Cl::Latin1, true), ("birth_date", Cl::FullDate, true),
    ("issue_date", Cl::TDateOrFull, true), ("expiry_date", Cl::TDateOrFull, true), ("issuing_country", Cl::Alpha2, true),
    ("issuing_authority", Cl::Latin1, true), ("document_number", Cl::Latin1, true), ("portrait", Cl::Bytes, true),
    ("driving_privileges", Cl::DrivPriv, true), ("un_distinguishing_sign", Cl::UnSign, true),
    ("administrative_number", Cl::Latin1, false), ("sex", Cl::SexMdl, false), ("height", Cl::U32, false), ("weight", Cl::U32, false),
    ("eye_colour", Cl::Eye, false), ("hair_colour", Cl::Hair, false), ("birth_place", Cl::Latin1, false),
    ("resident_address", Cl::Latin1, false), ("portrait_capture_date", Cl::TDate, false), ("age_in_years", Cl::U32, false),
    ("age_birth_year", Cl::U32, false), ("issuing_jurisdiction", Cl::Jurisdiction, false), ("nationality", Cl::Alpha2, false),
    ("resident_city", Cl::Latin1, false), ("resident_state", Cl::Latin1, false), ("resident_postal_code", Cl::Latin1, false),
    ("resident_country", Cl::Alpha2, false), ("family_name_national_character", Cl::Text, false),
    ("given_name_national_character", Cl::Text, false), ("signature_usual_mark", Cl::Bytes, false),
];

const AAMVA_FIELDS: [(&str, Cl, bool); 19] = [
    ("domestic_driving_privileges", Cl::DomPriv, true), ("name_suffix", Cl::Suffix, false), ("organ_donor", Cl::Present, false),
    ("veteran", Cl::Present, false), ("family_name_truncation", Cl::Trunc, true), ("given_name_truncation", Cl::Trunc, true),
    ("aka_family_name.v2", Cl::Latin1, false), ("aka_given_name.v2", Cl::Latin1, false), ("aka_suffix", Cl::Suffix, false),
    ("weight_range", Cl::Weight, false), ("race_ethnicity", Cl::Race, false), ("EDL_credential", Cl::Edl, false),
    ("sex", Cl::SexAamva, true), ("DHS_compliance", Cl::Dhs, true), ("resident_county", Cl::County, false),
    ("hazmat_endorsement_expiration_date", Cl::FullDate, false), ("CDL_indicator", Cl::Present, false),
    ("DHS_compliance_text", Cl::Text, false), ("DHS_temporary_lawful_status", Cl::Present, false),
];

fn fields_of(ns: u64) -> &'static [(&'static str, Cl, bool)] {
    if ns == MDL { &MDL_FIELDS } else { &AAMVA_FIELDS }
}

/// a record in the domain: all mandatory fields, the optional fields selected by `pick`
fn build_record(ns: u64, rng: &mut impl Rng, pick: &dyn Fn(usize) -> bool) -> Map<String, J> {
    let mut m = Map::new();
    let country = ALPHA2[rng.gen_range(0..11)].to_string();
    let mut opt_index = 0usize;
    for (name, cl, mandatory) in fields_of(ns) {
        let take = if *mandatory { true } else { opt_index += 1; pick(opt_index - 1) };
        if take {
            let v = if *name == "issuing_country" { json!(country) } else { gen_ok(*cl, rng, &country) };
            m.insert(name.to_string(), v);
        }
    }
    m
}

fn n_optional(ns: u64) -> usize {
    fields_of(ns).iter().filter(|f| !f.2).count()
}

fn add_dynamic(m: &mut Map<String, J>, rng: &mut impl Rng) {
    let k = rng.gen_range(0..5);
    for _ in 0..k {
        let nn: u32 = rng.gen_range(0..100);
        m.insert(format!("age_over_{nn:02}"), json!(rng.gen_bool(0.5)));
    }
    for t in ["face", "finger", "signature_sign", "iris", "01", "x"] {
        if rng.gen_bool(0.15) {
            let b: Vec<u8> = (0..rng.gen_range(0..10)).map(|_| rng.gen()).collect();
            m.insert(format!("biometric_template_{t}"), json!(b64(&b)));
        }
    }
}

fn add_noise(m: &mut Map<String, J>, rng: &mut impl Rng) {
    // keys that are not identifiers of the data model: ignored
    // (near misses of the dynamic identifiers: signs, spaces, widths, prefixes that an integer / suffix parser may accept)
    for k in ["age_over_age_over_18", "age_over_age_over_age_over_21", "biometric_template_biometric_template_face", "biometric_template_biometric_template_", "age_over_biometric_template_18",
              "foo", "age_over_5", "age_over_abc", "age_over_123", "AGE_OVER_18", "age_over_", "biometric_template", "Family_name", "age_over_1x", "age_over_٢١", "sex ", "",
              "age_over_+5", "age_over_-5", "age_over_+0", "age_over_ 5", "age_over_5 ", "age_over_0x", "age_over_1_", "age_over__1", "age_over_1e", "xage_over_18", "age_over_18 ", " age_over_18",
              "age_over_018", "biometric_template__face", "biometric_template_ ", "Biometric_template_face", "domestic_driving_privileges ", "name_suffix.v2"] {
        if rng.gen_bool(0.08) {
            m.insert(k.to_string(), [json!(true), json!("x"), json!(null), json!(3)].choose(rng).unwrap().clone());
        }
    }
    // optional fields given as null: documented as absent
    let names: Vec<&str> = fields_of(MDL).iter().chain(fields_of(AAMVA).iter()).filter(|f| !f.2).map(|f| f.0).collect();
    if rng.gen_bool(0.2) {
        let n = *names.choose(rng).unwrap();
        if !m.contains_key(n) && n != "issuing_jurisdiction" {
            m.insert(n.to_string(), J::Null);
        }
    }
}

// ------------------------------------------------------------------------------------------

fn records(ctx: &mut Ctx) {
    for ns in [MDL, AAMVA] {
        let k = n_optional(ns);
        // all-optional-absent and all-optional-present
        for all in [false, true] {
            for _ in 0..3 {
                let m = build_record(ns, &mut ctx.rng, &|_| all);
                record_case(ctx, "subset_extreme", ns, &J::Object(m), true);
            }
        }
        // single optional field / all but one
        for i in 0..k {
            let m = build_record(ns, &mut ctx.rng, &|j| j == i);
            record_case(ctx, "subset_single", ns, &J::Object(m), true);
            let m = build_record(ns, &mut ctx.rng, &|j| j != i);
            record_case(ctx, "subset_all_but_one", ns, &J::Object(m), true);
        }
        if ctx.thorough {
            if ns == AAMVA {
                // every subset of the 14 optional fields
                for mask in 0u32..(1 << k) {
                    let m = build_record(ns, &mut ctx.rng, &|j| mask >> j & 1 == 1);
                    record_case(ctx, "subset_all", ns, &J::Object(m), true);
                }
            } else {
                // pairwise: every pair of optional fields in all four presence combinations
                for i in 0..k {
                    for j in (i + 1)..k {
                        for (pi, pj) in [(false, false), (false, true), (true, false), (true, true)] {
                            let base: u32 = ctx.rng.gen();
                            let m = build_record(ns, &mut ctx.rng, &|x| if x == i { pi } else if x == j { pj } else { base >> x & 1 == 1 });
                            record_case(ctx, "subset_pairwise", ns, &J::Object(m), true);
                        }
                    }
                }
            }
        }
        // random subsets with dynamic fields, unknown keys and nulls
        let n = ctx.budget(if ns == MDL { 1200 } else { 600 }, if ns == MDL { 60_000 } else { 20_000 });
        for _ in 0..n {
            let mask: u32 = ctx.rng.gen();
            let dens = ctx.rng.gen_range(0..=3);
            let mut m = build_record(ns, &mut ctx.rng, &|j| match dens { 0 => false, 3 => true, _ => mask >> j & 1 == 1 });
            if ns == MDL {
                add_dynamic(&mut m, &mut ctx.rng);
            }
            add_noise(&mut m, &mut ctx.rng);
            record_case(ctx, "random_valid", ns, &J::Object(m), true);
        }
        // every age_over_NN, and every enum code of every table inside a record
        if ns == MDL {
            let mut m = build_record(ns, &mut ctx.rng, &|_| false);
            for nn in 0..100u32 {
                m.insert(format!("age_over_{nn:02}"), json!(nn % 3 == 0));
            }
            record_case(ctx, "all_age_over", ns, &J::Object(m.clone()), true);
            for nn in [0u32, 1, 9, 10, 18, 21, 65, 99] {
                let mut m = build_record(ns, &mut ctx.rng, &|_| false);
                m.insert(format!("age_over_{nn:02}"), json!(true));
                record_case(ctx, "one_age_over", ns, &J::Object(m), true);
            }
            // every near miss of a dynamic identifier, one at a time, with each value type: it is no identifier of the
            // data model, so the record is accepted exactly as without it
            for k in ["age_over_age_over_18", "biometric_template_biometric_template_face", "biometric_template_biometric_template_",
                      "age_over_+5", "age_over_-5", "age_over_+0", "age_over_ 5", "age_over_5 ", "age_over_5", "age_over_0x", "age_over_1_", "age_over__1", "age_over_1e", "age_over_018", "age_over_18 ",
                      " age_over_18", "xage_over_18", "age_over_１８", "age_over_1٢", "biometric_template_", "biometric_template", "Biometric_template_face", "biometric_template__face"] {
                for v in [json!(true), json!("x"), json!(5), J::Null] {
                    let mut m = build_record(ns, &mut ctx.rng, &|_| false);
                    m.insert(k.to_string(), v);
                    record_case(ctx, "near_miss_identifier", ns, &J::Object(m), true);
                }
            }
        }
    }
}

fn enum_codes_in_records(ctx: &mut Ctx) {
    // every code of every table, through the record (both namespaces)
    let all = ctx.runner.query("c19.tables", vec![]);
    let Value::Array(all) = all else { return };
    let place = |ns: u64, table: &str| -> Vec<&'static str> {
        match (ns, table) {
            (MDL, "Alpha2") => vec!["issuing_country", "nationality", "resident_country"],
            (MDL, "EyeColour") => vec!["eye_colour"],
            (MDL, "HairColour") => vec!["hair_colour"],
            (MDL, "Sex") => vec!["sex"],
            (MDL, "UNDistinguishingSign") => vec!["un_distinguishing_sign"],
            (MDL, "VehicleCategoryCode") => vec!["driving_privileges"],
            (AAMVA, "NameSuffix") => vec!["name_suffix", "aka_suffix"],
            (AAMVA, "NameTruncation") => vec!["family_name_truncation", "given_name_truncation"],
            (AAMVA, "RaceAndEthnicity") => vec!["race_ethnicity"],
            (AAMVA, "DHSCompliance") => vec!["DHS_compliance"],
            (AAMVA, "Sex") => vec!["sex"],
            (AAMVA, "WeightRange") => vec!["weight_range"],
            (AAMVA, "EDLIndicator") => vec!["EDL_credential"],
            _ => vec![],
        }
    };
    for t in &all {
        let Value::Array(t) = t else { continue };
        let ns = as_u(&t[0]);
        let Value::Text(name) = &t[1] else { continue };
        let Value::Array(from) = &t[4] else { continue };
        let fields = place(ns, name);
        for (ri, r) in from.iter().enumerate() {
            let Value::Array(r) = r else { continue };
            // quick tier: every row of the small tables, every 4th row of the two large ones (all rows are
            // covered by the table cross-check); thorough: every row
            if !ctx.thorough && from.len() > 40 && ri % 4 != 0 {
                continue;
            }
            let code: J = match &r[0] {
                Value::Text(s) => json!(s),
                other => json!(as_u(other)),
            };
            for f in &fields {
                let mut m = build_record(ns, &mut ctx.rng, &|_| false);
                if *f == "driving_privileges" {
                    m.insert(f.to_string(), json!([{ "vehicle_category_code": code }]));
                } else {
                    m.insert(f.to_string(), code.clone());
                }
                if *f == "issuing_country" {
                    m.remove("issuing_jurisdiction");
                }
                record_case(ctx, "enum_code_in_record", ns, &J::Object(m), true);
            }
        }
    }
}

fn rejections(ctx: &mut Ctx) {
    for ns in [MDL, AAMVA] {
        let fields = fields_of(ns);
        // a missing mandatory field (single, and pairs)
        let mand: Vec<&str> = fields.iter().filter(|f| f.2).map(|f| f.0).collect();
        for (i, a) in mand.iter().enumerate() {
            let mut m = build_record(ns, &mut ctx.rng, &|j| j % 3 == 0);
            m.remove(*a);
            record_case(ctx, "missing_mandatory", ns, &J::Object(m.clone()), true);
            let mut m2 = m.clone();
            m2.insert(a.to_string(), J::Null);
            record_case(ctx, "null_mandatory", ns, &J::Object(m2), true);
            for c in mand.iter().skip(i + 1) {
                let mut m3 = m.clone();
                m3.remove(*c);
                record_case(ctx, "missing_two_mandatory", ns, &J::Object(m3), true);
            }
        }
        record_case(ctx, "empty_object", ns, &json!({}), true);
        for v in [json!(null), json!(true), json!(1), json!("x"), json!([]), json!([{}])] {
            record_case(ctx, "not_an_object", ns, &v, true);
        }
        // each out-of-domain class of each field
        for (name, cl, _) in fields {
            for (class, bad) in gen_bad(*cl) {
                let mut m = build_record(ns, &mut ctx.rng, &|j| j % 2 == 0);
                m.insert(name.to_string(), bad);
                ctx.count(&format!("bad:{class}"));
                record_case(ctx, "out_of_domain", ns, &J::Object(m), true);
            }
        }
        if ns == MDL {
            // dynamic fields with out-of-domain values
            for (k, v) in [("age_over_18", json!("true")), ("age_over_18", json!(1)), ("age_over_18", J::Null), ("age_over_00", json!([])),
                           ("biometric_template_face", json!("!!")), ("biometric_template_face", json!(1)), ("biometric_template_face", J::Null),
                           ("issuing_jurisdiction", J::Null)] {
                let mut m = build_record(ns, &mut ctx.rng, &|_| false);
                m.insert(k.to_string(), v);
                record_case(ctx, "out_of_domain_dynamic", ns, &J::Object(m), true);
            }
            // issuing_jurisdiction against issuing_country
            for (c, j) in [("US", "US-NY"), ("US", "CA-ON"), ("US", "US"), ("US", "U"), ("US", ""), ("DE", "DE-BY"), ("US", "us-ny")] {
                let mut m = build_record(ns, &mut ctx.rng, &|_| false);
                m.insert("issuing_country".into(), json!(c));
                m.insert("issuing_jurisdiction".into(), json!(j));
                record_case(ctx, "jurisdiction", ns, &J::Object(m), true);
            }
            let mut m = build_record(ns, &mut ctx.rng, &|_| false);
            m.remove("issuing_country");
            m.insert("issuing_jurisdiction".into(), json!("US-NY"));
            record_case(ctx, "jurisdiction", ns, &J::Object(m), true);
        }
    }
}

/// the inputs of the eight defect classes once recorded for C19 (all fixed in /repo) and their
/// neighbours, through whole records; any of them failing again is a plain spec failure
fn former_defects(ctx: &mut Ctx) {
    let e150: String = "é".repeat(150);
    let e75: String = "é".repeat(75);
    let mix: String = format!("{}{}", "a".repeat(149), "é");
    let put = |ctx: &mut Ctx, field: &str, v: J| {
        let mut m = build_record(MDL, &mut ctx.rng, &|_| false);
        m.insert(field.to_string(), v);
        record_case(ctx, "boundary_in_record", MDL, &J::Object(m), true);
    };
    for s in [e150.as_str(), e75.as_str(), mix.as_str(), &"a".repeat(150), &"ÿ".repeat(76)] {
        put(ctx, "family_name", json!(s));
        put(ctx, "resident_address", json!(s));
    }
    for s in ["0999-01-01", "0000-01-01", "0001-12-31", "0999-12-31", "1000-01-01", "-0001-01-01", "+2020-01-01", "-2020-02-29", "+0000-01-01"] {
        put(ctx, "birth_date", json!(s));
        put(ctx, "issue_date", json!(s));
        let mut m = build_record(MDL, &mut ctx.rng, &|_| false);
        m.insert("driving_privileges".into(), json!([{"vehicle_category_code": "B", "issue_date": s}]));
        record_case(ctx, "boundary_in_record", MDL, &J::Object(m), true);
        let mut m = build_record(AAMVA, &mut ctx.rng, &|_| false);
        m.insert("hazmat_endorsement_expiration_date".into(), json!(s));
        record_case(ctx, "boundary_in_record", AAMVA, &J::Object(m), true);
    }
    for s in ["0000-01-01T00:00:00+01:00", "0000-01-01T00:00:00+00:01", "0000-01-01T00:00:00Z", "0000-01-01T00:00:00-00:01", "9999-12-31T23:59:59-01:00",
              "9999-12-31T23:59:59-00:01", "9999-12-31T23:59:59Z", "9999-12-31T23:59:59+00:01", "9999-12-31T00:00:00-23:59", "0000-01-01T23:59:59+23:59",
              "2016-12-31T23:59:60Z", "2016-12-30T23:59:60Z", "2017-01-01T00:59:60+01:00", "2016-12-31T23:59:60.5Z", "2016-06-30T23:59:60Z", "2016-12-31T22:59:60Z", "9999-12-31T23:59:60Z", "0000-01-01T00:29:60+00:30",
              "2020-01-01x12:00:00Z", "2020-01-01_12:00:00Z", "2020-01-01\u{0}12:00:00Z", "2020-01-01 12:00:00Z", "2020-01-01t12:00:00z", "2020-01-01T12:00:00.999999999999Z"] {
        put(ctx, "issue_date", json!(s));
        put(ctx, "expiry_date", json!(s));
        put(ctx, "portrait_capture_date", json!(s));
    }
    for k in ["biometric_template_", "biometric_template_x", "biometric_template__", "biometric_template_face"] {
        let mut m = build_record(MDL, &mut ctx.rng, &|_| false);
        m.insert(k.to_string(), json!("AAEC"));
        record_case(ctx, "boundary_in_record", MDL, &J::Object(m), true);
    }
}

fn leaf_sweeps(ctx: &mut Ctx) {
    // full-date: every day of selected years, plus day 0 / 32 and month 0 / 13
    let years: Vec<i32> = if ctx.thorough { vec![0, 1, 4, 99, 100, 400, 999, 1000, 1582, 1600, 1700, 1900, 1999, 2000, 2023, 2024, 2100, 2400, 9996, 9999] } else { vec![0, 999, 1000, 1900, 2000, 2023, 2024, 9999] };
    for y in years {
        for m in 0..=13 {
            for d in 0..=32 {
                if !ctx.thorough && !(d <= 1 || d >= 28) && (m != 2) {
                    continue;
                }
                let s = format!("{y:04}-{m:02}-{d:02}");
                leaf_case(ctx, "leaf_fulldate", MDL, "FullDate", &json!(s));
                if d % 7 == 0 || d >= 28 {
                    leaf_case(ctx, "leaf_tdate_or_fulldate", MDL, "TDateOrFullDate", &json!(s));
                }
            }
        }
    }
    // date-times: offsets at day / month / year boundaries
    let n = ctx.budget(1500, 60_000);
    for _ in 0..n {
        let s = if ctx.rng.gen_bool(0.8) {
            tdate_ok(&mut ctx.rng)
        } else {
            // mutate one character of a valid one
            let mut b = tdate_ok(&mut ctx.rng).into_bytes();
            let i = ctx.rng.gen_range(0..b.len());
            b[i] = *b"0123456789-:TZz+. x".choose(&mut ctx.rng).unwrap();
            String::from_utf8_lossy(&b).to_string()
        };
        leaf_case(ctx, "leaf_tdate", MDL, "TDate", &json!(s));
    }
    for y in [0, 1, 1999, 2000, 2024, 9998, 9999] {
        for (mo, d) in [(1, 1), (2, 28), (2, 29), (3, 1), (12, 31), (6, 30)] {
            for (h, mi) in [(0, 0), (0, 30), (23, 59), (12, 0)] {
                for off in ["Z", "+00:30", "-00:30", "+23:59", "-23:59", "+14:00", "-12:00"] {
                    let s = format!("{y:04}-{mo:02}-{d:02}T{h:02}:{mi:02}:59{off}");
                    leaf_case(ctx, "leaf_tdate_boundary", MDL, "TDate", &json!(s));
                }
            }
        }
    }
    // the byte-position checks of TDate (byte 10 = separator, bytes 17..19 = "60") and the first-byte
    // check of FullDate: every prefix of valid strings, a non-ASCII scalar at every position, "60" and
    // separators at every position
    for base in ["2020-01-01T12:00:00Z", "2016-12-31T23:59:60Z", "2020-01-01T12:00:59.60+01:00", "2020-06-30 23:59:59-00:60", "2020-01-01"] {
        for n in 0..=base.len() {
            let p = &base[..n];
            leaf_case(ctx, "leaf_tdate_prefix", MDL, "TDate", &json!(p));
            leaf_case(ctx, "leaf_tdate_prefix", MDL, "TDateOrFullDate", &json!(p));
            leaf_case(ctx, "leaf_tdate_prefix", MDL, "FullDate", &json!(p));
            for ins in ["\u{e9}", "60", "T", " ", "\u{2028}", "+", "-"] {
                let m = format!("{}{}{}", &base[..n], ins, &base[n..]);
                leaf_case(ctx, "leaf_tdate_insert", MDL, "TDate", &json!(m));
                leaf_case(ctx, "leaf_tdate_insert", MDL, "TDateOrFullDate", &json!(m));
                if n < base.len() {
                    let r = format!("{}{}{}", &base[..n], ins, &base[n + 1..]);
                    leaf_case(ctx, "leaf_tdate_replace", MDL, "TDate", &json!(r));
                    leaf_case(ctx, "leaf_tdate_replace", MDL, "FullDate", &json!(r));
                }
            }
        }
    }
    for s in ["2016-12-31T23:59:60.5Z", "2017-01-01T00:59:60+01:00", "2016-12-31t23:59:60z", "2016-12-31 23:59:60Z", "2016-12-31T23:60:00Z", "2016-12-31T60:00:00Z",
              "6060-06-06T06:06:06Z", "2060-10-10T10:60:10Z", "2020-01-01T12:00:06.060Z", "2020-01-01T12:00:00+06:00", "2020-01-01T12:00:00-00:60"] {
        leaf_case(ctx, "leaf_tdate_sixty", MDL, "TDate", &json!(s));
    }
    // Latin1: byte / character length boundaries and every scalar up to U+017F
    for n in [0usize, 1, 74, 75, 76, 149, 150, 151, 300] {
        for ch in ['a', 'é', 'ÿ', '\u{a0}'] {
            let s: String = std::iter::repeat(ch).take(n).collect();
            leaf_case(ctx, "leaf_latin1_len", MDL, "Latin1", &json!(s));
        }
    }
    for c in 0u32..0x180 {
        if let Some(ch) = char::from_u32(c) {
            leaf_case(ctx, "leaf_latin1_char", MDL, "Latin1", &json!(format!("a{ch}b")));
        }
    }
    for ch in ['\u{7ff}', '\u{800}', '\u{ffff}', '\u{10000}', '\u{10ffff}'] {
        leaf_case(ctx, "leaf_latin1_char", MDL, "Latin1", &json!(ch.to_string()));
    }
    // base64
    for s in ["", "QQ", "QQ=", "QQ==", "QR==", "QUI", "QUI=", "QUJ=", "QUJD", "QUJDRA", "QUJDRA=", "QUJDRA==", "QUJDRA===", "=", "==", "Q", "QUJDR", "Q=Q=", "QQ==QQ==", "QQ=a", "+/+/", "-_-_", "QUJD QUJD", "QUJD\r\n", "QUJDRUZHSElKS0xNTk9QUVJTVFVWV1hZWg==", "é"] {
        leaf_case(ctx, "leaf_bytestr", MDL, "ByteStr", &json!(s));
    }
    let n = ctx.budget(300, 5000);
    for _ in 0..n {
        let len = ctx.rng.gen_range(0..12);
        let s: String = (0..len).map(|_| *b"ABCDwxyz0129+/=QRg".choose(&mut ctx.rng).unwrap() as char).collect();
        leaf_case(ctx, "leaf_bytestr_random", MDL, "ByteStr", &json!(s));
    }
    // numbers
    for v in [json!(0), json!(1), json!(4294967295u64), json!(4294967296u64), json!(u64::MAX), json!(-1), json!(1.0), json!(1e10), json!("1"), json!(null), json!(true), json!([]), json!({})] {
        for ty in ["u32", "Sex"] {
            leaf_case(ctx, "leaf_number", MDL, ty, &v);
        }
        for ty in ["Present", "WeightRange", "EDLIndicator", "Sex"] {
            leaf_case(ctx, "leaf_number", AAMVA, ty, &v);
        }
    }
    for n in 0..12u64 {
        for ty in ["Present", "WeightRange", "EDLIndicator", "Sex"] {
            leaf_case(ctx, "leaf_number", AAMVA, ty, &json!(n));
        }
        leaf_case(ctx, "leaf_number", MDL, "Sex", &json!(n));
    }
    for s in ["000", "999", "123", "12", "1234", "", "12a", "a12", "1 2", "١٢٣", "１２３"] {
        leaf_case(ctx, "leaf_county", AAMVA, "CountyCode", &json!(s));
    }
    // nested structures directly
    let n = ctx.budget(300, 10_000);
    for _ in 0..n {
        let v = driving_privileges_ok(&mut ctx.rng);
        leaf_case(ctx, "leaf_driving_privileges", MDL, "DrivingPrivileges", &v);
        let v = domestic_privileges_ok(&mut ctx.rng);
        leaf_case(ctx, "leaf_domestic_privileges", AAMVA, "DomesticDrivingPrivileges", &v);
    }
    for (_, bad) in gen_bad(Cl::DrivPriv) {
        leaf_case(ctx, "leaf_driving_privileges_bad", MDL, "DrivingPrivileges", &bad);
    }
    for (_, bad) in gen_bad(Cl::DomPriv) {
        leaf_case(ctx, "leaf_domestic_privileges_bad", AAMVA, "DomesticDrivingPrivileges", &bad);
    }
}

/// the wire identifiers the translator copied are the ones the running code emits
fn field_identifiers(ctx: &mut Ctx) {
    for ns in [MDL, AAMVA] {
        let f = ctx.runner.query("c19.fields", vec![uint(ns)]);
        let Value::Array(f) = f else { continue };
        let emitted: Vec<String> = f.iter().filter_map(|x| match x { Value::Array(a) => match (&a[0], &a[2]) { (Value::Text(s), Value::Bool(false)) => Some(s.clone()), _ => None }, _ => None }).collect();
        // a record with every field present: the implementation's key set
        let m = build_record(ns, &mut ctx.rng, &|_| true);
        let obs = real_elements(ns, &J::Object(m));
        let mut keys: Vec<String> = vec![];
        if let Value::Array(a) = &obs {
            if let Some(Value::Array(es)) = a.get(1) {
                for e in es {
                    if let Value::Array(kv) = e {
                        if let Value::Text(k) = &kv[0] {
                            keys.push(k.clone());
                        }
                    }
                }
            }
        }
        let mut want = emitted.clone();
        want.sort();
        row_case(ctx, "field_identifiers", json!({"ns": ns}), arr(keys.iter().map(|k| text(k)).collect()), arr(want.iter().map(|k| text(k)).collect()));
    }
}

pub fn run(ctx: &mut Ctx) {
    field_identifiers(ctx);
    tables(ctx);
    former_defects(ctx);
    rejections(ctx);
    records(ctx);
    enum_codes_in_records(ctx);
    leaf_sweeps(ctx);
}
