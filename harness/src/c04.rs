//! C04 — elements reported as issuer-authenticated are bound to the signed MSO
use crate::common::*;
use crate::rauth::*;
use crate::sess::*;

pub fn run(ctx: &mut Ctx) {
    let scenes = ctx.budget(4, 40);
    for _ in 0..scenes {
        let mut rng = ctx.rng.clone();
        let Some(sc) = scene_with_key(&mut rng, None) else { ctx.rng = rng; continue };
        let reg = iaca_registry(&sc.pki);
        for alt in &c04_alts(&mut rng, ctx.thorough) {
            let mut pt = sc.plaintext.clone();
            apply(alt, &sc, &mut pt, &mut rng);
            deliver(ctx, "data_auth", "c04.spec", &sc, &sc.rdr, &reg, "right-root", alt, &pt, None);
        }
        // the same alterations delivered as the SECOND response of a session whose first response was authentic
        if let Some(warm) = warmed_reader(&sc, &sc.rdr) {
            for alt in &c04_alts(&mut rng, false) {
                let mut pt = sc.plaintext.clone();
                apply(alt, &sc, &mut pt, &mut rng);
                deliver(ctx, "data_auth_round2", "c04.spec", &sc, &warm, &reg, "right-root", alt, &pt, None);
            }
        } else { ctx.count("round2:not-reached"); }
        // an authentic issuer-signed part of ANOTHER document type presented as the mDL, device-signed by its own device key
        let pt = other_document_as_mdl(&sc, &mut rng, MDL);
        deliver(ctx, "doctype_mismatch", "c04.spec", &sc, &sc.rdr, &reg, "right-root", &Alt::None, &pt, None);
        ctx.rng = rng;
    }
}
