//! C04 — elements reported as issuer-authenticated are bound to the signed MSO
use crate::common::*;
use crate::rauth::*;
use crate::runner::{from_bytes, to_bytes};
use crate::sess::*;
use ciborium::Value;
use isomdl::definitions::DigestAlgorithm;
use p256::ecdsa::SigningKey;
use rand::Rng;

pub fn run(ctx: &mut Ctx) {
    let scenes = ctx.budget(4, 80);
    for _ in 0..scenes {
        let mut rng = ctx.rng.clone();
        let Some(sc) = scene_with_key(&mut rng, None) else { ctx.rng = rng; continue };
        let reg = iaca_registry(&sc.pki);
        for alt in &c04_alts(&mut rng, ctx.thorough) {
            let mut pt = sc.plaintext.clone();
            apply(alt, &sc, &mut pt, &mut rng);
            deliver(ctx, "data_auth", "c04.spec", &sc, &sc.rdr, &reg, "right-root", alt, &pt, None);
        }
        // an authentic issuer-signed part of ANOTHER document type presented as the mDL, device-signed by its own device key
        let dk2 = SigningKey::random(&mut rng);
        let alg = [DigestAlgorithm::SHA256, DigestAlgorithm::SHA384, DigestAlgorithm::SHA512][rng.gen_range(0..3)];
        let other = issue_with_key(&sc.pki, "org.example.other", new_namespaces(&mut rng), alg, false, cose_key_of(&dk2));
        let mut pt = sc.plaintext.clone();
        {
            let isg = Value::Map(vec![
                (Value::Text("nameSpaces".into()), Value::Map(other.namespaces.iter().map(|(ns, items)| (Value::Text(ns.clone()), Value::Array(items.iter().map(|it| Value::Tag(24, Box::new(Value::Bytes(it.inner_bytes.clone())))).collect()))).collect())),
                (Value::Text("issuerAuth".into()), from_bytes(&isomdl::cbor::to_vec(&other.issuer_auth).unwrap()).unwrap()),
            ]);
            if let Some(Value::Array(docs)) = map_get_mut(&mut pt, "documents") {
                if let Some(slot) = map_get_mut(&mut docs[0], "issuerSigned") { *slot = isg; }
            }
            let _ = to_bytes;
        }
        resign_device(&sc, &mut pt, &dk2, MDL);
        deliver(ctx, "doctype_mismatch", "c04.spec", &sc, &sc.rdr, &reg, "right-root", &Alt::None, &pt, None);
        ctx.rng = rng;
    }
}
