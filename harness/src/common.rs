//! Generic case driver: every property module produces cases (implementation observation +
//! model query + executable-spec query); this compares them and accumulates the report.
use crate::runner::{to_bytes, Runner};
use ciborium::Value;
use rand::rngs::StdRng;
use rand::SeedableRng;
use serde_json::json;
use std::collections::{BTreeMap, HashSet};

pub struct Ctx {
    pub runner: Runner,
    pub rng: StdRng,
    pub seed: u64,
    pub thorough: bool,
    /// multiplier applied to case budgets when the check is searching for a failing input
    pub search: bool,
    pub only_case: Option<u64>,
    pub evaluations: u64,
    pub nontrivial: HashSet<u64>,
    pub corr_mismatches: Vec<serde_json::Value>,
    pub spec_failures: Vec<serde_json::Value>,
    pub known_findings: Vec<serde_json::Value>,
    pub not_applicable: u64,
    pub samples: Vec<serde_json::Value>,
    pub dist: BTreeMap<String, u64>,
    pub notes: Vec<String>,
    pub max_reports: usize,
    pub strip_prefix: usize,
}

pub fn hexv(v: &Value) -> String {
    hex::encode(to_bytes(v))
}

fn fnv(data: &[u8]) -> u64 {
    let mut h: u64 = 0xcbf29ce484222325;
    for b in data {
        h ^= *b as u64;
        h = h.wrapping_mul(0x100000001b3);
    }
    h
}

pub fn text(s: &str) -> Value {
    Value::Text(s.to_string())
}
pub fn bytes(b: &[u8]) -> Value {
    Value::Bytes(b.to_vec())
}
pub fn uint(n: u64) -> Value {
    Value::Integer(n.into())
}
pub fn arr(v: Vec<Value>) -> Value {
    Value::Array(v)
}

pub fn diag(v: &Value) -> serde_json::Value {
    // a readable rendering for samples and replay files
    match v {
        Value::Integer(i) => json!(i128::from(*i).to_string()),
        Value::Bytes(b) => json!(format!("h'{}'", hex::encode(b))),
        Value::Text(s) => json!(s),
        Value::Bool(b) => json!(b),
        Value::Null => serde_json::Value::Null,
        Value::Array(a) => json!(a.iter().map(diag).collect::<Vec<_>>()),
        Value::Map(m) => json!(m.iter().map(|(k, v)| json!([diag(k), diag(v)])).collect::<Vec<_>>()),
        Value::Tag(t, v) => json!({"tag": t, "value": diag(v)}),
        Value::Float(f) => json!(f),
        _ => json!("?"),
    }
}

/// where two values first differ (arrays are compared element-wise, recursively one level)
pub fn first_diff(obs: &Value, ans: &Value) -> serde_json::Value {
    if let (Value::Array(a), Value::Array(b)) = (obs, ans) {
        if a.len() != b.len() {
            return json!({"impl_len": a.len(), "model_len": b.len(), "impl": diag(obs), "model": diag(ans)});
        }
        for (i, (x, y)) in a.iter().zip(b.iter()).enumerate() {
            if x != y {
                return json!({"index": i, "impl": diag(x), "model": diag(y)});
            }
        }
    }
    json!({"impl": diag(obs), "model": diag(ans)})
}

impl Ctx {
    pub fn new(runner_path: &str, seed: u64, thorough: bool, search: bool, only_case: Option<u64>) -> Ctx {
        Ctx {
            runner: Runner::new(runner_path),
            rng: StdRng::seed_from_u64(seed),
            seed,
            thorough,
            search,
            only_case,
            evaluations: 0,
            nontrivial: HashSet::new(),
            corr_mismatches: vec![],
            spec_failures: vec![],
            known_findings: vec![],
            not_applicable: 0,
            samples: vec![],
            dist: BTreeMap::new(),
            notes: vec![],
            max_reports: 25,
            strip_prefix: 0,
        }
    }

    /// scale a case budget by tier and search mode
    pub fn budget(&self, quick: u64, thorough: u64) -> u64 {
        let b = if self.thorough { thorough } else { quick };
        // the search run after a broken obligation: 8x the quick budget; the thorough budget is already large, 2x
        if self.search { if self.thorough { b * 2 } else { b * 8 } } else { b }
    }

    /// one of the valid CBOR encodings of `v` as a third party may produce it (the Gallina encoder `encode_with`
    /// driven by a random tape; text strings stay definite-length: ciborium's typed readers need that for member
    /// names and enum names, see findings F18/F19).  Falls back to the canonical encoding if the runner lacks the command.
    pub fn loose_bytes(&mut self, v: &ciborium::Value) -> Vec<u8> {
        use rand::Rng;
        let canonical = crate::runner::to_bytes(v);
        let n = 60 + canonical.len().min(600);
        let tape: Vec<ciborium::Value> = (0..n).map(|_| ciborium::Value::Integer((if self.rng.gen_bool(0.5) { self.rng.gen_range(0..160u64) } else { 0 }).into())).collect();
        match self.runner.query("loose.encode", vec![ciborium::Value::Array(tape), v.clone(), ciborium::Value::Integer(2.into())]) {
            ciborium::Value::Bytes(b) => { self.count("encoding:third-party"); b }
            _ => canonical,
        }
    }

    pub fn count(&mut self, key: &str) {
        *self.dist.entry(key.to_string()).or_insert(0) += 1;
    }

    /// One case.  `obs` is the implementation's observation, `model` the (cmd,args) whose answer
    /// must equal it, `spec` the (cmd,args) of the executable specification; the implementation's
    /// observation is appended to the spec's arguments.  `nontrivial` by the caller's rule.
    #[allow(clippy::too_many_arguments)]
    pub fn case(
        &mut self,
        label: &str,
        desc: serde_json::Value,
        obs: Value,
        model: Option<(&str, Vec<Value>)>,
        spec: Option<(&str, Vec<Value>)>,
        nontrivial: bool,
    ) {
        let idx = self.evaluations;
        self.evaluations += 1;
        if let Some(only) = self.only_case {
            if only != idx {
                return;
            }
        }
        self.count(&format!("case:{label}"));
        let mut key_bytes = label.as_bytes().to_vec();
        let mut model_ans = None;
        if let Some((cmd, args)) = model {
            key_bytes.extend(to_bytes(&Value::Array(args.clone())));
            let mut ans = self.runner.query(cmd, args.clone());
            if self.strip_prefix > 0 {
                if let Value::Array(a) = &ans {
                    ans = Value::Array(a.iter().skip(self.strip_prefix).cloned().collect());
                }
            }
            if ans != obs {
                self.count("corr_mismatch");
                if self.corr_mismatches.len() < self.max_reports {
                    self.corr_mismatches.push(json!({
                        "case_index": idx, "label": label, "desc": desc,
                        "model_cmd": cmd, "model_args_hex": hexv(&Value::Array(args)),
                        "first_difference": first_diff(&obs, &ans),
                    }));
                }
            }
            model_ans = Some(ans);
        }
        if let Some((cmd, mut args)) = spec {
            if model_ans.is_none() {
                key_bytes.extend(to_bytes(&Value::Array(args.clone())));
            }
            args.push(obs.clone());
            let ans = self.runner.query(cmd, args.clone());
            let verdict = match &ans {
                Value::Text(s) => s.clone(),
                other => format!("fail:spec answered {:?}", diag(other)),
            };
            if verdict == "ok" {
                self.count("spec_ok");
            } else if verdict.starts_with("n/a") {
                self.not_applicable += 1;
                self.count(&format!("spec_{verdict}"));
            } else if verdict.starts_with("known:") {
                self.count(&format!("spec_{verdict}"));
                if self.known_findings.len() < 200 {
                    self.known_findings.push(json!({"case_index": idx, "label": label, "class": verdict, "desc": desc}));
                }
            } else {
                self.count("spec_fail");
                if self.spec_failures.len() < self.max_reports {
                    self.spec_failures.push(json!({
                        "case_index": idx, "label": label, "desc": desc, "verdict": verdict,
                        "spec_cmd": cmd, "spec_args_hex": hexv(&Value::Array(args)),
                        "impl_obs": diag(&obs),
                        "model_ans": model_ans.as_ref().map(diag),
                    }));
                }
            }
        }
        if nontrivial {
            self.nontrivial.insert(fnv(&key_bytes));
        }
        if self.samples.len() < 6 && (idx % 997 == 0 || self.samples.len() < 2) {
            self.samples.push(json!({"case_index": idx, "label": label, "desc": desc, "impl_obs": diag(&obs)}));
        }
    }

    /// like `case`, but the model answers with an array whose first `prefix` elements (steps that
    /// happened before observation started) are dropped before comparison
    #[allow(clippy::too_many_arguments)]
    pub fn case_with_prefix(
        &mut self,
        label: &str,
        desc: serde_json::Value,
        obs: Value,
        model: (&str, Vec<Value>),
        prefix: usize,
        spec: Option<(&str, Vec<Value>)>,
        nontrivial: bool,
    ) {
        self.strip_prefix = prefix;
        self.case(label, desc, obs, Some(model), spec, nontrivial);
        self.strip_prefix = 0;
    }

    pub fn report(&self, property: &str, wall_s: f64) -> serde_json::Value {
        json!({
            "property": property,
            "seed": self.seed,
            "tier": if self.thorough { "thorough" } else { "quick" },
            "search": self.search,
            "evaluations": self.evaluations,
            "distinct_nontrivial": self.nontrivial.len(),
            "runner_queries": self.runner.queries,
            "corr_mismatches": self.corr_mismatches,
            "corr_mismatch_count": self.dist.get("corr_mismatch").copied().unwrap_or(0),
            "spec_failures": self.spec_failures,
            "spec_failure_count": self.dist.get("spec_fail").copied().unwrap_or(0),
            "known_findings": self.known_findings,
            "not_applicable": self.not_applicable,
            "samples": self.samples,
            "distribution": self.dist,
            "notes": self.notes,
            "wall_s": wall_s,
        })
    }
}

/// run a closure catching panics; the panic message is returned as Err
pub fn catch<T>(f: impl FnOnce() -> T) -> Result<T, String> {
    let r = std::panic::catch_unwind(std::panic::AssertUnwindSafe(f));
    r.map_err(|e| {
        if let Some(s) = e.downcast_ref::<&str>() {
            s.to_string()
        } else if let Some(s) = e.downcast_ref::<String>() {
            s.clone()
        } else {
            "panic".to_string()
        }
    })
}
