//! Pipe to the extracted model (`model_run`): one CBOR request per line (hex), one answer per line.
use ciborium::Value;
use std::io::{BufRead, BufReader, Write};
use std::process::{Child, ChildStdin, ChildStdout, Command, Stdio};

pub struct Runner {
    child: Child,
    stdin: ChildStdin,
    stdout: BufReader<ChildStdout>,
    pub queries: u64,
}

pub fn to_bytes(v: &Value) -> Vec<u8> {
    let mut buf = Vec::new();
    ciborium::into_writer(v, &mut buf).expect("cbor encode");
    buf
}

pub fn from_bytes(b: &[u8]) -> Option<Value> {
    ciborium::from_reader(std::io::Cursor::new(b)).ok()
}

impl Runner {
    pub fn new(path: &str) -> Runner {
        let mut child = Command::new(path)
            .stdin(Stdio::piped())
            .stdout(Stdio::piped())
            .spawn()
            .unwrap_or_else(|e| panic!("cannot start model runner {path}: {e}"));
        let stdin = child.stdin.take().unwrap();
        let stdout = BufReader::new(child.stdout.take().unwrap());
        Runner { child, stdin, stdout, queries: 0 }
    }

    pub fn query_raw(&mut self, req: &[u8]) -> Vec<u8> {
        self.queries += 1;
        let line = hex::encode(req);
        self.stdin.write_all(line.as_bytes()).unwrap();
        self.stdin.write_all(b"\n").unwrap();
        self.stdin.flush().unwrap();
        let mut out = String::new();
        self.stdout.read_line(&mut out).expect("runner died");
        let out = out.trim();
        if out.starts_with('!') || out.is_empty() {
            panic!("model runner failed on request {line}: {out}");
        }
        hex::decode(out).expect("runner hex")
    }

    pub fn query(&mut self, cmd: &str, args: Vec<Value>) -> Value {
        let mut a = vec![Value::Text(cmd.to_string())];
        a.extend(args);
        let ans = self.query_raw(&to_bytes(&Value::Array(a)));
        from_bytes(&ans).expect("runner answer is cbor")
    }
}

impl Drop for Runner {
    fn drop(&mut self) {
        let _ = self.child.kill();
        let _ = self.child.wait();
    }
}
