//! C07 — IV construction and absence of IV reuse, against Model/Iv.v + Model/Session.v
use crate::common::*;
use crate::trace::*;
use isomdl::definitions::session::get_initialization_vector;
use rand::Rng;
use serde_json::json;

pub fn run(ctx: &mut Ctx) {
    // (a) the public function on boundary and random counters, both roles
    let mut counters: Vec<u32> = vec![0, 1, 2, 254, 255, 256, 257, 65534, 65535, 65536, (1 << 24) - 1, 1 << 24, (1 << 31) - 1, 1 << 31, u32::MAX - 2, u32::MAX - 1];
    for _ in 0..ctx.budget(300, 20000) {
        let c: u32 = ctx.rng.gen();
        if c != u32::MAX { counters.push(c); }
    }
    for c in counters {
        for reader in [true, false] {
            let mut ctr = c;
            let r = catch(|| get_initialization_vector(&mut ctr, reader));
            let obs = match r {
                Ok(iv) => arr(vec![uint(ctr as u64), bytes(&iv)]),
                Err(p) => arr(vec![text("panic"), text(&p)]),
            };
            let role = if reader { 0 } else { 1 };
            ctx.case("next_iv", json!({"counter": c, "reader": reader}), obs,
                Some(("c07.next_iv", vec![uint(role), uint(c as u64)])),
                Some(("c07.spec_next_iv", vec![uint(role), uint(c as u64)])), true);
        }
    }
    // (a') several sessions in ONE process over the SAME engagement (a QR code scanned twice, a retry): every session has its
    // own keys — otherwise their first messages share key and IV.  Also: the same engagement after another one in between.
    for round in 0..ctx.budget(3, 40) {
        use crate::sess::*;
        use ciborium::Value;
        let mut rng = ctx.rng.clone();
        let pki = crate::pki::Pki::generate(&mut rng);
        let mut qrs = vec![];
        for _ in 0..2 {
            let (m, _k) = issue(&mut rng, &pki, MDL, [(NS.to_string(), [("family_name".to_string(), Value::Text("Doe".into()))].into_iter().collect())].into_iter().collect(), isomdl::definitions::DigestAlgorithm::SHA256, false);
            let Ok(init) = isomdl::presentation::device::SessionManagerInit::initialise(documents_of(vec![m]), None, None) else { continue };
            let Ok((_, qr)) = init.qr_engagement() else { continue };
            qrs.push(qr);
        }
        ctx.rng = rng;
        if qrs.len() < 2 { continue; }
        let first: std::collections::BTreeMap<String, Vec<String>> = [(NS.to_string(), vec!["family_name".to_string()])].into_iter().collect();
        let other: std::collections::BTreeMap<String, Vec<String>> = [(NS.to_string(), vec!["given_name".to_string(), "family_name".to_string()])].into_iter().collect();
        // A, A (other request), B, A
        let mut seen: Vec<(usize, Vec<u8>, Vec<u8>)> = vec![];
        for (qi, req) in [(0usize, &first), (0, &other), (1, &first), (0, &first)] {
            if let Ok(Ok((rdr, est, _))) = catch(|| isomdl::presentation::reader::SessionManager::establish_session(qrs[qi].clone(), namespaces_of(req), Default::default())) {
                let k = rdr_view(&rdr);
                let estv = crate::runner::from_bytes(&est).unwrap_or(Value::Null);
                let erk = match map_get(&estv, "eReaderKey") { Some(Value::Tag(24, b)) => b.as_bytes().cloned().unwrap_or_default(), _ => vec![] };
                seen.push((qi, k.sk_reader.clone(), erk));
            }
        }
        let obs = arr(seen.iter().map(|(qi, k, erk)| arr(vec![uint(*qi as u64), bytes(k), bytes(erk)])).collect());
        ctx.case("sessions_over_one_engagement", json!({"round": round, "sessions": seen.len()}), obs, None, Some(("c07.spec_fresh_keys", vec![])), true);
    }
    // (b) sessions: random interleavings with failed decryptions and serialise/restore
    let n = ctx.budget(60, 3000);
    for i in 0..n {
        let len = if ctx.thorough { ctx.rng.gen_range(4..40) } else { ctx.rng.gen_range(4..14) };
        let ndocs = ctx.rng.gen_range(1..=3);
        let mut ops = vec![];
        if i % 3 == 0 {
            // honest multi-round sessions with restores sprinkled in
            while ops.len() < len {
                for o in honest_round(&mut ctx.rng) {
                    ops.push(o);
                    if ctx.rng.gen_bool(0.25) { ops.push(if ctx.rng.gen_bool(0.5) { TOp::RestoreDev } else { TOp::RestoreRdr }); }
                }
            }
        } else {
            for _ in 0..len { ops.push(random_op(&mut ctx.rng, 0.4, 0.15)); }
        }
        run_trace(ctx, "session", ndocs, ops, Some("c07.spec_emissions"));
    }
    // (c) scripted: every kind of unauthenticated or refused frame arrives between two messages of a side, on both
    // sides, then that side sends again (a refused frame must not move the SEND counter of its recipient)
    let frames = [Delivery::NoData(0), Delivery::NoData(1), Delivery::NoData(2), Delivery::NoData(3), Delivery::NoData(4), Delivery::Garbage,
                  Delivery::BitFlip(0, 7), Delivery::Truncate(0, 3), Delivery::Foreign, Delivery::Reflect, Delivery::Replay(0), Delivery::CraftedNotCbor, Delivery::CraftedNotStruct, Delivery::CraftedZeroKey];
    // (d) genuine messages that also carry a status member (10, 11, 20), in every round of a three-round session, and a
    // message under the all-zero key after each
    for k in 0..3u8 {
        let mut ops = vec![];
        for r in 0..3usize {
            // (no refused frame in between: a failed decryption moves the receive counter and would end the dialogue)
            ops.extend([TOp::NewRequest(r), TOp::DeliverReq(Delivery::LatestWithStatus(k)), TOp::Prepare(vec![0], false), TOp::NextPayload, TOp::Submit(true), TOp::Retrieve,
                        TOp::DeliverResp(Delivery::LatestWithStatus(k))]);
        }
        ops.extend([TOp::DeliverReq(Delivery::CraftedZeroKey), TOp::DeliverResp(Delivery::CraftedZeroKey)]);
        run_trace(ctx, "scripted_status_with_data", 1, ops, Some("c07.spec_emissions"));
    }
    for f in frames.iter() {
        let mut ops = vec![TOp::NewRequest(1), TOp::DeliverResp(f.clone()), TOp::NewRequest(2), TOp::DeliverReq(Delivery::Latest)];
        ops.extend([TOp::Prepare(vec![0], false), TOp::NextPayload, TOp::Submit(true), TOp::Retrieve, TOp::DeliverReq(f.clone())]);
        ops.extend([TOp::NewRequest(0), TOp::DeliverReq(Delivery::Latest), TOp::Prepare(vec![0], false), TOp::NextPayload, TOp::Submit(true), TOp::Retrieve, TOp::DeliverResp(Delivery::Latest),
                    TOp::DeliverResp(f.clone()), TOp::NewRequest(1)]);
        run_trace(ctx, "scripted_refused_frames", 1, ops, Some("c07.spec_emissions"));
    }
}
