//! Structure-aware mutation of CBOR values (C15).
use crate::runner::{from_bytes, to_bytes};
use ciborium::Value;
use rand::rngs::StdRng;
use rand::Rng;

fn boundary_int(rng: &mut StdRng) -> Value {
    let c: [i128; 16] = [0, 1, -1, 23, 24, 255, 256, 65535, 65536, (1 << 31) - 1, 1 << 31, -(1 << 31), (1 << 32), i64::MAX as i128, u64::MAX as i128, -(1i128 << 64)];
    let v = c[rng.gen_range(0..c.len())];
    match ciborium::value::Integer::try_from(v) { Ok(i) => Value::Integer(i), Err(_) => Value::Integer(0.into()) }
}

fn junk(rng: &mut StdRng) -> Value {
    match rng.gen_range(0..9) {
        0 => Value::Null,
        1 => Value::Bool(rng.gen()),
        2 => boundary_int(rng),
        3 => Value::Text(["", "1.0", "SHA-256", "org.iso.18013.5.1.mDL", "\u{0}", "é"][rng.gen_range(0..6)].to_string()),
        4 => Value::Bytes((0..rng.gen_range(0..70)).map(|_| rng.gen()).collect()),
        5 => Value::Array(vec![]),
        6 => Value::Map(vec![]),
        7 => Value::Float(f64::NAN),
        _ => { let mut v = Value::Integer(0.into()); for _ in 0..rng.gen_range(100..320) { v = Value::Array(vec![v]); } v }
    }
}

/// number of nodes (to pick one uniformly-ish)
fn size(v: &Value) -> usize {
    1 + match v {
        Value::Array(a) => a.iter().map(size).sum(),
        Value::Map(m) => m.iter().map(|(k, x)| size(k) + size(x)).sum(),
        Value::Tag(_, x) => size(x),
        Value::Bytes(b) if b.len() > 1 => from_bytes(b).map(|x| size(&x)).unwrap_or(0),
        _ => 0,
    }
}

fn mutate_here(v: &mut Value, rng: &mut StdRng) {
    match v {
        Value::Integer(_) => *v = if rng.gen_bool(0.7) { boundary_int(rng) } else { junk(rng) },
        Value::Bytes(b) => match rng.gen_range(0..5) {
            0 => { let l = rng.gen_range(0..70); b.resize(l, rng.gen()); }
            1 => { b.pop(); }
            2 => { b.push(rng.gen()); }
            3 => { if !b.is_empty() { let i = rng.gen_range(0..b.len()); b[i] ^= 1 << rng.gen_range(0..8); } }
            _ => *v = Value::Text(String::from_utf8_lossy(b).to_string()),
        },
        Value::Text(s) => match rng.gen_range(0..4) {
            0 => *v = Value::Bytes(s.as_bytes().to_vec()),
            1 => *v = Value::Text(String::new()),
            2 => s.push_str("x"),
            _ => *v = junk(rng),
        },
        Value::Array(a) => match rng.gen_range(0..6) {
            0 if !a.is_empty() => { let i = rng.gen_range(0..a.len()); a.remove(i); }
            1 if !a.is_empty() => { let i = rng.gen_range(0..a.len()); let x = a[i].clone(); a.push(x); }
            2 => a.push(junk(rng)),
            3 => a.clear(),
            4 if a.len() > 1 => a.swap(0, 1),
            _ => *v = junk(rng),
        },
        Value::Map(m) => match rng.gen_range(0..7) {
            0 if !m.is_empty() => { let i = rng.gen_range(0..m.len()); m.remove(i); }
            1 if !m.is_empty() => { let i = rng.gen_range(0..m.len()); let x = m[i].clone(); m.push(x); }
            2 => m.push((junk(rng), junk(rng))),
            3 if !m.is_empty() => { let i = rng.gen_range(0..m.len()); m[i].0 = junk(rng); }
            4 if !m.is_empty() => { let i = rng.gen_range(0..m.len()); m[i].1 = junk(rng); }
            5 => m.clear(),
            _ => *v = junk(rng),
        },
        Value::Tag(t, x) => match rng.gen_range(0..4) {
            0 => *t = [0u64, 1, 2, 3, 17, 18, 24, 1004, u64::MAX][rng.gen_range(0..9)],
            1 => { let inner = (**x).clone(); *v = inner; }
            2 => **x = junk(rng),
            _ => *v = junk(rng),
        },
        _ => *v = junk(rng),
    }
}

/// mutate the n-th node (pre-order); byte strings holding CBOR are descended into
fn mutate_nth(v: &mut Value, n: &mut usize, rng: &mut StdRng) -> bool {
    if *n == 0 { mutate_here(v, rng); return true; }
    *n -= 1;
    match v {
        Value::Array(a) => { for x in a.iter_mut() { if mutate_nth(x, n, rng) { return true; } } }
        Value::Map(m) => { for (k, x) in m.iter_mut() { if mutate_nth(k, n, rng) { return true; } if mutate_nth(x, n, rng) { return true; } } }
        Value::Tag(_, x) => { if mutate_nth(x, n, rng) { return true; } }
        Value::Bytes(b) if b.len() > 1 => {
            if let Some(mut inner) = from_bytes(b) {
                if mutate_nth(&mut inner, n, rng) { *b = to_bytes(&inner); return true; }
            }
        }
        _ => {}
    }
    false
}

pub fn mutate(v: &Value, rng: &mut StdRng) -> Value {
    let mut out = v.clone();
    // half of the time: choose a top-level member uniformly (small members of a large structure
    // are otherwise almost never reached), then mutate inside it
    if rng.gen_bool(0.5) {
        match &mut out {
            Value::Map(m) if !m.is_empty() => {
                let i = rng.gen_range(0..m.len());
                let sub = m[i].1.clone();
                let mut n = rng.gen_range(0..size(&sub).max(1));
                let mut sub2 = sub;
                mutate_nth(&mut sub2, &mut n, rng);
                m[i].1 = sub2;
                return out;
            }
            Value::Array(a) if !a.is_empty() => {
                let i = rng.gen_range(0..a.len());
                let mut sub = a[i].clone();
                let mut n = rng.gen_range(0..size(&sub).max(1));
                mutate_nth(&mut sub, &mut n, rng);
                a[i] = sub;
                return out;
            }
            _ => {}
        }
    }
    let k = if rng.gen_bool(0.7) { 1 } else { rng.gen_range(2..5) };
    for _ in 0..k {
        let mut n = rng.gen_range(0..size(&out).max(1));
        mutate_nth(&mut out, &mut n, rng);
    }
    out
}

pub fn random_bytes(rng: &mut StdRng) -> Vec<u8> {
    let l = [0usize, 1, 2, 5, 16, 64, 300][rng.gen_range(0..7)];
    let mut b: Vec<u8> = (0..l).map(|_| rng.gen()).collect();
    if !b.is_empty() && rng.gen_bool(0.5) { b[0] = [0xa1u8, 0xa2, 0x82, 0x9f, 0xbf, 0xd8, 0x5f, 0x7f, 0xfb, 0xc2][rng.gen_range(0..10)]; }
    b
}
