mod c01;
mod c02;
mod c03;
mod c04;
mod c05;
mod c06;
mod c07;
mod c08;
mod c09;
mod c10;
mod c11;
mod c12;
mod c13;
mod c14;
mod c15;
mod c16;
mod c17;
mod c18;
mod c19;
mod c20;
mod mutate;
mod pki;
mod rauth;
mod sess;
mod trace;
mod common;
mod runner;

use common::Ctx;

fn main() {
    let args: Vec<String> = std::env::args().collect();
    let mut property = String::new();
    let mut tier = "quick".to_string();
    let mut seed: u64 = 1;
    let mut runner = String::new();
    let mut out = String::new();
    let mut search = false;
    let mut only_case = None;
    let mut i = 1;
    while i < args.len() {
        match args[i].as_str() {
            "--tier" => { tier = args[i + 1].clone(); i += 1; }
            "--seed" => { seed = args[i + 1].parse().expect("seed"); i += 1; }
            "--runner" => { runner = args[i + 1].clone(); i += 1; }
            "--out" => { out = args[i + 1].clone(); i += 1; }
            "--search" => { search = true; }
            "--only-case" => { only_case = Some(args[i + 1].parse().expect("case index")); i += 1; }
            p => property = p.to_string(),
        }
        i += 1;
    }
    // keep panic messages out of stderr noise: the harness catches panics deliberately
    if std::env::var("VERIF_DEBUG").is_err() {
        std::panic::set_hook(Box::new(|_| {}));
    }
    // the embedding process has a `tracing` subscriber that enables every level and formats every field (as applications
    // that log at DEBUG do): what the library computes for its log lines is part of what runs on untrusted input
    let _ = tracing::subscriber::set_global_default(EveryLevel);
    let start = std::time::Instant::now();
    let mut ctx = Ctx::new(&runner, seed, tier == "thorough", search, only_case);
    match property.as_str() {
        "C20" => c20::run(&mut ctx),
        "C07" => c07::run(&mut ctx),
        "C08" => c08::run(&mut ctx),
        "C09" => c09::run(&mut ctx),
        "C10" => c10::run(&mut ctx),
        "C11" => c11::run(&mut ctx),
        "C12" => c12::run(&mut ctx),
        "C06" => c06::run(&mut ctx),
        "C02" => c02::run(&mut ctx),
        "C01" => c01::run(&mut ctx),
        "C03" => c03::run(&mut ctx),
        "C04" => c04::run(&mut ctx),
        "C05" => c05::run(&mut ctx),
        "C13" => c13::run(&mut ctx),
        "C14" => c14::run(&mut ctx),
        "C15" => c15::run(&mut ctx),
        "C16" => c16::run(&mut ctx),
        "C17" => c17::run(&mut ctx),
        "C18" => c18::run(&mut ctx),
        "C19" => c19::run(&mut ctx),
        other => { eprintln!("unknown property {other}"); std::process::exit(2); }
    }
    let rep = ctx.report(&property, start.elapsed().as_secs_f64());
    let s = serde_json::to_string_pretty(&rep).unwrap();
    if out.is_empty() { println!("{s}"); } else { std::fs::write(&out, s).expect("write report"); }
}

/// a subscriber that enables everything, formats every field of every event and throws the text away
struct EveryLevel;
struct Sink(String);
impl tracing::field::Visit for Sink {
    fn record_debug(&mut self, field: &tracing::field::Field, value: &dyn std::fmt::Debug) {
        use std::fmt::Write;
        self.0.clear();
        let _ = write!(self.0, "{}={:?}", field.name(), value);
    }
}
impl tracing::Subscriber for EveryLevel {
    fn enabled(&self, _: &tracing::Metadata<'_>) -> bool { true }
    fn new_span(&self, _: &tracing::span::Attributes<'_>) -> tracing::span::Id { tracing::span::Id::from_u64(1) }
    fn record(&self, _: &tracing::span::Id, _: &tracing::span::Record<'_>) {}
    fn record_follows_from(&self, _: &tracing::span::Id, _: &tracing::span::Id) {}
    fn event(&self, e: &tracing::Event<'_>) { let mut s = Sink(String::new()); e.record(&mut s); }
    fn enter(&self, _: &tracing::span::Id) {}
    fn exit(&self, _: &tracing::span::Id) {}
}
