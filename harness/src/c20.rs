//! C20 — nearest_age_attestation / parse_age_from_element_identifier against Model/AgeOver.v
use crate::common::*;
use ciborium::Value;
use isomdl::definitions::helpers::{ByteStr, NonEmptyMap, Tag24};
use isomdl::definitions::{DigestId, IssuerSignedItem};
use isomdl::presentation::device::{nearest_age_attestation, parse_age_from_element_identifier, Error};
use rand::Rng;
use serde_json::json;

fn err_code(e: &Error) -> u64 {
    match e {
        Error::PrefixError => 1,
        Error::ParsingError(_) => 2,
        _ => 99,
    }
}

fn item(id: &str, value: Value, digest: i32) -> Tag24<IssuerSignedItem> {
    // every other item is one a third-party issuer encoded (another member order, a wider digestID head): the
    // library's own encoder would write it differently, so "returned unchanged" is observable on its bytes
    if digest % 2 == 0 {
        let mut inner = vec![0xa4];
        inner.extend(crate::runner::to_bytes(&text("elementIdentifier"))); inner.extend(crate::runner::to_bytes(&text(id)));
        inner.extend(crate::runner::to_bytes(&text("elementValue"))); inner.extend(crate::runner::to_bytes(&value));
        inner.extend(crate::runner::to_bytes(&text("digestID"))); inner.extend([0x19, ((digest >> 8) & 0xff) as u8, (digest & 0xff) as u8]);
        inner.extend(crate::runner::to_bytes(&text("random"))); inner.extend(crate::runner::to_bytes(&bytes(&vec![digest as u8; 16])));
        if let Ok(t) = Tag24::<IssuerSignedItem>::from_bytes(inner) { return t; }
    }
    Tag24::new(IssuerSignedItem {
        digest_id: DigestId::new(digest),
        random: ByteStr::from(vec![digest as u8; 16]),
        element_identifier: id.to_string(),
        element_value: value,
    })
    .expect("tag24 item")
}

/// held: (identifier, value); BTreeMap semantics: later duplicates of an identifier replace earlier
fn one_case(ctx: &mut Ctx, label: &str, req: &str, held: &[(String, Value)]) {
    let mut map: std::collections::BTreeMap<String, Tag24<IssuerSignedItem>> = Default::default();
    for (i, (id, v)) in held.iter().enumerate() {
        map.insert(id.clone(), item(id, v.clone(), i as i32 + 1));
    }
    // the public function takes a NonEmptyMap; the empty held set is represented by one unrelated element
    if map.is_empty() {
        map.insert("family_name".into(), item("family_name", Value::Text("Doe".into()), 1000));
    }
    let held_cbor: Vec<Value> = map
        .iter()
        .map(|(id, it)| arr(vec![text(id), it.as_ref().element_value.clone(), bytes(&it.inner_bytes)]))
        .collect();
    let nem: NonEmptyMap<String, Tag24<IssuerSignedItem>> = map.clone().try_into().unwrap();
    let r = catch(|| nearest_age_attestation(req.to_string(), nem));
    let obs = match r {
        Ok(Ok(None)) => arr(vec![uint(0), Value::Null]),
        Ok(Ok(Some(it))) => arr(vec![uint(0), bytes(&it.inner_bytes)]),
        Ok(Err(e)) => arr(vec![uint(1), uint(err_code(&e))]),
        Err(p) => arr(vec![uint(2), text(&p)]),
    };
    match &obs {
        Value::Array(a) => match (&a[0], &a[1]) {
            (Value::Integer(i), Value::Null) if i128::from(*i) == 0 => ctx.count("out:none"),
            (Value::Integer(i), _) if i128::from(*i) == 0 => ctx.count("out:some"),
            (Value::Integer(i), _) if i128::from(*i) == 1 => ctx.count("out:error"),
            _ => ctx.count("out:panic"),
        },
        _ => {}
    }
    let nclaims = map.keys().filter(|k| k.contains("age_over")).count();
    let desc = json!({"request": req, "held": map.iter().map(|(k, v)| json!([k, diag(&v.as_ref().element_value)])).collect::<Vec<_>>()});
    let args = vec![text(req), arr(held_cbor)];
    ctx.case(label, desc, obs, Some(("c20.nearest", args.clone())), Some(("c20.spec", args)), nclaims >= 1);
}

fn parse_case(ctx: &mut Ctx, id: &str) {
    let r = catch(|| parse_age_from_element_identifier(id.to_string()));
    let obs = match r {
        Ok(Ok(n)) => arr(vec![uint(0), uint(n as u64)]),
        Ok(Err(e)) => arr(vec![uint(1), uint(err_code(&e))]),
        Err(p) => arr(vec![uint(2), text(&p)]),
    };
    ctx.case("parse_age", json!({"id": id}), obs, Some(("c20.parse_age", vec![text(id)])), None, true);
}

pub fn run(ctx: &mut Ctx) {
    let grid: Vec<u8> = vec![0, 1, 15, 16, 17, 18, 20, 21, 22, 25, 65, 99];
    let max_sz = if ctx.thorough { 3 } else { 2 };
    // exhaustive: every requested age 0..99 x every set of <= max_sz claims over the grid x truth values
    let mut sets: Vec<Vec<(u8, bool)>> = vec![vec![]];
    for (i, a) in grid.iter().enumerate() {
        for ta in [true, false] {
            sets.push(vec![(*a, ta)]);
            for (j, b) in grid.iter().enumerate().skip(i + 1) {
                for tb in [true, false] {
                    sets.push(vec![(*a, ta), (*b, tb)]);
                    if max_sz >= 3 {
                        for c in grid.iter().skip(j + 1) {
                            for tc in [true, false] {
                                sets.push(vec![(*a, ta), (*b, tb), (*c, tc)]);
                            }
                        }
                    }
                }
            }
        }
    }
    for set in &sets {
        let held: Vec<(String, Value)> = set.iter().map(|(a, t)| (format!("age_over_{a:02}"), Value::Bool(*t))).collect();
        for nn in 0..100u32 {
            one_case(ctx, "exhaustive", &format!("age_over_{nn:02}"), &held);
        }
    }
    // identifier grammar of the request and of held claims
    let odd_ids = [
        "age_over_", "age_over_+", "age_over_-1", "age_over_+21", "age_over_021", "age_over_0000000021", "age_over_255",
        "age_over_256", "age_over_999999999999999999999", "age_over_21x", "age_over_2 1", "ageover_21", "", "AGE_OVER_21",
        "age_over_٢١", "xage_over_21", "age_over", "age_over_21 ", " age_over_21", "age_over_+0", "age_over_00", "age_over_1e1",
        "age_over_0x10", "age_over_++1", "age_over_+-1", "age_over_\u{0}", "age_over_৪",
        // a multi-byte character across, before and after the end of the prefix (byte offset 9)
        "age_over＿21", "age_over–21", "age_overé21", "age_over😀21", "age_ove＿_21", "age_ové_21", "age_over_＿21", "age_over_😀", "age_over_2😀", "age_ov😀r_21", "äge_over_21",
    ];
    for id in odd_ids.iter() {
        parse_case(ctx, id);
    }
    for n in 0..300u32 {
        parse_case(ctx, &format!("age_over_{n}"));
        parse_case(ctx, &format!("age_over_{n:03}"));
    }
    let base = vec![("age_over_18".to_string(), Value::Bool(true)), ("age_over_21".to_string(), Value::Bool(false))];
    let no_age: Vec<(String, Value)> = vec![("family_name".to_string(), Value::Text("Doe".into())), ("birth_date".to_string(), Value::Text("1990-01-01".into()))];
    for id in odd_ids.iter() {
        // a malformed request is refused whatever is held: nothing, nothing age-related, only false claims
        one_case(ctx, "odd_request_nothing_held", id, &[]);
        one_case(ctx, "odd_request_no_age_element", id, &no_age);
        one_case(ctx, "odd_request_false_only", id, &[("age_over_21".to_string(), Value::Bool(false))]);
        one_case(ctx, "odd_request", id, &base);
        let mut h = base.clone();
        h.push((id.to_string(), Value::Bool(true)));
        one_case(ctx, "odd_held_true", "age_over_20", &h);
        let mut h = base.clone();
        h.push((id.to_string(), Value::Bool(false)));
        one_case(ctx, "odd_held_false", "age_over_20", &h);
    }
    // many claims at once (21 … 60 of the hundred possible ages), truth values NOT grouped by age: every requested age
    let n_many = ctx.budget(12, 400);
    for i in 0..n_many {
        let k = 21 + (i as usize * 7) % 40;
        let mut ages: Vec<u32> = (0..100).collect();
        for j in (1..ages.len()).rev() { let r = ctx.rng.gen_range(0..=j); ages.swap(j, r); }
        let held: Vec<(String, Value)> = ages[..k].iter().map(|a| (format!("age_over_{a:02}"), Value::Bool(ctx.rng.gen_bool(0.5)))).collect();
        for nn in 0..100u32 { one_case(ctx, "many_claims", &format!("age_over_{nn:02}"), &held); }
    }
    // random larger sets with unrelated elements, ties (021 / +21 / 21), and non-boolean values
    let n_random = ctx.budget(4000, 200_000);
    for _ in 0..n_random {
        let k = ctx.rng.gen_range(0..9);
        let mut held: Vec<(String, Value)> = vec![];
        for _ in 0..k {
            let a: u32 = if ctx.rng.gen_bool(0.8) { ctx.rng.gen_range(0..100) } else { ctx.rng.gen_range(0..300) };
            let id = match ctx.rng.gen_range(0..10) {
                0 => format!("age_over_{a:03}"),
                1 => format!("age_over_+{a}"),
                _ => format!("age_over_{a:02}"),
            };
            let v = match ctx.rng.gen_range(0..20) {
                0 => Value::Text("true".into()),
                1 => Value::Integer(1.into()),
                2 => Value::Null,
                x => Value::Bool(x % 2 == 0),
            };
            held.push((id, v));
        }
        for extra in ["family_name", "portrait", "birth_date", "age_in_years", "age_birth_year"] {
            if ctx.rng.gen_bool(0.3) {
                held.push((extra.to_string(), Value::Text("x".into())));
            }
        }
        let nn: u32 = ctx.rng.gen_range(0..100);
        let req = if ctx.rng.gen_bool(0.05) { format!("age_over_+{nn}") } else { format!("age_over_{nn:02}") };
        one_case(ctx, "random", &req, &held);
    }
}
