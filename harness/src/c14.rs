//! C14 — stringify/parse of every session object at every step boundary:
//! (1) Rust differential: the same remaining inputs are fed to a restored object and to an
//!     untouched clone; every later output must be byte-identical;
//! (2) every real stringified state is parsed by the Gallina model of Stringify, whose view
//!     (counters, keys, state variant, pending counts) must equal the harness's, and whose
//!     re-stringification must reproduce the same text.
use crate::common::*;
use crate::sess::*;
use crate::trace::*;
use isomdl::presentation::{device, Stringify};
use rand::Rng;
use serde_json::json;

fn view_case(ctx: &mut Ctx, w: &World, label: &str) {
    let ds = w.dev.stringify().expect("stringify device");
    let (k, st) = dev_view(&w.dev);
    let stv = match st {
        StateView::Awaiting => arr(vec![uint(0)]),
        StateView::Signing { prepared, signed } => arr(vec![uint(1), uint(prepared as u64), uint(signed as u64)]),
        StateView::Ready(b) => arr(vec![uint(2), bytes(&b)]),
    };
    let obs = arr(vec![ciborium::Value::Bool(true), arr(vec![uint(k.device_ctr), uint(k.reader_ctr), stv, bytes(&k.sk_device), bytes(&k.sk_reader)]), ciborium::Value::Bool(true)]);
    ctx.case(&format!("view_device:{label}"), json!({"len": ds.len()}), obs, Some(("c14.device", vec![bytes(ds.as_bytes())])), None, true);
    let rs = w.rdr.stringify().expect("stringify reader");
    let k = rdr_view(&w.rdr);
    let obs = arr(vec![ciborium::Value::Bool(true), arr(vec![uint(k.device_ctr), uint(k.reader_ctr), bytes(&k.sk_device), bytes(&k.sk_reader)]), ciborium::Value::Bool(true)]);
    ctx.case(&format!("view_reader:{label}"), json!({"len": rs.len()}), obs, Some(("c14.reader", vec![bytes(rs.as_bytes())])), None, true);
}

pub fn run(ctx: &mut Ctx) {
    let n = ctx.budget(40, 1500);
    for i in 0..n {
        let mut rng = ctx.rng.clone();
        let ndocs = rng.gen_range(1..=3);
        let base = World::new(&mut rng, ndocs);
        // a mostly honest script of several rounds, with some adversarial deliveries
        let mut ops: Vec<TOp> = vec![];
        let rounds = if ctx.thorough { rng.gen_range(1..5) } else { rng.gen_range(1..3) };
        for _ in 0..rounds {
            for o in honest_round(&mut rng) {
                ops.push(o);
                if rng.gen_bool(0.1) { ops.push(random_op(&mut rng, 0.8, 0.0)); }
            }
        }
        // reference universe: no restore
        // every universe executes the script with the SAME random stream (garbage bytes, bit positions ...)
        let rng_exec = rng.clone();
        let mut a = base.fork();
        let mut rng_a = rng_exec.clone();
        for op in &ops { a.exec(op, &mut rng_a); }
        // variants: every single boundary (quick: sampled), and random subsets
        let mut variants: Vec<Vec<usize>> = vec![];
        for b in 0..=ops.len() { if ctx.thorough || rng.gen_bool(0.35) { variants.push(vec![b]); } }
        for _ in 0..(if ctx.thorough { 6 } else { 2 }) {
            variants.push((0..=ops.len()).filter(|_| rng.gen_bool(0.4)).collect());
        }
        variants.push((0..=ops.len()).collect());
        for restore_at in variants {
            let mut b = base.fork();
            let mut rng_b = rng_exec.clone();
            let mut mops = b.prefix_ops();
            let mut raw_len_at_restore = vec![];
            for (j, op) in ops.iter().enumerate() {
                if restore_at.contains(&j) {
                    for r in [TOp::RestoreDev, TOp::RestoreRdr] { let (m, _) = b.exec(&r, &mut rng_b); mops.push(m); }
                    raw_len_at_restore.push(b.raw.len());
                }
                let (m, _) = b.exec(op, &mut rng_b);
                mops.push(m);
            }
            if restore_at.contains(&ops.len()) {
                for r in [TOp::RestoreDev, TOp::RestoreRdr] { let (m, _) = b.exec(&r, &mut rng_b); mops.push(m); }
            }
            let same = a.raw == b.raw
                && a.dev.stringify().ok() == b.dev.stringify().ok()
                && a.rdr.stringify().ok() == b.rdr.stringify().ok();
            let first_diff = a.raw.iter().zip(b.raw.iter()).position(|(x, y)| x != y);
            if std::env::var("VERIF_DEBUG").is_ok() { if let Some(i) = first_diff { eprintln!("DIFF at {i}:\nA={}\nB={}", String::from_utf8_lossy(&a.raw[i]).chars().take(1500).collect::<String>(), String::from_utf8_lossy(&b.raw[i]).chars().take(1500).collect::<String>()); } }
            let desc = json!({"docs_held": ndocs, "ops": ops.iter().map(|o| format!("{o:?}")).collect::<Vec<_>>(), "restore_before_op": restore_at,
                              "first_differing_output": first_diff, "outputs": a.raw.len()});
            ctx.case("differential", desc, ciborium::Value::Bool(same),
                Some(("c14.transparent", vec![uint(0), uint(1), arr(mops)])), Some(("c14.spec_same", vec![])), ops.len() >= 3);
        }
        if i % 2 == 0 || ctx.thorough { view_case(ctx, &a, "end"); }
        // states mid-way: after establishment, mid-signing, ready
        let mut c = base.fork();
        let mut rng_c = rng.clone();
        view_case(ctx, &c, "established");
        for op in [TOp::Prepare(vec![0, 1, 2], true), TOp::Submit(true)] { c.exec(&op, &mut rng_c); }
        view_case(ctx, &c, "mid-signing");
        for _ in 0..3 { c.exec(&TOp::Submit(true), &mut rng_c); }
        view_case(ctx, &c, "ready");
        // restore exactly at the response-ready boundary (the prepared answer of three documents is several kilobytes):
        // the restored session must hand out the same bytes, once
        {
            let mut a2 = c.fork();
            let mut b2 = c.fork();
            let mut r1 = rng_c.clone();
            let mut r2 = rng_c.clone();
            let restored = b2.exec(&TOp::RestoreDev, &mut r2).1;
            for op in [TOp::Ready, TOp::Retrieve, TOp::Ready, TOp::Retrieve] { a2.exec(&op, &mut r1); b2.exec(&op, &mut r2); }
            let same = a2.raw == b2.raw && a2.dev.stringify().ok() == b2.dev.stringify().ok() && restored.as_array().and_then(|a| a.first()).map(diag) == Some(diag(&arr(vec![uint(6)])));
            let size = match dev_view(&c.dev).1 { StateView::Ready(b) => b.len(), _ => 0 };
            ctx.case("differential_ready", json!({"response_bytes": size, "restore": diag(&restored)}), ciborium::Value::Bool(same), None, Some(("c14.spec_same", vec![])), true);
        }
        ctx.rng = rng;
    }
    // a device session holding reader trust anchors: a reader-authenticated request handled by the session object
    // and by its restored copy must be judged alike (the registry, purposes included, is part of the session state)
    for i in 0..ctx.budget(6, 150) {
        let mut rng = ctx.rng.clone();
        let pki = crate::pki::Pki::generate(&mut rng);
        let (m, _k) = issue(&mut rng, &pki, MDL, [(NS.to_string(), [("family_name".to_string(), ciborium::Value::Text("Doe".into()))].into_iter().collect())].into_iter().collect(), isomdl::definitions::DigestAlgorithm::SHA256, false);
        use isomdl::definitions::x509::trust_anchor::TrustPurpose;
        let dev_reg = match i % 3 {
            0 => registry(vec![(pki.reader_ca.clone(), TrustPurpose::ReaderCa)]),
            1 => registry(vec![(pki.iaca.clone(), TrustPurpose::Iaca), (pki.reader_ca.clone(), TrustPurpose::ReaderCa)]),
            _ => registry(vec![(pki.reader_ca.clone(), TrustPurpose::Iaca)]), // trusted for the other purpose only
        };
        let Ok(e) = establish(documents_of(vec![m]), None, &request_specs()[0], Default::default(), dev_reg) else { ctx.rng = rng; continue };
        let de = base64::decode_config(e.qr.strip_prefix("mdoc:").unwrap(), base64::Config::new(base64::CharacterSet::UrlSafe, false)).unwrap();
        let est = crate::runner::from_bytes(&e.establishment).unwrap();
        let erk = match map_get(&est, "eReaderKey") { Some(ciborium::Value::Tag(24, b)) => b.as_bytes().unwrap().clone(), _ => vec![] };
        let items = crate::c11::items_request_bytes(&mut rng, false);
        let payload = crate::c11::rab(&de, &erk, &items);
        use der::Encode;
        let ra = crate::c11::reader_auth(&pki.reader_key, Some(pki.reader.to_der().unwrap()), None, -7, &payload, false);
        let request = ciborium::Value::Map(vec![(text("version"), text("1.0")), (text("docRequests"), arr(vec![ciborium::Value::Map(vec![
            (text("itemsRequest"), ciborium::Value::Tag(24, Box::new(bytes(&items)))), (text("readerAuth"), ra)])]))]);
        let (dk, _) = dev_view(&e.dev);
        let msg = session_data(Some(&aes_encrypt(&dk.sk_reader, &iso_iv(false, dk.reader_ctr as u32 + 1), &crate::runner::to_bytes(&request))), None);
        let status = |o: &isomdl::presentation::authentication::RequestAuthenticationOutcome| match o.reader_authentication {
            isomdl::presentation::authentication::AuthenticationStatus::Unchecked => 0u64,
            isomdl::presentation::authentication::AuthenticationStatus::Invalid => 1,
            isomdl::presentation::authentication::AuthenticationStatus::Valid => 2 };
        let mut a = e.dev.clone();
        let mut b = match device::SessionManager::parse(e.dev.stringify().expect("stringify")) { Ok(b) => b, Err(_) => { ctx.case("differential_reader_auth", json!({"registry": i % 3, "restore": "failed"}), ciborium::Value::Bool(false), None, Some(("c14.spec_same", vec![])), true); ctx.rng = rng; continue } };
        let ra_a = catch(|| a.handle_request(&msg)).map(|o| status(&o)).unwrap_or(9);
        let ra_b = catch(|| b.handle_request(&msg)).map(|o| status(&o)).unwrap_or(9);
        let same = ra_a == ra_b && a.stringify().ok() == b.stringify().ok();
        ctx.count(&format!("reader_auth_after_restore:original={ra_a} restored={ra_b}"));
        ctx.case("differential_reader_auth", json!({"registry": i % 3, "original": ra_a, "restored": ra_b}), ciborium::Value::Bool(same), None, Some(("c14.spec_same", vec![])), true);
        ctx.rng = rng;
    }
    // a stringify that FAILS right before (a wallet document whose validUntil cannot be written as a UTC date), on the same
    // thread: the next object's serialised form is its own, complete and restorable
    {
        let mut rng = ctx.rng.clone();
        let pki = crate::pki::Pki::generate(&mut rng);
        let (m, _k) = issue(&mut rng, &pki, MDL, [(NS.to_string(), [("family_name".to_string(), ciborium::Value::Text("Doe".into()))].into_iter().collect())].into_iter().collect(), isomdl::definitions::DigestAlgorithm::SHA256, false);
        let healthy = establish(documents_of(vec![m.clone()]), None, &request_specs()[0], Default::default(), Default::default());
        // the same document with validUntil = 9999-12-31T23:59:59-01:00 in its typed MSO
        let mut mv = ciborium::Value::serialized(&m).expect("mdoc value");
        fn set_until(v: &mut ciborium::Value) {
            match v {
                ciborium::Value::Map(es) => for (k, x) in es.iter_mut() {
                    if k.as_text() == Some("validUntil") { *x = ciborium::Value::Tag(0, Box::new(ciborium::Value::Text("9999-12-31T23:59:59-01:00".into()))); } else { set_until(x) }
                },
                ciborium::Value::Array(a) => for x in a { set_until(x) },
                ciborium::Value::Tag(_, b) => set_until(b),
                _ => {}
            }
        }
        set_until(&mut mv);
        let bad = isomdl::cbor::from_slice::<isomdl::issuance::Mdoc>(&crate::runner::to_bytes(&mv)).ok()
            .and_then(|bm| device::SessionManagerInit::initialise(documents_of(vec![bm]), None, None).ok());
        if let (Ok(h), Some(bad)) = (healthy, bad) {
            let reference = (h.dev.stringify().ok(), h.rdr.stringify().ok());
            let mut verdicts = vec![];
            for round in 0..2 {
                let failed = catch(|| bad.stringify()).map(|r| r.is_err()).unwrap_or(true);
                ctx.count(if failed { "stringify_after_failure:the-earlier-stringify-failed" } else { "stringify_after_failure:the-earlier-stringify-succeeded" });
                let s = if round == 0 { h.dev.stringify().ok() } else { h.rdr.stringify().ok() };
                let again = if round == 0 { s.clone().and_then(|s| device::SessionManager::parse(s).ok()).and_then(|d| d.stringify().ok()) }
                            else { s.clone().and_then(|s| isomdl::presentation::reader::SessionManager::parse(s).ok()).and_then(|d| d.stringify().ok()) };
                verdicts.push(s.is_some() && s == (if round == 0 { reference.0.clone() } else { reference.1.clone() }) && again == s);
            }
            ctx.case("stringify_after_a_failed_stringify", json!({"device": verdicts[0], "reader": verdicts[1]}), ciborium::Value::Bool(verdicts.iter().all(|v| *v)), None, Some(("c14.spec_same", vec![])), true);
        } else { ctx.count("stringify_after_failure:not-built"); }
        ctx.rng = rng;
    }
    // the reader's certificate EXPIRES between two reader-authenticated requests of one session: the session object that
    // lived through both and its copy restored after the first one must judge the second request alike
    {
        let mut rng = ctx.rng.clone();
        let mut pki = crate::pki::Pki::generate(&mut rng);
        let now = std::time::SystemTime::now().duration_since(std::time::UNIX_EPOCH).unwrap().as_secs();
        if let Some(c) = crate::pki::leaf_cert_valid(&pki.reader_key, &pki.reader_ca_key, "CN=Test Reader CA,C=US", "CN=Test Reader,C=US", crate::pki::EKU_READER, 91, now - 60, now + 3) { pki.reader = c; }
        let (m, _k) = issue(&mut rng, &pki, MDL, [(NS.to_string(), [("family_name".to_string(), ciborium::Value::Text("Doe".into()))].into_iter().collect())].into_iter().collect(), isomdl::definitions::DigestAlgorithm::SHA256, false);
        use isomdl::definitions::x509::trust_anchor::TrustPurpose;
        if let Ok(e) = establish(documents_of(vec![m]), None, &request_specs()[0], Default::default(), registry(vec![(pki.reader_ca.clone(), TrustPurpose::ReaderCa)])) {
            let de = base64::decode_config(e.qr.strip_prefix("mdoc:").unwrap(), base64::Config::new(base64::CharacterSet::UrlSafe, false)).unwrap();
            let est = crate::runner::from_bytes(&e.establishment).unwrap();
            let erk = match map_get(&est, "eReaderKey") { Some(ciborium::Value::Tag(24, b)) => b.as_bytes().unwrap().clone(), _ => vec![] };
            use der::Encode;
            let reader_der = pki.reader.to_der().unwrap();
            let mut make = |dev: &device::SessionManager, rng: &mut rand::rngs::StdRng| -> Vec<u8> {
                let items = crate::c11::items_request_bytes(rng, false);
                let ra = crate::c11::reader_auth(&pki.reader_key, Some(reader_der.clone()), None, -7, &crate::c11::rab(&de, &erk, &items), false);
                let request = ciborium::Value::Map(vec![(text("version"), text("1.0")), (text("docRequests"), arr(vec![ciborium::Value::Map(vec![
                    (text("itemsRequest"), ciborium::Value::Tag(24, Box::new(bytes(&items)))), (text("readerAuth"), ra)])]))]);
                let (dk, _) = dev_view(dev);
                session_data(Some(&aes_encrypt(&dk.sk_reader, &iso_iv(false, dk.reader_ctr as u32 + 1), &crate::runner::to_bytes(&request))), None)
            };
            let status = |o: &isomdl::presentation::authentication::RequestAuthenticationOutcome| match o.reader_authentication {
                isomdl::presentation::authentication::AuthenticationStatus::Unchecked => 0u64,
                isomdl::presentation::authentication::AuthenticationStatus::Invalid => 1,
                isomdl::presentation::authentication::AuthenticationStatus::Valid => 2 };
            let mut a = e.dev.clone();
            let msg1 = make(&a, &mut rng);
            let first = catch(|| a.handle_request(&msg1)).map(|o| status(&o)).unwrap_or(9);
            if let Ok(mut b) = device::SessionManager::parse(a.stringify().expect("stringify")) {
                std::thread::sleep(std::time::Duration::from_secs(4));
                let msg2 = make(&a, &mut rng);
                let ra_a = catch(|| a.handle_request(&msg2)).map(|o| status(&o)).unwrap_or(9);
                let ra_b = catch(|| b.handle_request(&msg2)).map(|o| status(&o)).unwrap_or(9);
                let same = ra_a == ra_b && a.stringify().ok() == b.stringify().ok();
                ctx.count(&format!("reader_auth_across_expiry:first={first} original={ra_a} restored={ra_b}"));
                ctx.case("differential_reader_auth_across_expiry", json!({"first_request": first, "original": ra_a, "restored": ra_b}), ciborium::Value::Bool(same), None, Some(("c14.spec_same", vec![])), true);
            }
        }
        ctx.rng = rng;
    }
    // device keys on every curve, and MAC device authentication: a session restored BEFORE prepare_response, and one
    // restored MID-SIGNING, must offer the same payloads and hand out the same response as the untouched object
    {
        use isomdl::definitions::device_key::cose_key::{EC2Curve, EC2Y, OKPCurve};
        use isomdl::definitions::CoseKey;
        let mut kinds: Vec<(&str, CoseKey, bool)> = vec![];
        for mac in [false, true] {
            kinds.push(("p256", CoseKey::EC2 { crv: EC2Curve::P256, x: vec![1; 32], y: EC2Y::Value(vec![2; 32]) }, mac));
            kinds.push(("p384", CoseKey::EC2 { crv: EC2Curve::P384, x: vec![1; 48], y: EC2Y::Value(vec![2; 48]) }, mac));
            kinds.push(("p521", CoseKey::EC2 { crv: EC2Curve::P521, x: vec![1; 66], y: EC2Y::Value(vec![2; 66]) }, mac));
            kinds.push(("p256-signbit", CoseKey::EC2 { crv: EC2Curve::P256, x: vec![1; 32], y: EC2Y::SignBit(true) }, mac));
            kinds.push(("ed25519", CoseKey::OKP { crv: OKPCurve::Ed25519, x: vec![3; 32] }, mac));
            kinds.push(("ed448", CoseKey::OKP { crv: OKPCurve::Ed448, x: vec![3; 57] }, mac));
        }
        for (name, key, mac) in kinds {
            let mut rng = ctx.rng.clone();
            let pki = crate::pki::Pki::generate(&mut rng);
            let nsm: std::collections::BTreeMap<String, std::collections::BTreeMap<String, ciborium::Value>> =
                [(NS.to_string(), [("family_name".to_string(), ciborium::Value::Text("Doe".into())), ("age_over_18".to_string(), ciborium::Value::Bool(true))].into_iter().collect())].into_iter().collect();
            let m = issue_with_key(&pki, MDL, nsm, isomdl::definitions::DigestAlgorithm::SHA256, false, key);
            let first: std::collections::BTreeMap<String, Vec<String>> = [(NS.to_string(), vec!["family_name".to_string(), "age_over_18".to_string()])].into_iter().collect();
            let Ok(e) = establish(documents_of(vec![m]), None, &first, Default::default(), Default::default()) else { ctx.rng = rng; continue };
            // MAC device authentication is a stored setting of the session object
            let dev0 = if mac {
                let mut v = state_value(&e.dev.stringify().expect("stringify"));
                if let Some(slot) = crate::rauth::map_get_mut(&mut v, "device_auth_type") { *slot = ciborium::Value::Text("Mac0".into()); }
                match device::SessionManager::parse(base64::encode(crate::runner::to_bytes(&v))) { Ok(d) => d, Err(_) => { ctx.count("curves_restore:mac-state-refused"); ctx.rng = rng; continue } }
            } else { e.dev };
            let items = e.first_outcome.items_request.clone();
            let permitted: device::PermittedItems = [(MDL.to_string(), first.clone().into_iter().collect())].into_iter().collect();
            let run = |mut d: device::SessionManager, restore_before: bool, restore_mid: bool| -> Vec<Vec<u8>> {
                let mut out: Vec<Vec<u8>> = vec![];
                let rs = |d: device::SessionManager| -> device::SessionManager { match d.stringify().and_then(device::SessionManager::parse) { Ok(x) => x, Err(_) => d } };
                if restore_before { d = rs(d); }
                device::SessionManager::prepare_response(&mut d, &items, permitted.clone());
                if restore_mid { d = rs(d); }
                let mut guard = 0;
                while let Some((_, p)) = d.get_next_signature_payload().map(|(u, p)| (u, p.to_vec())) {
                    out.push(p);
                    let _ = d.submit_next_signature(vec![9; 64]);
                    guard += 1; if guard > 4 { break; }
                }
                out.push(d.retrieve_response().unwrap_or_default());
                out.push(d.stringify().unwrap_or_default().into_bytes());
                out
            };
            let a = catch(|| run(dev0.clone(), false, false));
            let b = catch(|| run(dev0.clone(), true, false));
            let c = catch(|| run(dev0.clone(), false, true));
            let same = a.is_ok() && a == b && a == c;
            ctx.count(&format!("curves_restore:{name}:mac={mac}:{}", if same { "same" } else { "DIFFERENT" }));
            ctx.case("differential_curves", json!({"device_key": name, "mac": mac, "payloads": a.as_ref().map(|v| v.len()).unwrap_or(0)}), ciborium::Value::Bool(same), None, Some(("c14.spec_same", vec![])), true);
            ctx.rng = rng;
        }
    }
    // engagement-phase objects
    for _ in 0..ctx.budget(10, 200) {
        let mut rng = ctx.rng.clone();
        let w = World::new(&mut rng, 1);
        let docs_state = w.dev.stringify().unwrap();
        let v = state_value(&docs_state);
        let _ = v;
        // Init / Engaged: built fresh (they are consumed by their transitions)
        let pki = crate::pki::Pki::generate(&mut rng);
        let (m, _k) = issue(&mut rng, &pki, MDL, [(NS.to_string(), [("family_name".to_string(), ciborium::Value::Text("Doe".into()))].into_iter().collect())].into_iter().collect(), isomdl::definitions::DigestAlgorithm::SHA256, false);
        let init = device::SessionManagerInit::initialise(documents_of(vec![m]), None, None).expect("init");
        let s_init = init.stringify().unwrap();
        let key = as_u8_array(map_get(&state_value(&s_init), "e_device_key").unwrap());
        ctx.case("view_init", json!({"len": s_init.len()}), arr(vec![ciborium::Value::Bool(true), bytes(&key), ciborium::Value::Bool(true)]),
            Some(("c14.engaged", vec![ciborium::Value::Bool(false), bytes(s_init.as_bytes())])), None, true);
        // restored Init vs original Init: same QR code, same engaged state
        let restored = device::SessionManagerInit::parse(s_init.clone()).expect("parse init");
        let ble_a = init.ble_ident().ok();
        let ble_b = restored.ble_ident().ok();
        let (eng_a, qr_a) = init.qr_engagement().expect("qr");
        let (eng_b, qr_b) = restored.qr_engagement().expect("qr");
        let s_eng = eng_a.stringify().unwrap();
        let same = qr_a == qr_b && ble_a == ble_b && s_eng == eng_b.stringify().unwrap();
        ctx.case("differential_init", json!({}), ciborium::Value::Bool(same), None, Some(("c14.spec_same", vec![])), true);
        ctx.case("view_engaged", json!({"len": s_eng.len()}), arr(vec![ciborium::Value::Bool(true), bytes(&key), ciborium::Value::Bool(true)]),
            Some(("c14.engaged", vec![ciborium::Value::Bool(true), bytes(s_eng.as_bytes())])), None, true);
        // restored Engaged vs clone: same processing of the same establishment
        let (rdr, est, _) = isomdl::presentation::reader::SessionManager::establish_session(qr_a, namespaces_of(&request_specs()[0]), Default::default()).expect("establish");
        let _ = rdr;
        let se1: isomdl::definitions::SessionEstablishment = isomdl::cbor::from_slice(&est).unwrap();
        let se2: isomdl::definitions::SessionEstablishment = isomdl::cbor::from_slice(&est).unwrap();
        let eng_r = device::SessionManagerEngaged::parse(s_eng).expect("parse engaged");
        let (d1, o1) = eng_a.process_session_establishment(se1, Default::default()).expect("pse");
        let (d2, o2) = eng_r.process_session_establishment(se2, Default::default()).expect("pse");
        let same = d1.stringify().unwrap() == d2.stringify().unwrap() && serde_json::to_vec(&o1).unwrap() == serde_json::to_vec(&o2).unwrap();
        ctx.case("differential_engaged", json!({}), ciborium::Value::Bool(same), None, Some(("c14.spec_same", vec![])), true);
        ctx.rng = rng;
    }
}
