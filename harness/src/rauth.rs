//! Reader-side authentication cases shared by C03 / C04 / C05: an authentic DeviceResponse is
//! produced by a real session, altered at the CBOR level by a holder who owns the device key and
//! the session keys, re-encrypted by the harness and handed to reader::SessionManager::handle_response.
use crate::common::*;
use crate::pki::{self, Pki};
use crate::runner::{from_bytes, to_bytes};
use crate::sess::*;
use ciborium::Value;
use der::{Decode, Encode};
use isomdl::definitions::device_key::cose_key::{EC2Curve, EC2Y, OKPCurve};
use isomdl::definitions::helpers::Tag24;
use isomdl::definitions::x509::trust_anchor::{TrustAnchorRegistry, TrustPurpose};
use isomdl::definitions::x509::validation::ValidationRuleset;
use isomdl::definitions::x509::X5Chain;
use isomdl::definitions::{CoseKey, DigestAlgorithm, Mso};
use isomdl::presentation::device::PermittedItems;
use isomdl::presentation::{reader, Stringify};
use p256::ecdsa::signature::{Signer, Verifier};
use p256::ecdsa::{Signature, SigningKey, VerifyingKey};
use rand::rngs::StdRng;
use rand::Rng;
use serde_json::json;
use std::collections::BTreeMap;

pub struct Scene {
    pub pki: Pki,
    pub other_pki: Pki,
    pub device_key: SigningKey,
    pub rdr: reader::SessionManager, // registry: right IACA root
    pub de_bytes: Vec<u8>,
    pub erk_bytes: Vec<u8>,
    pub sk_device: Vec<u8>,
    pub plaintext: Value, // authentic DeviceResponse
    pub alg: DigestAlgorithm,
}

fn core_namespaces(rng: &mut StdRng) -> BTreeMap<String, BTreeMap<String, Value>> {
    let mut core = BTreeMap::new();
    core.insert("family_name".to_string(), Value::Text("Doe".into()));
    core.insert("given_name".to_string(), Value::Text("Jane".into()));
    core.insert("age_over_18".to_string(), Value::Bool(true));
    core.insert("portrait".to_string(), Value::Bytes((0..rng.gen_range(1..200)).map(|_| rng.gen()).collect()));
    core.insert("height".to_string(), Value::Integer(170.into()));
    let mut aamva = BTreeMap::new();
    aamva.insert("organ_donor".to_string(), Value::Integer(1.into()));
    aamva.insert("family_name_truncation".to_string(), Value::Text("N".into()));
    [(NS.to_string(), core), (NS_AAMVA.to_string(), aamva)].into_iter().collect()
}

fn request_all() -> BTreeMap<String, Vec<String>> {
    [
        (NS.to_string(), vec!["family_name", "given_name", "age_over_18", "portrait", "height"].into_iter().map(String::from).collect()),
        (NS_AAMVA.to_string(), vec!["organ_donor".to_string(), "family_name_truncation".to_string()]),
    ]
    .into_iter()
    .collect()
}

pub fn iaca_registry(pki: &Pki) -> TrustAnchorRegistry {
    registry(vec![(pki.iaca.clone(), TrustPurpose::Iaca)])
}

/// honest session + one honest response, with an arbitrary device COSE key in the MSO
pub fn scene_with_key(rng: &mut StdRng, device_cose: Option<CoseKey>) -> Option<Scene> {
    let pki = Pki::generate(rng);
    let other_pki = Pki::generate(rng);
    let alg = [DigestAlgorithm::SHA256, DigestAlgorithm::SHA384, DigestAlgorithm::SHA512][rng.gen_range(0..3)];
    let device_key = SigningKey::random(rng);
    let ck = device_cose.unwrap_or_else(|| cose_key_of(&device_key));
    let decoys = rng.gen_bool(0.5);
    let mdoc = issue_with_key(&pki, MDL, core_namespaces(rng), alg, decoys, ck);
    scene_from(pki, other_pki, mdoc, device_key, alg)
}

/// honest session + one honest response for a document issued to the given device key
pub fn scene_with_signing_key(rng: &mut StdRng, device_key: SigningKey) -> Option<Scene> {
    let pki = Pki::generate(rng);
    let other_pki = Pki::generate(rng);
    let alg = [DigestAlgorithm::SHA256, DigestAlgorithm::SHA384, DigestAlgorithm::SHA512][rng.gen_range(0..3)];
    let mdoc = issue_with_key(&pki, MDL, core_namespaces(rng), alg, false, cose_key_of(&device_key));
    scene_from(pki, other_pki, mdoc, device_key, alg)
}

pub fn scene_from(pki: Pki, other_pki: Pki, mdoc: isomdl::issuance::Mdoc, device_key: SigningKey, alg: DigestAlgorithm) -> Option<Scene> {
    let e = establish(documents_of(vec![mdoc]), None, &request_all(), iaca_registry(&pki), Default::default()).ok()?;
    let mut dev = e.dev;
    let items = e.first_outcome.items_request.clone();
    let permitted: PermittedItems = [(MDL.to_string(), request_all().into_iter().collect())].into_iter().collect();
    dev.prepare_response(&items, permitted);
    while let Some((_, payload)) = dev.get_next_signature_payload().map(|(u, p)| (u, p.to_vec())) {
        let s: Signature = device_key.sign(&payload);
        dev.submit_next_signature(s.to_vec()).ok()?;
    }
    let resp = dev.retrieve_response()?;
    let (keys, _) = dev_view(&dev);
    let data = data_of(&resp)?;
    let (_, pt) = find_iv(&keys.sk_device, &data, 3)?;
    let de_bytes = base64::decode_config(e.qr.strip_prefix("mdoc:")?, base64::Config::new(base64::CharacterSet::UrlSafe, false)).ok()?;
    let est = from_bytes(&e.establishment)?;
    let erk_bytes = match map_get(&est, "eReaderKey") { Some(Value::Tag(24, b)) => b.as_bytes()?.clone(), _ => return None };
    Some(Scene { pki, other_pki, device_key, rdr: e.rdr, de_bytes, erk_bytes, sk_device: keys.sk_device, plaintext: from_bytes(&pt)?, alg })
}

pub fn clone_pki(p: &Pki) -> Pki {
    Pki { iaca_key: p.iaca_key.clone(), iaca: p.iaca.clone(), ds_key: p.ds_key.clone(), ds: p.ds.clone(),
          reader_ca_key: p.reader_ca_key.clone(), reader_ca: p.reader_ca.clone(), reader_key: p.reader_key.clone(), reader: p.reader.clone() }
}

pub fn new_namespaces(rng: &mut StdRng) -> BTreeMap<String, BTreeMap<String, Value>> { core_namespaces(rng) }

// ---------- CBOR surgery helpers ----------

pub fn map_get_mut<'a>(v: &'a mut Value, key: &str) -> Option<&'a mut Value> {
    match v { Value::Map(m) => m.iter_mut().find(|(k, _)| k.as_text() == Some(key)).map(|(_, v)| v), _ => None }
}
fn doc_mut(pt: &mut Value) -> &mut Value {
    match map_get_mut(pt, "documents") { Some(Value::Array(a)) => &mut a[0], _ => panic!("no documents") }
}
fn issuer_auth_mut(pt: &mut Value) -> &mut Vec<Value> {
    let d = doc_mut(pt);
    match map_get_mut(map_get_mut(d, "issuerSigned").unwrap(), "issuerAuth").unwrap() { Value::Array(a) => a, _ => panic!("issuerAuth") }
}
fn device_sig_mut(pt: &mut Value) -> &mut Vec<Value> {
    let d = doc_mut(pt);
    match map_get_mut(map_get_mut(map_get_mut(d, "deviceSigned").unwrap(), "deviceAuth").unwrap(), "deviceSignature").unwrap() { Value::Array(a) => a, _ => panic!("deviceSignature") }
}
fn namespaces_mut(pt: &mut Value) -> &mut Vec<(Value, Value)> {
    let d = doc_mut(pt);
    match map_get_mut(map_get_mut(d, "issuerSigned").unwrap(), "nameSpaces").unwrap() { Value::Map(m) => m, _ => panic!("nameSpaces") }
}
fn flip(b: &mut Vec<u8>, pos: usize, bit: u8) { if !b.is_empty() { let p = pos % b.len(); b[p] ^= 1 << (bit % 8); } }

/// edit the item at (namespace index, item index) through its decoded map
fn edit_item(pt: &mut Value, ns_i: usize, it_i: usize, f: impl FnOnce(&mut Vec<(Value, Value)>)) {
    let nss = namespaces_mut(pt);
    let nlen = nss.len();
    let items = match &mut nss[ns_i % nlen].1 { Value::Array(a) => a, _ => return };
    let ilen = items.len();
    let it = &mut items[it_i % ilen];
    if let Value::Tag(24, b) = it {
        if let Value::Bytes(inner) = b.as_mut() {
            if let Some(Value::Map(mut m)) = from_bytes(inner) {
                f(&mut m);
                *inner = to_bytes(&Value::Map(m));
            }
        }
    }
}

#[derive(Debug, Clone)]
pub enum Alt {
    None,
    // C03
    PayloadFlip(usize, u8), SigFlip(usize, u8), SigTruncate, ProtectedAlg(i64), ProtectedAlgText, ProtectedEmpty, ProtectedKid,
    X5Remove, X5Unrelated, X5SelfSigned, X5Garbage, X5Array, X5EmptyArray, X5WrongType, X5RootAsLeaf,
    // C04
    ItemValue(usize, usize), ItemIdentifier(usize, usize), ItemRandom(usize, usize), ItemDigestId(usize, usize), ItemMove, ItemInject, ItemDuplicateOtherNs,
    NamespaceRename,
    /// a forged item reusing the digestID of the authentic item at (ns, item), placed before (true) or after it
    ItemShadow(bool, usize, usize),
    /// the authentic item at (ns, item) presented twice
    ItemTwice(usize, usize),
    // C05
    DevSigFlip(usize, u8), DevSigOtherKey, DevNsChange, DevMac, DevDocTypeOther, DevProtectedAlg,
    /// deviceSignature carrying an ATTACHED payload, signed by the issued device key over that payload:
    /// 0 = this session's DeviceAuthenticationBytes, 1 = the DeviceAuthenticationBytes of another session, 2 = arbitrary bytes,
    /// 3 = the EMPTY byte string (h'', not nil), signed over the Sig_structure with that empty payload
    DevAttached(u8),
    // C03: a document signer certificate NOT signed by the IACA but naming it (issuer name, authority key identifier,
    // and with `true` also the genuine certificate's serial number and subject), with the MSO signed by the forger's key
    X5Forged(bool),
    /// x5chain [genuine document signer certificate, forger's certificate], MSO signed by the forger's key
    X5GenuineThenForger,
    /// protected header of the issuerAuth replaced AFTER signing by another encoding of the same map
    ProtectedReencoded(u8),
    /// the response carries two documents of the mDL docType: an altered copy and the authentic one (altered first: true)
    DocumentTwice(bool),
    /// one bit of the signed MSO flipped so that a member NAME becomes a byte string with the same bytes
    /// (0: deviceKeyInfo, 1: deviceKey, 2: docType, 3: valueDigests): ciborium still finds the member
    MsoNameAsBytes(u8),
    /// two mDL documents: the first authentic but disclosing only the AAMVA namespace, the second with altered core items
    DocumentSplit(u8),
    /// x5chain (label 33) in BOTH header buckets: the genuine signer certificate unprotected (where the reader looks),
    /// a forger's certificate in the PROTECTED header, MSO signed with the forger's key over that protected header
    X5InBothBuckets,
    /// this document's items under the issuerAuth of ANOTHER mDL of the same issuer (same device key, other random salts)
    IssuerAuthOfOther,
    /// two mDL documents: a copy whose device signature was made with a foreign key, and the authentic one (forged first: true)
    DocumentTwiceForgedSig(bool),
    /// device signature bytes that are not a 64-byte r||s in range: 63, 65, 32, 0 bytes, 64 zero bytes;
    /// 5 / 6: an authentic signature whose r / s starts with a zero octet, that octet deleted
    DevSigShape(u8),
    /// the item at (ns, item) altered AND the document's `errors` listing that namespace and identifier (as if not returned)
    ErrorsShadow(usize, usize),
}

pub fn apply(alt: &Alt, sc: &Scene, pt: &mut Value, rng: &mut StdRng) {
    match alt {
        Alt::None => {}
        Alt::PayloadFlip(p, b) => { if let Value::Bytes(x) = &mut issuer_auth_mut(pt)[2] { flip(x, *p, *b) } }
        Alt::SigFlip(p, b) => { if let Value::Bytes(x) = &mut issuer_auth_mut(pt)[3] { flip(x, *p, *b) } }
        Alt::SigTruncate => { if let Value::Bytes(x) = &mut issuer_auth_mut(pt)[3] { x.pop(); } }
        Alt::ProtectedAlg(a) => issuer_auth_mut(pt)[0] = bytes(&to_bytes(&Value::Map(vec![(Value::Integer(1.into()), Value::Integer((*a).into()))]))),
        Alt::ProtectedAlgText => issuer_auth_mut(pt)[0] = bytes(&to_bytes(&Value::Map(vec![(Value::Integer(1.into()), Value::Text("ES256".into()))]))),
        Alt::ProtectedEmpty => issuer_auth_mut(pt)[0] = bytes(&[]),
        Alt::ProtectedKid => issuer_auth_mut(pt)[0] = bytes(&to_bytes(&Value::Map(vec![(Value::Integer(1.into()), Value::Integer((-7).into())), (Value::Integer(4.into()), Value::Bytes(vec![1, 2]))]))),
        Alt::X5Remove => issuer_auth_mut(pt)[1] = Value::Map(vec![]),
        Alt::X5Unrelated => issuer_auth_mut(pt)[1] = Value::Map(vec![(Value::Integer(33.into()), bytes(&sc.other_pki.ds.to_der().unwrap()))]),
        Alt::X5SelfSigned => {
            // a self-signed certificate carrying the document signer's own key: the signature verifies, the chain does not
            let c = pki::root_cert(&sc.pki.ds_key, "CN=Test DS,C=US", 77);
            issuer_auth_mut(pt)[1] = Value::Map(vec![(Value::Integer(33.into()), bytes(&c.to_der().unwrap()))]);
        }
        Alt::X5Garbage => issuer_auth_mut(pt)[1] = Value::Map(vec![(Value::Integer(33.into()), bytes(&(0..40).map(|_| rng.gen()).collect::<Vec<u8>>()))]),
        Alt::X5Array => issuer_auth_mut(pt)[1] = Value::Map(vec![(Value::Integer(33.into()), arr(vec![bytes(&sc.pki.ds.to_der().unwrap()), bytes(&sc.pki.iaca.to_der().unwrap())]))]),
        Alt::X5RootAsLeaf => issuer_auth_mut(pt)[1] = Value::Map(vec![(Value::Integer(33.into()), arr(vec![bytes(&sc.pki.iaca.to_der().unwrap()), bytes(&sc.pki.ds.to_der().unwrap())]))]),
        Alt::X5EmptyArray => issuer_auth_mut(pt)[1] = Value::Map(vec![(Value::Integer(33.into()), arr(vec![]))]),
        Alt::X5WrongType => issuer_auth_mut(pt)[1] = Value::Map(vec![(Value::Integer(33.into()), Value::Integer(5.into()))]),
        Alt::ItemValue(n, i) => edit_item(pt, *n, *i, |m| { for (k, v) in m.iter_mut() { if k.as_text() == Some("elementValue") { *v = Value::Text("altered".into()); } } }),
        Alt::ItemIdentifier(n, i) => edit_item(pt, *n, *i, |m| { for (k, v) in m.iter_mut() { if k.as_text() == Some("elementIdentifier") { *v = Value::Text("issuing_country".into()); } } }),
        Alt::ItemRandom(n, i) => edit_item(pt, *n, *i, |m| { for (k, v) in m.iter_mut() { if k.as_text() == Some("random") { if let Value::Bytes(b) = v { b[0] ^= 1; } } } }),
        Alt::ItemDigestId(n, i) => edit_item(pt, *n, *i, |m| { for (k, v) in m.iter_mut() { if k.as_text() == Some("digestID") { *v = Value::Integer(12345.into()); } } }),
        Alt::ItemMove => {
            // move one aamva item into the core namespace (its digest is listed under the other namespace)
            let nss = namespaces_mut(pt);
            let from = nss.iter().position(|(k, _)| k.as_text() == Some(NS_AAMVA));
            let to = nss.iter().position(|(k, _)| k.as_text() == Some(NS));
            if let (Some(f), Some(t)) = (from, to) {
                let it = match &mut nss[f].1 { Value::Array(a) if a.len() > 1 => Some(a.remove(0)), _ => None };
                if let (Some(it), Value::Array(a)) = (it, &mut nss[t].1) { a.push(it); }
            }
        }
        Alt::ItemDuplicateOtherNs => {
            let nss = namespaces_mut(pt);
            let from = nss.iter().position(|(k, _)| k.as_text() == Some(NS));
            let to = nss.iter().position(|(k, _)| k.as_text() == Some(NS_AAMVA));
            if let (Some(f), Some(t)) = (from, to) {
                let it = match &nss[f].1 { Value::Array(a) => a.first().cloned(), _ => None };
                if let (Some(it), Value::Array(a)) = (it, &mut nss[t].1) { a.push(it); }
            }
        }
        Alt::ItemInject => {
            let item = Value::Map(vec![
                (Value::Text("digestID".into()), Value::Integer(424242.into())),
                (Value::Text("random".into()), Value::Bytes(vec![7; 16])),
                (Value::Text("elementIdentifier".into()), Value::Text("driving_privileges".into())),
                (Value::Text("elementValue".into()), Value::Text("all".into())),
            ]);
            let nss = namespaces_mut(pt);
            if let Value::Array(a) = &mut nss[0].1 { a.push(Value::Tag(24, Box::new(Value::Bytes(to_bytes(&item))))); }
        }
        Alt::ItemShadow(before, n, i) => {
            let nss = namespaces_mut(pt);
            let nlen = nss.len();
            if let Value::Array(items) = &mut nss[*n % nlen].1 {
                let pos = *i % items.len();
                let mut forged = items[pos].clone();
                if let Value::Tag(24, b) = &mut forged {
                    if let Value::Bytes(inner) = b.as_mut() {
                        if let Some(Value::Map(mut m)) = from_bytes(inner) {
                            for (k, v) in m.iter_mut() { if k.as_text() == Some("elementValue") { *v = Value::Text("shadow".into()); } }
                            *inner = to_bytes(&Value::Map(m));
                        }
                    }
                }
                items.insert(if *before { pos } else { pos + 1 }, forged);
            }
        }
        Alt::ErrorsShadow(n, i) => {
            let (mut ns_name, mut id) = (String::new(), String::new());
            {
                let nss = namespaces_mut(pt);
                let nlen = nss.len();
                ns_name = nss[*n % nlen].0.as_text().unwrap_or_default().to_string();
            }
            edit_item(pt, *n, *i, |m| { for (k, v) in m.iter_mut() {
                if k.as_text() == Some("elementIdentifier") { id = v.as_text().unwrap_or_default().to_string(); }
                if k.as_text() == Some("elementValue") { *v = Value::Text("altered, and listed as an error".into()); } } });
            let errs = Value::Map(vec![(text(&ns_name), Value::Map(vec![(text(&id), Value::Integer(0.into()))]))]);
            if let Value::Map(d) = doc_mut(pt) { d.retain(|(k, _)| k.as_text() != Some("errors")); d.push((text("errors"), errs)); }
        }
        Alt::ItemTwice(n, i) => {
            let nss = namespaces_mut(pt);
            let nlen = nss.len();
            if let Value::Array(items) = &mut nss[*n % nlen].1 {
                let pos = *i % items.len();
                let it = items[pos].clone();
                items.push(it);
            }
        }
        Alt::NamespaceRename => {
            let nss = namespaces_mut(pt);
            if let Some(i) = nss.iter().position(|(k, _)| k.as_text() == Some(NS_AAMVA)) { nss[i].0 = Value::Text("org.example.other".into()); }
        }
        Alt::DevSigFlip(p, b) => { if let Value::Bytes(x) = &mut device_sig_mut(pt)[3] { flip(x, *p, *b) } }
        Alt::DevSigOtherKey => {
            // re-sign the right structure with a key that is not the issued device key
            let other = SigningKey::random(rng);
            resign_device(sc, pt, &other, MDL);
        }
        Alt::DevNsChange => {
            let d = doc_mut(pt);
            if let Some(ns) = map_get_mut(map_get_mut(d, "deviceSigned").unwrap(), "nameSpaces") {
                *ns = Value::Tag(24, Box::new(Value::Bytes(to_bytes(&Value::Map(vec![(Value::Text("x".into()), Value::Map(vec![(Value::Text("y".into()), Value::Integer(1.into()))]))])))));
            }
        }
        Alt::DevMac => {
            let d = doc_mut(pt);
            let da = map_get_mut(map_get_mut(d, "deviceSigned").unwrap(), "deviceAuth").unwrap();
            *da = Value::Map(vec![(Value::Text("deviceMac".into()), arr(vec![bytes(&to_bytes(&Value::Map(vec![(Value::Integer(1.into()), Value::Integer(5.into()))]))), Value::Map(vec![]), Value::Null, bytes(&[1; 32])]))]);
        }
        Alt::DevDocTypeOther => {
            // the holder signs DeviceAuthentication for another docType but presents it as mDL
            let key = sc.device_key.clone();
            resign_device(sc, pt, &key, "org.example.other");
        }
        Alt::DevAttached(kind) => {
            let dns = {
                let d = doc_mut(pt);
                match map_get_mut(map_get_mut(d, "deviceSigned").unwrap(), "nameSpaces") { Some(Value::Tag(24, b)) => b.as_bytes().cloned().unwrap_or_default(), _ => vec![] }
            };
            let (de, erk): (Vec<u8>, Vec<u8>) = match kind {
                0 => (sc.de_bytes.clone(), sc.erk_bytes.clone()),
                _ => { let mut d = sc.de_bytes.clone(); let l = d.len(); d[l - 1] ^= 1; (d, sc.erk_bytes.clone()) }
            };
            let payload = if *kind == 3 { vec![] } else if *kind == 2 { (0..40).map(|_| rng.gen()).collect::<Vec<u8>>() } else {
                let da = arr(vec![text("DeviceAuthentication"),
                    arr(vec![Value::Tag(24, Box::new(bytes(&de))), Value::Tag(24, Box::new(bytes(&erk))), Value::Null]),
                    text(MDL), Value::Tag(24, Box::new(bytes(&dns)))]);
                to_bytes(&Value::Tag(24, Box::new(bytes(&to_bytes(&da)))))
            };
            let prot = device_sig_mut(pt)[0].as_bytes().cloned().unwrap_or_default();
            let tbs = to_bytes(&arr(vec![text("Signature1"), bytes(&prot), bytes(&[]), bytes(&payload)]));
            let s: Signature = sc.device_key.sign(&tbs);
            device_sig_mut(pt)[2] = bytes(&payload);
            device_sig_mut(pt)[3] = bytes(&s.to_vec());
        }
        Alt::X5Forged(same_serial) => {
            let forger = SigningKey::random(rng);
            let (subject, serial) = if *same_serial { ("CN=Test DS,C=US", 2) } else { ("CN=Forged DS,C=US", 99) };
            let c = pki::forged_leaf(&forger, &sc.pki.iaca_key, "CN=Test IACA,C=US", subject, pki::EKU_DS, serial);
            issuer_auth_mut(pt)[1] = Value::Map(vec![(Value::Integer(33.into()), bytes(&c.to_der().unwrap()))]);
            let ia = issuer_auth_mut(pt);
            let prot = ia[0].as_bytes().cloned().unwrap_or_default();
            let payload = ia[2].as_bytes().cloned().unwrap_or_default();
            let tbs = to_bytes(&arr(vec![text("Signature1"), bytes(&prot), bytes(&[]), bytes(&payload)]));
            let s: Signature = forger.sign(&tbs);
            ia[3] = bytes(&s.to_vec());
        }
        Alt::X5GenuineThenForger => {
            let forger = SigningKey::random(rng);
            let c = pki::root_cert(&forger, "CN=Forger,C=US", 66);
            issuer_auth_mut(pt)[1] = Value::Map(vec![(Value::Integer(33.into()), arr(vec![bytes(&sc.pki.ds.to_der().unwrap()), bytes(&c.to_der().unwrap())]))]);
            let ia = issuer_auth_mut(pt);
            let prot = ia[0].as_bytes().cloned().unwrap_or_default();
            let payload = ia[2].as_bytes().cloned().unwrap_or_default();
            let tbs = to_bytes(&arr(vec![text("Signature1"), bytes(&prot), bytes(&[]), bytes(&payload)]));
            let s: Signature = forger.sign(&tbs);
            ia[3] = bytes(&s.to_vec());
        }
        Alt::X5InBothBuckets => {
            let forger = SigningKey::random(rng);
            let c = pki::root_cert(&forger, "CN=Forger,C=US", 67);
            let prot = to_bytes(&Value::Map(vec![(Value::Integer(1.into()), Value::Integer((-7).into())), (Value::Integer(33.into()), bytes(&c.to_der().unwrap()))]));
            let ia = issuer_auth_mut(pt);
            ia[0] = bytes(&prot);
            let payload = ia[2].as_bytes().cloned().unwrap_or_default();
            let tbs = to_bytes(&arr(vec![text("Signature1"), bytes(&prot), bytes(&[]), bytes(&payload)]));
            let s: Signature = forger.sign(&tbs);
            ia[3] = bytes(&s.to_vec());
        }
        Alt::IssuerAuthOfOther => {
            let other = issue_with_key(&sc.pki, MDL, new_namespaces(rng), sc.alg, false, cose_key_of(&sc.device_key));
            if let Some(v) = from_bytes(&isomdl::cbor::to_vec(&other.issuer_auth).unwrap()) {
                let d = doc_mut(pt);
                if let Some(slot) = map_get_mut(map_get_mut(d, "issuerSigned").unwrap(), "issuerAuth") { *slot = v; }
            }
        }
        Alt::DocumentTwiceForgedSig(forged_first) => {
            let authentic = doc_mut(pt).clone();
            let other = SigningKey::random(rng);
            resign_device(sc, pt, &other, MDL);
            let forged = doc_mut(pt).clone();
            if let Some(Value::Array(docs)) = map_get_mut(pt, "documents") {
                *docs = if *forged_first { vec![forged, authentic] } else { vec![authentic, forged] };
            }
        }
        Alt::ProtectedReencoded(k) => {
            // {1: -7} written differently; the signature stays the one over a1 01 26
            let forms: [&[u8]; 4] = [&[0xa1, 0x01, 0x38, 0x06], &[0xa1, 0x18, 0x01, 0x26], &[0xb8, 0x01, 0x01, 0x26], &[0xbf, 0x01, 0x26, 0xff]];
            issuer_auth_mut(pt)[0] = bytes(forms[*k as usize % 4]);
        }
        Alt::DocumentTwice(altered_first) => {
            let authentic = doc_mut(pt).clone();
            edit_item(pt, 0, 0, |m| { for (k, v) in m.iter_mut() { if k.as_text() == Some("elementValue") { *v = Value::Text("altered copy".into()); } } });
            let altered = doc_mut(pt).clone();
            if let Some(Value::Array(docs)) = map_get_mut(pt, "documents") {
                *docs = if *altered_first { vec![altered, authentic] } else { vec![authentic, altered] };
            }
        }
        Alt::MsoNameAsBytes(k) => {
            let name: &[u8] = [&b"deviceKeyInfo"[..], &b"deviceKey"[..], &b"docType"[..], &b"valueDigests"[..]][*k as usize % 4];
            if let Value::Bytes(p) = &mut issuer_auth_mut(pt)[2] {
                let pat: Vec<u8> = [vec![0x60 + name.len() as u8], name.to_vec()].concat();
                // the LAST occurrence for deviceKey (the first one is the head of "deviceKeyInfo")
                let pos = if *k % 4 == 1 { p.windows(pat.len()).rposition(|w| w == pat.as_slice()) } else { p.windows(pat.len()).position(|w| w == pat.as_slice()) };
                if let Some(i) = pos { p[i] ^= 0x20; }
            }
        }
        Alt::DocumentSplit(k) => {
            // the first (authentic) document: 0 = core namespace removed, 1 = nameSpaces null, 2 = nameSpaces member absent
            let mut first = doc_mut(pt).clone();
            if let Some(Value::Map(isg)) = map_get_mut(&mut first, "issuerSigned") {
                match k % 3 {
                    0 => { if let Some((_, Value::Map(nss))) = isg.iter_mut().find(|(k, _)| k.as_text() == Some("nameSpaces")) { nss.retain(|(k, _)| k.as_text() != Some(NS)); } }
                    1 => { if let Some((_, v)) = isg.iter_mut().find(|(k, _)| k.as_text() == Some("nameSpaces")) { *v = Value::Null; } }
                    _ => isg.retain(|(k, _)| k.as_text() != Some("nameSpaces")),
                }
            }
            let core_idx = namespaces_mut(pt).iter().position(|(k, _)| k.as_text() == Some(NS)).unwrap_or(0);
            edit_item(pt, core_idx, 0, |m| { for (k, v) in m.iter_mut() { if k.as_text() == Some("elementValue") { *v = Value::Text("forged".into()); } } });
            let second = doc_mut(pt).clone();
            if let Some(Value::Array(docs)) = map_get_mut(pt, "documents") { *docs = vec![first, second]; }
        }
        Alt::DevSigShape(k) if *k >= 5 => {
            // an AUTHENTIC signature over this session's DeviceAuthentication whose r (5) / s (6) begins with a zero octet
            // (found by signing with fresh nonces), written with that octet deleted: 63 octets, not an ES256 signature
            use p256::ecdsa::signature::RandomizedSigner;
            let dns = {
                let d = doc_mut(pt);
                match map_get_mut(map_get_mut(d, "deviceSigned").unwrap(), "nameSpaces") { Some(Value::Tag(24, b)) => b.as_bytes().cloned().unwrap_or_default(), _ => vec![] }
            };
            let da = arr(vec![text("DeviceAuthentication"),
                arr(vec![Value::Tag(24, Box::new(bytes(&sc.de_bytes))), Value::Tag(24, Box::new(bytes(&sc.erk_bytes))), Value::Null]),
                text(MDL), Value::Tag(24, Box::new(bytes(&dns)))]);
            let dab = to_bytes(&Value::Tag(24, Box::new(bytes(&to_bytes(&da)))));
            let prot = device_sig_mut(pt)[0].as_bytes().cloned().unwrap_or_default();
            let tbs = to_bytes(&arr(vec![text("Signature1"), bytes(&prot), bytes(&[]), bytes(&dab)]));
            let at = if *k == 5 { 0 } else { 32 };
            for _ in 0..20_000 {
                let s: Signature = sc.device_key.sign_with_rng(rng, &tbs);
                let mut b = s.to_vec();
                if b[at] == 0 { b.remove(at); device_sig_mut(pt)[3] = bytes(&b); break; }
            }
        }
        Alt::DevSigShape(k) => {
            let sig = device_sig_mut(pt)[3].as_bytes().cloned().unwrap_or_default();
            device_sig_mut(pt)[3] = bytes(&match k % 5 { 0 => sig[..63.min(sig.len())].to_vec(), 1 => [sig.clone(), vec![1]].concat(), 2 => sig[..32.min(sig.len())].to_vec(), 3 => vec![], _ => vec![0; 64] });
        }
        Alt::DevProtectedAlg => {
            device_sig_mut(pt)[0] = bytes(&to_bytes(&Value::Map(vec![(Value::Integer(1.into()), Value::Integer((-35).into()))])));
        }
    }
}

/// recompute the device signature over DeviceAuthentication for `doc_type` with `key`
pub fn resign_device(sc: &Scene, pt: &mut Value, key: &SigningKey, doc_type: &str) {
    let dns = {
        let d = doc_mut(pt);
        match map_get_mut(map_get_mut(d, "deviceSigned").unwrap(), "nameSpaces") { Some(Value::Tag(24, b)) => b.as_bytes().cloned().unwrap_or_default(), _ => vec![] }
    };
    let da = arr(vec![
        text("DeviceAuthentication"),
        arr(vec![Value::Tag(24, Box::new(bytes(&sc.de_bytes))), Value::Tag(24, Box::new(bytes(&sc.erk_bytes))), Value::Null]),
        text(doc_type),
        Value::Tag(24, Box::new(bytes(&dns))),
    ]);
    let dab = to_bytes(&Value::Tag(24, Box::new(bytes(&to_bytes(&da)))));
    let prot = device_sig_mut(pt)[0].as_bytes().cloned().unwrap_or_default();
    let tbs = to_bytes(&arr(vec![text("Signature1"), bytes(&prot), bytes(&[]), bytes(&dab)]));
    let s: Signature = key.sign(&tbs);
    device_sig_mut(pt)[3] = bytes(&s.to_vec());
}

/// swap the reader's trust anchor registry through its stringified state
pub fn reader_with_registry(rdr: &reader::SessionManager, reg: &TrustAnchorRegistry) -> reader::SessionManager {
    let mut v = state_value(&rdr.stringify().unwrap());
    let rv = Value::serialized(reg).unwrap();
    if let Some(slot) = map_get_mut(&mut v, "trust_anchor_registry") { *slot = rv; }
    reader::SessionManager::parse(base64::encode(to_bytes(&v))).expect("reader with other registry")
}

/// the same reader after it has processed the scene's authentic response and sent a follow-up request:
/// a later response of the SAME session is then delivered to it
pub fn warmed_reader(sc: &Scene, rdr: &reader::SessionManager) -> Option<reader::SessionManager> {
    let mut rdr = rdr.clone();
    let rk = rdr_view(&rdr);
    let msg = session_data(Some(&aes_encrypt(&rk.sk_device, &iso_iv(true, rk.device_ctr as u32 + 1), &to_bytes(&sc.plaintext))), None);
    let first = catch(|| rdr.handle_response(&msg)).ok()?;
    if !matches!(first.issuer_authentication, isomdl::presentation::authentication::AuthenticationStatus::Valid) { return None; }
    let again = isomdl::definitions::helpers::NonEmptyMap::new(NS.to_string(), isomdl::definitions::helpers::NonEmptyMap::new("family_name".to_string(), false));
    rdr.new_request(again).ok()?;
    Some(rdr)
}

/// an authentic issuer-signed part of ANOTHER document type (with its own device key) presented under the mDL
/// docType; the device signature is computed by that device key over DeviceAuthentication for `sign_doc_type`
pub fn other_document_as_mdl(sc: &Scene, rng: &mut StdRng, sign_doc_type: &str) -> Value {
    let dk2 = SigningKey::random(rng);
    let alg = [DigestAlgorithm::SHA256, DigestAlgorithm::SHA384, DigestAlgorithm::SHA512][rng.gen_range(0..3)];
    let other = issue_with_key(&sc.pki, "org.example.other", new_namespaces(rng), alg, false, cose_key_of(&dk2));
    let mut pt = sc.plaintext.clone();
    let isg = Value::Map(vec![
        (Value::Text("nameSpaces".into()), Value::Map(other.namespaces.iter().map(|(ns, items)| (Value::Text(ns.clone()), Value::Array(items.iter().map(|it| Value::Tag(24, Box::new(Value::Bytes(it.inner_bytes.clone())))).collect()))).collect())),
        (Value::Text("issuerAuth".into()), from_bytes(&isomdl::cbor::to_vec(&other.issuer_auth).unwrap()).unwrap()),
    ]);
    if let Some(Value::Array(docs)) = map_get_mut(&mut pt, "documents") {
        if let Some(slot) = map_get_mut(&mut docs[0], "issuerSigned") { *slot = isg; }
    }
    resign_device(sc, &mut pt, &dk2, sign_doc_type);
    pt
}

/// the issuer-signed part of an mDL issued (by the same issuer) to ANOTHER device key, presented in this session with
/// a device signature made by THIS holder's key over the right DeviceAuthentication
pub fn other_persons_mdl(sc: &Scene, rng: &mut StdRng) -> Value {
    let dk2 = SigningKey::random(rng);
    let other = issue_with_key(&sc.pki, MDL, new_namespaces(rng), sc.alg, false, cose_key_of(&dk2));
    let mut pt = sc.plaintext.clone();
    let isg = Value::Map(vec![
        (Value::Text("nameSpaces".into()), Value::Map(other.namespaces.iter().map(|(ns, items)| (Value::Text(ns.clone()), Value::Array(items.iter().map(|it| Value::Tag(24, Box::new(Value::Bytes(it.inner_bytes.clone())))).collect()))).collect())),
        (Value::Text("issuerAuth".into()), from_bytes(&isomdl::cbor::to_vec(&other.issuer_auth).unwrap()).unwrap()),
    ]);
    if let Some(Value::Array(docs)) = map_get_mut(&mut pt, "documents") {
        if let Some(slot) = map_get_mut(&mut docs[0], "issuerSigned") { *slot = isg; }
    }
    let key = sc.device_key.clone();
    resign_device(sc, &mut pt, &key, MDL);
    pt
}

/// necessary condition for any valid chain, checked with x509-cert and p256 only: some IACA anchor of the registry
/// carries the leaf's issuer name and its key verifies the leaf's signature
fn leaf_signed_by_an_anchor(leaf: &x509_cert::Certificate, reg: &TrustAnchorRegistry) -> bool {
    use p256::pkcs8::DecodePublicKey;
    let Ok(tbs) = leaf.tbs_certificate.to_der() else { return false };
    let Some(sig) = leaf.signature.as_bytes().and_then(|b| Signature::from_der(b).ok()) else { return false };
    reg.anchors.iter().any(|a| {
        a.purpose == TrustPurpose::Iaca
            && a.certificate.tbs_certificate.subject == leaf.tbs_certificate.issuer
            && a.certificate.tbs_certificate.subject_public_key_info.to_der().ok()
                .and_then(|d| p256::PublicKey::from_public_key_der(&d).ok())
                .map(|pk| VerifyingKey::from(&pk).verify(&tbs, &sig).is_ok())
                .unwrap_or(false)
    })
}

fn opt(v: Option<&Vec<u8>>) -> Value { match v { Some(b) => bytes(b), None => Value::Null } }

/// One delivery: abstract (env, doc) independently, run the reader, report the case.
pub fn deliver(ctx: &mut Ctx, label: &str, spec: &str, sc: &Scene, rdr: &reader::SessionManager, reg: &TrustAnchorRegistry, reg_name: &str, alt: &Alt, pt: &Value, transcript: Option<(&[u8], &[u8])>) {
    let mut rdr = rdr.clone();
    let rk = rdr_view(&rdr);
    let (de, erk) = transcript.unwrap_or((&sc.de_bytes, &sc.erk_bytes));
    // one delivery in three: the whole DeviceResponse in another valid encoding (as a third-party device may send it)
    let third_party = { use rand::Rng; ctx.rng.gen_range(0..3) == 0 };
    let mut pt_bytes = if third_party { ctx.loose_bytes(pt) } else { to_bytes(pt) };
    // ciborium's typed reader refuses some valid encodings before anything is authenticated (an externally tagged
    // enum such as deviceAuth written as an indefinite-length map: "invalid type: map, expected enum"; same family
    // as findings F18/F19).  Such a response is not received at all, which is outside C03-C05: use the plain encoding.
    if third_party && isomdl::cbor::from_slice::<isomdl::definitions::DeviceResponse>(&pt_bytes).is_err() && isomdl::cbor::from_slice::<isomdl::definitions::DeviceResponse>(&to_bytes(pt)).is_ok() {
        ctx.count("encoding:third-party-refused-by-the-wire-decoder");
        pt_bytes = to_bytes(pt);
    }
    let msg = session_data(Some(&aes_encrypt(&rk.sk_device, &iso_iv(true, rk.device_ctr as u32 + 1), &pt_bytes)), None);
    let r = catch(|| rdr.handle_response(&msg));
    let desc = json!({"alteration": format!("{alt:?}"), "registry": reg_name, "digest_alg": format!("{:?}", sc.alg), "third_party_encoding": third_party});
    let class = |k: &str| match k { "parsing_errors" => Some(0u64), "certificate_errors" => Some(1), "issuer_authentication_errors" => Some(2), "device_authentication_errors" => Some(3), _ => None };
    let st = |s: isomdl::presentation::authentication::AuthenticationStatus| match s {
        isomdl::presentation::authentication::AuthenticationStatus::Unchecked => 0u64,
        isomdl::presentation::authentication::AuthenticationStatus::Invalid => 1,
        isomdl::presentation::authentication::AuthenticationStatus::Valid => 2,
    };
    let obs = match &r {
        Ok(o) => {
            let mut errs: Vec<u64> = o.errors.keys().map(|k| class(k).unwrap_or(9)).collect();
            errs.sort(); errs.dedup();
            arr(vec![uint(st(o.issuer_authentication)), uint(st(o.device_authentication)), arr(errs.into_iter().map(uint).collect()), Value::Bool(!o.response.is_empty())])
        }
        Err(p) => arr(vec![text("panic"), text(p)]),
    };
    ctx.count(&format!("alt:{}", format!("{alt:?}").split('(').next().unwrap()));
    if let Value::Array(a) = &obs { if a.len() == 4 { ctx.count(&format!("outcome:issuer={} device={}", diag(&a[0]), diag(&a[1]))); } else { ctx.count("outcome:panic"); } }
    // ---- independent abstraction of the delivered document ----
    let docs = map_get(pt, "documents").and_then(|d| d.as_array().cloned()).unwrap_or_default();
    let Some(doc) = docs.iter().find(|d| map_get(d, "docType").and_then(|t| t.as_text()) == Some(MDL)) else {
        ctx.case(&format!("{label}:no-mdl-document"), desc, obs, None, None, true);
        return;
    };
    let isg = map_get(doc, "issuerSigned").unwrap();
    let ia = map_get(isg, "issuerAuth").unwrap();
    let ia_arr = ia.as_array().unwrap();
    let nss = match map_get(isg, "nameSpaces") {
        Some(Value::Map(m)) => arr(m.iter().map(|(k, v)| arr(vec![k.clone(), arr(v.as_array().map(|a| a.iter().map(|it| match it { Value::Tag(24, b) => bytes(b.as_bytes().unwrap()), _ => Value::Null }).collect()).unwrap_or_default())])).collect()),
        _ => Value::Null,
    };
    let dsg = map_get(doc, "deviceSigned").unwrap();
    let dns = match map_get(dsg, "nameSpaces") { Some(Value::Tag(24, b)) => b.as_bytes().cloned().unwrap_or_default(), _ => vec![] };
    let da = map_get(dsg, "deviceAuth").unwrap();
    let (da_c, dsig_arr): (Value, Option<Vec<Value>>) = match map_get(da, "deviceSignature") {
        Some(s) => (arr(vec![uint(0), bytes(&to_bytes(s))]), s.as_array().cloned()),
        None => (arr(vec![uint(1)]), None),
    };
    let doc_c = arr(vec![text(MDL), bytes(&to_bytes(ia)), nss, bytes(&dns), da_c]);
    // ---- oracles, from third-party crates directly ----
    let x5v = ia_arr[1].as_map().and_then(|m| m.iter().find(|(k, _)| k.as_integer().map(i128::from) == Some(33)).map(|(_, v)| v.clone()));
    let ders: Option<Vec<Vec<u8>>> = match &x5v {
        Some(Value::Bytes(b)) => Some(vec![b.clone()]),
        Some(Value::Array(a)) if !a.is_empty() && a.iter().all(|x| x.is_bytes()) => Some(a.iter().map(|x| x.as_bytes().unwrap().clone()).collect()),
        _ => None,
    };
    let certs: Option<Vec<x509_cert::Certificate>> = ders.as_ref().and_then(|ds| ds.iter().map(|d| x509_cert::Certificate::from_der(d).ok()).collect());
    let x5code = match (&x5v, &certs) { (None, _) => 0u64, (Some(_), None) => 1, (Some(_), Some(_)) => 2 };
    let (chain_valid, leaf_vk): (bool, Option<VerifyingKey>) = match (&x5v, &certs) {
        (Some(v), Some(cs)) => {
            // the chain verdict is C12's subject; here it is an oracle, cross-checked by an independent necessary condition
            let chain_valid = X5Chain::from_cbor(v.clone()).map(|c| ValidationRuleset::Mdl.validate(&c, reg).success()).unwrap_or(false)
                && leaf_signed_by_an_anchor(&cs[0], reg);
            let spki = cs[0].tbs_certificate.subject_public_key_info.to_der().ok();
            let vk = spki.and_then(|d| { use p256::pkcs8::DecodePublicKey; p256::PublicKey::from_public_key_der(&d).ok() }).map(|pk| VerifyingKey::from(&pk));
            (chain_valid, vk)
        }
        _ => (false, None),
    };
    let tbs = ctx.runner.query("ra.tbs", vec![bytes(de), bytes(erk), Value::Null, doc_c.clone()]);
    let tb = tbs.as_array().cloned().unwrap_or_default();
    let isig = ia_arr[3].as_bytes().cloned().unwrap_or_default();
    let iparsed = Signature::try_from(isig.as_slice()).ok();
    let iauth = match (tb.first(), &leaf_vk, &iparsed) { (Some(Value::Bytes(t)), Some(vk), Some(s)) => vk.verify(t, s).is_ok(), _ => false };
    let payload = ia_arr[2].as_bytes().cloned();
    let mso_ok = payload.as_ref().map(|p| isomdl::cbor::from_slice::<Tag24<Mso>>(p).is_ok()).unwrap_or(false);
    let dvk: Option<VerifyingKey> = match tb.get(2) {
        Some(Value::Array(k)) if k.len() == 3 => match (&k[1], &k[2]) {
            (Value::Bytes(x), Value::Bytes(y)) if x.len() == 32 && y.len() == 32 => {
                let ep = p256::EncodedPoint::from_affine_coordinates(x.as_slice().into(), y.as_slice().into(), false);
                VerifyingKey::from_encoded_point(&ep).ok()
            }
            _ => None,
        },
        _ => None,
    };
    let dsig = dsig_arr.as_ref().and_then(|a| a[3].as_bytes().cloned()).unwrap_or_default();
    let dparsed = Signature::try_from(dsig.as_slice()).ok();
    let dauth = match (tb.get(1), &dvk, &dparsed) { (Some(Value::Bytes(t)), Some(vk), Some(s)) => vk.verify(t, s).is_ok(), _ => false };
    let env = arr(vec![bytes(de), bytes(erk), Value::Null, uint(x5code), Value::Bool(chain_valid), Value::Bool(leaf_vk.is_some()),
        arr(vec![Value::Bool(iparsed.is_some()), Value::Bool(iauth)]), Value::Bool(mso_ok), Value::Bool(dvk.is_some()),
        arr(vec![Value::Bool(dparsed.is_some()), Value::Bool(dauth)])]);
    let spec_args = match spec { "c04.spec" => vec![doc_c.clone()], _ => vec![env.clone(), doc_c.clone()] };
    if spec == "c04.spec" {
        // what the reader REPORTS, against the document that was authenticated
        if let Ok(o) = &r {
            let mut rep = vec![];
            for (ns, els) in o.response.iter() { if let Some(m) = els.as_object() { for id in m.keys() { rep.push(arr(vec![text(ns), text(id)])); } } }
            ctx.case(&format!("{label}:reported"), desc.clone(), arr(vec![uint(st(o.issuer_authentication)), arr(rep)]), None, Some(("c04.spec_reported", vec![doc_c.clone()])), !matches!(alt, Alt::None));
        }
    }
    let _ = opt;
    ctx.case(label, desc, obs, Some(("ra.validate", vec![env, doc_c])), Some((spec, spec_args)), !matches!(alt, Alt::None));
}

pub fn registries(sc: &Scene) -> Vec<(&'static str, TrustAnchorRegistry)> {
    vec![
        ("right-root", iaca_registry(&sc.pki)),
        ("empty", TrustAnchorRegistry::default()),
        ("unrelated-root", iaca_registry(&sc.other_pki)),
        ("right-root-reader-purpose", registry(vec![(sc.pki.iaca.clone(), TrustPurpose::ReaderCa)])),
        ("unrelated-iaca-then-right-root-as-readerca", registry(vec![(sc.other_pki.iaca.clone(), TrustPurpose::Iaca), (sc.pki.iaca.clone(), TrustPurpose::ReaderCa)])),
        ("readerca-then-right-root-as-readerca", registry(vec![(sc.other_pki.reader_ca.clone(), TrustPurpose::ReaderCa), (sc.pki.iaca.clone(), TrustPurpose::ReaderCa), (sc.other_pki.iaca.clone(), TrustPurpose::Iaca)])),
        ("mixed", registry(vec![(sc.other_pki.iaca.clone(), TrustPurpose::Iaca), (sc.pki.iaca.clone(), TrustPurpose::ReaderCa), (sc.pki.iaca.clone(), TrustPurpose::Iaca)])),
    ]
}

pub fn weird_device_keys() -> Vec<(&'static str, CoseKey)> {
    vec![
        ("p384-48-byte-coordinates", CoseKey::EC2 { crv: EC2Curve::P384, x: vec![5; 48], y: EC2Y::Value(vec![6; 48]) }),
        ("p256-31-byte-x", CoseKey::EC2 { crv: EC2Curve::P256, x: vec![5; 31], y: EC2Y::Value(vec![6; 32]) }),
        ("p256-33-byte-y", CoseKey::EC2 { crv: EC2Curve::P256, x: vec![5; 32], y: EC2Y::Value(vec![6; 33]) }),
        ("p256-empty", CoseKey::EC2 { crv: EC2Curve::P256, x: vec![], y: EC2Y::Value(vec![]) }),
        ("p256-off-curve", CoseKey::EC2 { crv: EC2Curve::P256, x: vec![5; 32], y: EC2Y::Value(vec![6; 32]) }),
        ("p256-compressed", CoseKey::EC2 { crv: EC2Curve::P256, x: vec![5; 32], y: EC2Y::SignBit(true) }),
        ("p521-66-byte", CoseKey::EC2 { crv: EC2Curve::P521, x: vec![1; 66], y: EC2Y::Value(vec![2; 66]) }),
        ("ed25519", CoseKey::OKP { crv: OKPCurve::Ed25519, x: vec![9; 32] }),
    ]
}

pub fn c03_alts(rng: &mut StdRng, thorough: bool) -> Vec<Alt> {
    let mut v = vec![Alt::None, Alt::SigTruncate, Alt::ProtectedAlg(-35), Alt::ProtectedAlg(-70000), Alt::ProtectedAlgText, Alt::ProtectedEmpty, Alt::ProtectedKid,
        Alt::X5Remove, Alt::X5Unrelated, Alt::X5SelfSigned, Alt::X5Garbage, Alt::X5Array, Alt::X5RootAsLeaf, Alt::X5EmptyArray, Alt::X5WrongType,
        Alt::X5Forged(false), Alt::X5Forged(true), Alt::X5GenuineThenForger, Alt::X5InBothBuckets,
        Alt::ProtectedReencoded(0), Alt::ProtectedReencoded(1), Alt::ProtectedReencoded(2), Alt::ProtectedReencoded(3),
        Alt::MsoNameAsBytes(0), Alt::MsoNameAsBytes(1), Alt::MsoNameAsBytes(2), Alt::MsoNameAsBytes(3)];
    let n = if thorough { 400 } else { 12 };
    for _ in 0..n { v.push(Alt::PayloadFlip(rng.gen_range(0..100_000), rng.gen())); v.push(Alt::SigFlip(rng.gen_range(0..64), rng.gen())); }
    v
}
pub fn c04_alts(rng: &mut StdRng, thorough: bool) -> Vec<Alt> {
    let mut v = vec![Alt::None, Alt::ItemMove, Alt::ItemInject, Alt::ItemDuplicateOtherNs, Alt::NamespaceRename, Alt::DocumentTwice(true), Alt::DocumentTwice(false), Alt::DocumentSplit(0), Alt::DocumentSplit(1), Alt::DocumentSplit(2), Alt::ErrorsShadow(0, 0), Alt::ErrorsShadow(1, 1), Alt::IssuerAuthOfOther];
    let n = if thorough { 40 } else { 4 };
    for _ in 0..n {
        let (a, b) = (rng.gen_range(0..2), rng.gen_range(0..6));
        v.extend([Alt::ItemValue(a, b), Alt::ItemIdentifier(a, b), Alt::ItemRandom(a, b), Alt::ItemDigestId(a, b),
                  Alt::ItemShadow(true, a, b), Alt::ItemShadow(false, a, b), Alt::ItemTwice(a, b), Alt::ErrorsShadow(a, b)]);
    }
    v
}
pub fn c05_alts(rng: &mut StdRng, thorough: bool) -> Vec<Alt> {
    let mut v = vec![Alt::None, Alt::DevSigOtherKey, Alt::DevNsChange, Alt::DevMac, Alt::DevDocTypeOther, Alt::DevProtectedAlg,
        Alt::DevAttached(0), Alt::DevAttached(1), Alt::DevAttached(2), Alt::DevAttached(3),
        Alt::DocumentTwiceForgedSig(true), Alt::DocumentTwiceForgedSig(false), Alt::DevSigShape(5), Alt::DevSigShape(6), Alt::DevSigShape(0), Alt::DevSigShape(1), Alt::DevSigShape(2), Alt::DevSigShape(3), Alt::DevSigShape(4),
        Alt::MsoNameAsBytes(0), Alt::MsoNameAsBytes(1), Alt::MsoNameAsBytes(2), Alt::MsoNameAsBytes(3)];
    let n = if thorough { 200 } else { 10 };
    for _ in 0..n { v.push(Alt::DevSigFlip(rng.gen_range(0..64), rng.gen())); }
    v
}
