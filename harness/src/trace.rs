//! Operation traces over a real device/reader session pair, abstracted to the symbolic
//! operations and observations of coq/Model/Session.v (encodings of coq/Api/Session.v).
use crate::common::*;
use crate::pki::Pki;
use isomdl::definitions::x509::trust_anchor::TrustPurpose;
use crate::sess::{self, *};
use ciborium::Value;
use isomdl::definitions::device_request::ItemsRequest;
use isomdl::definitions::DigestAlgorithm;
use isomdl::presentation::device::{self, PermittedItems, RequestedItems};
use isomdl::presentation::{reader, Stringify};
use p256::ecdsa::SigningKey;
use rand::rngs::StdRng;
use rand::Rng;
use serde_json::json;
use signature::Signer;
use std::collections::BTreeMap;

pub const DOC_TYPES: [&str; 3] = [MDL, "org.example.doc2", "org.example.doc3"];
pub const NOT_HELD: &str = "org.example.not-held";

/// how a message is delivered to its recipient
#[derive(Debug, Clone)]
pub enum Delivery {
    Latest,
    Replay(usize),
    Garbage,
    /// a frame without data; the index picks the status: 20, 10, 11, an unknown code, none
    NoData(u8),
    BitFlip(usize, usize),
    Truncate(usize, usize),
    Foreign,
    Reflect,
    CraftedNotCbor,
    /// a correctly encrypted message whose plaintext is EMPTY (not CBOR)
    CraftedEmpty,
    CraftedNotStruct,
    CraftedWrongCounter(u32),
    CraftedWrongRole,
    /// to the device: a VALID DeviceRequest (request spec i) as a third-party reader may encode it — member names as
    /// indefinite-length text strings, non-minimal heads — correctly encrypted with the next counter
    CraftedForeignRequest(usize),
    /// the latest genuine message with an (unauthenticated) `status` member ADDED next to its data: 10, 11 or 20.
    /// The data is what counts; the status of a message that carries data changes nothing.
    LatestWithStatus(u8),
    /// any other delivery with a `status` member (10, 11, 20) added next to its data
    WithStatus(Box<Delivery>, u8),
    /// a harness-made ciphertext under the ALL-ZERO key with the next counter (no party ever holds that key)
    CraftedZeroKey,
    /// to the device: a map whose member names are BYTE strings spelling the DeviceRequest names: CBOR, not a DeviceRequest
    CraftedBytesKeyed,
}

#[derive(Debug, Clone)]
pub enum TOp {
    NewRequest(usize),
    DeliverReq(Delivery),
    Prepare(Vec<usize>, bool), // indices into DOC_TYPES to request+permit; plus a not-held docType?
    NextPayload,
    Submit(bool), // true: honest signature over the offered payload; false: arbitrary bytes
    /// the honest signature handed over in DER form (SEQUENCE of two INTEGERs, 70-72 octets): attached as submitted
    SubmitDer,
    Ready,
    Retrieve,
    DeliverResp(Delivery),
    RestoreDev,
    RestoreRdr,
}

#[derive(Clone)]
pub struct Msg {
    pub bytes: Vec<u8>,
    pub sym: Value, // symbolic wire
}

pub struct World {
    pub pki: Pki,
    pub device_keys: BTreeMap<String, SigningKey>,
    pub dev: device::SessionManager,
    pub rdr: reader::SessionManager,
    pub held: Vec<usize>,
    pub requests: Vec<Msg>,  // reader -> device messages seen so far
    pub responses: Vec<Msg>, // device -> reader messages seen so far
    pub foreign_req: Vec<u8>,
    pub foreign_resp: Vec<u8>,
    pub req_specs: Vec<BTreeMap<String, Vec<String>>>,
    pub last_items: RequestedItems,
    pub max_ctr: u32,
    /// the response the device held ready at the end of the previous operation
    pub ready_seen: Option<Vec<u8>>,
    pub emissions: Vec<Value>, // observed (role, iv) in order
    pub crafted: u64,
    /// every byte-level output of the library calls made so far (for byte-for-byte comparisons)
    pub raw: Vec<Vec<u8>>,
}

fn el(ns: &str, ids: &[&str]) -> BTreeMap<String, Vec<String>> {
    [(ns.to_string(), ids.iter().map(|s| s.to_string()).collect())].into_iter().collect()
}

pub fn request_specs() -> Vec<BTreeMap<String, Vec<String>>> {
    vec![
        el(NS, &["age_over_21"]),
        el(NS, &["family_name", "given_name", "age_over_18"]),
        el(NS, &["portrait", "not_an_element"]),
    ]
}

fn doc_namespaces(i: usize) -> BTreeMap<String, BTreeMap<String, Value>> {
    let mut core = BTreeMap::new();
    core.insert("family_name".to_string(), Value::Text(format!("Doe{i}")));
    core.insert("given_name".to_string(), Value::Text("Jane".into()));
    core.insert("age_over_18".to_string(), Value::Bool(true));
    core.insert("age_over_21".to_string(), Value::Bool(i % 2 == 0));
    core.insert("portrait".to_string(), Value::Bytes(vec![i as u8; 40]));
    [(NS.to_string(), core)].into_iter().collect()
}

fn sym_junk() -> Value {
    arr(vec![uint(2), arr(vec![uint(0)])])
}
fn sym_enc(k: u64, iv: &[u8], plain: Value) -> Value {
    arr(vec![uint(2), arr(vec![uint(1), uint(k), bytes(iv), plain])])
}

impl World {
    pub fn new(rng: &mut StdRng, ndocs: usize) -> World {
        let pki = Pki::generate(rng);
        let mut mdocs = vec![];
        let mut device_keys = BTreeMap::new();
        let mut held = vec![];
        for i in 0..ndocs.max(1) {
            let (m, k) = sess::issue(rng, &pki, DOC_TYPES[i], doc_namespaces(i), DigestAlgorithm::SHA256, false);
            device_keys.insert(DOC_TYPES[i].to_string(), k);
            mdocs.push(m);
            held.push(i);
        }
        let specs = request_specs();
        // non-empty registries with BOTH purposes on each side, so that a serialised session carries trust anchors
        // ... and, listed FIRST, a previous root of the same authority (same subject name, another key): two anchors
        // of one purpose with one subject, of which only the second anchors the certificates in use
        let old_iaca = crate::pki::root_cert(&SigningKey::random(rng), "CN=Test IACA,C=US", 8);
        let old_reader_ca = crate::pki::root_cert(&SigningKey::random(rng), "CN=Test Reader CA,C=US", 9);
        // ... and the EXPIRED earlier issue and the NOT YET VALID next issue of the current roots (same name, same key), as a
        // registry looks after roots were renewed: neither may be used now, both are part of the configured state
        let twin = |key: &SigningKey, name: &str, serial: u64, future: bool| if future { crate::pki::root_cert_valid(key, name, serial, 4_000_000_000, 4_100_000_000) } else { crate::pki::root_cert_valid(key, name, serial, 1_000_000_000, 1_100_000_000) };
        let rdr_reg = sess::registry(vec![(old_iaca.clone(), TrustPurpose::Iaca), (twin(&pki.iaca_key, "CN=Test IACA,C=US", 6, false), TrustPurpose::Iaca), (pki.iaca.clone(), TrustPurpose::Iaca),
            (twin(&pki.iaca_key, "CN=Test IACA,C=US", 16, true), TrustPurpose::Iaca), (pki.reader_ca.clone(), TrustPurpose::ReaderCa)]);
        let dev_reg = sess::registry(vec![(old_reader_ca, TrustPurpose::ReaderCa), (twin(&pki.reader_ca_key, "CN=Test Reader CA,C=US", 5, false), TrustPurpose::ReaderCa), (pki.reader_ca.clone(), TrustPurpose::ReaderCa),
            (twin(&pki.reader_ca_key, "CN=Test Reader CA,C=US", 15, true), TrustPurpose::ReaderCa), (old_iaca, TrustPurpose::Iaca), (pki.iaca.clone(), TrustPurpose::Iaca)]);
        // every other holder's stored documents share one `Document::id`
        let docs = if ndocs >= 2 && rng.gen_bool(0.5) { sess::documents_of_same_id(mdocs.clone()) } else { sess::documents_of(mdocs.clone()) };
        let e = sess::establish(docs, None, &specs[0], rdr_reg, dev_reg)
            .expect("establish");
        // a parallel session whose messages serve as "foreign" deliveries
        let f = sess::establish(sess::documents_of(mdocs), None, &specs[0], Default::default(), Default::default())
            .expect("establish foreign");
        let mut fdev = f.dev;
        let items = f.first_outcome.items_request.clone();
        let permitted: PermittedItems =
            [(MDL.to_string(), [(NS.to_string(), vec!["age_over_21".to_string()])].into_iter().collect())].into_iter().collect();
        fdev.prepare_response(&items, permitted);
        if let Some((_, payload)) = fdev.get_next_signature_payload() {
            let sig: p256::ecdsa::Signature = device_keys[MDL].sign(payload);
            fdev.submit_next_signature(sig.to_vec()).unwrap();
        }
        let foreign_resp = fdev.retrieve_response().unwrap_or_default();
        let foreign_req = session_data(data_of(&f.establishment).as_deref(), None);
        let mut w = World {
            pki,
            device_keys,
            dev: e.dev,
            rdr: e.rdr,
            held,
            requests: vec![],
            responses: vec![],
            foreign_req,
            foreign_resp,
            req_specs: specs,
            last_items: e.first_outcome.items_request.clone(),
            max_ctr: 2,
            ready_seen: None,
            emissions: vec![],
            crafted: 0,
            raw: vec![],
        };
        // The establishment already carried request #0 (reader counter 1) and the device decrypted it
        // (its receive counter is 1).  Model: ONewRequest 0 ; OHandleRequest <that message>.
        let data = data_of(&e.establishment).expect("establishment data");
        let sym = w.abstract_emitted(&data, false, Some(0));
        w.requests.push(Msg { bytes: session_data(Some(&data), None), sym });
        w
    }

    /// an independent copy of the whole world (both session objects are Clone)
    pub fn fork(&self) -> World {
        World {
            pki: Pki {
                iaca_key: self.pki.iaca_key.clone(), iaca: self.pki.iaca.clone(), ds_key: self.pki.ds_key.clone(), ds: self.pki.ds.clone(),
                reader_ca_key: self.pki.reader_ca_key.clone(), reader_ca: self.pki.reader_ca.clone(),
                reader_key: self.pki.reader_key.clone(), reader: self.pki.reader.clone(),
            },
            device_keys: self.device_keys.clone(),
            dev: self.dev.clone(),
            rdr: self.rdr.clone(),
            held: self.held.clone(),
            requests: self.requests.clone(),
            responses: self.responses.clone(),
            foreign_req: self.foreign_req.clone(),
            foreign_resp: self.foreign_resp.clone(),
            req_specs: self.req_specs.clone(),
            last_items: self.last_items.clone(),
            max_ctr: self.max_ctr,
            ready_seen: self.ready_seen.clone(),
            emissions: self.emissions.clone(),
            crafted: self.crafted,
            raw: self.raw.clone(),
        }
    }

    pub fn prefix_ops(&self) -> Vec<Value> {
        vec![arr(vec![uint(0), uint(0)]), arr(vec![uint(1), self.requests[0].sym.clone()])]
    }

    fn keys(&self) -> Keys {
        dev_view(&self.dev).0
    }

    /// symbolic form of a ciphertext emitted by the library; records the emission
    fn abstract_emitted(&mut self, data: &[u8], from_device: bool, req_id: Option<u64>) -> Value {
        let keys = self.keys();
        let key = if from_device { &keys.sk_device } else { &keys.sk_reader };
        self.max_ctr += 1;
        match find_iv(key, data, self.max_ctr + 2) {
            None => {
                self.emissions.push(arr(vec![uint(from_device as u64), Value::Null]));
                sym_junk()
            }
            Some((iv, pt)) => {
                self.emissions.push(arr(vec![uint(from_device as u64), bytes(&iv)]));
                let plain = if from_device { abstract_response_plain(self, &pt) } else { abstract_request_plain(&pt, req_id) };
                sym_enc(from_device as u64, &iv, plain)
            }
        }
    }

    fn sys_view(&self) -> Value {
        let (dk, st) = dev_view(&self.dev);
        let rk = rdr_view(&self.rdr);
        let stc = match st {
            StateView::Awaiting => arr(vec![uint(0)]),
            StateView::Signing { prepared, signed } => arr(vec![uint(1), uint(prepared as u64), uint(signed as u64)]),
            StateView::Ready(_) => arr(vec![uint(2)]),
        };
        arr(vec![uint(dk.device_ctr), uint(dk.reader_ctr), stc, uint(rk.reader_ctr), uint(rk.device_ctr)])
    }

    fn docid(&self, doc_type: &str) -> u64 {
        DOC_TYPES.iter().position(|d| *d == doc_type).map(|i| i as u64 + 1).unwrap_or(99)
    }

    /// build the bytes and the symbolic wire of a delivery in one direction
    fn deliver(&mut self, d: &Delivery, to_device: bool, rng: &mut StdRng) -> (Vec<u8>, Value) {
        let keys = self.keys();
        let (log, other_log) = if to_device { (&self.requests, &self.responses) } else { (&self.responses, &self.requests) };
        let pick = |log: &Vec<Msg>, i: usize| -> Option<(Vec<u8>, Value)> {
            if log.is_empty() { None } else { let m = &log[i % log.len()]; Some((m.bytes.clone(), m.sym.clone())) }
        };
        let garbage = (vec![0x83u8, 0x01, 0x02], arr(vec![uint(0)]));
        match d {
            Delivery::Latest => pick(log, log.len().wrapping_sub(1)).unwrap_or(garbage),
            Delivery::LatestWithStatus(k) => match pick(log, log.len().wrapping_sub(1)) {
                Some((b, sym)) => match data_of(&b) {
                    Some(data) => (session_data(Some(&data), Some([10u64, 11, 20][*k as usize % 3])), sym),
                    None => (b, sym),
                },
                None => garbage,
            },
            Delivery::WithStatus(inner, k) => {
                let (b, sym) = self.deliver(inner, to_device, rng);
                match data_of(&b) {
                    Some(data) => (session_data(Some(&data), Some([10u64, 11, 20][*k as usize % 3])), sym),
                    None => (b, sym),
                }
            }
            Delivery::CraftedZeroKey => {
                let recv_ctr = if to_device { keys.reader_ctr } else { rdr_view(&self.rdr).device_ctr };
                let iv = iso_iv(!to_device, recv_ctr as u32 + 1);
                let pt = if to_device { vec![0xa0] } else { vec![0xa0] };
                let ct = aes_encrypt(&[0u8; 32], &iv, &pt);
                (session_data(Some(&ct), None), sym_enc(99, &iv, arr(vec![uint(if to_device { 2 } else { 4 })])))
            }
            Delivery::Replay(i) => pick(log, *i).unwrap_or(garbage),
            Delivery::Garbage => {
                let n = rng.gen_range(0..20);
                let mut b: Vec<u8> = (0..n).map(|_| rng.gen()).collect();
                if rng.gen_bool(0.25) {
                    // shapes at the edge of what the decoder takes for a SessionData
                    let specials: [&[u8]; 8] = [&[0x82, 0x41, 0x00, 0xf6], &[0x81, 0x41, 0x00], &[0xa0], &[0xa1, 0x64, b'd', b'a', b't', b'a', 0x41, 0x00], &[0x80], &[0x82, 0xf6, 0x14],
                                                &[0xa1, 0x66, b's', b't', b'a', b't', b'u', b's', 0x14], &[0xbf, 0xff]];
                    b = specials[rng.gen_range(0..specials.len())].to_vec();
                }
                // classify the bytes as the wire decoder does (C16's subject; here an oracle): random bytes CAN be a
                // SessionData — serde also reads a struct from an array, e.g. 82 41 xx f6
                match isomdl::cbor::from_slice::<isomdl::definitions::SessionData>(&b) {
                    Err(_) => (b, arr(vec![uint(0)])),
                    Ok(sd) => if sd.data.is_some() { (b, sym_junk()) } else { (b, arr(vec![uint(1)])) },
                }
            }
            Delivery::NoData(k) => {
                // a frame without data: session termination (20), the error statuses (10, 11), an unknown status, none
                let st = [Some(20u64), Some(10), Some(11), Some(99), None][*k as usize % 5];
                let b = session_data(None, st);
                // (an unknown status code is not a SessionData at all)
                match isomdl::cbor::from_slice::<isomdl::definitions::SessionData>(&b) { Ok(_) => (b, arr(vec![uint(1)])), Err(_) => (b, arr(vec![uint(0)])) }
            }
            Delivery::BitFlip(i, bit) => match pick(log, *i) {
                Some((b, _)) => {
                    let mut data = data_of(&b).unwrap();
                    let nbits = data.len() * 8;
                    let bit = bit % nbits;
                    data[bit / 8] ^= 1 << (bit % 8);
                    (session_data(Some(&data), None), sym_junk())
                }
                None => garbage,
            },
            Delivery::Truncate(i, len) => match pick(log, *i) {
                Some((b, _)) => {
                    let data = data_of(&b).unwrap();
                    let len = len % data.len();
                    (session_data(Some(&data[..len]), None), sym_junk())
                }
                None => garbage,
            },
            Delivery::Foreign => {
                let b = if to_device { self.foreign_req.clone() } else { self.foreign_resp.clone() };
                (b, sym_junk())
            }
            Delivery::Reflect => match pick(other_log, other_log.len().wrapping_sub(1)) {
                // a message reflected to its sender keeps its symbolic identity (own key, own IV)
                Some(x) => x,
                None => garbage,
            },
            Delivery::CraftedNotCbor | Delivery::CraftedEmpty | Delivery::CraftedNotStruct | Delivery::CraftedWrongCounter(_) | Delivery::CraftedWrongRole
            | Delivery::CraftedForeignRequest(_) | Delivery::CraftedBytesKeyed => {
                // harness-made ciphertexts under the right direction key
                let (key, kid, recv_ctr) = if to_device {
                    (keys.sk_reader.clone(), 0u64, keys.reader_ctr)
                } else {
                    (rdr_view(&self.rdr).sk_device.clone(), 1u64, rdr_view(&self.rdr).device_ctr)
                };
                self.crafted += 1;
                let (ctr, from_device_id, pt, plain): (u32, bool, Vec<u8>, Value) = match d {
                    Delivery::CraftedNotCbor => (recv_ctr as u32 + 1, !to_device, vec![0xff, 0x00, 0x1c], arr(vec![uint(if to_device { 1 } else { 4 })])),
                    Delivery::CraftedEmpty => (recv_ctr as u32 + 1, !to_device, vec![], arr(vec![uint(if to_device { 1 } else { 4 })])),
                    Delivery::CraftedNotStruct => (recv_ctr as u32 + 1, !to_device, vec![0x83, 0x01, 0x02, 0x03], arr(vec![uint(if to_device { 2 } else { 4 })])),
                    Delivery::CraftedWrongCounter(off) => (recv_ctr as u32 + 2 + off, !to_device, vec![0xa0], arr(vec![uint(if to_device { 2 } else { 4 })])),
                    Delivery::CraftedForeignRequest(i) if to_device => {
                        let i = i % self.req_specs.len();
                        let els: Vec<(Value, Value)> = self.req_specs[i].iter().map(|(ns, ids)| (Value::Text(ns.clone()), Value::Map(ids.iter().map(|id| (Value::Text(id.clone()), Value::Bool(false))).collect()))).collect();
                        let items = crate::runner::to_bytes(&Value::Map(vec![(Value::Text("docType".into()), Value::Text(MDL.into())), (Value::Text("nameSpaces".into()), Value::Map(els))]));
                        let itext = |t: &str| -> Vec<u8> { let b = t.as_bytes(); let mut v = vec![0x7f, 0x60 + (b.len() / 2) as u8]; v.extend(&b[..b.len() / 2]); v.push(0x60 + (b.len() - b.len() / 2) as u8); v.extend(&b[b.len() / 2..]); v.push(0xff); v };
                        let mut pt = vec![0xb8, 0x02];                       // map(2), one-byte head
                        pt.extend(itext("version")); pt.extend([0x63, b'1', b'.', b'0']);
                        pt.extend(itext("docRequests")); pt.extend([0x98, 0x01, 0xa1]);
                        pt.extend(itext("itemsRequest")); pt.extend([0xd8, 0x18, 0x59, (items.len() >> 8) as u8, (items.len() & 0xff) as u8]); pt.extend(&items);
                        (recv_ctr as u32 + 1, false, pt, arr(vec![uint(0), uint(i as u64)]))
                    }
                    Delivery::CraftedBytesKeyed if to_device => {
                        let inner = crate::runner::to_bytes(&Value::Map(vec![(Value::Text("docType".into()), Value::Text(MDL.into())), (Value::Text("nameSpaces".into()), Value::Map(vec![(Value::Text(NS.into()), Value::Map(vec![(Value::Text("family_name".into()), Value::Bool(false))]))]))]));
                        let v = Value::Map(vec![(Value::Bytes(b"version".to_vec()), Value::Text("1.0".into())),
                            (Value::Bytes(b"docRequests".to_vec()), Value::Array(vec![Value::Map(vec![(Value::Bytes(b"itemsRequest".to_vec()), Value::Tag(24, Box::new(Value::Bytes(inner))))])]))]);
                        (recv_ctr as u32 + 1, false, crate::runner::to_bytes(&v), arr(vec![uint(2)]))
                    }
                    _ => (recv_ctr as u32 + 1, to_device, vec![0xa0], arr(vec![uint(if to_device { 2 } else { 4 })])),
                };
                let iv = iso_iv(from_device_id, ctr);
                let ct = aes_encrypt(&key, &iv, &pt);
                (session_data(Some(&ct), None), sym_enc(kid, &iv, plain))
            }
        }
    }

    /// run one operation on the real objects; returns (model op, observed [out, emissions, sys])
    pub fn exec(&mut self, op: &TOp, rng: &mut StdRng) -> (Value, Value) {
        let em_before = self.emissions.len();
        let (mop, out): (Value, Value) = match op {
            TOp::NewRequest(i) => {
                let i = i % self.req_specs.len();
                let ns = namespaces_of(&self.req_specs[i]);
                match catch(|| self.rdr.new_request(ns)) {
                    Ok(Ok(b)) => {
                        self.raw.push(b.clone());
                        let data = data_of(&b).unwrap_or_default();
                        let sym = self.abstract_emitted(&data, false, Some(i as u64));
                        self.requests.push(Msg { bytes: b, sym: sym.clone() });
                        (arr(vec![uint(0), uint(i as u64)]), arr(vec![uint(0), sym]))
                    }
                    Ok(Err(e)) => (arr(vec![uint(0), uint(i as u64)]), arr(vec![text("error"), text(&e.to_string())])),
                    Err(p) => (arr(vec![uint(0), uint(i as u64)]), arr(vec![text("panic"), text(&p)])),
                }
            }
            TOp::DeliverReq(d) => {
                let (b, sym) = self.deliver(d, true, rng);
                let r = catch(|| self.dev.handle_request(&b));
                let out = match r {
                    Ok(o) => {
                        self.raw.push(serde_json::to_vec(&o).unwrap_or_default());
                        if o.errors.contains_key("parsing_errors") {
                            arr(vec![uint(1), uint(0)])
                        } else if o.errors.contains_key("decryption_errors") {
                            arr(vec![uint(1), uint(1)])
                        } else if o.items_request.is_empty() {
                            arr(vec![uint(1), uint(2)])
                        } else {
                            self.last_items = o.items_request.clone();
                            arr(vec![uint(1), uint(3), uint(request_id_of(&self.req_specs, &o.items_request))])
                        }
                    }
                    Err(p) => arr(vec![text("panic"), text(&p)]),
                };
                (arr(vec![uint(1), sym]), out)
            }
            TOp::Prepare(which, not_held) => {
                let mut items: RequestedItems = vec![];
                let mut permitted: PermittedItems = BTreeMap::new();
                let mut types: Vec<String> = which.iter().map(|i| DOC_TYPES[*i % 3].to_string()).collect();
                if *not_held {
                    types.push(NOT_HELD.to_string());
                }
                types.sort();
                types.dedup();
                for t in &types {
                    items.push(ItemsRequest { doc_type: t.clone(), namespaces: namespaces_of(&el(NS, &["family_name", "age_over_21"])), request_info: None });
                    permitted.insert(t.clone(), [(NS.to_string(), vec!["family_name".to_string()])].into_iter().collect());
                }
                let r = catch(|| self.dev.prepare_response(&items, permitted));
                // model argument: held documents in docType order, one document error per docType not held
                let mut docs = vec![];
                let mut errs = 0u64;
                for t in &types {
                    match DOC_TYPES.iter().position(|d| d == t).filter(|i| self.held.contains(i)) {
                        Some(_) => { let id = self.docid(t); docs.push(arr(vec![uint(id), bytes(&[id as u8])])); }
                        None => errs += 1,
                    }
                }
                let out = match r { Ok(()) => arr(vec![uint(6)]), Err(p) => arr(vec![text("panic"), text(&p)]) };
                (arr(vec![uint(2), arr(docs), uint(errs)]), out)
            }
            TOp::NextPayload => {
                let r = self.dev.get_next_signature_payload().map(|(id, p)| (id, p.to_vec()));
                let out = match r {
                    None => arr(vec![uint(3), Value::Null]),
                    Some((uuid, payload)) => {
                        self.raw.push(uuid.as_bytes().to_vec());
                        self.raw.push(payload.clone());
                        let by_payload = doc_type_of_payload(&payload).map(|t| self.docid(&t)).unwrap_or(98);
                        // (several stored documents may share one id: the id then names any of them)
                        let by_uuid = { let c = self.docids_of_uuid(&uuid); if c.contains(&by_payload) { by_payload } else { c.first().copied().unwrap_or(97) } };
                        // the offered id and the offered payload must name the same document
                        if by_payload == by_uuid { arr(vec![uint(3), arr(vec![uint(by_uuid), bytes(&[by_payload as u8])])]) }
                        else { arr(vec![uint(3), arr(vec![uint(by_uuid), bytes(&[by_payload as u8, 0xee])])]) }
                    }
                };
                (arr(vec![uint(3)]), out)
            }
            TOp::Submit(honest) => {
                let offered = self.dev.get_next_signature_payload().map(|(_, p)| p.to_vec());
                let sig: Vec<u8> = match (&offered, honest) {
                    (Some(p), true) => {
                        let t = doc_type_of_payload(p).unwrap_or_default();
                        match self.device_keys.get(&t) {
                            Some(k) => { let s: p256::ecdsa::Signature = k.sign(p); s.to_vec() }
                            None => vec![0xab; 64],
                        }
                    }
                    _ => (0..rng.gen_range(0..70)).map(|_| rng.gen()).collect(),
                };
                let r = catch(|| self.dev.submit_next_signature(sig.clone()));
                let out = match r {
                    Ok(Ok(())) => arr(vec![uint(6)]),
                    Ok(Err(e)) => arr(vec![text("error"), text(&e.to_string())]),
                    Err(p) => arr(vec![text("panic"), text(&p)]),
                };
                (arr(vec![uint(4), bytes(&sig)]), out)
            }
            TOp::SubmitDer => {
                let offered = self.dev.get_next_signature_payload().map(|(_, p)| p.to_vec());
                let sig: Vec<u8> = match &offered {
                    Some(p) => {
                        let t = doc_type_of_payload(p).unwrap_or_default();
                        match self.device_keys.get(&t) {
                            Some(k) => { let s: p256::ecdsa::Signature = k.sign(p); s.to_der().as_bytes().to_vec() }
                            None => vec![0x30, 0x06, 0x02, 0x01, 0x01, 0x02, 0x01, 0x01],
                        }
                    }
                    None => vec![0x30, 0x06, 0x02, 0x01, 0x01, 0x02, 0x01, 0x01],
                };
                let r = catch(|| self.dev.submit_next_signature(sig.clone()));
                let out = match r {
                    Ok(Ok(())) => arr(vec![uint(6)]),
                    Ok(Err(e)) => arr(vec![text("error"), text(&e.to_string())]),
                    Err(p) => arr(vec![text("panic"), text(&p)]),
                };
                (arr(vec![uint(4), bytes(&sig)]), out)
            }
            TOp::Ready => { self.raw.push(vec![self.dev.response_ready() as u8]); (arr(vec![uint(5)]), arr(vec![uint(4), Value::Bool(self.dev.response_ready())])) }
            TOp::Retrieve => {
                let r = catch(|| self.dev.retrieve_response());
                let out = match r {
                    Ok(None) => arr(vec![uint(5), Value::Null]),
                    Ok(Some(b)) => match { self.raw.push(b.clone()); self.responses.iter().find(|m| m.bytes == b) } {
                        Some(m) => arr(vec![uint(5), m.sym.clone()]),
                        None => arr(vec![uint(5), text("unknown message")]),
                    },
                    Err(p) => arr(vec![text("panic"), text(&p)]),
                };
                (arr(vec![uint(6)]), out)
            }
            TOp::DeliverResp(d) => {
                let (b, sym) = self.deliver(d, false, rng);
                let before = rdr_view(&self.rdr).device_ctr;
                let r = catch(|| self.rdr.handle_response(&b));
                let after = rdr_view(&self.rdr).device_ctr;
                if let Ok(o) = &r { self.raw.push(serde_json::to_vec(o).unwrap_or_default()); }
                let out = match r {
                    Ok(o) => match o.errors.get("decryption_errors").map(|v| v.to_string()) {
                        Some(e) if e.contains("HolderError") => arr(vec![uint(2), uint(1)]),
                        Some(e) if e.contains("DecryptionError") => arr(vec![uint(2), uint(2)]),
                        Some(e) if e.contains("CborDecodingError") => arr(vec![uint(2), uint(if after != before { 3 } else { 0 })]),
                        Some(e) => arr(vec![text("unexpected"), text(&e)]),
                        None => {
                            let no_docs = o.errors.get("parsing_errors").map(|v| v.to_string().contains("DeviceTransmissionError")).unwrap_or(false);
                            arr(vec![uint(2), uint(4), Value::Bool(!no_docs)])
                        }
                    },
                    Err(p) => arr(vec![text("panic"), text(&p)]),
                };
                (arr(vec![uint(7), sym]), out)
            }
            TOp::RestoreDev => {
                let r = catch(|| self.dev.stringify().and_then(device::SessionManager::parse));
                let out = match r {
                    Ok(Ok(d)) => { self.dev = d; arr(vec![uint(6)]) }
                    Ok(Err(e)) => arr(vec![text("error"), text(&e.to_string())]),
                    Err(p) => arr(vec![text("panic"), text(&p)]),
                };
                (arr(vec![uint(8)]), out)
            }
            TOp::RestoreRdr => {
                let r = catch(|| self.rdr.stringify().and_then(reader::SessionManager::parse));
                let out = match r {
                    Ok(Ok(d)) => { self.rdr = d; arr(vec![uint(6)]) }
                    Ok(Err(e)) => arr(vec![text("error"), text(&e.to_string())]),
                    Err(p) => arr(vec![text("panic"), text(&p)]),
                };
                (arr(vec![uint(9)]), out)
            }
        };
        // a response that became ready during this call is an emission of the device
        // (judged by the state the previous operation left, NOT by the bytes: a response byte-identical to an earlier one is
        // still a second message — it is what a device whose counter went backwards produces for a repeated request)
        if let (_, StateView::Ready(b)) = dev_view(&self.dev) {
            if self.ready_seen.as_ref() != Some(&b) {
                let sym = match data_of(&b) {
                    Some(data) => self.abstract_emitted(&data, true, None),
                    None => arr(vec![uint(1)]),
                };
                self.responses.push(Msg { bytes: b.clone(), sym });
            }
            self.ready_seen = Some(b);
        } else {
            self.ready_seen = None;
        }
        let ems: Vec<Value> = self.emissions[em_before..]
            .iter()
            .map(|e| {
                let a = e.as_array().unwrap();
                let role = a[0].clone();
                arr(vec![role.clone(), role, a[1].clone()]) // key id = role code in this session
            })
            .collect();
        (mop, arr(vec![out, arr(ems), self.sys_view()]))
    }

    fn docids_of_uuid(&self, uuid: &uuid::Uuid) -> Vec<u64> {
        let v = state_value(&self.dev.stringify().unwrap());
        let mut out = vec![];
        if let Some(Value::Map(docs)) = map_get(&v, "documents") {
            for (k, d) in docs {
                if let Some(idv) = map_get(d, "id") {
                    let b = match idv { Value::Bytes(b) => b.clone(), other => as_u8_array(other) };
                    if b == uuid.as_bytes() { out.push(self.docid(k.as_text().unwrap_or(""))); }
                }
            }
        }
        out
    }
    #[allow(dead_code)]
    fn docid_of_uuid(&self, uuid: &uuid::Uuid) -> u64 {
        // document ids are read from the stringified state: documents map docType -> {id,..}
        let v = state_value(&self.dev.stringify().unwrap());
        if let Some(Value::Map(docs)) = map_get(&v, "documents") {
            for (k, d) in docs {
                if let Some(idv) = map_get(d, "id") {
                    let b = match idv { Value::Bytes(b) => b.clone(), other => as_u8_array(other) };
                    if b == uuid.as_bytes() {
                        return self.docid(k.as_text().unwrap_or(""));
                    }
                }
            }
        }
        97
    }
}

pub fn request_id_of(specs: &[BTreeMap<String, Vec<String>>], items: &RequestedItems) -> u64 {
    if items.len() != 1 || items[0].doc_type != MDL {
        return 90;
    }
    let got: BTreeMap<String, Vec<String>> =
        items[0].namespaces.iter().map(|(ns, els)| (ns.clone(), els.keys().cloned().collect())).collect();
    specs
        .iter()
        .position(|s| {
            let mut s2 = s.clone();
            for v in s2.values_mut() { v.sort(); }
            s2 == got
        })
        .map(|i| i as u64)
        .unwrap_or(91)
}

fn abstract_request_plain(pt: &[u8], req_id: Option<u64>) -> Value {
    // independent look at the plaintext: {"version": "1.0", "docRequests": [{"itemsRequest": 24(bstr)}]}
    let ok = crate::runner::from_bytes(pt)
        .and_then(|v| map_get(&v, "docRequests").and_then(|d| d.as_array().map(|a| !a.is_empty())))
        .unwrap_or(false);
    match (ok, req_id) {
        (true, Some(id)) => arr(vec![uint(0), uint(id)]),
        _ => arr(vec![uint(2)]),
    }
}

fn abstract_response_plain(w: &World, pt: &[u8]) -> Value {
    let v = match crate::runner::from_bytes(pt) { Some(v) => v, None => return arr(vec![uint(4)]) };
    let status = match map_get(&v, "status") { Some(s) => as_u64(s), None => return arr(vec![uint(4)]) };
    let mut docs = vec![];
    if let Some(Value::Array(ds)) = map_get(&v, "documents") {
        for d in ds {
            let dt = map_get(d, "docType").and_then(|t| t.as_text()).unwrap_or("");
            let sig = map_get(d, "deviceSigned")
                .and_then(|s| map_get(s, "deviceAuth"))
                .and_then(|a| map_get(a, "deviceSignature"))
                .and_then(|c| c.as_array())
                .and_then(|a| a.get(3))
                .and_then(|s| s.as_bytes().cloned())
                .unwrap_or_default();
            docs.push(arr(vec![uint(w.docid(dt)), bytes(&sig)]));
        }
    }
    let errs = map_get(&v, "documentErrors").and_then(|e| e.as_array().map(|a| a.len())).unwrap_or(0);
    arr(vec![uint(3), uint(status), arr(docs), uint(errs as u64)])
}

/// the docType inside a Sig_structure whose payload is DeviceAuthenticationBytes
pub fn doc_type_of_payload(sig_structure: &[u8]) -> Option<String> {
    let v = crate::runner::from_bytes(sig_structure)?;
    let a = v.as_array()?;
    let payload = a.get(3)?.as_bytes()?;
    let t = crate::runner::from_bytes(payload)?;
    let inner = match t { Value::Tag(24, b) => b.as_bytes()?.clone(), _ => return None };
    let da = crate::runner::from_bytes(&inner)?;
    da.as_array()?.get(2)?.as_text().map(|s| s.to_string())
}

pub fn random_delivery(rng: &mut StdRng, adversarial: f64) -> Delivery {
    if !rng.gen_bool(adversarial) {
        return Delivery::Latest;
    }
    match rng.gen_range(0..16) {
        14 => Delivery::LatestWithStatus(rng.gen_range(0..3)),
        15 => Delivery::CraftedZeroKey,
        12 => Delivery::CraftedForeignRequest(rng.gen_range(0..3)),
        13 => Delivery::CraftedBytesKeyed,
        0 => Delivery::Replay(rng.gen_range(0..8)),
        1 => Delivery::Garbage,
        2 => Delivery::NoData(rng.gen_range(0..5)),
        3 | 4 => Delivery::BitFlip(rng.gen_range(0..8), rng.gen_range(0..100_000)),
        5 => Delivery::Truncate(rng.gen_range(0..8), rng.gen_range(0..100_000)),
        6 => Delivery::Foreign,
        7 => Delivery::Reflect,
        8 => Delivery::CraftedNotCbor,
        9 => Delivery::CraftedNotStruct,
        10 => Delivery::CraftedWrongCounter(rng.gen_range(0..3)),
        _ => Delivery::CraftedWrongRole,
    }
}

pub fn random_op(rng: &mut StdRng, adversarial: f64, restore: f64) -> TOp {
    if rng.gen_bool(restore) {
        return if rng.gen_bool(0.5) { TOp::RestoreDev } else { TOp::RestoreRdr };
    }
    match rng.gen_range(0..14) {
        0 | 1 => TOp::NewRequest(rng.gen_range(0..3)),
        2 | 3 => TOp::DeliverReq(random_delivery(rng, adversarial)),
        4 | 5 => {
            let n = rng.gen_range(0..4);
            TOp::Prepare((0..n).map(|_| rng.gen_range(0..3)).collect(), rng.gen_bool(0.25))
        }
        6 => TOp::NextPayload,
        7 | 8 | 9 => TOp::Submit(rng.gen_bool(0.85)),
        10 => TOp::Ready,
        11 => TOp::Retrieve,
        _ => TOp::DeliverResp(random_delivery(rng, adversarial)),
    }
}

/// a "sensible" round, to make sure long honest runs occur (counters grow)
pub fn honest_round(rng: &mut StdRng) -> Vec<TOp> {
    let n = rng.gen_range(0..4usize);
    let mut v = vec![TOp::NewRequest(rng.gen_range(0..3)), TOp::DeliverReq(Delivery::Latest), TOp::Prepare((0..n).collect(), rng.gen_bool(0.2))];
    for _ in 0..n.max(1) {
        v.push(TOp::NextPayload);
        v.push(TOp::Submit(true));
    }
    v.extend([TOp::Ready, TOp::Retrieve, TOp::DeliverResp(Delivery::Latest)]);
    v
}

/// execute a trace and report it as one case against `sess.run`
pub fn run_trace(ctx: &mut Ctx, label: &str, ndocs: usize, ops: Vec<TOp>, spec: Option<&str>) {
    let mut rng = StdRng::clone(&ctx.rng);
    let mut w = World::new(&mut rng, ndocs);
    let mut mops = w.prefix_ops();
    let mut obs: Vec<Value> = vec![];
    // prefix observations come from the model itself being consistent with the established state:
    // we compare from the state after establishment on, so the two prefix steps are checked through
    // the counters (1,1) and the first emission
    let mut first = true;
    for op in &ops {
        let (mop, o) = w.exec(op, &mut rng);
        if first {
            first = false;
        }
        mops.push(mop);
        obs.push(o);
    }
    ctx.rng = rng;
    let desc = json!({"docs_held": ndocs, "ops": ops.iter().map(|o| format!("{o:?}")).collect::<Vec<_>>()});
    let nontrivial = ops.len() >= 3;
    for o in &ops {
        ctx.count(&format!("op:{}", format!("{o:?}").split(|c| c == '(' || c == ' ').next().unwrap()));
    }
    let model_args = vec![uint(0), uint(1), arr(mops.clone())];
    // the model's answer includes the two prefix steps; the observation gets them prepended from
    // the model's own answer shape: we ask the model and strip the prefix on its side instead
    let obs_all = arr(obs);
    let spec_q = spec.map(|s| (s, vec![arr(w.emissions.clone()), arr(mops.clone())]));
    ctx.case_with_prefix(label, desc, obs_all, ("sess.run", model_args), 2, spec_q, nontrivial);
}
