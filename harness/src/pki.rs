//! Certificates for the harness, built with x509-cert directly (not through isomdl).
use const_oid::ObjectIdentifier;
use der::asn1::OctetString;
use p256::ecdsa::SigningKey;
use p256::NistP256;
use rand::rngs::StdRng;
use sha1::{Digest, Sha1};
use signature::Signer;
use std::time::Duration;
use x509_cert::{
    builder::{Builder, CertificateBuilder, Profile},
    ext::pkix::{
        crl::dp::DistributionPoint,
        name::{DistributionPointName, GeneralName},
        AuthorityKeyIdentifier, BasicConstraints, CrlDistributionPoints, ExtendedKeyUsage, IssuerAltName, KeyUsage,
        KeyUsages, SubjectKeyIdentifier,
    },
    name::Name,
    spki::{SignatureBitStringEncoding, SubjectPublicKeyInfoOwned},
    time::Validity,
    Certificate,
};

pub const EKU_DS: &str = "1.0.18013.5.1.2";
pub const EKU_READER: &str = "1.0.18013.5.1.6";

pub fn ski_of(key: &SigningKey) -> OctetString {
    let spki = SubjectPublicKeyInfoOwned::from_key(*key.verifying_key()).unwrap();
    OctetString::new(Sha1::digest(spki.subject_public_key.raw_bytes()).to_vec()).unwrap()
}

fn crl_dp() -> CrlDistributionPoints {
    CrlDistributionPoints(vec![DistributionPoint {
        distribution_point: Some(DistributionPointName::FullName(vec![GeneralName::UniformResourceIdentifier(
            "http://example.com/crl".to_string().try_into().unwrap(),
        )])),
        reasons: None,
        crl_issuer: None,
    }])
}

fn ian() -> IssuerAltName {
    IssuerAltName(vec![GeneralName::Rfc822Name("test@example.com".to_string().try_into().unwrap())])
}

fn finish(mut b: CertificateBuilder<'_, SigningKey>, signer: &SigningKey) -> Certificate {
    let tbs = b.finalize().unwrap();
    let sig: ecdsa::Signature<NistP256> = signer.sign(&tbs);
    b.assemble(sig.to_der().to_bitstring().unwrap()).unwrap()
}

/// A conformant IACA (or reader CA) root: self-issued, CA, pathlen 0, keyCertSign|cRLSign.
pub fn root_cert(key: &SigningKey, name: &str, serial: u64) -> Certificate {
    let subject: Name = name.parse().unwrap();
    let spki = SubjectPublicKeyInfoOwned::from_key(*key.verifying_key()).unwrap();
    let mut b = CertificateBuilder::new(
        Profile::Manual { issuer: None },
        serial.into(),
        Validity::from_now(Duration::from_secs(86400)).unwrap(),
        subject,
        spki,
        key,
    )
    .unwrap();
    b.add_extension(&SubjectKeyIdentifier(ski_of(key))).unwrap();
    b.add_extension(&KeyUsage(KeyUsages::KeyCertSign | KeyUsages::CRLSign)).unwrap();
    b.add_extension(&BasicConstraints { ca: true, path_len_constraint: Some(0) }).unwrap();
    b.add_extension(&ian()).unwrap();
    b.add_extension(&crl_dp()).unwrap();
    finish(b, key)
}

/// The same kind of root with an explicit validity period (unix seconds): an earlier, expired issue of a root
pub fn root_cert_valid(key: &SigningKey, name: &str, serial: u64, not_before: u64, not_after: u64) -> Certificate {
    use x509_cert::time::Time;
    let subject: Name = name.parse().unwrap();
    let spki = SubjectPublicKeyInfoOwned::from_key(*key.verifying_key()).unwrap();
    let validity = Validity {
        not_before: Time::GeneralTime(der::asn1::GeneralizedTime::from_unix_duration(Duration::from_secs(not_before)).unwrap()),
        not_after: Time::GeneralTime(der::asn1::GeneralizedTime::from_unix_duration(Duration::from_secs(not_after)).unwrap()),
    };
    let mut b = CertificateBuilder::new(Profile::Manual { issuer: None }, serial.into(), validity, subject, spki, key).unwrap();
    b.add_extension(&SubjectKeyIdentifier(ski_of(key))).unwrap();
    b.add_extension(&KeyUsage(KeyUsages::KeyCertSign | KeyUsages::CRLSign)).unwrap();
    b.add_extension(&BasicConstraints { ca: true, path_len_constraint: Some(0) }).unwrap();
    b.add_extension(&ian()).unwrap();
    b.add_extension(&crl_dp()).unwrap();
    finish(b, key)
}

/// A conformant leaf (document signer or reader) issued by `root_key` under `issuer` name.
pub fn leaf_cert(key: &SigningKey, root_key: &SigningKey, issuer: &str, subject: &str, eku: &str, serial: u64) -> Certificate {
    let spki = SubjectPublicKeyInfoOwned::from_key(*key.verifying_key()).unwrap();
    let mut b = CertificateBuilder::new(
        Profile::Manual { issuer: Some(issuer.parse().unwrap()) },
        serial.into(),
        Validity::from_now(Duration::from_secs(86400)).unwrap(),
        subject.parse().unwrap(),
        spki,
        root_key,
    )
    .unwrap();
    b.add_extension(&SubjectKeyIdentifier(ski_of(key))).unwrap();
    b.add_extension(&AuthorityKeyIdentifier { key_identifier: Some(ski_of(root_key)), ..Default::default() }).unwrap();
    b.add_extension(&KeyUsage(KeyUsages::DigitalSignature.into())).unwrap();
    b.add_extension(&ian()).unwrap();
    b.add_extension(&crl_dp()).unwrap();
    b.add_extension(&ExtendedKeyUsage(vec![ObjectIdentifier::new_unwrap(eku)])).unwrap();
    finish(b, root_key)
}

/// A conformant leaf with an explicit validity period (unix seconds), for boundary dates
pub fn leaf_cert_valid(key: &SigningKey, root_key: &SigningKey, issuer: &str, subject: &str, eku: &str, serial: u64, not_before: u64, not_after: u64) -> Option<Certificate> {
    use x509_cert::time::Time;
    let spki = SubjectPublicKeyInfoOwned::from_key(*key.verifying_key()).ok()?;
    let validity = Validity {
        not_before: Time::GeneralTime(der::asn1::GeneralizedTime::from_unix_duration(Duration::from_secs(not_before)).ok()?),
        not_after: Time::GeneralTime(der::asn1::GeneralizedTime::from_unix_duration(Duration::from_secs(not_after)).ok()?),
    };
    let mut b = CertificateBuilder::new(Profile::Manual { issuer: Some(issuer.parse().ok()?) }, serial.into(), validity, subject.parse().ok()?, spki, root_key).ok()?;
    b.add_extension(&SubjectKeyIdentifier(ski_of(key))).ok()?;
    b.add_extension(&AuthorityKeyIdentifier { key_identifier: Some(ski_of(root_key)), ..Default::default() }).ok()?;
    b.add_extension(&KeyUsage(KeyUsages::DigitalSignature.into())).ok()?;
    b.add_extension(&ian()).ok()?;
    b.add_extension(&crl_dp()).ok()?;
    b.add_extension(&ExtendedKeyUsage(vec![ObjectIdentifier::new_unwrap(eku)])).ok()?;
    Some(finish(b, root_key))
}

/// A leaf that is conformant except for the key identifiers given (subject / authority key identifier octets as supplied)
pub fn leaf_cert_with_ids(key: &SigningKey, root_key: &SigningKey, issuer: &str, subject: &str, eku: &str, serial: u64, ski: Option<Vec<u8>>, aki: Option<Vec<u8>>) -> Option<Certificate> {
    let spki = SubjectPublicKeyInfoOwned::from_key(*key.verifying_key()).ok()?;
    let mut b = CertificateBuilder::new(Profile::Manual { issuer: Some(issuer.parse().ok()?) }, serial.into(), Validity::from_now(Duration::from_secs(86400)).ok()?, subject.parse().ok()?, spki, root_key).ok()?;
    if let Some(s) = ski { b.add_extension(&SubjectKeyIdentifier(OctetString::new(s).ok()?)).ok()?; }
    if let Some(a) = aki { b.add_extension(&AuthorityKeyIdentifier { key_identifier: Some(OctetString::new(a).ok()?), ..Default::default() }).ok()?; }
    b.add_extension(&KeyUsage(KeyUsages::DigitalSignature.into())).ok()?;
    b.add_extension(&ian()).ok()?;
    b.add_extension(&crl_dp()).ok()?;
    b.add_extension(&ExtendedKeyUsage(vec![ObjectIdentifier::new_unwrap(eku)])).ok()?;
    Some(finish(b, root_key))
}

/// A conformant leaf whose OWN key is on P-384 (issued by a P-256 root)
pub fn leaf_cert_p384(key: &p384::ecdsa::SigningKey, root_key: &SigningKey, issuer: &str, subject: &str, eku: &str, serial: u64) -> Option<Certificate> {
    let spki = SubjectPublicKeyInfoOwned::from_key(*key.verifying_key()).ok()?;
    let ski = OctetString::new(Sha1::digest(spki.subject_public_key.raw_bytes()).to_vec()).ok()?;
    let mut b = CertificateBuilder::new(Profile::Manual { issuer: Some(issuer.parse().ok()?) }, serial.into(), Validity::from_now(Duration::from_secs(86400)).ok()?, subject.parse().ok()?, spki, root_key).ok()?;
    b.add_extension(&SubjectKeyIdentifier(ski)).ok()?;
    b.add_extension(&AuthorityKeyIdentifier { key_identifier: Some(ski_of(root_key)), ..Default::default() }).ok()?;
    b.add_extension(&KeyUsage(KeyUsages::DigitalSignature.into())).ok()?;
    b.add_extension(&ian()).ok()?;
    b.add_extension(&crl_dp()).ok()?;
    b.add_extension(&ExtendedKeyUsage(vec![ObjectIdentifier::new_unwrap(eku)])).ok()?;
    Some(finish(b, root_key))
}

/// A leaf that NAMES `named_root` (issuer name, authority key identifier) but is signed by its own key.
pub fn forged_leaf(key: &SigningKey, named_root: &SigningKey, issuer: &str, subject: &str, eku: &str, serial: u64) -> Certificate {
    let spki = SubjectPublicKeyInfoOwned::from_key(*key.verifying_key()).unwrap();
    let mut b = CertificateBuilder::new(
        Profile::Manual { issuer: Some(issuer.parse().unwrap()) },
        serial.into(),
        Validity::from_now(Duration::from_secs(86400)).unwrap(),
        subject.parse().unwrap(),
        spki,
        key,
    )
    .unwrap();
    b.add_extension(&SubjectKeyIdentifier(ski_of(key))).unwrap();
    b.add_extension(&AuthorityKeyIdentifier { key_identifier: Some(ski_of(named_root)), ..Default::default() }).unwrap();
    b.add_extension(&KeyUsage(KeyUsages::DigitalSignature.into())).unwrap();
    b.add_extension(&ian()).unwrap();
    b.add_extension(&crl_dp()).unwrap();
    b.add_extension(&ExtendedKeyUsage(vec![ObjectIdentifier::new_unwrap(eku)])).unwrap();
    finish(b, key)
}

pub struct Pki {
    pub iaca_key: SigningKey,
    pub iaca: Certificate,
    pub ds_key: SigningKey,
    pub ds: Certificate,
    pub reader_ca_key: SigningKey,
    pub reader_ca: Certificate,
    pub reader_key: SigningKey,
    pub reader: Certificate,
}

impl Pki {
    pub fn generate(rng: &mut StdRng) -> Pki {
        let iaca_key = SigningKey::random(rng);
        let ds_key = SigningKey::random(rng);
        let reader_ca_key = SigningKey::random(rng);
        let reader_key = SigningKey::random(rng);
        let iaca = root_cert(&iaca_key, "CN=Test IACA,C=US", 1);
        let ds = leaf_cert(&ds_key, &iaca_key, "CN=Test IACA,C=US", "CN=Test DS,C=US", EKU_DS, 2);
        let reader_ca = root_cert(&reader_ca_key, "CN=Test Reader CA,C=US", 3);
        let reader = leaf_cert(&reader_key, &reader_ca_key, "CN=Test Reader CA,C=US", "CN=Test Reader,C=US", EKU_READER, 4);
        Pki { iaca_key, iaca, ds_key, ds, reader_ca_key, reader_ca, reader_key, reader }
    }
}
