//! C08 — session keys and BLE ident recomputed by the Gallina model (its own SHA-256 / HMAC /
//! HKDF / CBOR) from the bytes on the wire; ECDH done with p256 directly; invalid peer keys.
use crate::common::*;
use crate::pki::Pki;
use crate::sess::*;
use ciborium::Value;
use isomdl::definitions::device_engagement::{BleOptions, CentralClientMode, DeviceRetrievalMethod, PeripheralServerMode, WifiOptions};
use isomdl::definitions::device_key::cose_key::{EC2Curve, EC2Y, OKPCurve};
use isomdl::definitions::helpers::{ByteStr, NonEmptyVec, Tag24};
use isomdl::definitions::session::{derive_session_key, get_shared_secret, Handover, SessionTranscript180135};
use isomdl::definitions::{CoseKey, DeviceEngagement, DigestAlgorithm};
use p256::elliptic_curve::sec1::{FromEncodedPoint, ToEncodedPoint};
use rand::Rng;
use serde_json::json;

fn key_cbor(k: &CoseKey) -> Value {
    let crv2 = |c: &EC2Curve| match c { EC2Curve::P256 => 1u64, EC2Curve::P384 => 2, EC2Curve::P521 => 3, EC2Curve::P256K => 8 };
    match k {
        CoseKey::EC2 { crv, x, y } => arr(vec![uint(2), uint(crv2(crv)), bytes(x), match y { EC2Y::Value(b) => bytes(b), EC2Y::SignBit(s) => Value::Bool(*s) }]),
        CoseKey::OKP { crv, x } => arr(vec![uint(1), uint(match crv { OKPCurve::X25519 => 4, OKPCurve::X448 => 5, OKPCurve::Ed25519 => 6, OKPCurve::Ed448 => 7 }), bytes(x)]),
    }
}

/// SEC1 validity by p256 directly, on the bytes the conversion should produce
fn sec1_valid(k: &CoseKey) -> bool {
    let pt: Vec<u8> = match k {
        CoseKey::EC2 { crv: EC2Curve::P256, x, y: EC2Y::Value(y) } if x.len() == 32 && y.len() == 32 => [vec![4u8], x.clone(), y.clone()].concat(),
        CoseKey::EC2 { crv: EC2Curve::P256, x, y: EC2Y::SignBit(s) } if x.len() == 32 => [vec![if *s { 3u8 } else { 2 }], x.clone()].concat(),
        _ => return false,
    };
    match p256::EncodedPoint::from_bytes(&pt) {
        Ok(ep) => bool::from(p256::PublicKey::from_encoded_point(&ep).is_some()),
        Err(_) => false,
    }
}

fn shared_secret_case(ctx: &mut Ctx, label: &str, k: CoseKey) {
    let scalar = p256::NonZeroScalar::random(&mut ctx.rng);
    let valid = sec1_valid(&k);
    let kc = key_cbor(&k);
    let r = catch(|| get_shared_secret(k.clone(), &scalar).map(|s| s.raw_secret_bytes().to_vec()));
    let obs = match &r { Ok(Ok(_)) => uint(0), Ok(Err(_)) => uint(1), Err(_) => uint(2) };
    ctx.count(&format!("shared_secret:{}", match &r { Ok(Ok(_)) => "ok", Ok(Err(_)) => "err", Err(_) => "panic" }));
    ctx.case(label, json!({"key": diag(&kc), "sec1_valid": valid}), obs,
        Some(("c08.shared_secret", vec![kc.clone(), Value::Bool(valid)])),
        Some(("c08.spec_shared_secret", vec![kc, Value::Bool(valid)])), true);
}

pub fn run(ctx: &mut Ctx) {
    // (a) full sessions over engagement configurations
    let n = ctx.budget(12, 400);
    for i in 0..n {
        let mut rng = ctx.rng.clone();
        let pki = Pki::generate(&mut rng);
        let (m, _k) = issue(&mut rng, &pki, MDL, [(NS.to_string(), [("family_name".to_string(), Value::Text("Doe".into()))].into_iter().collect())].into_iter().collect(), DigestAlgorithm::SHA256, false);
        let drms: Option<NonEmptyVec<DeviceRetrievalMethod>> = match i % 4 {
            0 => None,
            1 => Some(NonEmptyVec::new(DeviceRetrievalMethod::BLE(BleOptions {
                peripheral_server_mode: Some(PeripheralServerMode { uuid: uuid::Uuid::from_bytes(rng.gen()), ble_device_address: None }),
                central_client_mode: Some(CentralClientMode { uuid: uuid::Uuid::from_bytes(rng.gen()) }),
            }))),
            2 => Some(NonEmptyVec::new(DeviceRetrievalMethod::WIFI(WifiOptions::default()))),
            _ => Some(NonEmptyVec::new(DeviceRetrievalMethod::BLE(BleOptions { peripheral_server_mode: None, central_client_mode: Some(CentralClientMode { uuid: uuid::Uuid::from_bytes(rng.gen()) }) }))),
        };
        let first: std::collections::BTreeMap<String, Vec<String>> = [(NS.to_string(), vec!["family_name".to_string()])].into_iter().collect();
        let e = match establish(documents_of(vec![m]), drms, &first, Default::default(), Default::default()) { Ok(e) => e, Err(_) => { ctx.rng = rng; continue } };
        // bytes on the wire
        let de_bytes = base64::decode_config(e.qr.strip_prefix("mdoc:").unwrap(), base64::Config::new(base64::CharacterSet::UrlSafe, false)).unwrap();
        let est = crate::runner::from_bytes(&e.establishment).unwrap();
        let erk_bytes = match map_get(&est, "eReaderKey") { Some(Value::Tag(24, b)) => b.as_bytes().unwrap().clone(), _ => vec![] };
        // device ephemeral scalar from the stringified engaged state; reader public key from the wire
        let eng = state_value(&e.engaged_state);
        let dscalar = as_u8_array(map_get(&eng, "e_device_key").unwrap());
        let sk = p256::SecretKey::from_slice(&dscalar).unwrap();
        let erk = crate::runner::from_bytes(&erk_bytes).unwrap();
        let get = |lbl: i64| erk.as_map().unwrap().iter().find(|(k, _)| k.as_integer().map(|i| i128::from(i)) == Some(lbl as i128)).map(|(_, v)| v.as_bytes().unwrap().clone()).unwrap();
        let rpub = p256::PublicKey::from_encoded_point(&p256::EncodedPoint::from_affine_coordinates(get(-2).as_slice().into(), get(-3).as_slice().into(), false)).unwrap();
        let zab = p256::ecdh::diffie_hellman(sk.to_nonzero_scalar(), rpub.as_affine()).raw_secret_bytes().to_vec();
        let (dk, _) = dev_view(&e.dev);
        let rk = rdr_view(&e.rdr);
        let args = vec![bytes(&zab), bytes(&de_bytes), bytes(&erk_bytes), Value::Null];
        let desc = json!({"engagement": i % 4, "de_len": de_bytes.len()});
        ctx.case("session_keys_device", desc.clone(), arr(vec![bytes(&dk.sk_reader), bytes(&dk.sk_device)]), Some(("c08.session_keys", args.clone())), Some(("c08.spec_keys", args.clone())), true);
        ctx.case("session_keys_reader", desc.clone(), arr(vec![bytes(&rk.sk_reader), bytes(&rk.sk_device)]), Some(("c08.session_keys", args.clone())), Some(("c08.spec_keys", args)), true);
        // BLE ident: EDeviceKeyBytes from the engagement bytes
        let de = crate::runner::from_bytes(&de_bytes).unwrap();
        let edk_inner = de.as_map().and_then(|m| m.iter().find(|(k, _)| k.as_integer().map(|i| i128::from(i)) == Some(1))).and_then(|(_, sec)| sec.as_array().map(|a| a[1].clone()))
            .and_then(|t| match t { Value::Tag(24, b) => b.as_bytes().cloned(), _ => None }).unwrap_or_default();
        ctx.case("ble_ident_reader", desc.clone(), bytes(&e.ble_reader), Some(("c08.ble_ident", vec![bytes(&edk_inner)])), Some(("c08.spec_ble", vec![bytes(&edk_inner)])), true);
        ctx.case("ble_ident_device", desc, bytes(&e.ble_device), Some(("c08.ble_ident", vec![bytes(&edk_inner)])), Some(("c08.spec_ble", vec![bytes(&edk_inner)])), true);
        ctx.rng = rng;
    }
    // (a') a third-party reader: its EReaderKey COSE_Key is NOT in the encoding this library's own encoder writes
    // (member order, non-minimal heads, indefinite-length map).  The transcript is over the bytes as exchanged.
    let n = ctx.budget(6, 200);
    for i in 0..n {
        let mut rng = ctx.rng.clone();
        let pki = Pki::generate(&mut rng);
        let (m, _k) = issue(&mut rng, &pki, MDL, [(NS.to_string(), [("family_name".to_string(), Value::Text("Doe".into()))].into_iter().collect())].into_iter().collect(), DigestAlgorithm::SHA256, false);
        let Ok(init) = isomdl::presentation::device::SessionManagerInit::initialise(documents_of(vec![m]), None, None) else { ctx.rng = rng; continue };
        let Ok((engaged, qr)) = init.qr_engagement() else { ctx.rng = rng; continue };
        let de_bytes = base64::decode_config(qr.strip_prefix("mdoc:").unwrap(), base64::Config::new(base64::CharacterSet::UrlSafe, false)).unwrap();
        let eng = state_value(&isomdl::presentation::Stringify::stringify(&engaged).unwrap());
        let dscalar = as_u8_array(map_get(&eng, "e_device_key").unwrap());
        let dsk = p256::SecretKey::from_slice(&dscalar).unwrap();
        let rsk = p256::SecretKey::random(&mut rng);
        let ep = rsk.public_key().to_encoded_point(false);
        let (x, y) = (ep.x().unwrap().to_vec(), ep.y().unwrap().to_vec());
        // (the 66 000-byte forms cost the model seconds each: the first cycles only)
        let form = if i % 5 == 4 && i >= 10 { 0 } else { i % 5 };
        // form 4: an extra COSE_Key member (label -65537) holding 66 000 bytes: EReaderKeyBytes and with them the
        // SessionTranscriptBytes are longer than 65 535 bytes
        let big: Vec<u8> = (0..66_000u32).map(|j| (j % 251) as u8).collect();
        let erk_bytes: Vec<u8> = match form {
            4 => [vec![0xa5, 0x01, 0x02, 0x20, 0x01, 0x21, 0x58, 0x20], x.clone(), vec![0x22, 0x58, 0x20], y.clone(), vec![0x3a, 0x00, 0x01, 0x00, 0x00, 0x5a, 0x00, 0x01, 0x01, 0xd0], big.clone()].concat(),
            0 => [vec![0xa4, 0x20, 0x01, 0x21, 0x58, 0x20], x.clone(), vec![0x22, 0x58, 0x20], y.clone(), vec![0x01, 0x02]].concat(),
            1 => [vec![0xa4, 0x01, 0x18, 0x02, 0x20, 0x18, 0x01, 0x21, 0x59, 0x00, 0x20], x.clone(), vec![0x22, 0x58, 0x20], y.clone()].concat(),
            2 => [vec![0xbf, 0x01, 0x02, 0x20, 0x01, 0x21, 0x58, 0x20], x.clone(), vec![0x22, 0x58, 0x20], y.clone(), vec![0xff]].concat(),
            _ => [vec![0xa4, 0x22, 0x58, 0x20], y.clone(), vec![0x21, 0x58, 0x20], x.clone(), vec![0x20, 0x01, 0x01, 0x02]].concat(),
        };
        let zab = p256::ecdh::diffie_hellman(dsk.to_nonzero_scalar(), rsk.public_key().as_affine()).raw_secret_bytes().to_vec();
        let args = vec![bytes(&zab), bytes(&de_bytes), bytes(&erk_bytes), Value::Null];
        let keys = ctx.runner.query("c08.session_keys", args.clone());
        let Some(sk_reader) = keys.as_array().and_then(|a| a.first()).and_then(|k| k.as_bytes().cloned()) else { ctx.rng = rng; continue };
        let items = Value::Map(vec![(text("docType"), text(MDL)), (text("nameSpaces"), Value::Map(vec![(text(NS), Value::Map(vec![(text("family_name"), Value::Bool(false))]))]))]);
        let req = Value::Map(vec![(text("version"), text("1.0")), (text("docRequests"), arr(vec![Value::Map(vec![(text("itemsRequest"), Value::Tag(24, Box::new(bytes(&crate::runner::to_bytes(&items)))))])]))]);
        let ct = aes_encrypt(&sk_reader, &iso_iv(false, 1), &crate::runner::to_bytes(&req));
        let est = crate::runner::to_bytes(&Value::Map(vec![(text("eReaderKey"), Value::Tag(24, Box::new(bytes(&erk_bytes)))), (text("data"), bytes(&ct))]));
        let desc = json!({"foreign_reader_key_form": form});
        let se = match isomdl::cbor::from_slice::<isomdl::definitions::SessionEstablishment>(&est) {
            Ok(se) => se,
            Err(_) => { ctx.count("foreign_reader:establishment-not-decoded"); ctx.case("foreign_reader:not-decoded", desc, Value::Null, None, None, false); ctx.rng = rng; continue }
        };
        let obs = match catch(|| engaged.process_session_establishment(se, Default::default())) {
            Ok(Ok((dev, _))) => { let (dk, _) = dev_view(&dev); arr(vec![bytes(&dk.sk_reader), bytes(&dk.sk_device)]) }
            Ok(Err(_)) => text("refused"),
            Err(p) => arr(vec![text("panic"), text(&p)]),
        };
        ctx.count(&format!("foreign_reader:form{form}:{}", if obs.is_array() { "keys" } else { "refused" }));
        ctx.case("session_keys_device_foreign_reader", desc, obs, Some(("c08.session_keys", args.clone())), Some(("c08.spec_keys", args)), true);
        ctx.rng = rng;
    }
    // (a'') a third-party mdoc: its engagement is NOT in the encoding this library's own encoder writes (BLE options in
    // ascending key order as in ISO Annex D, non-minimal heads, foreign COSE_Key member order).  The reader's
    // transcript must be over the engagement bytes as received.
    let n = ctx.budget(8, 240);
    for i in 0..n {
        let mut rng = ctx.rng.clone();
        let dsk = p256::SecretKey::random(&mut rng);
        let ep = dsk.public_key().to_encoded_point(false);
        let (x, y) = (ep.x().unwrap().to_vec(), ep.y().unwrap().to_vec());
        let form = if i % 5 == 4 && i >= 10 { 0 } else { i % 5 };
        let big: Vec<u8> = (0..66_000u32).map(|j| (j % 251) as u8).collect();
        let key_bytes: Vec<u8> = if form == 4 { [vec![0xa5, 0x01, 0x02, 0x20, 0x01, 0x21, 0x58, 0x20], x.clone(), vec![0x22, 0x58, 0x20], y.clone(), vec![0x3a, 0x00, 0x01, 0x00, 0x00, 0x5a, 0x00, 0x01, 0x01, 0xd0], big.clone()].concat() }
                                 else if form % 2 == 0 { [vec![0xa4, 0x01, 0x02, 0x20, 0x01, 0x21, 0x58, 0x20], x.clone(), vec![0x22, 0x58, 0x20], y.clone()].concat() }
                                 else { [vec![0xa4, 0x20, 0x01, 0x21, 0x58, 0x20], x.clone(), vec![0x22, 0x58, 0x20], y.clone(), vec![0x01, 0x02]].concat() };
        let uuid: [u8; 16] = rng.gen();
        let mut de_bytes: Vec<u8> = vec![];
        match form {
            // {0:"1.0", 1:[1, 24(key)], 2:[[2, 1, {0:false, 1:true, 11:uuid}]]}  -- ascending option keys
            0 | 1 => {
                de_bytes.extend([0xa3, 0x00, 0x63, b'1', b'.', b'0', 0x01, 0x82, 0x01, 0xd8, 0x18, 0x58, key_bytes.len() as u8]);
                de_bytes.extend(&key_bytes);
                de_bytes.extend([0x02, 0x81, 0x83, 0x02, 0x01, 0xa3, 0x00, 0xf4, 0x01, 0xf5, 0x0b, 0x50]);
                de_bytes.extend(uuid);
            }
            // the same with non-minimal heads on the outer map keys and the cipher suite
            2 => {
                de_bytes.extend([0xa3, 0x18, 0x00, 0x63, b'1', b'.', b'0', 0x18, 0x01, 0x82, 0x18, 0x01, 0xd8, 0x18, 0x58, key_bytes.len() as u8]);
                de_bytes.extend(&key_bytes);
                de_bytes.extend([0x18, 0x02, 0x81, 0x83, 0x02, 0x01, 0xa3, 0x00, 0xf4, 0x01, 0xf5, 0x0b, 0x50]);
                de_bytes.extend(uuid);
            }
            // EDeviceKeyBytes (and the engagement, and the transcript) longer than 65 535 bytes
            4 => {
                de_bytes.extend([0xa2, 0x00, 0x63, b'1', b'.', b'0', 0x01, 0x82, 0x01, 0xd8, 0x18, 0x5a]);
                de_bytes.extend((key_bytes.len() as u32).to_be_bytes());
                de_bytes.extend(&key_bytes);
            }
            // no retrieval methods, indefinite-length outer map
            _ => {
                de_bytes.extend([0xbf, 0x00, 0x63, b'1', b'.', b'0', 0x01, 0x82, 0x01, 0xd8, 0x18, 0x58, key_bytes.len() as u8]);
                de_bytes.extend(&key_bytes);
                de_bytes.push(0xff);
            }
        }
        let qr = format!("mdoc:{}", base64::encode_config(&de_bytes, base64::Config::new(base64::CharacterSet::UrlSafe, false)));
        let first: std::collections::BTreeMap<String, Vec<String>> = [(NS.to_string(), vec!["family_name".to_string()])].into_iter().collect();
        let desc = json!({"foreign_engagement_form": form});
        let r = catch(|| isomdl::presentation::reader::SessionManager::establish_session(qr.clone(), namespaces_of(&first), Default::default()));
        let (rdr, est, ble) = match r {
            Ok(Ok(t)) => t,
            Ok(Err(_)) => { ctx.count(&format!("foreign_mdoc:form{form}:refused")); ctx.case("foreign_mdoc:refused", desc, Value::Null, None, None, false); ctx.rng = rng; continue }
            Err(p) => { ctx.case("session_keys_reader_foreign_mdoc", desc, arr(vec![text("panic"), text(&p)]), None, Some(("c08.spec_keys", vec![bytes(&[]), bytes(&de_bytes), bytes(&[]), Value::Null])), true); ctx.rng = rng; continue }
        };
        ctx.count(&format!("foreign_mdoc:form{form}:keys"));
        let estv = crate::runner::from_bytes(&est).unwrap();
        let erk_bytes = match map_get(&estv, "eReaderKey") { Some(Value::Tag(24, b)) => b.as_bytes().unwrap().clone(), _ => vec![] };
        let erk = crate::runner::from_bytes(&erk_bytes).unwrap();
        let get = |lbl: i64| erk.as_map().unwrap().iter().find(|(k, _)| k.as_integer().map(|i| i128::from(i)) == Some(lbl as i128)).map(|(_, v)| v.as_bytes().unwrap().clone()).unwrap();
        let rpub = p256::PublicKey::from_encoded_point(&p256::EncodedPoint::from_affine_coordinates(get(-2).as_slice().into(), get(-3).as_slice().into(), false)).unwrap();
        let zab = p256::ecdh::diffie_hellman(dsk.to_nonzero_scalar(), rpub.as_affine()).raw_secret_bytes().to_vec();
        let rk = rdr_view(&rdr);
        let args = vec![bytes(&zab), bytes(&de_bytes), bytes(&erk_bytes), Value::Null];
        ctx.case("session_keys_reader_foreign_mdoc", desc.clone(), arr(vec![bytes(&rk.sk_reader), bytes(&rk.sk_device)]), Some(("c08.session_keys", args.clone())), Some(("c08.spec_keys", args)), true);
        ctx.case("ble_ident_reader_foreign_mdoc", desc, bytes(&ble), Some(("c08.ble_ident", vec![bytes(&key_bytes)])), Some(("c08.spec_ble", vec![bytes(&key_bytes)])), true);
        ctx.rng = rng;
    }
    // (b) the public derive_session_key with hand-made transcripts: other handovers, non-canonical engagement bytes
    let n = ctx.budget(60, 3000);
    for i in 0..n {
        let a = p256::SecretKey::random(&mut ctx.rng);
        let mut b = p256::SecretKey::random(&mut ctx.rng);
        if i % 10 == 9 {
            // a shared x-coordinate with a zero first octet (1 pair in 256): Z_AB is the fixed-length 32-octet field element
            for _ in 0..4000 {
                if p256::ecdh::diffie_hellman(a.to_nonzero_scalar(), b.public_key().as_affine()).raw_secret_bytes()[0] == 0 { ctx.count("derive:zab-leading-zero"); break; }
                b = p256::SecretKey::random(&mut ctx.rng);
            }
        }
        let ss = p256::ecdh::diffie_hellman(a.to_nonzero_scalar(), b.public_key().as_affine());
        let zab = ss.raw_secret_bytes().to_vec();
        let ep = b.public_key().to_encoded_point(false);
        let key = CoseKey::EC2 { crv: EC2Curve::P256, x: ep.x().unwrap().to_vec(), y: EC2Y::Value(ep.y().unwrap().to_vec()) };
        let key_tag = Tag24::new(key.clone()).unwrap();
        // a minimal engagement {0: "1.0", 1: [1, 24(<<key>>)]}, optionally with non-minimal integer heads inside
        let keyb = key_tag.inner_bytes.clone();
        let mut de_bytes: Vec<u8> = vec![0xa2, 0x00, 0x63, b'1', b'.', b'0', 0x01, 0x82, 0x01, 0xd8, 0x18, 0x58, keyb.len() as u8];
        de_bytes.extend_from_slice(&keyb);
        if i % 3 == 1 {
            // same content, non-canonical: map key 0 as 0x1800, array element 1 as 0x1801
            de_bytes = vec![0xa2, 0x18, 0x00, 0x63, b'1', b'.', b'0', 0x01, 0x82, 0x18, 0x01, 0xd8, 0x18, 0x58, keyb.len() as u8];
            de_bytes.extend_from_slice(&keyb);
        }
        let Ok(de) = Tag24::<DeviceEngagement>::from_bytes(de_bytes.clone()) else { continue };
        let (ho, ho_c): (Handover, Value) = match i % 4 {
            0 => (Handover::QR, Value::Null),
            1 => { let hl = if i % 20 == 5 && i < 200 { 65_536 + ctx.rng.gen_range(0..3000) } else { ctx.rng.gen_range(0..30) }; let hs: Vec<u8> = (0..hl).map(|_| ctx.rng.gen()).collect(); (Handover::NFC(ByteStr::from(hs.clone()), None), arr(vec![bytes(&hs), Value::Null])) }
            2 => { let hs: Vec<u8> = (0..5).map(|_| ctx.rng.gen()).collect(); let hr: Vec<u8> = (0..7).map(|_| ctx.rng.gen()).collect(); (Handover::NFC(ByteStr::from(hs.clone()), Some(ByteStr::from(hr.clone()))), arr(vec![bytes(&hs), bytes(&hr)])) }
            _ => (Handover::OID4VP("nonce-é".into(), "aud".into()), arr(vec![text("nonce-é"), text("aud")])),
        };
        // the first derivations with an NFC handover are tuned so that the SessionTranscript is EXACTLY 65 535, 65 536, 65 537,
        // 255, 256, 23, 24 bytes long … (the sizes at which a CBOR byte-string head changes width)
        let (ho, ho_c) = if i % 4 == 1 && i < 120 && i % 20 != 5 {
            let target = [65_536usize, 65_535, 65_537, 256, 255, 65_536][(i / 4 % 6) as usize];
            let probe = Tag24::new(SessionTranscript180135(de.clone(), key_tag.clone(), Handover::NFC(ByteStr::from(vec![0u8; 100]), None))).unwrap().inner_bytes.len();
            // 100 bytes of handover select cost 2 head bytes; lengths 24..255 cost 2, 256..65535 cost 3
            let fixed = probe - 100 - 2;
            let hl = if target >= fixed + 3 + 256 { target - fixed - 3 } else if target >= fixed + 2 + 24 { target - fixed - 2 } else { 0 };
            let hs: Vec<u8> = (0..hl).map(|_| ctx.rng.gen()).collect();
            ctx.count(&format!("derive:transcript-tuned-to-{target}"));
            (Handover::NFC(ByteStr::from(hs.clone()), None), arr(vec![bytes(&hs), Value::Null]))
        } else { (ho, ho_c) };
        let st = SessionTranscript180135(de, key_tag.clone(), ho);
        let stb = Tag24::new(st).unwrap();
        ctx.count(&format!("derive:transcript-bytes:{}", match stb.inner_bytes.len() { 65_536 => "65536", 65_535 => "65535", 65_537 => "65537", 256 => "256", 255 => "255", n if n > 65_537 => ">65537", _ => "other" }));
        let r = catch(|| (derive_session_key(&ss, &stb, true).map(|k| k.to_vec()), derive_session_key(&ss, &stb, false).map(|k| k.to_vec())));
        let obs = match r { Ok((Ok(a), Ok(b))) => arr(vec![bytes(&a), bytes(&b)]), Ok(_) => text("error"), Err(p) => arr(vec![text("panic"), text(&p)]) };
        let args = vec![bytes(&zab), bytes(&de_bytes), bytes(&keyb), ho_c];
        ctx.case("derive_session_key", json!({"handover": i % 4, "noncanonical_engagement": i % 3 == 1}), obs, Some(("c08.session_keys", args.clone())), Some(("c08.spec_keys", args)), true);
    }
    // (c) peer keys: valid, off-curve, wrong lengths, other curves, OKP, compressed
    let n = ctx.budget(40, 2000);
    for _ in 0..n {
        let sk = p256::SecretKey::random(&mut ctx.rng);
        let ep = sk.public_key().to_encoded_point(false);
        let (x, y) = (ep.x().unwrap().to_vec(), ep.y().unwrap().to_vec());
        let odd = y[31] & 1 == 1;
        shared_secret_case(ctx, "key:valid", CoseKey::EC2 { crv: EC2Curve::P256, x: x.clone(), y: EC2Y::Value(y.clone()) });
        shared_secret_case(ctx, "key:valid-compressed", CoseKey::EC2 { crv: EC2Curve::P256, x: x.clone(), y: EC2Y::SignBit(odd) });
        let mut y2 = y.clone(); y2[ctx.rng.gen_range(0..32)] ^= 1 << ctx.rng.gen_range(0..8);
        shared_secret_case(ctx, "key:off-curve", CoseKey::EC2 { crv: EC2Curve::P256, x: x.clone(), y: EC2Y::Value(y2) });
        shared_secret_case(ctx, "key:zero", CoseKey::EC2 { crv: EC2Curve::P256, x: vec![0; 32], y: EC2Y::Value(vec![0; 32]) });
        // the 64 octets of a REAL point cut elsewhere than 32 | 32
        let xy = [x.clone(), y.clone()].concat();
        for cut in [31usize, 33, 30, 16, 48, 0, 64, 1, 63] {
            shared_secret_case(ctx, "key:real-point-cut-elsewhere", CoseKey::EC2 { crv: EC2Curve::P256, x: xy[..cut].to_vec(), y: EC2Y::Value(xy[cut..].to_vec()) });
        }
        // another curve's label on the COMPRESSED form of a real P-256 point
        for crv in [EC2Curve::P384, EC2Curve::P521, EC2Curve::P256K] {
            shared_secret_case(ctx, "key:other-curve-compressed", CoseKey::EC2 { crv: crv.clone(), x: x.clone(), y: EC2Y::SignBit(odd) });
            shared_secret_case(ctx, "key:other-curve-compressed", CoseKey::EC2 { crv, x: x.clone(), y: EC2Y::SignBit(!odd) });
        }
        for crv in [EC2Curve::P384, EC2Curve::P521, EC2Curve::P256K] {
            shared_secret_case(ctx, "key:other-curve", CoseKey::EC2 { crv, x: x.clone(), y: EC2Y::Value(y.clone()) });
        }
        for len in [0usize, 1, 31, 33, 48, 64, 66] {
            shared_secret_case(ctx, "key:x-length", CoseKey::EC2 { crv: EC2Curve::P256, x: vec![7; len], y: EC2Y::Value(y.clone()) });
            shared_secret_case(ctx, "key:y-length", CoseKey::EC2 { crv: EC2Curve::P256, x: x.clone(), y: EC2Y::Value(vec![7; len]) });
            shared_secret_case(ctx, "key:x-length-compressed", CoseKey::EC2 { crv: EC2Curve::P256, x: vec![7; len], y: EC2Y::SignBit(true) });
        }
        for len in [0usize, 8, 32, 41, 42, 57] {
            for crv in [OKPCurve::X25519, OKPCurve::Ed25519, OKPCurve::Ed448] {
                shared_secret_case(ctx, "key:okp", CoseKey::OKP { crv, x: vec![9; len] });
            }
        }
    }
}
