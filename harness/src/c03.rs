//! C03 — issuer signature accepted only from a trusted document signer
use crate::common::*;
use crate::rauth::*;

pub fn run(ctx: &mut Ctx) {
    let scenes = ctx.budget(3, 60);
    for _ in 0..scenes {
        let mut rng = ctx.rng.clone();
        let Some(sc) = scene_with_key(&mut rng, None) else { ctx.rng = rng; continue };
        let regs = registries(&sc);
        let alts = c03_alts(&mut rng, ctx.thorough);
        for alt in &alts {
            let mut pt = sc.plaintext.clone();
            apply(alt, &sc, &mut pt, &mut rng);
            let all_regs = !matches!(alt, Alt::PayloadFlip(..) | Alt::SigFlip(..));
            for (name, reg) in regs.iter().take(if all_regs { regs.len() } else { 1 }) {
                let rdr = reader_with_registry(&sc.rdr, reg);
                deliver(ctx, "issuer_auth", "c03.spec", &sc, &rdr, reg, name, alt, &pt, None);
            }
        }
        // the forged / replaced certificates again as the SECOND response of a session whose first response was authentic
        if let Some(warm) = warmed_reader(&sc, &sc.rdr) {
            for alt in [Alt::X5Forged(true), Alt::X5Forged(false), Alt::X5SelfSigned, Alt::X5Unrelated, Alt::SigFlip(3, 1), Alt::PayloadFlip(40, 2)] {
                let mut pt = sc.plaintext.clone();
                apply(&alt, &sc, &mut pt, &mut rng);
                deliver(ctx, "issuer_auth_round2", "c03.spec", &sc, &warm, &regs[0].1, regs[0].0, &alt, &pt, None);
            }
        } else { ctx.count("round2:not-reached"); }
        ctx.rng = rng;
    }
}
