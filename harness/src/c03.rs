//! C03 — issuer signature accepted only from a trusted document signer
use crate::common::*;
use crate::rauth::*;

pub fn run(ctx: &mut Ctx) {
    // the document signer's certificate EXPIRES between two responses of one live reader session (same chain, same registry)
    {
        use crate::pki::Pki;
        use crate::sess::*;
        let mut rng = ctx.rng.clone();
        let mut pki = Pki::generate(&mut rng);
        let other_pki = Pki::generate(&mut rng);
        let now = std::time::SystemTime::now().duration_since(std::time::UNIX_EPOCH).unwrap().as_secs();
        if let Some(c) = crate::pki::leaf_cert_valid(&pki.ds_key, &pki.iaca_key, "CN=Test IACA,C=US", "CN=Test DS,C=US", crate::pki::EKU_DS, 92, now - 60, now + 4) { pki.ds = c; }
        let device_key = p256::ecdsa::SigningKey::random(&mut rng);
        let mdoc = issue_with_key(&pki, MDL, new_namespaces(&mut rng), isomdl::definitions::DigestAlgorithm::SHA256, false, cose_key_of(&device_key));
        if let Some(sc) = scene_from(pki, other_pki, mdoc, device_key, isomdl::definitions::DigestAlgorithm::SHA256) {
            let reg = iaca_registry(&sc.pki);
            deliver(ctx, "issuer_auth_before_expiry", "c03.spec", &sc, &sc.rdr, &reg, "right-root", &Alt::None, &sc.plaintext, None);
            match warmed_reader(&sc, &sc.rdr) {
                Some(warm) => {
                    std::thread::sleep(std::time::Duration::from_secs(5));
                    deliver(ctx, "issuer_auth_after_expiry", "c03.spec", &sc, &warm, &reg, "right-root", &Alt::None, &sc.plaintext, None);
                }
                None => ctx.count("across_expiry:first-response-not-valid"),
            }
        }
        ctx.rng = rng;
    }
    let scenes = ctx.budget(3, 60);
    for _ in 0..scenes {
        let mut rng = ctx.rng.clone();
        let Some(sc) = scene_with_key(&mut rng, None) else { ctx.rng = rng; continue };
        let regs = registries(&sc);
        let alts = c03_alts(&mut rng, ctx.thorough);
        for alt in &alts {
            let mut pt = sc.plaintext.clone();
            apply(alt, &sc, &mut pt, &mut rng);
            let all_regs = !matches!(alt, Alt::PayloadFlip(..) | Alt::SigFlip(..));
            for (name, reg) in regs.iter().take(if all_regs { regs.len() } else { 1 }) {
                let rdr = reader_with_registry(&sc.rdr, reg);
                deliver(ctx, "issuer_auth", "c03.spec", &sc, &rdr, reg, name, alt, &pt, None);
            }
        }
        // the forged / replaced certificates again as the SECOND response of a session whose first response was authentic
        if let Some(warm) = warmed_reader(&sc, &sc.rdr) {
            for alt in [Alt::X5Forged(true), Alt::X5Forged(false), Alt::X5SelfSigned, Alt::X5Unrelated, Alt::SigFlip(3, 1), Alt::PayloadFlip(40, 2)] {
                let mut pt = sc.plaintext.clone();
                apply(&alt, &sc, &mut pt, &mut rng);
                deliver(ctx, "issuer_auth_round2", "c03.spec", &sc, &warm, &regs[0].1, regs[0].0, &alt, &pt, None);
            }
        } else { ctx.count("round2:not-reached"); }
        ctx.rng = rng;
    }
}
