//! C03 — issuer signature accepted only from a trusted document signer
use crate::common::*;
use crate::rauth::*;

pub fn run(ctx: &mut Ctx) {
    let scenes = ctx.budget(3, 60);
    for _ in 0..scenes {
        let mut rng = ctx.rng.clone();
        let Some(sc) = scene_with_key(&mut rng, None) else { ctx.rng = rng; continue };
        let regs = registries(&sc);
        let alts = c03_alts(&mut rng, ctx.thorough);
        for alt in &alts {
            let mut pt = sc.plaintext.clone();
            apply(alt, &sc, &mut pt, &mut rng);
            let all_regs = !matches!(alt, Alt::PayloadFlip(..) | Alt::SigFlip(..));
            for (name, reg) in regs.iter().take(if all_regs { regs.len() } else { 1 }) {
                let rdr = reader_with_registry(&sc.rdr, reg);
                deliver(ctx, "issuer_auth", "c03.spec", &sc, &rdr, reg, name, alt, &pt, None);
            }
        }
        ctx.rng = rng;
    }
}
