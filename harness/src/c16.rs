//! C16 — wire structures: `isomdl::cbor::to_vec` / `from_slice` against Model/Wire (coq).
//!
//! Streams:
//!  * valid, Rust-side construction through public fields / constructors: the value is encoded, the
//!    encoding decoded and re-encoded by the implementation; the model (tables from the source) must
//!    agree on accept, re-encoded bytes and typed view; the executable spec (tables from the
//!    standards) must read the same value out of the bytes, find the encoding stable, and see the
//!    implementation's round trip leave value and bytes unchanged;
//!  * valid, hand-rolled CBOR for types with private fields (WifiOptions, NfcOptions,
//!    ServerRetrievalMethods) — also used to construct engagement structures containing them;
//!  * malformed: mutations of valid encodings (missing / duplicated / unknown / null members, wrong
//!    types, out-of-range codes, reordering, truncation, tags); model and implementation must agree
//!    on accept / reject and on what an accepted input re-encodes to;
//!  * validity times (all offsets up to +-23:59:59, any fraction) and CoseKey <-> JWK.
use crate::common::*;
use ciborium::Value;
use coset::{CoseMac0, CoseMac0Builder, CoseSign1, CoseSign1Builder, HeaderBuilder};
use isomdl::cbor::{from_slice, to_vec};
use isomdl::cose::MaybeTagged;
use isomdl::definitions::device_engagement::{
    BleOptions, CentralClientMode, DeviceEngagement, DeviceRetrievalMethod, NfcOptions, PeripheralServerMode, Security,
    ServerRetrievalMethods, WifiOptions,
};
use isomdl::definitions::device_key::cose_key::{EC2Curve, OKPCurve, EC2Y};
use isomdl::definitions::device_request::{DeviceRequest, DocRequest, ItemsRequest};
use isomdl::definitions::device_response::{DeviceResponse, Document, DocumentError, DocumentErrorCode, Errors, Status as RStatus};
use isomdl::definitions::device_signed::{DeviceNamespaces, DeviceSignedItems};
use isomdl::definitions::helpers::{ByteStr, NonEmptyMap, NonEmptyVec, Tag24};
use isomdl::definitions::session::{Handover, SessionData, SessionEstablishment, SessionTranscript180135, Status as SStatus};
use isomdl::definitions::{
    CoseKey, DeviceAuth, DeviceKeyInfo, DeviceSigned, DigestAlgorithm, DigestId, DigestIds, IssuerSigned, IssuerSignedItem,
    KeyAuthorizations, Mso, ValidityInfo,
};
use rand::seq::SliceRandom;
use rand::Rng;
use serde::de::DeserializeOwned;
use serde::Serialize;
use serde_json::json;
use std::collections::BTreeMap;
use time::{Date, Month, OffsetDateTime, PrimitiveDateTime, Time, UtcOffset};

// ------------------------------------------------------------------------------------------------
// small value constructors

fn int(n: i128) -> Value {
    Value::Integer(ciborium::value::Integer::try_from(n).expect("64-bit integer"))
}
fn opt<T>(o: Option<T>, f: impl Fn(T) -> Value) -> Value {
    match o {
        Some(x) => f(x),
        None => Value::Null,
    }
}
fn ser<T: Serialize>(x: &T) -> Value {
    Value::serialized(x).expect("value")
}
fn enc(v: &Value) -> Vec<u8> {
    crate::runner::to_bytes(v)
}

// ------------------------------------------------------------------------------------------------
// typed views: must mirror coq/Api/C16.v view_*

fn ec2_name(c: &EC2Curve) -> &'static str {
    match c {
        EC2Curve::P256 => "P256",
        EC2Curve::P384 => "P384",
        EC2Curve::P521 => "P521",
        EC2Curve::P256K => "P256K",
    }
}
fn okp_name(c: &OKPCurve) -> &'static str {
    match c {
        OKPCurve::X25519 => "X25519",
        OKPCurve::X448 => "X448",
        OKPCurve::Ed25519 => "Ed25519",
        OKPCurve::Ed448 => "Ed448",
    }
}
fn view_cose_key(k: &CoseKey) -> Value {
    match k {
        CoseKey::EC2 { crv, x, y } => arr(vec![
            text("EC2"),
            text(ec2_name(crv)),
            bytes(x),
            match y {
                EC2Y::Value(b) => bytes(b),
                EC2Y::SignBit(s) => Value::Bool(*s),
            },
        ]),
        CoseKey::OKP { crv, x } => arr(vec![text("OKP"), text(okp_name(crv)), bytes(x)]),
    }
}
fn view_t24<T>(t: &Tag24<T>) -> Value {
    bytes(&t.inner_bytes)
}
fn view_session_data(x: &SessionData) -> Value {
    arr(vec![
        opt(x.data.as_ref(), |d| bytes(d.as_ref())),
        opt(x.status.as_ref(), |s| {
            text(match s {
                SStatus::SessionEncryptionError => "SessionEncryptionError",
                SStatus::CborDecodingError => "CborDecodingError",
                SStatus::SessionTermination => "SessionTermination",
            })
        }),
    ])
}
fn view_session_establishment(x: &SessionEstablishment) -> Value {
    arr(vec![view_cose_key(x.e_reader_key.as_ref()), view_t24(&x.e_reader_key), bytes(x.data.as_ref())])
}
fn view_handover(h: &Handover) -> Value {
    match h {
        Handover::QR => arr(vec![text("QR")]),
        Handover::NFC(a, b) => arr(vec![text("NFC"), bytes(a.as_ref()), opt(b.as_ref(), |x| bytes(x.as_ref()))]),
        Handover::OID4VP(a, b) => arr(vec![text("OID4VP"), text(a), text(b)]),
    }
}
fn view_ble(o: &BleOptions) -> Value {
    arr(vec![
        opt(o.peripheral_server_mode.as_ref(), |p| {
            arr(vec![bytes(p.uuid.as_bytes()), opt(p.ble_device_address.as_ref(), |a| bytes(a.as_ref()))])
        }),
        opt(o.central_client_mode.as_ref(), |c| bytes(c.uuid.as_bytes())),
    ])
}
fn view_method(m: &DeviceRetrievalMethod) -> Value {
    match m {
        DeviceRetrievalMethod::BLE(o) => arr(vec![text("BLE"), view_ble(o)]),
        DeviceRetrievalMethod::NFC(_) => arr(vec![text("NFC")]),
        DeviceRetrievalMethod::WIFI(_) => arr(vec![text("WIFI")]),
    }
}
fn view_engagement(e: &DeviceEngagement) -> Value {
    arr(vec![
        text(&e.version),
        uint(e.security.0),
        view_cose_key(e.security.1.as_ref()),
        view_t24(&e.security.1),
        opt(e.device_retrieval_methods.as_ref(), |l| arr(l.iter().map(view_method).collect())),
        Value::Bool(e.server_retrieval_methods.is_some()),
        opt(e.protocol_info.as_ref(), |v| v.clone()),
    ])
}
fn view_transcript(x: &SessionTranscript180135) -> Value {
    arr(vec![view_t24(&x.0), view_t24(&x.1), view_handover(&x.2)])
}
fn view_items_request(x: &ItemsRequest) -> Value {
    arr(vec![
        text(&x.doc_type),
        arr(x
            .namespaces
            .iter()
            .map(|(ns, els)| arr(vec![text(ns), arr(els.iter().map(|(k, v)| arr(vec![text(k), Value::Bool(*v)])).collect())]))
            .collect()),
        opt(x.request_info.as_ref(), |m| arr(m.iter().map(|(k, v)| arr(vec![text(k), v.clone()])).collect())),
    ])
}
fn view_doc_request(x: &DocRequest) -> Value {
    arr(vec![view_items_request(x.items_request.as_ref()), view_t24(&x.items_request), opt(x.reader_auth.as_ref(), ser)])
}
fn view_device_request(x: &DeviceRequest) -> Value {
    arr(vec![text(&x.version), arr(x.doc_requests.iter().map(view_doc_request).collect())])
}
fn view_date(d: &OffsetDateTime) -> Value {
    arr(vec![text("dt"), int(d.unix_timestamp() as i128), uint(d.nanosecond() as u64), int(d.offset().whole_seconds() as i128)])
}
fn view_validity(v: &ValidityInfo) -> Value {
    arr(vec![view_date(&v.signed), view_date(&v.valid_from), view_date(&v.valid_until), opt(v.expected_update.as_ref(), view_date)])
}
fn view_key_auth(k: &KeyAuthorizations) -> Value {
    arr(vec![
        opt(k.namespaces.as_ref(), |l| arr(l.iter().map(|s| text(s)).collect())),
        opt(k.data_elements.as_ref(), |m| {
            arr(m.iter().map(|(ns, l)| arr(vec![text(ns), arr(l.iter().map(|s| text(s)).collect())])).collect())
        }),
    ])
}
fn view_dki(k: &DeviceKeyInfo) -> Value {
    arr(vec![
        view_cose_key(&k.device_key),
        opt(k.key_authorizations.as_ref(), view_key_auth),
        opt(k.key_info.as_ref(), |m| arr(m.iter().map(|(i, v)| arr(vec![ser(i), v.clone()])).collect())),
    ])
}
fn view_digest_ids(d: &DigestIds) -> Value {
    arr(d.iter().map(|(id, b)| arr(vec![ser(id), bytes(b.as_ref())])).collect())
}
fn view_mso(m: &Mso) -> Value {
    arr(vec![
        text(&m.version),
        text(match m.digest_algorithm {
            DigestAlgorithm::SHA256 => "SHA256",
            DigestAlgorithm::SHA384 => "SHA384",
            DigestAlgorithm::SHA512 => "SHA512",
        }),
        arr(m.value_digests.iter().map(|(ns, d)| arr(vec![text(ns), view_digest_ids(d)])).collect()),
        view_dki(&m.device_key_info),
        text(&m.doc_type),
        view_validity(&m.validity_info),
    ])
}
fn view_item(x: &IssuerSignedItem) -> Value {
    arr(vec![ser(&x.digest_id), bytes(x.random.as_ref()), text(&x.element_identifier), x.element_value.clone()])
}
fn view_issuer_signed(x: &IssuerSigned) -> Value {
    arr(vec![
        opt(x.namespaces.as_ref(), |m| {
            arr(m
                .iter()
                .map(|(ns, l)| arr(vec![text(ns), arr(l.iter().map(|t| arr(vec![view_item(t.as_ref()), view_t24(t)])).collect())]))
                .collect())
        }),
        ser(&x.issuer_auth),
    ])
}
fn view_device_auth(a: &DeviceAuth) -> Value {
    match a {
        DeviceAuth::DeviceSignature(s) => arr(vec![text("DeviceSignature"), ser(s)]),
        DeviceAuth::DeviceMac(m) => arr(vec![text("DeviceMac"), ser(m)]),
    }
}
fn view_device_signed(x: &DeviceSigned) -> Value {
    arr(vec![view_t24(&x.namespaces), view_device_auth(&x.device_auth)])
}
fn view_error_code(c: &DocumentErrorCode) -> Value {
    match c {
        DocumentErrorCode::DataNotReturned => text("DataNotReturned"),
        DocumentErrorCode::ApplicationSpecific(i) => ser(i),
    }
}
fn view_document_error(d: &DocumentError) -> Value {
    arr(d.iter().map(|(k, c)| arr(vec![text(k), view_error_code(c)])).collect())
}
fn view_errors(e: &Errors) -> Value {
    arr(e
        .iter()
        .map(|(ns, m)| arr(vec![text(ns), arr(m.iter().map(|(k, c)| arr(vec![text(k), view_error_code(c)])).collect())]))
        .collect())
}
fn view_document(d: &Document) -> Value {
    arr(vec![text(&d.doc_type), view_issuer_signed(&d.issuer_signed), view_device_signed(&d.device_signed), opt(d.errors.as_ref(), view_errors)])
}
fn rstatus_name(s: &RStatus) -> &'static str {
    match s {
        RStatus::OK => "OK",
        RStatus::GeneralError => "GeneralError",
        RStatus::CborDecodingError => "CborDecodingError",
        RStatus::CborValidationError => "CborValidationError",
    }
}
fn view_response(r: &DeviceResponse) -> Value {
    arr(vec![
        text(&r.version),
        opt(r.documents.as_ref(), |l| arr(l.iter().map(view_document).collect())),
        opt(r.document_errors.as_ref(), |l| arr(l.iter().map(view_document_error).collect())),
        text(rstatus_name(&r.status)),
    ])
}
fn view_null<T>(_: &T) -> Value {
    Value::Null
}

// ------------------------------------------------------------------------------------------------
// the two kinds of case

/// implementation: decode `bytes` as T, re-encode, view.  [1, bytes, view] | [0, null, null] | [2, panic] | [3, ..]
fn impl_obs<T: Serialize + DeserializeOwned>(b: &[u8], view: &dyn Fn(&T) -> Value) -> Value {
    match catch(|| from_slice::<T>(b)) {
        Err(p) => arr(vec![uint(2), text("decode panicked"), text(&p)]),
        Ok(Err(_)) => arr(vec![uint(0), Value::Null, Value::Null]),
        Ok(Ok(y)) => match catch(|| to_vec(&y)) {
            Err(p) => arr(vec![uint(2), text("encode panicked"), text(&p)]),
            Ok(Err(_)) => arr(vec![uint(3), text("decoded value does not encode"), Value::Null]),
            Ok(Ok(re)) => arr(vec![uint(1), bytes(&re), view(&y)]),
        },
    }
}

/// a valid value constructed on the Rust side
fn valid<T: Serialize + DeserializeOwned>(ctx: &mut Ctx, ty: &str, how: &str, x: &T, view: &dyn Fn(&T) -> Value) {
    let b = match catch(|| to_vec(x)) {
        Ok(Ok(b)) => b,
        other => {
            ctx.count(&format!("valid_value_does_not_encode:{ty}"));
            let obs = arr(vec![uint(4), text("valid value does not encode"), text(&format!("{:?}", other.map(|r| r.is_ok())))]);
            ctx.case(&format!("valid:{ty}"), json!({"type": ty, "how": how}), obs, None, Some(("c16.spec", vec![text(ty), view(x), bytes(&[])])), true);
            return;
        }
    };
    let obs = impl_obs::<T>(&b, view);
    ctx.count(&format!("len:{}", match b.len() { 0..=23 => "<24", 24..=255 => "<256", 256..=65535 => "<64K", _ => ">=64K" }));
    let desc = json!({"type": ty, "how": how, "encoding": hex::encode(&b)});
    ctx.case(
        &format!("valid:{ty}"),
        desc,
        obs,
        Some(("c16.decode_encode", vec![text(ty), bytes(&b)])),
        Some(("c16.spec", vec![text(ty), view(x), bytes(&b)])),
        true,
    );
}

/// any bytes: model and implementation must agree on accept / reject, re-encoding and view
fn decode_case<T: Serialize + DeserializeOwned>(ctx: &mut Ctx, ty: &str, label: &str, how: &str, b: &[u8], view: &dyn Fn(&T) -> Value) -> bool {
    decode_case_spec::<T>(ctx, ty, label, how, b, view, false)
}
/// `with_spec`: the input is a valid encoding by construction (hand-rolled), so the executable spec applies too
fn decode_case_spec<T: Serialize + DeserializeOwned>(ctx: &mut Ctx, ty: &str, label: &str, how: &str, b: &[u8], view: &dyn Fn(&T) -> Value, with_spec: bool) -> bool {
    let obs = impl_obs::<T>(b, view);
    let accepted = matches!(&obs, Value::Array(a) if a[0] == uint(1));
    ctx.count(if accepted { "malformed:accepted" } else { "malformed:rejected" });
    let desc = json!({"type": ty, "how": how, "input": hex::encode(b)});
    let spec = if with_spec { Some(("c16.spec", vec![text(ty), Value::Null, bytes(b)])) } else { None };
    ctx.case(&format!("{label}:{ty}"), desc, obs, Some(("c16.decode_encode", vec![text(ty), bytes(b)])), spec, true);
    accepted
}

// ------------------------------------------------------------------------------------------------
// generators

const BOUNDARY_LENS: [usize; 9] = [0, 1, 16, 23, 24, 32, 255, 256, 300];

fn gen_len(ctx: &mut Ctx, max: usize) -> usize {
    if ctx.rng.gen_bool(0.25) {
        *BOUNDARY_LENS.choose(&mut ctx.rng).unwrap().min(&max)
    } else {
        ctx.rng.gen_range(0..=max.min(40))
    }
}
fn gen_bytes(ctx: &mut Ctx, max: usize) -> Vec<u8> {
    let n = gen_len(ctx, max);
    (0..n).map(|_| ctx.rng.gen()).collect()
}
fn gen_text(ctx: &mut Ctx) -> String {
    const POOL: [&str; 12] = ["", "a", "org.iso.18013.5.1", "org.iso.18013.5.1.mDL", "family_name", "age_over_18", "é", "日本", "Z", "data", "x y", "\u{1F600}"];
    match ctx.rng.gen_range(0..10) {
        0..=4 => POOL.choose(&mut ctx.rng).unwrap().to_string(),
        5 => {
            let n = *BOUNDARY_LENS.choose(&mut ctx.rng).unwrap();
            "k".repeat(n)
        }
        _ => {
            let n = ctx.rng.gen_range(1..12);
            (0..n).map(|_| *b"abcdefghijklmnopqrstuvwxyz_.0123456789AZ".choose(&mut ctx.rng).unwrap() as char).collect()
        }
    }
}
const BOUNDARY_INTS: [i128; 22] = [
    0, 1, 23, 24, 255, 256, 65535, 65536, 4294967295, 4294967296, 9223372036854775807, 18446744073709551615, -1, -24, -25, -256, -257, -65536,
    -65537, -4294967297, -9223372036854775808, -18446744073709551616,
];
fn gen_value(ctx: &mut Ctx, depth: u32) -> Value {
    // every 25th structured value is DEEP: arrays, one-entry maps and tags nested 10 … 200 levels (ciborium's own limit
    // is 256): what the library can encode it must be able to decode
    static CALLS: std::sync::atomic::AtomicUsize = std::sync::atomic::AtomicUsize::new(0);
    if depth >= 1 {
        let c = CALLS.fetch_add(1, std::sync::atomic::Ordering::Relaxed);
        if c % 25 == 24 {
            let levels = [10usize, 30, 31, 32, 33, 40, 64, 100, 128, 200][c / 25 % 10];
            let mut v = Value::Integer(7.into());
            for l in 0..levels {
                v = match (l + c / 25) % 3 { 0 => Value::Array(vec![v]), 1 => Value::Map(vec![(Value::Text("k".into()), v)]), _ => Value::Tag(1004, Box::new(v)) };
            }
            ctx.count("value:deeply-nested");
            return v;
        }
    }
    let k = if depth == 0 { ctx.rng.gen_range(0..7) } else { ctx.rng.gen_range(0..10) };
    match k {
        0 => int(*BOUNDARY_INTS.choose(&mut ctx.rng).unwrap()),
        1 => int(ctx.rng.gen_range(-1000..1000)),
        2 => Value::Bytes(gen_bytes(ctx, 300)),
        3 => Value::Text(gen_text(ctx)),
        4 => Value::Bool(ctx.rng.gen()),
        5 => Value::Null,
        6 => Value::Float(*[0.0, 1.5, -2.25, 100000.0, 1.0e300, 0.1].choose(&mut ctx.rng).unwrap()),
        7 => {
            let n = ctx.rng.gen_range(0..4);
            Value::Array((0..n).map(|_| gen_value(ctx, depth - 1)).collect())
        }
        8 => {
            let n = ctx.rng.gen_range(0..3);
            Value::Map((0..n).map(|_| (gen_value(ctx, 0), gen_value(ctx, depth - 1))).collect())
        }
        _ => Value::Tag(*[0u64, 1, 24, 1004, 4294967296].choose(&mut ctx.rng).unwrap(), Box::new(gen_value(ctx, depth - 1))),
    }
}
fn gen_str_map<V>(ctx: &mut Ctx, min: usize, max: usize, mut f: impl FnMut(&mut Ctx) -> V) -> BTreeMap<String, V> {
    let n = ctx.rng.gen_range(min..=max);
    let mut m = BTreeMap::new();
    let mut guard = 0;
    while m.len() < n && guard < 50 {
        let k = gen_text(ctx);
        let v = f(ctx);
        m.insert(k, v);
        guard += 1;
    }
    m
}
fn ne_map<K: Ord + Clone, V: Clone>(m: BTreeMap<K, V>) -> NonEmptyMap<K, V> {
    NonEmptyMap::maybe_new(m).expect("non-empty")
}
fn ne_vec<T: Clone>(v: Vec<T>) -> NonEmptyVec<T> {
    NonEmptyVec::maybe_new(v).expect("non-empty")
}

fn gen_cose_key(ctx: &mut Ctx) -> CoseKey {
    let coord = |ctx: &mut Ctx, n: usize| -> Vec<u8> {
        match ctx.rng.gen_range(0..10) {
            0 => vec![],
            1 => gen_bytes(ctx, 80),
            _ => (0..n).map(|_| ctx.rng.gen()).collect(),
        }
    };
    if ctx.rng.gen_bool(0.7) {
        let (crv, n) = match ctx.rng.gen_range(0..4) {
            0 => (EC2Curve::P256, 32),
            1 => (EC2Curve::P384, 48),
            2 => (EC2Curve::P521, 66),
            _ => (EC2Curve::P256K, 32),
        };
        let x = coord(ctx, n);
        let y = if ctx.rng.gen_bool(0.8) { EC2Y::Value(coord(ctx, n)) } else { EC2Y::SignBit(ctx.rng.gen()) };
        ctx.count(&format!("key:EC2:{}", ec2_name(&crv)));
        CoseKey::EC2 { crv, x, y }
    } else {
        let (crv, n) = match ctx.rng.gen_range(0..4) {
            0 => (OKPCurve::X25519, 32),
            1 => (OKPCurve::X448, 56),
            2 => (OKPCurve::Ed25519, 32),
            _ => (OKPCurve::Ed448, 57),
        };
        ctx.count(&format!("key:OKP:{}", okp_name(&crv)));
        CoseKey::OKP { crv, x: coord(ctx, n) }
    }
}
fn gen_uuid(ctx: &mut Ctx) -> uuid::Uuid {
    uuid::Uuid::from_bytes(ctx.rng.gen())
}
fn gen_ble(ctx: &mut Ctx) -> BleOptions {
    let peripheral_server_mode = if ctx.rng.gen_bool(0.6) {
        Some(PeripheralServerMode {
            uuid: gen_uuid(ctx),
            ble_device_address: if ctx.rng.gen_bool(0.5) { Some(ByteStr::from(gen_bytes(ctx, 8))) } else { None },
        })
    } else {
        None
    };
    let central_client_mode = if ctx.rng.gen_bool(0.6) { Some(CentralClientMode { uuid: gen_uuid(ctx) }) } else { None };
    BleOptions { peripheral_server_mode, central_client_mode }
}
/// hand-rolled (private fields): WifiOptions as CBOR
fn gen_wifi_cbor(ctx: &mut Ctx) -> Value {
    let mut m = vec![];
    if ctx.rng.gen_bool(0.5) {
        m.push((uint(0), Value::Text(gen_text(ctx))));
    }
    if ctx.rng.gen_bool(0.5) {
        m.push((uint(1), int(*BOUNDARY_INTS[..12].choose(&mut ctx.rng).unwrap())));
    }
    if ctx.rng.gen_bool(0.5) {
        m.push((uint(2), uint(ctx.rng.gen_range(0..200))));
    }
    if ctx.rng.gen_bool(0.5) {
        m.push((uint(3), Value::Bytes(gen_bytes(ctx, 30))));
    }
    Value::Map(m)
}
/// hand-rolled: NfcOptions within the documented ranges (boundaries favoured)
fn gen_nfc_cbor(ctx: &mut Ctx) -> Value {
    let c = *[255u64, 256, 1000, 65534, 65535].choose(&mut ctx.rng).unwrap();
    let r = *[256u64, 257, 4096, 65535, 65536].choose(&mut ctx.rng).unwrap();
    Value::Map(vec![(uint(0), uint(c)), (uint(1), uint(r))])
}
fn gen_token(ctx: &mut Ctx) -> Value {
    arr(vec![int(*BOUNDARY_INTS[..12].choose(&mut ctx.rng).unwrap()), Value::Text(gen_text(ctx)), Value::Text(gen_text(ctx))])
}
fn gen_server_cbor(ctx: &mut Ctx) -> Value {
    let mut m = vec![];
    if ctx.rng.gen_bool(0.5) {
        m.push((text("webApi"), gen_token(ctx)));
    }
    if ctx.rng.gen_bool(0.5) {
        m.push((text("oidc"), gen_token(ctx)));
    }
    Value::Map(m)
}
fn gen_method(ctx: &mut Ctx) -> DeviceRetrievalMethod {
    match ctx.rng.gen_range(0..3) {
        0 => DeviceRetrievalMethod::BLE(gen_ble(ctx)),
        1 => {
            let v = gen_nfc_cbor(ctx);
            // a refusal of this valid encoding is reported by the hand-rolled stream (with the spec); here: fall back
            match from_slice::<NfcOptions>(&enc(&v)) { Ok(o) => DeviceRetrievalMethod::NFC(o), Err(_) => { ctx.count("generator:valid NfcOptions refused"); DeviceRetrievalMethod::BLE(gen_ble(ctx)) } }
        }
        _ => {
            let v = gen_wifi_cbor(ctx);
            match from_slice::<WifiOptions>(&enc(&v)) { Ok(o) => DeviceRetrievalMethod::WIFI(o), Err(_) => { ctx.count("generator:valid WifiOptions refused"); DeviceRetrievalMethod::BLE(gen_ble(ctx)) } }
        }
    }
}
fn gen_engagement(ctx: &mut Ctx, protocol_info: bool) -> DeviceEngagement {
    let key = gen_cose_key(ctx);
    let suite = *[1u64, 0, 2, 255, u64::MAX].choose(&mut ctx.rng).unwrap();
    let device_retrieval_methods = if ctx.rng.gen_bool(0.7) {
        let n = ctx.rng.gen_range(1..4);
        Some(ne_vec((0..n).map(|_| gen_method(ctx)).collect()))
    } else {
        None
    };
    let server_retrieval_methods = if ctx.rng.gen_bool(0.4) {
        let v = gen_server_cbor(ctx);
        match from_slice::<ServerRetrievalMethods>(&enc(&v)) { Ok(o) => Some(o), Err(_) => { ctx.count("generator:valid ServerRetrievalMethods refused"); None } }
    } else {
        None
    };
    DeviceEngagement {
        version: "1.0".into(),
        security: Security(suite, Tag24::new(key).expect("tag24")),
        device_retrieval_methods,
        server_retrieval_methods,
        protocol_info: if protocol_info { Some(if ctx.rng.gen_bool(0.1) { Value::Null } else { gen_value(ctx, 1) }) } else { None },
    }
}
fn gen_handover(ctx: &mut Ctx) -> Handover {
    match ctx.rng.gen_range(0..4) {
        0 => Handover::QR,
        1 => Handover::NFC(ByteStr::from(gen_bytes(ctx, 40)), None),
        2 => {
            // byte strings that are valid UTF-8 matter: an untagged String variant tried first would take them
            let a = if ctx.rng.gen_bool(0.5) { gen_text(ctx).into_bytes() } else { gen_bytes(ctx, 40) };
            let b = if ctx.rng.gen_bool(0.5) { gen_text(ctx).into_bytes() } else { gen_bytes(ctx, 40) };
            Handover::NFC(ByteStr::from(a), Some(ByteStr::from(b)))
        }
        _ => Handover::OID4VP(gen_text(ctx), gen_text(ctx)),
    }
}
fn gen_sign1(ctx: &mut Ctx) -> MaybeTagged<CoseSign1> {
    let mut b = CoseSign1Builder::new();
    if ctx.rng.gen_bool(0.8) {
        b = b.protected(HeaderBuilder::new().algorithm(coset::iana::Algorithm::ES256).build());
    }
    if ctx.rng.gen_bool(0.5) {
        b = b.unprotected(HeaderBuilder::new().key_id(gen_bytes(ctx, 8)).build());
    }
    if ctx.rng.gen_bool(0.5) {
        b = b.payload(gen_bytes(ctx, 40));
    }
    b = b.signature(gen_bytes(ctx, 64));
    MaybeTagged::new(ctx.rng.gen(), b.build())
}
fn gen_mac0(ctx: &mut Ctx) -> MaybeTagged<CoseMac0> {
    let mut b = CoseMac0Builder::new().protected(HeaderBuilder::new().algorithm(coset::iana::Algorithm::HMAC_256_256).build());
    if ctx.rng.gen_bool(0.3) {
        b = b.payload(gen_bytes(ctx, 20));
    }
    b = b.tag(gen_bytes(ctx, 32));
    MaybeTagged::new(ctx.rng.gen(), b.build())
}
fn gen_items_request(ctx: &mut Ctx) -> ItemsRequest {
    let namespaces = ne_map(gen_str_map(ctx, 1, 3, |ctx| ne_map(gen_str_map(ctx, 1, 4, |ctx| ctx.rng.gen::<bool>()))));
    ItemsRequest {
        doc_type: gen_text(ctx),
        namespaces,
        request_info: if ctx.rng.gen_bool(0.4) { Some(gen_str_map(ctx, 0, 3, |ctx| gen_value(ctx, 1))) } else { None },
    }
}
fn gen_doc_request(ctx: &mut Ctx) -> DocRequest {
    DocRequest {
        items_request: Tag24::new(gen_items_request(ctx)).expect("tag24"),
        reader_auth: if ctx.rng.gen_bool(0.5) { Some(gen_sign1(ctx)) } else { None },
    }
}
fn gen_device_request(ctx: &mut Ctx) -> DeviceRequest {
    let n = ctx.rng.gen_range(1..4);
    DeviceRequest { version: if ctx.rng.gen_bool(0.8) { "1.0".into() } else { gen_text(ctx) }, doc_requests: ne_vec((0..n).map(|_| gen_doc_request(ctx)).collect()) }
}

/// a date-time from explicit fields (so that the same fields can be handed to the model)
fn mk_date(f: &[i64; 8]) -> Option<OffsetDateTime> {
    let d = Date::from_calendar_date(f[0] as i32, Month::try_from(f[1] as u8).ok()?, f[2] as u8).ok()?;
    let t = Time::from_hms_nano(f[3] as u8, f[4] as u8, f[5] as u8, f[6] as u32).ok()?;
    Some(PrimitiveDateTime::new(d, t).assume_offset(UtcOffset::from_whole_seconds(f[7] as i32).ok()?))
}
fn gen_date_fields(ctx: &mut Ctx, normal: bool) -> [i64; 8] {
    let y = match ctx.rng.gen_range(0..10) {
        0 => *[1i64, 2, 1600, 1900, 1970, 2000, 2100, 2400, 9998].choose(&mut ctx.rng).unwrap(),
        1 => ctx.rng.gen_range(1..9999),
        _ => ctx.rng.gen_range(1990..2060),
    };
    let m = ctx.rng.gen_range(1..=12);
    let leap = (y % 4 == 0 && y % 100 != 0) || y % 400 == 0;
    let dim = match m {
        2 => {
            if leap {
                29
            } else {
                28
            }
        }
        4 | 6 | 9 | 11 => 30,
        _ => 31,
    };
    let d = if ctx.rng.gen_bool(0.3) { *[1, dim].choose(&mut ctx.rng).unwrap() } else { ctx.rng.gen_range(1..=dim) };
    let (h, mi, s) = if ctx.rng.gen_bool(0.3) {
        *[(0, 0, 0), (23, 59, 59), (12, 0, 0), (0, 0, 1)].choose(&mut ctx.rng).unwrap()
    } else {
        (ctx.rng.gen_range(0..24), ctx.rng.gen_range(0..60), ctx.rng.gen_range(0..60))
    };
    let (ns, off) = if normal {
        (0, 0)
    } else {
        let ns = match ctx.rng.gen_range(0..4) {
            0 => 0,
            1 => *[1i64, 999_999_999, 500_000_000, 1_000_000, 999_999, 101_000_000].choose(&mut ctx.rng).unwrap(),
            _ => ctx.rng.gen_range(0..1_000_000_000),
        };
        let off = match ctx.rng.gen_range(0..5) {
            0 => 0,
            1 => *[86399i64, -86399, 3600, -3600, 19800, -34200, 1, -1, 59, 86340].choose(&mut ctx.rng).unwrap(),
            2 => ctx.rng.gen_range(-86399..=86399),
            _ => ctx.rng.gen_range(-14..=14) * 3600 + *[0i64, 1800, 2700].choose(&mut ctx.rng).unwrap() * if ctx.rng.gen() { 1 } else { 0 },
        };
        (ns, off.clamp(-86399, 86399))
    };
    [y, m, d, h, mi, s, ns, off]
}
fn gen_date(ctx: &mut Ctx, normal: bool) -> OffsetDateTime {
    let f = gen_date_fields(ctx, normal);
    if f[7] != 0 {
        ctx.count("time:non_utc_offset");
    }
    if f[6] != 0 {
        ctx.count("time:sub_second");
    }
    mk_date(&f).expect("valid date")
}
fn gen_validity(ctx: &mut Ctx) -> ValidityInfo {
    let normal = ctx.rng.gen_bool(0.3);
    ValidityInfo {
        signed: gen_date(ctx, normal),
        valid_from: gen_date(ctx, normal),
        valid_until: gen_date(ctx, normal),
        expected_update: if ctx.rng.gen_bool(0.5) {
            ctx.count("validity:expectedUpdate");
            Some(gen_date(ctx, normal))
        } else {
            None
        },
    }
}
fn gen_key_auth(ctx: &mut Ctx) -> KeyAuthorizations {
    KeyAuthorizations {
        namespaces: if ctx.rng.gen_bool(0.5) {
            let n = ctx.rng.gen_range(1..4);
            Some(ne_vec((0..n).map(|_| gen_text(ctx)).collect()))
        } else {
            None
        },
        data_elements: if ctx.rng.gen_bool(0.5) {
            Some(ne_map(gen_str_map(ctx, 1, 3, |ctx| {
                let n = ctx.rng.gen_range(1..4);
                ne_vec((0..n).map(|_| gen_text(ctx)).collect())
            })))
        } else {
            None
        },
    }
}
fn gen_dki(ctx: &mut Ctx) -> DeviceKeyInfo {
    let key_authorizations = if ctx.rng.gen_bool(0.5) {
        ctx.count("dki:keyAuthorizations");
        Some(gen_key_auth(ctx))
    } else {
        None
    };
    let key_info = if ctx.rng.gen_bool(0.4) {
        let n = ctx.rng.gen_range(0..4);
        let mut m = BTreeMap::new();
        for _ in 0..n {
            let k: i128 = if ctx.rng.gen_bool(0.5) { *BOUNDARY_INTS.choose(&mut ctx.rng).unwrap() } else { ctx.rng.gen_range(-50..50) };
            m.insert(k, gen_value(ctx, 1));
        }
        Some(m)
    } else {
        None
    };
    DeviceKeyInfo { device_key: gen_cose_key(ctx), key_authorizations, key_info }
}
fn gen_digest_ids(ctx: &mut Ctx) -> DigestIds {
    let n = ctx.rng.gen_range(0..6);
    let mut m = BTreeMap::new();
    for _ in 0..n {
        let id = if ctx.rng.gen_bool(0.3) { *[0i32, 1, 23, 24, 255, 256, 65535, 65536, i32::MAX].choose(&mut ctx.rng).unwrap() } else { ctx.rng.gen_range(0..1000) };
        m.insert(DigestId::new(id), ByteStr::from(gen_bytes(ctx, 64)));
    }
    m
}
fn gen_mso(ctx: &mut Ctx) -> Mso {
    Mso {
        version: "1.0".into(),
        digest_algorithm: *[DigestAlgorithm::SHA256, DigestAlgorithm::SHA384, DigestAlgorithm::SHA512].choose(&mut ctx.rng).unwrap(),
        value_digests: gen_str_map(ctx, 0, 3, gen_digest_ids),
        device_key_info: gen_dki(ctx),
        doc_type: gen_text(ctx),
        validity_info: gen_validity(ctx),
    }
}
fn gen_item(ctx: &mut Ctx) -> IssuerSignedItem {
    IssuerSignedItem {
        digest_id: DigestId::new(if ctx.rng.gen_bool(0.2) { i32::MAX } else { ctx.rng.gen_range(0..100000) }),
        random: ByteStr::from(gen_bytes(ctx, 32)),
        element_identifier: gen_text(ctx),
        element_value: gen_value(ctx, 2),
    }
}
fn gen_issuer_signed(ctx: &mut Ctx) -> IssuerSigned {
    IssuerSigned {
        namespaces: if ctx.rng.gen_bool(0.7) {
            Some(ne_map(gen_str_map(ctx, 1, 2, |ctx| {
                let n = ctx.rng.gen_range(1..4);
                ne_vec((0..n).map(|_| Tag24::new(gen_item(ctx)).expect("tag24")).collect())
            })))
        } else {
            None
        },
        issuer_auth: gen_sign1(ctx),
    }
}
fn gen_device_auth(ctx: &mut Ctx) -> DeviceAuth {
    if ctx.rng.gen() {
        DeviceAuth::DeviceSignature(gen_sign1(ctx))
    } else {
        DeviceAuth::DeviceMac(gen_mac0(ctx))
    }
}
fn gen_device_signed(ctx: &mut Ctx) -> DeviceSigned {
    let ns: DeviceNamespaces = gen_str_map(ctx, 0, 2, |ctx| -> DeviceSignedItems { ne_map(gen_str_map(ctx, 1, 3, |ctx| gen_value(ctx, 1))) });
    DeviceSigned { namespaces: Tag24::new(ns).expect("tag24"), device_auth: gen_device_auth(ctx) }
}
fn gen_error_code(ctx: &mut Ctx) -> DocumentErrorCode {
    match ctx.rng.gen_range(0..4) {
        0 => DocumentErrorCode::DataNotReturned,
        1 => {
            ctx.count("error_code:application_specific_boundary");
            DocumentErrorCode::ApplicationSpecific(
                *[-1i128, -24, -25, -256, -257, -65537, -9223372036854775808, -18446744073709551616, -18446744073709551617, i128::MIN].choose(&mut ctx.rng).unwrap(),
            )
        }
        _ => {
            ctx.count("error_code:application_specific");
            DocumentErrorCode::ApplicationSpecific(-ctx.rng.gen_range(1..100000))
        }
    }
}
fn gen_errors(ctx: &mut Ctx) -> Errors {
    ne_map(gen_str_map(ctx, 1, 2, |ctx| ne_map(gen_str_map(ctx, 1, 3, gen_error_code))))
}
fn gen_document_error(ctx: &mut Ctx) -> DocumentError {
    gen_str_map(ctx, 0, 3, gen_error_code)
}
fn gen_document(ctx: &mut Ctx) -> Document {
    Document {
        doc_type: gen_text(ctx),
        issuer_signed: gen_issuer_signed(ctx),
        device_signed: gen_device_signed(ctx),
        errors: if ctx.rng.gen_bool(0.4) { Some(gen_errors(ctx)) } else { None },
    }
}
fn gen_rstatus(ctx: &mut Ctx) -> RStatus {
    match ctx.rng.gen_range(0..4) {
        0 => RStatus::OK,
        1 => RStatus::GeneralError,
        2 => RStatus::CborDecodingError,
        _ => RStatus::CborValidationError,
    }
}
fn gen_response(ctx: &mut Ctx) -> DeviceResponse {
    DeviceResponse {
        version: "1.0".into(),
        documents: if ctx.rng.gen_bool(0.7) {
            let n = ctx.rng.gen_range(1..3);
            Some(ne_vec((0..n).map(|_| gen_document(ctx)).collect()))
        } else {
            None
        },
        document_errors: if ctx.rng.gen_bool(0.5) {
            let n = ctx.rng.gen_range(1..3);
            Some(ne_vec((0..n).map(|_| gen_document_error(ctx)).collect()))
        } else {
            None
        },
        status: gen_rstatus(ctx),
    }
}
fn gen_session_data(ctx: &mut Ctx) -> SessionData {
    SessionData {
        data: if ctx.rng.gen_bool(0.6) { Some(ByteStr::from(gen_bytes(ctx, 300))) } else { None },
        status: match ctx.rng.gen_range(0..5) {
            0 => Some(SStatus::SessionEncryptionError),
            1 => Some(SStatus::CborDecodingError),
            2 => Some(SStatus::SessionTermination),
            _ => None,
        },
    }
}

// ------------------------------------------------------------------------------------------------
// malformed stream: structural mutations of a valid encoding

fn parse(b: &[u8]) -> Option<Value> {
    crate::runner::from_bytes(b)
}

fn junk(ctx: &mut Ctx) -> Value {
    match ctx.rng.gen_range(0..9) {
        0 => Value::Null,
        1 => int(*BOUNDARY_INTS.choose(&mut ctx.rng).unwrap()),
        2 => Value::Text(gen_text(ctx)),
        3 => Value::Bytes(gen_bytes(ctx, 20)),
        4 => Value::Bool(ctx.rng.gen()),
        5 => Value::Array(vec![]),
        6 => Value::Map(vec![]),
        7 => Value::Array(vec![uint(1), uint(2), uint(3)]),
        _ => int(ctx.rng.gen_range(-30..30)),
    }
}

/// COSE_Sign1 / COSE_Mac0 (optionally tagged): an opaque component for C16 — never mutated inside
fn is_cose(v: &Value) -> bool {
    match v {
        Value::Tag(17 | 18, inner) => is_cose(inner),
        Value::Array(a) => matches!(a.as_slice(), [Value::Bytes(_), Value::Map(_), Value::Bytes(_) | Value::Null, Value::Bytes(_)]),
        _ => false,
    }
}

/// mutate one node of the tree (chosen by walking down randomly); returns a description
fn mutate(ctx: &mut Ctx, v: &mut Value, depth: u32) -> String {
    if is_cose(v) {
        return match ctx.rng.gen_range(0..4) {
            0 => {
                let old = v.clone();
                *v = Value::Tag(*[17u64, 18, 5, 24].choose(&mut ctx.rng).unwrap(), Box::new(old));
                "COSE structure: wrap in a tag".into()
            }
            1 => {
                if let Value::Tag(_, inner) = v {
                    *v = (**inner).clone();
                }
                "COSE structure: remove tag".into()
            }
            _ => {
                *v = junk(ctx);
                "COSE structure := junk".into()
            }
        };
    }
    // descend?
    let descend = depth < 6 && ctx.rng.gen_bool(0.65);
    if descend {
        match v {
            Value::Array(a) if !a.is_empty() => {
                let i = ctx.rng.gen_range(0..a.len());
                return format!("[{i}]/{}", mutate(ctx, &mut a[i], depth + 1));
            }
            Value::Map(m) if !m.is_empty() => {
                let i = ctx.rng.gen_range(0..m.len());
                if ctx.rng.gen_bool(0.85) {
                    return format!("{{{i}}}/{}", mutate(ctx, &mut m[i].1, depth + 1));
                } else {
                    return format!("{{key {i}}}/{}", mutate(ctx, &mut m[i].0, depth + 1));
                }
            }
            Value::Tag(24, inner) => {
                if let Value::Bytes(b) = inner.as_mut() {
                    if let Some(mut iv) = parse(b) {
                        let d = mutate(ctx, &mut iv, depth + 1);
                        *b = enc(&iv);
                        return format!("tag24-inner/{d}");
                    }
                }
            }
            Value::Tag(_, inner) => {
                return format!("tag/{}", mutate(ctx, inner, depth + 1));
            }
            _ => {}
        }
    }
    match v {
        Value::Map(m) => match ctx.rng.gen_range(0..8) {
            0 if !m.is_empty() => {
                let i = ctx.rng.gen_range(0..m.len());
                m.remove(i);
                "drop member".into()
            }
            1 if !m.is_empty() => {
                let i = ctx.rng.gen_range(0..m.len());
                let e = m[i].clone();
                let at = ctx.rng.gen_range(0..=m.len());
                m.insert(at, e);
                "duplicate member".into()
            }
            2 => {
                let k = if ctx.rng.gen_bool(0.5) { Value::Text(format!("x{}", ctx.rng.gen_range(0..100))) } else { int(ctx.rng.gen_range(-30..40)) };
                let at = ctx.rng.gen_range(0..=m.len());
                m.insert(at, (k, junk(ctx)));
                "add unknown member".into()
            }
            3 if !m.is_empty() => {
                let i = ctx.rng.gen_range(0..m.len());
                m[i].1 = Value::Null;
                "member := null".into()
            }
            4 if m.len() > 1 => {
                m.shuffle(&mut ctx.rng);
                "shuffle members".into()
            }
            5 if !m.is_empty() => {
                let i = ctx.rng.gen_range(0..m.len());
                m[i].1 = junk(ctx);
                "member := wrong type".into()
            }
            6 if !m.is_empty() => {
                // same key, other value, later: last-wins maps vs duplicate-field errors
                let i = ctx.rng.gen_range(0..m.len());
                let k = m[i].0.clone();
                m.push((k, junk(ctx)));
                "repeat key with another value".into()
            }
            _ => {
                *v = junk(ctx);
                "map := junk".into()
            }
        },
        Value::Array(a) => match ctx.rng.gen_range(0..5) {
            0 if !a.is_empty() => {
                a.pop();
                "truncate array".into()
            }
            1 if !a.is_empty() => {
                let i = ctx.rng.gen_range(0..a.len());
                a[i] = junk(ctx);
                "element := wrong type".into()
            }
            2 => {
                a.clear();
                "empty array".into()
            }
            3 if a.len() > 1 => {
                a.swap(0, 1);
                "swap elements".into()
            }
            _ => {
                *v = junk(ctx);
                "array := junk".into()
            }
        },
        Value::Integer(i) => {
            let n: i128 = (*i).into();
            let c = match ctx.rng.gen_range(0..6) {
                0 => n + 1,
                1 => n - 1,
                2 => -n - 1,
                3 => *BOUNDARY_INTS.choose(&mut ctx.rng).unwrap(),
                4 => ctx.rng.gen_range(0..25),
                _ => n + 10,
            };
            if let Ok(x) = ciborium::value::Integer::try_from(c) {
                *v = Value::Integer(x);
            }
            format!("integer {n} := {c}")
        }
        Value::Text(t) => match ctx.rng.gen_range(0..4) {
            0 => {
                let mut s = t.clone();
                s.push('x');
                *t = s;
                "text + x".into()
            }
            1 => {
                *v = Value::Bytes(t.as_bytes().to_vec());
                "text := same bytes as bstr".into()
            }
            2 => {
                // plausible but wrong date / version strings
                *t = ["2020-01-01T00:00:00+01:00", "2020-01-01T00:00:00.5Z", "2020-01-01 00:00:00Z", "2020-02-30T00:00:00Z", "2020-01-01T00:00:00", "1.1", "SHA-1", "2020-01-01t00:00:00z", "2020-13-01T00:00:00Z", "2020-01-01T24:00:00Z", "2020-01-01T00:00:00+24:00", "2020-01-01T00:00:00.123456789123-23:59", "9999-12-31T23:59:59-01:00", "0000-01-01T00:00:00+01:00", "9999-12-31T23:59:59Z", "0000-01-01T00:00:00Z"]
                    .choose(&mut ctx.rng)
                    .unwrap()
                    .to_string();
                "text := other literal".into()
            }
            _ => {
                *v = junk(ctx);
                "text := junk".into()
            }
        },
        Value::Bytes(b) => match ctx.rng.gen_range(0..4) {
            0 => {
                b.push(0);
                "bytes + 00".into()
            }
            1 => {
                b.pop();
                "bytes - last".into()
            }
            2 => {
                *v = Value::Array(b.iter().map(|x| uint(*x as u64)).collect());
                "bstr := array of ints".into()
            }
            _ => {
                *v = junk(ctx);
                "bytes := junk".into()
            }
        },
        Value::Tag(t, inner) => match ctx.rng.gen_range(0..3) {
            0 => {
                *t = *[0u64, 1, 17, 18, 24, 25].choose(&mut ctx.rng).unwrap();
                "other tag number".into()
            }
            1 => {
                *v = (**inner).clone();
                "remove tag".into()
            }
            _ => {
                *v = junk(ctx);
                "tag := junk".into()
            }
        },
        _ => {
            if ctx.rng.gen_bool(0.3) {
                let old = v.clone();
                *v = Value::Tag(*[5u64, 24, 0].choose(&mut ctx.rng).unwrap(), Box::new(old));
                "wrap in a tag".into()
            } else {
                *v = junk(ctx);
                "leaf := junk".into()
            }
        }
    }
}

fn malformed<T: Serialize + DeserializeOwned>(ctx: &mut Ctx, ty: &str, valid_bytes: &[u8], view: &dyn Fn(&T) -> Value, n: u64) {
    let Some(base) = parse(valid_bytes) else { return };
    for _ in 0..n {
        let mut v = base.clone();
        let mut how = mutate(ctx, &mut v, 0);
        if ctx.rng.gen_bool(0.2) {
            how = format!("{how} + {}", mutate(ctx, &mut v, 0));
        }
        let b = enc(&v);
        if b == valid_bytes {
            continue;
        }
        decode_case::<T>(ctx, ty, "malformed", &how, &b, view);
    }
}

/// fixed malformed inputs: out-of-range codes and boundary lengths, every type's obvious wrong shapes
fn fixed_malformed(ctx: &mut Ctx) {
    for n in [0i128, 1, 9, 10, 11, 12, 13, 19, 20, 21, 255, 256, 65536, 18446744073709551615, -1, -10, -11] {
        let b = enc(&Value::Map(vec![(text("status"), int(n))]));
        decode_case::<SessionData>(ctx, "SessionData", "codes", &format!("status {n}"), &b, &view_session_data);
        let r = Value::Map(vec![(text("version"), text("1.0")), (text("status"), int(n))]);
        decode_case::<DeviceResponse>(ctx, "DeviceResponse", "codes", &format!("status {n}"), &enc(&r), &view_response);
        decode_case::<DocumentErrorCode>(ctx, "DocumentErrorCode", "codes", &format!("code {n}"), &enc(&int(n)), &view_error_code);
        for kty in [1i128, 2] {
            let mut m = vec![(uint(1), int(kty)), (int(-1), int(n)), (int(-2), bytes(&[1, 2, 3]))];
            if kty == 2 {
                m.push((int(-3), bytes(&[4, 5])));
            }
            decode_case::<CoseKey>(ctx, "CoseKey", "codes", &format!("kty {kty} crv {n}"), &enc(&Value::Map(m)), &view_cose_key);
        }
        let ble = Value::Map(vec![(uint(0), Value::Bool(false)), (uint(1), Value::Bool(false))]);
        for ver in [1i128, 2, 0] {
            let m = arr(vec![int(n), int(ver), ble.clone()]);
            decode_case::<DeviceRetrievalMethod>(ctx, "DeviceRetrievalMethod", "codes", &format!("type {n} version {ver} (BLE options)"), &enc(&m), &view_method);
        }
    }
    for (c, r) in [(254u64, 256u64), (255, 255), (255, 256), (65535, 65536), (65536, 256), (255, 65537), (255, 4294967295), (255, 4294967296), (0, 0), (300, 70000)] {
        let v = Value::Map(vec![(uint(0), uint(c)), (uint(1), uint(r))]);
        decode_case::<NfcOptions>(ctx, "NfcOptions", "codes", &format!("command {c} response {r}"), &enc(&v), &view_null);
        let m = arr(vec![uint(1), uint(1), v]);
        decode_case::<DeviceRetrievalMethod>(ctx, "DeviceRetrievalMethod", "codes", &format!("NFC command {c} response {r}"), &enc(&m), &view_method);
    }
    for name in ["SHA-256", "SHA-384", "SHA-512", "SHA256", "sha-256", "SHA-1", ""] {
        decode_case::<DigestAlgorithm>(ctx, "DigestAlgorithm", "codes", name, &enc(&text(name)), &|a: &DigestAlgorithm| {
            text(match a {
                DigestAlgorithm::SHA256 => "SHA256",
                DigestAlgorithm::SHA384 => "SHA384",
                DigestAlgorithm::SHA512 => "SHA512",
            })
        });
    }
    for id in [0i128, 2147483647, 2147483648, -1, -2147483648, -2147483649] {
        let v = Value::Map(vec![(int(id), bytes(&[1]))]);
        decode_case::<DigestIds>(ctx, "DigestIds", "codes", &format!("digest id {id}"), &enc(&v), &view_digest_ids);
    }
    for h in [Value::Null, arr(vec![]), arr(vec![bytes(&[1])]), arr(vec![bytes(&[1]), Value::Null]), arr(vec![bytes(b"ab"), text("b")]), arr(vec![text("a"), bytes(b"cd")]),
              arr(vec![bytes(&[0xff]), text("b")]), arr(vec![text("a"), Value::Null]), arr(vec![bytes(&[1]), bytes(&[2]), bytes(&[3])]), arr(vec![text("a"), text("b"), text("c")]),
              text("QR"), uint(0), Value::Bool(false), Value::Map(vec![]), arr(vec![Value::Null, Value::Null])] {
        decode_case::<Handover>(ctx, "Handover", "shapes", &format!("{:?}", diag(&h)), &enc(&h), &view_handover);
    }
}

// ------------------------------------------------------------------------------------------------

fn time_cases(ctx: &mut Ctx) {
    let n = ctx.budget(1500, 40000);
    let fixed: Vec<[i64; 8]> = vec![
        [2020, 1, 1, 0, 0, 0, 999_999_999, 86399],
        [2020, 1, 1, 0, 0, 0, 1, -86399],
        [2020, 3, 1, 0, 0, 0, 0, 3600],
        [2024, 2, 29, 23, 59, 59, 987_654_321, 19800],
        [2100, 3, 1, 0, 0, 0, 0, 1],
        [2000, 2, 29, 12, 0, 0, 500_000_000, -43200],
        [1, 1, 2, 0, 0, 0, 0, 86399],
        [9998, 12, 30, 23, 59, 59, 999_999_999, -86399],
        [1970, 1, 1, 0, 0, 0, 0, 0],
        [1969, 12, 31, 23, 59, 59, 999_999_999, 0],
        // UTC form outside 0000..9999: the serialiser must return an error (it used to panic for the first two)
        [9999, 12, 31, 23, 59, 59, 0, -3600],
        [9999, 12, 31, 23, 59, 59, 999_999_999, -1],
        [9999, 12, 31, 0, 0, 0, 0, -86399],
        [0, 1, 1, 0, 0, 0, 0, 3600],
        [0, 1, 1, 0, 0, 0, 0, 1],
        [0, 1, 1, 23, 59, 59, 0, 86399],
        // ... and the last / first representable instants
        [9999, 12, 31, 23, 59, 59, 999_999_999, 0],
        [9999, 12, 31, 22, 59, 59, 0, -3600],
        [0, 1, 1, 0, 0, 0, 0, 0],
        [0, 1, 1, 1, 0, 0, 0, 3600],
    ];
    for i in 0..n {
        let f = if (i as usize) < fixed.len() {
            fixed[i as usize]
        } else if i % 50 == 0 {
            // near the ends of the representable range, either side
            let hi = ctx.rng.gen_bool(0.5);
            let off = ctx.rng.gen_range(-86399i64..=86399);
            if hi { [9999, 12, 31, ctx.rng.gen_range(0..24), ctx.rng.gen_range(0..60), ctx.rng.gen_range(0..60), 0, off] } else { [0, 1, 1, ctx.rng.gen_range(0..24), ctx.rng.gen_range(0..60), ctx.rng.gen_range(0..60), 0, off] }
        } else {
            gen_date_fields(ctx, false)
        };
        let Some(dt) = mk_date(&f) else { continue };
        let base = mk_date(&[2020, 1, 1, 0, 0, 0, 0, 0]).unwrap();
        let v = ValidityInfo { signed: dt, valid_from: base, valid_until: base, expected_update: None };
        let obs = match catch(|| to_vec(&v)) {
            Ok(Ok(b)) => match parse(&b) {
                Some(Value::Map(m)) => match m.iter().find(|(k, _)| *k == text("signed")) {
                    Some((_, Value::Tag(0, t))) => arr(vec![uint(1), (**t).clone()]),
                    _ => arr(vec![uint(0), Value::Null]),
                },
                _ => arr(vec![uint(0), Value::Null]),
            },
            Ok(Err(_)) => {
                ctx.count("time_case:encode_error");
                arr(vec![uint(0), Value::Null])
            }
            Err(p) => arr(vec![uint(2), text(&p)]),
        };
        ctx.count(if f[7] == 0 { "time_case:utc" } else { "time_case:offset" });
        let args = vec![arr(f.iter().map(|x| int(*x as i128)).collect())];
        ctx.case("time", json!({"fields [y,m,d,h,mi,s,ns,offset]": f}), obs, Some(("c16.time", args.clone())), Some(("c16.spec_time", args)), true);
    }
}

fn jwk_cases(ctx: &mut Ctx) {
    let n = ctx.budget(400, 8000);
    for _ in 0..n {
        let k = gen_cose_key(ctx);
        let b = to_vec(&k).expect("key encodes");
        let jview = |j: &ssi_jwk::JWK| match &j.params {
            ssi_jwk::Params::EC(p) => arr(vec![
                text("EC"),
                opt(p.curve.as_ref(), |c| text(c)),
                opt(p.x_coordinate.as_ref(), |x| bytes(&x.0)),
                opt(p.y_coordinate.as_ref(), |y| bytes(&y.0)),
            ]),
            ssi_jwk::Params::OKP(p) => arr(vec![text("OKP"), text(&p.curve), bytes(&p.public_key.0)]),
            _ => Value::Null,
        };
        let obs = match catch(|| ssi_jwk::JWK::try_from(k.clone())) {
            Ok(Ok(j)) => {
                // through the JWK's JSON form as well
                let js = serde_json::to_string(&j).expect("jwk json");
                let j2: ssi_jwk::JWK = serde_json::from_str(&js).expect("jwk json parses");
                let back = CoseKey::try_from(j2).ok();
                arr(vec![jview(&j), opt(back.as_ref(), view_cose_key)])
            }
            Ok(Err(_)) => arr(vec![Value::Null, Value::Null]),
            Err(p) => arr(vec![text("panic"), text(&p)]),
        };
        ctx.case("jwk", json!({"key": format!("{k:?}")}), obs, Some(("c16.jwk", vec![bytes(&b)])), Some(("c16.spec_jwk", vec![bytes(&b)])), true);
    }
}

pub fn run(ctx: &mut Ctx) {
    let n = ctx.budget(300, 6000);
    let m = if ctx.thorough { 6 } else { 3 };
    fixed_malformed(ctx);
    for _ in 0..n {
        macro_rules! both {
            ($ty:literal, $t:ty, $gen:expr, $view:expr) => {{
                let x: $t = $gen;
                valid::<$t>(ctx, $ty, "rust", &x, &$view);
                if let Ok(Ok(b)) = catch(|| to_vec(&x)) {
                    malformed::<$t>(ctx, $ty, &b, &$view, m);
                }
            }};
        }
        both!("SessionData", SessionData, gen_session_data(ctx), view_session_data);
        both!("SessionEstablishment", SessionEstablishment, SessionEstablishment { e_reader_key: Tag24::new(gen_cose_key(ctx)).unwrap(), data: ByteStr::from(gen_bytes(ctx, 300)) }, view_session_establishment);
        both!("Handover", Handover, gen_handover(ctx), view_handover);
        both!("CoseKey", CoseKey, gen_cose_key(ctx), view_cose_key);
        both!("DeviceEngagement", DeviceEngagement, { let pi = ctx.rng.gen_bool(0.3); if pi { ctx.count("engagement:protocol_info"); } gen_engagement(ctx, pi) }, view_engagement);
        both!("SessionTranscript", SessionTranscript180135, SessionTranscript180135(Tag24::new({ let pi = ctx.rng.gen_bool(0.2); gen_engagement(ctx, pi) }).unwrap(), Tag24::new(gen_cose_key(ctx)).unwrap(), gen_handover(ctx)), view_transcript);
        both!("DeviceRetrievalMethod", DeviceRetrievalMethod, gen_method(ctx), view_method);
        both!("BleOptions", BleOptions, gen_ble(ctx), view_ble);
        both!("ItemsRequest", ItemsRequest, gen_items_request(ctx), view_items_request);
        both!("DocRequest", DocRequest, gen_doc_request(ctx), view_doc_request);
        both!("DeviceRequest", DeviceRequest, gen_device_request(ctx), view_device_request);
        both!("ValidityInfo", ValidityInfo, gen_validity(ctx), view_validity);
        both!("KeyAuthorizations", KeyAuthorizations, gen_key_auth(ctx), view_key_auth);
        both!("DeviceKeyInfo", DeviceKeyInfo, gen_dki(ctx), view_dki);
        both!("DigestIds", DigestIds, gen_digest_ids(ctx), view_digest_ids);
        both!("Mso", Mso, gen_mso(ctx), view_mso);
        both!("IssuerSignedItem", IssuerSignedItem, gen_item(ctx), view_item);
        both!("IssuerSigned", IssuerSigned, gen_issuer_signed(ctx), view_issuer_signed);
        both!("DeviceAuth", DeviceAuth, gen_device_auth(ctx), view_device_auth);
        both!("DeviceSigned", DeviceSigned, gen_device_signed(ctx), view_device_signed);
        both!("DocumentErrorCode", DocumentErrorCode, gen_error_code(ctx), view_error_code);
        both!("DocumentError", DocumentError, gen_document_error(ctx), view_document_error);
        both!("Errors", Errors, gen_errors(ctx), view_errors);
        both!("Document", Document, gen_document(ctx), view_document);
        both!("DeviceResponse", DeviceResponse, gen_response(ctx), view_response);
        // hand-rolled encodings of the types with private fields
        for (ty, v) in [("WifiOptions", gen_wifi_cbor(ctx)), ("NfcOptions", gen_nfc_cbor(ctx))] {
            let b = enc(&v);
            if ty == "WifiOptions" {
                let ok = decode_case_spec::<WifiOptions>(ctx, ty, "handrolled", "valid by construction", &b, &view_null, true);
                if !ok {
                    ctx.count("handrolled_rejected:WifiOptions");
                }
                malformed::<WifiOptions>(ctx, ty, &b, &view_null, m);
            } else {
                let ok = decode_case_spec::<NfcOptions>(ctx, ty, "handrolled", "valid by construction", &b, &view_null, true);
                if !ok {
                    ctx.count("handrolled_rejected:NfcOptions");
                }
                malformed::<NfcOptions>(ctx, ty, &b, &view_null, m);
            }
        }
    }
    time_cases(ctx);
    jwk_cases(ctx);
}
