(* C13 — device session follows its state machine; every prepared response is retrievable.
   Pinned statements only. *)
From Isomdl Require Import Lib.Bytes Model.Iv Model.Session Spec.DeviceDiagram Proofs.DeviceSMProofs.
Open Scope N_scope.

(* every sequence of session calls (from a freshly established session, with arbitrary messages
   delivered, incl. undecryptable / malformed ones, and reader-side and restore steps interleaved)
   behaves, call by call, like the documented three-state diagram: same return values, and the
   device state abstracts to the diagram's state *)
Theorem C13_refines_diagram : forall (ops : list op) (kr kd : N), sim ops (fresh kr kd) RAwaiting.
Proof. exact refines_diagram. Qed.
Print Assumptions C13_refines_diagram.

(* a signature payload is offered exactly while a prepared response has unsigned documents *)
Theorem C13_payload_iff : forall s, reachable s ->
  (dev_next_payload (s_dev s) <> None <-> unsigned (s_dev s) <> []).
Proof. exact payload_iff. Qed.
Print Assumptions C13_payload_iff.

(* the submitted signature is attached to the document whose payload was offered, which then
   stops being unsigned; nothing else changes in the signed list *)
Theorem C13_submit_pairs : forall (d : dev) id payload sg,
  dev_next_payload d = Some (id, payload) ->
  let d' := fst (dev_submit d sg) in
  In (id, sg) (signed_docs d') /\
  exists rest, unsigned d = rest ++ [(id, payload)] /\ unsigned d' = rest /\
    signed_docs d' = signed_docs d ++ [(id, sg)].
Proof. exact submit_pairs. Qed.
Print Assumptions C13_submit_pairs.

(* once a response has been prepared, it is ready exactly when no unsigned document remains *)
Theorem C13_ready_iff : forall s, reachable s -> has_response (s_dev s) ->
  (dev_ready (s_dev s) = true <-> unsigned (s_dev s) = []).
Proof. exact ready_iff. Qed.
Print Assumptions C13_ready_iff.

(* handed out exactly once, after which the device awaits the next request;
   retrieving when nothing is ready changes nothing *)
Theorem C13_retrieve_once : forall d : dev,
  match dev_retrieve d with
  | (d', Some m) => d_state d = Ready m /\ d_state d' = Awaiting /\ snd (dev_retrieve d') = None
  | (d', None) => d' = d /\ dev_ready d = false
  end.
Proof. exact retrieve_once. Qed.
Print Assumptions C13_retrieve_once.

Theorem C13_submit_noop : forall (d : dev) sg,
  (forall p, d_state d <> Signing p) -> dev_submit d sg = (d, []).
Proof. exact noop_when_nothing_pending. Qed.
Print Assumptions C13_submit_noop.

(* a request that decrypts but is not a DeviceRequest yields a ready, retrievable response with
   status 11 (not CBOR) / 12 (not a DeviceRequest) and no documents *)
Theorem C13_error_response : forall (d : dev) c,
  let nonce := iv Reader (incr (d_recv d)) in
  forall pl, decrypt (d_kr d) nonce c = Some pl ->
  (forall id, pl <> PRequest id) ->
  let '(d', ro, _) := dev_handle_request d (WData c) in
  ro = RoEmpty /\ dev_ready d' = true /\
  exists m r, dev_retrieve d' = (set_state d' Awaiting, Some m) /\ response_of_wire m = Some r /\
    rs_docs r = [] /\ rs_status r = (match pl with PNotCbor => 11 | _ => 12 end).
Proof. exact error_response. Qed.
Print Assumptions C13_error_response.

(* a response with nothing to sign is retrievable without inventing a signature *)
Example C13_nothing_to_sign :
  let '(s, outs, _) := run [OPrepare [] 1; ONextPayload; OReady; ORetrieve; ORetrieve] (fresh 0 1) in
  outs = [OutUnit; OutPayload None; OutBool true;
          OutRetrieved (Some (WData (Enc 1 (iv Device 1) (PResponse {| rs_status := 0; rs_docs := []; rs_doc_errors := 1 |}))));
          OutRetrieved None].
Proof. vm_compute. reflexivity. Qed.

(* non-vacuity of `reachable`: a state mid-signing with two documents *)
Example C13_reachable_mid_signing :
  exists s, reachable s /\ unsigned (s_dev s) = [(7, [1])] /\ signed_docs (s_dev s) = [(8, [9])].
Proof.
  exists (fst (fst (run [OPrepare [(7, [1]); (8, [2])] 0; OSubmit [9]] (fresh 0 1)))).
  split; [exists [OPrepare [(7, [1]); (8, [2])] 0; OSubmit [9]], 0, 1; reflexivity|].
  vm_compute. split; reflexivity.
Qed.
