(* C11 — the device reports reader authentication Valid only for a verified, trusted reader.  Pinned statements only. *)
From Isomdl Require Import Lib.Bytes Lib.Cbor Model.Cose Model.KeySchedule Model.ReaderAuth Model.DeviceReaderAuth
  Spec.ReaderAuthSpec Proofs.KeyScheduleProofs Proofs.DeviceReaderAuthProofs.
(* for the composition with C12 (below): the X.509 model, the Annex B rule, the composed proofs, C12's witnesses *)
From Isomdl Require Import Model.X509 Spec.AnnexB Proofs.X509Proofs Proofs.TrustCompose.
Open Scope N_scope.

(* Valid only if EVERY document request of the message carries a readerAuth (detached payload) whose
   x5chain decodes and validates against a reader-CA anchor, and whose signature verifies under the
   first certificate's key over Sig_structure(ReaderAuthenticationBytes(this session's transcript,
   ItemsRequestBytes exactly as received)) *)
Theorem C11_valid_only_if : forall de erk ho (reqs : list docreq),
  request_status de erk ho reqs = Valid -> reqs <> [] /\ forall r, In r reqs -> authentic de erk ho r.
Proof. exact valid_only_if. Qed.
Print Assumptions C11_valid_only_if.

(* and conversely a request whose reader authentication is valid throughout is reported Valid *)
Theorem C11_complete : forall de erk ho (reqs : list docreq),
  reqs <> [] -> (forall r, In r reqs -> authentic de erk ho r) -> request_status de erk ho reqs = Valid.
Proof. exact complete. Qed.
Print Assumptions C11_complete.

Theorem C11_absent_not_valid : forall de erk ho reqs r,
  In r reqs -> dr_reader_auth r = None -> request_status de erk ho reqs <> Valid.
Proof. exact absent_not_valid. Qed.
Print Assumptions C11_absent_not_valid.

Theorem C11_untrusted_not_valid : forall de erk ho reqs r,
  In r reqs -> dr_chain_valid r = false -> request_status de erk ho reqs <> Valid.
Proof. exact untrusted_not_valid. Qed.
Print Assumptions C11_untrusted_not_valid.

Theorem C11_rab_injective : forall de erk ho items de' erk' ho' items',
  cbor_ok (iso_reader_authentication de erk ho items) -> cbor_ok (iso_reader_authentication de' erk' ho' items') ->
  encode (iso_reader_authentication de erk ho items) = encode (iso_reader_authentication de' erk' ho' items') ->
  de = de' /\ erk = erk' /\ ho = ho' /\ items = items'.
Proof. exact rab_injective. Qed.
Print Assumptions C11_rab_injective.

(* ---------- composition with C12: the chain verdict is the Annex B rule ----------
   [dr_chain_valid r] stands for `ValidationRuleset::MdlReaderOneStep.validate(&x5chain, &self.trusted_verifiers)`
   contributing no error (device.rs).  Below it is instantiated by C12's model of that call for ANY chain x,
   registry reg, clock reading now and primitives (hypothesis 2); x, reg, now are related to the request
   through that equation only.  The other hypotheses are exactly C12_sound's / C12_single_deviation's. *)

(* Valid only if, for each request of the message, the reader certificate (first of its chain) is within its
   validity, has the B.7 profile and is anchored in a registry entry of purpose ReaderCa; and the signature
   conjuncts of C11_valid_only_if *)
Theorem C11_valid_implies_annexb :
  forall (ski_of_key : bytes -> bytes) (verifies : cert -> cert -> bool)
         (now : Z) (x : x5chain) (reg : list anchor) (de erk : bytes) (ho : cbor) (reqs : list docreq) (r : docreq),
    In r reqs ->
    dr_chain_valid r = match validate ski_of_key verifies MdlReaderOneStep now x reg with [] => true | _ :: _ => false end ->
    clock_ok now -> inputs_wf MdlReaderOneStep (x_first x) reg ->
    request_status de erk ho reqs = Valid ->
    conformant ski_of_key verifies MdlReaderOneStep now (x_first x) reg /\
    exists c, dr_reader_auth r = Some c /\ c_payload c = None /\
      dr_x5 r = X5Chain /\ dr_key_ok r = true /\
      alg_gate (dr_verifier r) (alg_of_protected (c_protected c)) = true /\
      v_parse (dr_verifier r) (c_sig c) = true /\
      v_check (dr_verifier r) (iso_reader_tbs (c_protected c) de erk ho (dr_items r)) (c_sig c) = true.
Proof. exact reader_valid_implies_conformant. Qed.
Print Assumptions C11_valid_implies_annexb.

(* every deviation of Spec/AnnexB.v (the hypothesis of C12_single_deviation) in the chain of ONE request keeps
   the whole message from being Valid *)
Theorem C11_untrusted_never_valid :
  forall (ski_of_key : bytes -> bytes) (verifies : cert -> cert -> bool)
         (now : Z) (x : x5chain) (reg : list anchor) (de erk : bytes) (ho : cbor) (reqs : list docreq) (r : docreq),
    In r reqs ->
    dr_chain_valid r = match validate ski_of_key verifies MdlReaderOneStep now x reg with [] => true | _ :: _ => false end ->
    clock_ok now -> deviation ski_of_key verifies MdlReaderOneStep now (x_first x) reg ->
    request_status de erk ho reqs <> Valid.
Proof. exact untrusted_reader_never_valid. Qed.
Print Assumptions C11_untrusted_never_valid.

(* in particular: no trusted verifier at all; only IACA-purpose entries; no reader-CA entry under which the
   reader certificate's signature verifies; reader-CA entries all expired *)
Theorem C11_untrusted_named_causes :
  forall (ski_of_key : bytes -> bytes) (verifies : cert -> cert -> bool)
         (now : Z) (x : x5chain) (reg : list anchor) (de erk : bytes) (ho : cbor) (reqs : list docreq) (r : docreq),
    In r reqs ->
    dr_chain_valid r = match validate ski_of_key verifies MdlReaderOneStep now x reg with [] => true | _ :: _ => false end ->
    clock_ok now ->
    (reg = [] \/
     (forall a, In a reg -> a_purpose a = Iaca) \/
     (forall a, In a reg -> a_purpose a = ReaderCa -> verifies (x_first x) (a_cert a) = false) \/
     (forall a, In a reg -> a_purpose a = ReaderCa -> (c_not_after (a_cert a) < now)%Z)) ->
    request_status de erk ho reqs <> Valid.
Proof. exact untrusted_reader_named_causes. Qed.
Print Assumptions C11_untrusted_named_causes.

(* ---------- non-vacuity (witnesses: Proofs/TrustCompose.v section 4) ----------
   w_req now x reg: a document request whose readerAuth is signed with the key of x's first certificate over
   the transcript ([1], [2], null), chain verdict computed by C12's model *)

Example C11_ex_valid_implies_annexb_inhabited :
  let r := w_req w_now (w_chain w_reader_cert) [w_reader_anchor w_iaca] in
  In r [r] /\
  dr_chain_valid r = match validate w_ski w_verifies MdlReaderOneStep w_now (w_chain w_reader_cert) [w_reader_anchor w_iaca]
                     with [] => true | _ :: _ => false end /\
  clock_ok w_now /\ inputs_wf MdlReaderOneStep (x_first (w_chain w_reader_cert)) [w_reader_anchor w_iaca] /\
  request_status [1] [2] CNull [r] = Valid.
Proof. exact w_reader_valid_inhabited. Qed.

(* empty registry; the CA registered as an IACA only; a document signer certificate presented as a reader's *)
Example C11_ex_untrusted_never_valid_inhabited :
  (let r := w_req w_now (w_chain w_reader_cert) [] in
   In r [r] /\
   dr_chain_valid r = match validate w_ski w_verifies MdlReaderOneStep w_now (w_chain w_reader_cert) [] with [] => true | _ :: _ => false end /\
   clock_ok w_now /\
   deviation w_ski w_verifies MdlReaderOneStep w_now (x_first (w_chain w_reader_cert)) [] /\
   request_status [1] [2] CNull [r] = Invalid) /\
  (let r := w_req w_now (w_chain w_reader_cert) [w_anchor w_iaca] in
   dr_chain_valid r = match validate w_ski w_verifies MdlReaderOneStep w_now (w_chain w_reader_cert) [w_anchor w_iaca]
                      with [] => true | _ :: _ => false end /\
   deviation w_ski w_verifies MdlReaderOneStep w_now (x_first (w_chain w_reader_cert)) [w_anchor w_iaca] /\
   request_status [1] [2] CNull [r] = Invalid) /\
  (let r := w_req w_now (w_chain w_ds) [w_reader_anchor w_iaca] in
   dr_chain_valid r = match validate w_ski w_verifies MdlReaderOneStep w_now (w_chain w_ds) [w_reader_anchor w_iaca]
                      with [] => true | _ :: _ => false end /\
   deviation w_ski w_verifies MdlReaderOneStep w_now (x_first (w_chain w_ds)) [w_reader_anchor w_iaca] /\
   request_status [1] [2] CNull [r] = Invalid).
Proof. exact w_untrusted_reader_inhabited. Qed.
