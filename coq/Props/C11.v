(* C11 — the device reports reader authentication Valid only for a verified, trusted reader.  Pinned statements only. *)
From Isomdl Require Import Lib.Bytes Lib.Cbor Model.Cose Model.KeySchedule Model.ReaderAuth Model.DeviceReaderAuth
  Spec.ReaderAuthSpec Proofs.KeyScheduleProofs Proofs.DeviceReaderAuthProofs.
Open Scope N_scope.

(* Valid only if EVERY document request of the message carries a readerAuth (detached payload) whose
   x5chain decodes and validates against a reader-CA anchor, and whose signature verifies under the
   first certificate's key over Sig_structure(ReaderAuthenticationBytes(this session's transcript,
   ItemsRequestBytes exactly as received)) *)
Theorem C11_valid_only_if : forall de erk ho (reqs : list docreq),
  request_status de erk ho reqs = Valid -> reqs <> [] /\ forall r, In r reqs -> authentic de erk ho r.
Proof. exact valid_only_if. Qed.

(* and conversely a request whose reader authentication is valid throughout is reported Valid *)
Theorem C11_complete : forall de erk ho (reqs : list docreq),
  reqs <> [] -> (forall r, In r reqs -> authentic de erk ho r) -> request_status de erk ho reqs = Valid.
Proof. exact complete. Qed.

Theorem C11_absent_not_valid : forall de erk ho reqs r,
  In r reqs -> dr_reader_auth r = None -> request_status de erk ho reqs <> Valid.
Proof. exact absent_not_valid. Qed.

Theorem C11_untrusted_not_valid : forall de erk ho reqs r,
  In r reqs -> dr_chain_valid r = false -> request_status de erk ho reqs <> Valid.
Proof. exact untrusted_not_valid. Qed.

Theorem C11_rab_injective : forall de erk ho items de' erk' ho' items',
  cbor_ok (iso_reader_authentication de erk ho items) -> cbor_ok (iso_reader_authentication de' erk' ho' items') ->
  encode (iso_reader_authentication de erk ho items) = encode (iso_reader_authentication de' erk' ho' items') ->
  de = de' /\ erk = erk' /\ ho = ho' /\ items = items'.
Proof. exact rab_injective. Qed.
