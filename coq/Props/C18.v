(* C18 — everything emitted conforms to the ISO 18013-5 message definitions.  Pinned statements only.
   Validators: Spec/Cddl.v (from the ISO CDDL and RFC 8152).  Composers: Model/Emit.v (how the Rust
   code assembles each message).  The validators themselves are exercised on the ISO example
   vectors in Spec/CddlExamples.v. *)
From Isomdl Require Import Lib.Bytes Lib.Utf8 Lib.Cbor Model.Cose Spec.Cddl Model.Emit Proofs.CddlProofs
     Gen.SigAlgTable Gen.EmitLiterals.
(* the validators are exercised on the ISO example vectors whenever this file is built *)
From Isomdl Require Spec.CddlExamples Spec.CddlVectors.
Open Scope N_scope.
Local Open Scope string_scope.

(* ---- literals and tables taken from the source are the ISO ones ---- *)

Theorem C18_versions_and_suite :
  gen_device_response_version = bytes_of_string "1.0" /\ gen_device_request_version = bytes_of_string "1.0" /\
  gen_engagement_version = bytes_of_string "1.0" /\ gen_engagement_cipher_suite = 1.
Proof. exact versions_are_iso. Qed.
Print Assumptions C18_versions_and_suite.

Theorem C18_status_tables :
  map snd gen_device_response_status = response_status_codes /\
  map snd gen_session_data_status = session_status_codes /\
  gen_transport_type = [("NFC", 1); ("BLE", 2); ("WIFI", 3)].
Proof. exact (conj (proj1 response_status_table_is_iso) (conj (proj1 session_status_table_is_iso) transport_types_are_iso)). Qed.
Print Assumptions C18_status_tables.

(* the table CoseKey::signature_algorithm (translated from the source) is the RFC 8152 / 9053
   assignment, for every curve the Rust enums have: same algorithm, and none where the RFCs have none *)
Theorem C18_sig_alg_matches_key : forall k : key_curve, In k all_key_curves ->
  exists kty crv, curve_ids k = Some (kty, crv) /\ signature_algorithm k = spec_sig_alg kty crv.
Proof. exact sig_alg_table_is_rfc. Qed.
Print Assumptions C18_sig_alg_matches_key.

(* ---- session establishment and session data ---- *)

(* ephemeral keys as create_p256_ephemeral_keys builds them (32-byte affine coordinates) *)
Theorem C18_conforms_ephemeral_key : forall what x y, blen x = 32 -> blen y = 32 ->
  cose_key what (compose_ephemeral_key x y) = Ok.
Proof. exact cose_key_ephemeral. Qed.
Print Assumptions C18_conforms_ephemeral_key.

Theorem C18_conforms_session_establishment : forall (key : cbor) (ciphertext : bytes),
  embeddable key -> cose_key "EReaderKey" key = Ok ->
  session_establishment (compose_session_establishment key ciphertext) = Ok.
Proof. exact session_establishment_ok. Qed.
Print Assumptions C18_conforms_session_establishment.

(* the SessionData the device finalises (ciphertext, or status only when encryption failed) and the
   SessionData the reader sends with a request *)
Theorem C18_conforms_session_data : forall (enc : option bytes) (ct : bytes),
  session_data (finalize_session_data enc) = Ok /\ session_data (new_request_session_data ct) = Ok.
Proof. intros enc ct. exact (conj (session_data_finalized enc) (session_data_new_request ct)). Qed.
Print Assumptions C18_conforms_session_data.

(* data present iff no status, for every status code of the source's table *)
Theorem C18_session_data_data_xor_status : forall (data : option bytes) (st : option N),
  ((data <> None /\ st = None) \/ (data = None /\ exists n, st = Some n /\ In n (map snd gen_session_data_status)) ->
   session_data (compose_session_data data st) = Ok) /\
  (session_data (compose_session_data data st) = Ok ->
   (data = None -> st <> None) /\ (st = Some 10 \/ st = Some 11 -> data = None)).
Proof. intros data st. exact (conj (session_data_general data st) (session_data_one_of data st)). Qed.
Print Assumptions C18_session_data_data_xor_status.

(* ---- device request (reader.rs build_request) ---- *)

Theorem C18_conforms_device_request : forall nss : req_namespaces,
  namespaces_nonempty_distinct nss ->
  embeddable (compose_items_request gen_request_doc_type nss) ->
  device_request (build_request nss) = Ok.
Proof. exact build_request_ok. Qed.
Print Assumptions C18_conforms_device_request.

(* the well-formedness half of [embeddable] follows from the names being byte strings of valid UTF-8 *)
Theorem C18_items_request_wf : forall nss : req_namespaces,
  Forall (fun n => name_ok (fst n) = true /\ Forall (fun e => name_ok (fst e) = true) (snd n)) nss ->
  wf (compose_items_request gen_request_doc_type nss) = true.
Proof. exact wf_items_request. Qed.
Print Assumptions C18_items_request_wf.

(* ---- device response ---- *)

Theorem C18_conforms_device_signed : forall (k : key_curve) (alg : Z) (sg : bytes),
  signature_algorithm k = Some alg -> device_signed (compose_device_signed alg sg) = Ok.
Proof. intros k alg sg H. apply device_signed_ok. eapply signature_algorithm_values. exact H. Qed.
Print Assumptions C18_conforms_device_signed.

(* deviceAuth holds exactly one of deviceSignature and deviceMac: the composed one does, and the
   validator accepts nothing else *)
Theorem C18_device_auth_one_of :
  (forall alg sg, match compose_device_auth_signature alg sg with
                  | CMap kvs => map_get (ctext "deviceSignature") kvs <> None /\
                                map_get (ctext "deviceMac") kvs = None /\ length kvs = 1%nat
                  | _ => False
                  end) /\
  (forall v, device_auth v = Ok ->
             exists k x, v = CMap [(k, x)] /\ (k = ctext "deviceSignature" \/ k = ctext "deviceMac")).
Proof. exact (conj device_auth_one_of device_auth_validator_one_of). Qed.
Print Assumptions C18_device_auth_one_of.

(* a finalised document: valid issuer-signed part whose MSO carries a device key of curve d_key *)
Theorem C18_conforms_document : forall (d : signed_doc) (v : cbor) (kc : N * Z),
  compose_document d = Some v ->
  issuer_signed (d_issuer_signed d) = Ok ->
  curve_ids (d_key d) = Some kc ->
  issuer_signed_key_curve (d_issuer_signed d) = Some kc ->
  (d_errors d = [] \/ errors_nonempty_distinct (d_errors d)) ->
  document v = Ok.
Proof. exact document_ok. Qed.
Print Assumptions C18_conforms_document.

(* normal responses (any number of documents, including none; document errors for docTypes not held) *)
Theorem C18_conforms_device_response : forall (docs : list cbor) (error_doc_types : list bytes),
  Forall (fun v => document v = Ok) docs ->
  device_response (ok_response docs error_doc_types) = Ok.
Proof. exact ok_response_ok. Qed.
Print Assumptions C18_conforms_device_response.

(* error responses: every status of the source's table, no documents, no document errors *)
Theorem C18_conforms_error_response : forall name, In name (map fst gen_device_response_status) ->
  device_response (error_response name) = Ok /\
  match error_response name with
  | CMap kvs => map_get (ctext "documents") kvs = None /\ map_get (ctext "documentErrors") kvs = None
  | _ => False
  end.
Proof. intros name H. exact (conj (error_response_ok name H) (error_response_no_documents name)). Qed.
Print Assumptions C18_conforms_error_response.

(* ---- device engagement ---- *)

Theorem C18_conforms_engagement : forall (key : cbor) (methods : option (list retrieval_method))
    (server : option (option server_method_t * option server_method_t)),
  embeddable key -> cose_key "EDeviceKey" key = Ok ->
  match methods with Some ms => ms <> [] /\ Forall method_ok ms | None => True end ->
  device_engagement (compose_engagement key methods server) = Ok.
Proof. exact engagement_ok. Qed.
Print Assumptions C18_conforms_engagement.

(* the NFC length ranges the Rust types guarantee are the ISO ranges, so [nfc_iso_range] inside
   [method_ok] holds for every NfcOptions value the library can hold *)
Theorem C18_engagement_nfc_domain : forall o : nfc_opts, nfc_rust_domain o = true -> nfc_iso_range o.
Proof. exact nfc_rust_domain_iso. Qed.
Print Assumptions C18_engagement_nfc_domain.

(* ---- from composed values to emitted bytes: the byte-level validator (what the harness runs on the
   real messages) decodes the encoding of a composed message back to that message ---- *)

Theorem C18_bytes_level : forall (k : kind) (v : cbor), embeddable v ->
  validate_bytes k (encode v) = validator k v.
Proof. exact validate_bytes_encode. Qed.
Print Assumptions C18_bytes_level.

(* ---- the hypotheses are inhabited ---- *)

Example C18_ex_request :
  let nss : req_namespaces := [(bytes_of_string "org.iso.18013.5.1", [(bytes_of_string "family_name", false)])] in
  namespaces_nonempty_distinct nss /\ embeddable (compose_items_request gen_request_doc_type nss) /\
  validate_bytes KDeviceRequest (encode (build_request nss)) = Ok.
Proof.
  cbv zeta. split; [|split].
  - split; [discriminate|]. split.
    + constructor; [intros []|constructor].
    + constructor; [|constructor]. split; [discriminate|]. constructor; [intros []|constructor].
  - split; vm_compute; reflexivity.
  - vm_compute. reflexivity.
Qed.

Example C18_ex_engagement :
  let key := compose_ephemeral_key (repeat 1 32) (repeat 2 32) in
  let ms := [DrmBle {| ble_central_uuid := Some (repeat 7 16); ble_peripheral := Some (repeat 9 16, None) |};
             DrmNfc {| nfc_max_command := 255; nfc_max_response := 65536 |};
             DrmWifi {| wifi_pass_phrase := None; wifi_operating_class := Some 81; wifi_channel_number := None; wifi_band_info := None |}] in
  embeddable key /\ cose_key "EDeviceKey" key = Ok /\ Forall method_ok ms /\
  validate_bytes KEngagement (encode (compose_engagement key (Some ms) None)) = Ok.
Proof.
  cbv zeta. split; [split; vm_compute; reflexivity|]. split; [vm_compute; reflexivity|]. split.
  - repeat constructor; vm_compute; try reflexivity; intro; discriminate.
  - vm_compute. reflexivity.
Qed.

Example C18_ex_error_response :
  encode (error_response "CborDecodingError") =
  [162; 103; 118; 101; 114; 115; 105; 111; 110; 99; 49; 46; 48; 102; 115; 116; 97; 116; 117; 115; 11].
Proof. vm_compute. reflexivity. Qed.

(* a document around the ISO Annex D IssuerSigned example (P-256 device key) with a 64-byte signature
   and one element error: every hypothesis of C18_conforms_document holds, and so does the conclusion
   for the whole response, down to the bytes *)
Example C18_ex_document_iso :
  match decode_all Spec.CddlVectors.vec_issuer_signed with
  | Some isg =>
    let d := {| d_doc_type := bytes_of_string "org.iso.18013.5.1.mDL"; d_issuer_signed := isg;
                d_key := {| kc_kty := "EC2"; kc_crv := "P256" |}; d_signature := repeat 0 64;
                d_errors := [(bytes_of_string "org.iso.18013.5.1", [(bytes_of_string "height", 0%Z)])] |} in
    issuer_signed isg = Ok /\ curve_ids (d_key d) = Some (2, 1%Z) /\ issuer_signed_key_curve isg = Some (2, 1%Z) /\
    match compose_document d with
    | Some v => document v = Ok /\
                validate_bytes KDeviceResponse (encode (ok_response [v] [bytes_of_string "org.example.not-held"])) = Ok
    | None => False
    end
  | None => False
  end.
Proof. vm_compute. repeat split; reflexivity. Qed.
