(* C17 — COSE_Sign1 / COSE_Mac0 signing payloads and verification follow RFC 8152.  Pinned statements only. *)
From Isomdl Require Import Lib.Bytes Lib.Utf8 Lib.Cbor Model.Cose Spec.CoseRfc Proofs.CoseProofs.
Open Scope N_scope.

(* the bytes offered for remote signing are exactly the RFC 8152 Sig_structure / MAC_structure
   over the protected bytes, the external AAD and the attached-or-detached payload; exactly one
   payload is required *)
Theorem C17_tbs_is_rfc : forall (c : cose1) (det aad : option bytes),
  prepare ctx_sign1 c det aad =
    match exactly_one (c_payload c) det with
    | Some p => POk (rfc_tbs_sign1 (c_protected c) (match aad with Some a => a | None => [] end) p)
    | None => match c_payload c with Some _ => PErr DoublePayload | None => PErr NoPayload end
    end
  /\
  prepare ctx_mac0 c det aad =
    match exactly_one (c_payload c) det with
    | Some p => POk (rfc_tbs_mac0 (c_protected c) (match aad with Some a => a | None => [] end) p)
    | None => match c_payload c with Some _ => PErr DoublePayload | None => PErr NoPayload end
    end.
Proof. exact prepare_is_rfc. Qed.
Print Assumptions C17_tbs_is_rfc.

(* finalising inserts the supplied signature unchanged and touches nothing else *)
Theorem C17_finalize_unchanged : forall (c : cose1) (sg : bytes),
  c_sig (finalize c sg) = sg /\ c_protected (finalize c sg) = c_protected c /\
  c_unprotected (finalize c sg) = c_unprotected c /\ c_payload (finalize c sg) = c_payload c /\
  c_tagged (finalize c sg) = c_tagged c.
Proof. exact finalize_unchanged. Qed.
Print Assumptions C17_finalize_unchanged.

Theorem C17_wire_roundtrip : forall tag c, cose1_of_cbor tag (cose1_to_cbor tag c) = Some c.
Proof. exact cose1_wire_roundtrip. Qed.
Print Assumptions C17_wire_roundtrip.

(* different (context, protected, AAD, payload) give different to-be-signed bytes *)
Theorem C17_tbs_injective : forall ctx p a m ctx' p' a' m',
  bytes_ok ctx -> utf8_valid ctx = true -> bytes_ok p -> bytes_ok a -> bytes_ok m ->
  bytes_ok ctx' -> utf8_valid ctx' = true -> bytes_ok p' -> bytes_ok a' -> bytes_ok m' ->
  tbs_structure ctx p a m = tbs_structure ctx' p' a' m' ->
  ctx = ctx' /\ p = p' /\ a = a' /\ m = m'.
Proof. exact tbs_injective. Qed.
Print Assumptions C17_tbs_injective.

(* verification succeeds exactly when: the protected algorithm (if any) is the verifier's, exactly
   one payload is given, the signature bytes parse, and the verifier accepts them over the RFC
   structure of these very components *)
Theorem C17_verify_iff : forall ctx (v : verifier) (c : cose1) (det aad : option bytes),
  verify ctx v c det aad = VSuccess <->
  alg_gate v (alg_of_protected (c_protected c)) = true /\
  exists p, exactly_one (c_payload c) det = Some p /\
            v_parse v (c_sig c) = true /\
            v_check v (tbs_structure ctx (c_protected c) (aad_or_empty aad) p) (c_sig c) = true.
Proof. exact verify_iff. Qed.
Print Assumptions C17_verify_iff.

Theorem C17_exactly_one_payload : forall ctx v c det aad,
  verify ctx v c det aad = VSuccess ->
  (c_payload c <> None /\ det = None) \/ (c_payload c = None /\ det <> None).
Proof. exact exactly_one_payload. Qed.
Print Assumptions C17_exactly_one_payload.

(* a protected algorithm different from the verifier's (another integer, incl. private use, or a text identifier) is refused *)
Theorem C17_alg_mismatch_refused : forall ctx v c det aad,
  (exists z, alg_of_protected (c_protected c) = AlgInt z /\ z <> v_alg v) \/
  (exists s, alg_of_protected (c_protected c) = AlgText s) ->
  verify ctx v c det aad = VFailAlg.
Proof. exact alg_mismatch_refused. Qed.
Print Assumptions C17_alg_mismatch_refused.

Theorem C17_not_authentic_refused : forall ctx v c det aad p,
  exactly_one (c_payload c) det = Some p ->
  v_check v (tbs_structure ctx (c_protected c) (aad_or_empty aad) p) (c_sig c) = false ->
  verify ctx v c det aad <> VSuccess.
Proof. exact not_authentic_refused. Qed.
Print Assumptions C17_not_authentic_refused.

Theorem C17_honest_verifies : forall ctx v c det aad tbs sg,
  alg_gate v (alg_of_protected (c_protected c)) = true ->
  prepare ctx c det aad = POk tbs -> v_parse v sg = true -> v_check v tbs sg = true ->
  verify ctx v (finalize c sg) det aad = VSuccess.
Proof. exact honest_verifies. Qed.
Print Assumptions C17_honest_verifies.

(* non-vacuity: a private-use algorithm (-70000) in the protected bucket {1: -70000} is refused by an ES256 verifier *)
Example C17_ex_private_alg :
  let c := {| c_tagged := false; c_protected := [161; 1; 58; 0; 1; 17; 111]; c_unprotected := []; c_payload := Some [1]; c_sig := [] |} in
  let v := {| v_alg := (-7)%Z; v_parse := fun _ => true; v_check := fun _ _ => true |} in
  alg_of_protected (c_protected c) = AlgInt (-70000)%Z /\ verify ctx_sign1 v c None None = VFailAlg.
Proof. vm_compute. split; reflexivity. Qed.
