(* C03 — the reader accepts an issuer signature only from a trusted document signer.  Pinned statements only.
   Oracles (function arguments, any values): x5chain decoding, chain validation (C12's rule), leaf key
   decoding, ECDSA verification. *)
From Isomdl Require Import Lib.Bytes Lib.Cbor Model.Cose Model.ReaderAuth Spec.CoseRfc Spec.ReaderAuthSpec
  Proofs.CoseProofs Proofs.ReaderAuthProofs.
Open Scope N_scope.

(* Valid only if: the x5chain is present and decodable, the chain validates against the registry,
   the first certificate's key decodes, the protected algorithm (if any) is the verifier's, and the
   signature verifies under that key over the RFC 8152 Sig_structure of the protected bytes and the
   attached MSO bytes (empty external AAD); moreover the disclosed data are bound to that MSO (C04) *)
Theorem C03_valid_only_if : forall (env : renv) (d : rdoc),
  o_issuer (validate_document env d) = Valid ->
  e_x5 env = X5Chain /\ e_chain_valid env = true /\ e_leaf_key_ok env = true /\
  alg_gate (e_issuer_verifier env) (alg_of_protected (c_protected (rd_issuer_auth d))) = true /\
  (exists payload, c_payload (rd_issuer_auth d) = Some payload /\
     v_parse (e_issuer_verifier env) (c_sig (rd_issuer_auth d)) = true /\
     v_check (e_issuer_verifier env) (iso_issuer_tbs (c_protected (rd_issuer_auth d)) payload) (c_sig (rd_issuer_auth d)) = true) /\
  data_bound d = true.
Proof. exact issuer_valid_only_if. Qed.

(* a non-Valid status always comes with an error entry *)
Theorem C03_nonvalid_has_error : forall (env : renv) (d : rdoc),
  o_issuer (validate_document env d) <> Valid -> o_errors (validate_document env d) <> [].
Proof. exact issuer_nonvalid_has_error. Qed.

(* an MSO or protected header altered after signing is checked against different bytes *)
Theorem C03_alteration : forall p m p' m',
  bytes_ok p -> bytes_ok m -> bytes_ok p' -> bytes_ok m' ->
  iso_issuer_tbs p m = iso_issuer_tbs p' m' -> p = p' /\ m = m'.
Proof. exact issuer_tbs_injective. Qed.

(* the causes named by the property each yield a non-Valid status *)
Theorem C03_missing_or_undecodable_x5chain : forall env d,
  e_x5 env <> X5Chain -> o_issuer (validate_document env d) = Unchecked /\ o_errors (validate_document env d) = [EParsing].
Proof. intros env d H. unfold validate_document. destruct (e_x5 env); try contradiction; split; reflexivity. Qed.

Theorem C03_untrusted_certificate : forall env d,
  e_chain_valid env = false -> o_issuer (validate_document env d) <> Valid.
Proof. intros env d H Hv. apply issuer_valid_only_if in Hv. destruct Hv as [_ [Hc _]]. congruence. Qed.
