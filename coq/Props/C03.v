(* C03 — the reader accepts an issuer signature only from a trusted document signer.  Pinned statements only.
   Oracles (function arguments, any values): x5chain decoding, chain validation (C12's rule), leaf key
   decoding, ECDSA verification. *)
From Isomdl Require Import Lib.Bytes Lib.Cbor Model.Cose Model.ReaderAuth Spec.CoseRfc Spec.ReaderAuthSpec
  Proofs.CoseProofs Proofs.ReaderAuthProofs.
(* for the composition with C12 (below): the X.509 model, the Annex B rule, the composed proofs, C12's witnesses *)
From Isomdl Require Import Model.X509 Spec.AnnexB Proofs.X509Proofs Proofs.TrustCompose.
Open Scope N_scope.

(* Valid only if: the x5chain is present and decodable, the chain validates against the registry,
   the first certificate's key decodes, the protected algorithm (if any) is the verifier's, and the
   signature verifies under that key over the RFC 8152 Sig_structure of the protected bytes and the
   attached MSO bytes (empty external AAD); moreover the disclosed data are bound to that MSO (C04) *)
Theorem C03_valid_only_if : forall (env : renv) (d : rdoc),
  o_issuer (validate_document env d) = Valid ->
  e_x5 env = X5Chain /\ e_chain_valid env = true /\ e_leaf_key_ok env = true /\
  alg_gate (e_issuer_verifier env) (alg_of_protected (c_protected (rd_issuer_auth d))) = true /\
  (exists payload, c_payload (rd_issuer_auth d) = Some payload /\
     v_parse (e_issuer_verifier env) (c_sig (rd_issuer_auth d)) = true /\
     v_check (e_issuer_verifier env) (iso_issuer_tbs (c_protected (rd_issuer_auth d)) payload) (c_sig (rd_issuer_auth d)) = true) /\
  data_bound d = true.
Proof. exact issuer_valid_only_if. Qed.
Print Assumptions C03_valid_only_if.

(* a non-Valid status always comes with an error entry *)
Theorem C03_nonvalid_has_error : forall (env : renv) (d : rdoc),
  o_issuer (validate_document env d) <> Valid -> o_errors (validate_document env d) <> [].
Proof. exact issuer_nonvalid_has_error. Qed.
Print Assumptions C03_nonvalid_has_error.

(* an MSO or protected header altered after signing is checked against different bytes *)
Theorem C03_alteration : forall p m p' m',
  bytes_ok p -> bytes_ok m -> bytes_ok p' -> bytes_ok m' ->
  iso_issuer_tbs p m = iso_issuer_tbs p' m' -> p = p' /\ m = m'.
Proof. exact issuer_tbs_injective. Qed.
Print Assumptions C03_alteration.

(* the causes named by the property each yield a non-Valid status *)
Theorem C03_missing_or_undecodable_x5chain : forall env d,
  e_x5 env <> X5Chain -> o_issuer (validate_document env d) = Unchecked /\ o_errors (validate_document env d) = [EParsing].
Proof. intros env d H. unfold validate_document. destruct (e_x5 env); try contradiction; split; reflexivity. Qed.
Print Assumptions C03_missing_or_undecodable_x5chain.

Theorem C03_untrusted_certificate : forall env d,
  e_chain_valid env = false -> o_issuer (validate_document env d) <> Valid.
Proof. intros env d H Hv. apply issuer_valid_only_if in Hv. destruct Hv as [_ [Hc _]]. congruence. Qed.
Print Assumptions C03_untrusted_certificate.

(* ---------- composition with C12: the chain verdict is the Annex B rule ----------
   The reader model carries no x5chain value; [e_chain_valid env] stands for
   `ValidationRuleset::Mdl.validate(&x5chain, &self.trust_anchor_registry).errors.is_empty()` (reader.rs).
   Below that oracle is instantiated by C12's model of this very call, for ANY chain x, registry reg,
   clock reading now and primitives ski_of_key / verifies (first hypothesis); x, reg, now are related to
   env through that equation only.  The other hypotheses are exactly C12_sound's / C12_single_deviation's. *)

(* Valid only if the document signer certificate (first of the chain) is within its validity, has the
   B.3 profile, and is anchored — name, key identifier, signature, validity — in a registry entry of
   purpose Iaca that has the B.1 profile and the same country / state; and C03_valid_only_if's conjuncts *)
Theorem C03_valid_implies_annexb :
  forall (ski_of_key : bytes -> bytes) (verifies : cert -> cert -> bool)
         (now : Z) (x : x5chain) (reg : list anchor) (env : renv) (d : rdoc),
    e_chain_valid env = match validate ski_of_key verifies Mdl now x reg with [] => true | _ :: _ => false end ->
    clock_ok now -> inputs_wf Mdl (x_first x) reg ->
    o_issuer (validate_document env d) = Valid ->
    conformant ski_of_key verifies Mdl now (x_first x) reg /\
    e_x5 env = X5Chain /\ e_leaf_key_ok env = true /\
    alg_gate (e_issuer_verifier env) (alg_of_protected (c_protected (rd_issuer_auth d))) = true /\
    (exists payload, c_payload (rd_issuer_auth d) = Some payload /\
       v_parse (e_issuer_verifier env) (c_sig (rd_issuer_auth d)) = true /\
       v_check (e_issuer_verifier env) (iso_issuer_tbs (c_protected (rd_issuer_auth d)) payload) (c_sig (rd_issuer_auth d)) = true) /\
    data_bound d = true.
Proof. exact issuer_valid_implies_conformant. Qed.
Print Assumptions C03_valid_implies_annexb.

(* ... and if the verifier is the one the first certificate's SubjectPublicKeyInfo determines, the MSO is
   signed under the key of that conformant, anchored certificate *)
Theorem C03_valid_signed_by_anchored_key :
  forall (ski_of_key : bytes -> bytes) (verifies : cert -> cert -> bool) (verifier_of_spki : bytes -> verifier)
         (now : Z) (x : x5chain) (reg : list anchor) (env : renv) (d : rdoc),
    e_chain_valid env = match validate ski_of_key verifies Mdl now x reg with [] => true | _ :: _ => false end ->
    e_issuer_verifier env = verifier_of_spki (c_spki (x_first x)) ->
    clock_ok now -> inputs_wf Mdl (x_first x) reg ->
    o_issuer (validate_document env d) = Valid ->
    conformant ski_of_key verifies Mdl now (x_first x) reg /\
    exists payload, c_payload (rd_issuer_auth d) = Some payload /\
      v_check (verifier_of_spki (c_spki (x_first x)))
              (iso_issuer_tbs (c_protected (rd_issuer_auth d)) payload) (c_sig (rd_issuer_auth d)) = true.
Proof. exact issuer_valid_signed_by_anchored_key. Qed.
Print Assumptions C03_valid_signed_by_anchored_key.

(* every deviation of Spec/AnnexB.v (the hypothesis of C12_single_deviation) keeps the status from being Valid *)
Theorem C03_untrusted_never_valid :
  forall (ski_of_key : bytes -> bytes) (verifies : cert -> cert -> bool)
         (now : Z) (x : x5chain) (reg : list anchor) (env : renv) (d : rdoc),
    e_chain_valid env = match validate ski_of_key verifies Mdl now x reg with [] => true | _ :: _ => false end ->
    clock_ok now -> deviation ski_of_key verifies Mdl now (x_first x) reg ->
    o_issuer (validate_document env d) <> Valid.
Proof. exact untrusted_never_valid. Qed.
Print Assumptions C03_untrusted_never_valid.

(* in particular: an empty registry; a registry whose entries (the right certificate included) are all
   registered for reader authentication; no IACA entry under which the leaf's signature verifies;
   IACA entries all expired *)
Theorem C03_untrusted_named_causes :
  forall (ski_of_key : bytes -> bytes) (verifies : cert -> cert -> bool)
         (now : Z) (x : x5chain) (reg : list anchor) (env : renv) (d : rdoc),
    e_chain_valid env = match validate ski_of_key verifies Mdl now x reg with [] => true | _ :: _ => false end ->
    clock_ok now ->
    (reg = [] \/
     (forall a, In a reg -> a_purpose a = ReaderCa) \/
     (forall a, In a reg -> a_purpose a = Iaca -> verifies (x_first x) (a_cert a) = false) \/
     (forall a, In a reg -> a_purpose a = Iaca -> (c_not_after (a_cert a) < now)%Z)) ->
    o_issuer (validate_document env d) <> Valid.
Proof. exact untrusted_named_causes. Qed.
Print Assumptions C03_untrusted_named_causes.

(* ---------- non-vacuity (witnesses: Proofs/X509Proofs.v section H, Proofs/TrustCompose.v section 4) ----------
   w_env now x reg: the reader's environment with the chain verdict computed by C12's model and the issuer
   verifier determined by the first certificate's key; w_doc c: an mDL document (one disclosed item, SHA-256
   digest in the MSO) whose issuerAuth is signed with c's key. *)

(* the hypotheses of C03_valid_implies_annexb and C03_valid_signed_by_anchored_key hold together *)
Example C03_ex_valid_implies_annexb_inhabited :
  e_chain_valid (w_env w_now (w_chain w_ds) [w_anchor w_iaca]) =
    match validate w_ski w_verifies Mdl w_now (w_chain w_ds) [w_anchor w_iaca] with [] => true | _ :: _ => false end /\
  e_issuer_verifier (w_env w_now (w_chain w_ds) [w_anchor w_iaca]) = w_verifier_of_spki (c_spki (x_first (w_chain w_ds))) /\
  clock_ok w_now /\ inputs_wf Mdl (x_first (w_chain w_ds)) [w_anchor w_iaca] /\
  o_issuer (validate_document (w_env w_now (w_chain w_ds) [w_anchor w_iaca]) (w_doc w_ds)) = Valid.
Proof. exact w_issuer_valid_inhabited. Qed.

(* the hypotheses of C03_untrusted_never_valid / C03_untrusted_named_causes hold, cause by cause; the document
   itself is authentic and signed by the document signer in every case *)
Example C03_ex_untrusted_never_valid_inhabited :
  (clock_ok w_now /\ deviation w_ski w_verifies Mdl w_now (x_first (w_chain w_ds)) [] /\
   o_issuer (validate_document (w_env w_now (w_chain w_ds) []) (w_doc w_ds)) = Invalid) /\
  (deviation w_ski w_verifies Mdl w_now (x_first (w_chain w_ds)) [w_reader_anchor w_iaca] /\
   o_issuer (validate_document (w_env w_now (w_chain w_ds) [w_reader_anchor w_iaca]) (w_doc w_ds)) = Invalid) /\
  (deviation w_ski w_verifies Mdl w_now (x_first (w_chain w_ds)) [w_anchor w_iaca_other_key] /\
   o_issuer (validate_document (w_env w_now (w_chain w_ds) [w_anchor w_iaca_other_key]) (w_doc w_ds)) = Invalid) /\
  (clock_ok w_later /\ deviation w_ski w_verifies Mdl w_later (x_first (w_chain w_ds)) [w_anchor w_iaca] /\
   o_issuer (validate_document (w_env w_later (w_chain w_ds) [w_anchor w_iaca]) (w_doc w_ds)) = Invalid) /\
  (clock_ok w_late /\ deviation w_ski w_verifies Mdl w_late (x_first (w_chain w_ds)) [w_anchor w_iaca] /\
   o_issuer (validate_document (w_env w_late (w_chain w_ds) [w_anchor w_iaca]) (w_doc w_ds)) = Invalid).
Proof. exact w_untrusted_inhabited. Qed.

(* the oracle equation of the examples above holds for every chain, registry and clock *)
Example C03_ex_oracle_instantiated : forall now x reg,
  e_chain_valid (w_env now x reg) = match validate w_ski w_verifies Mdl now x reg with [] => true | _ :: _ => false end.
Proof. exact w_env_oracle. Qed.
