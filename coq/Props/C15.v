(* C15 — untrusted input never panics the library (claimed PARTIAL: see DESIGN.md 6.C15).
   Pinned statements only.  Two kinds of statement:
   (1) every syntactic panic-capable site of the current non-test source (inventory regenerated
       by the translator on every run) is classified, and the classification names no site that
       no longer exists — so a new unwrap / index / from_slice / assert makes this file fail;
   (2) the models carry an explicit Panic outcome at the sites that consume peer or stored data,
       and it is proved unreachable for every input. *)
From Isomdl Require Import Lib.Bytes Lib.Cbor Gen.PanicSites Model.Panics Model.KeySchedule Model.Cose Model.ReaderAuth
  Proofs.KeyScheduleProofs Proofs.ReaderAuthProofs.
Open Scope N_scope.

Theorem C15_inventory_covered : forallb classified gen_panic_sites = true.
Proof. vm_compute. reflexivity. Qed.
Print Assumptions C15_inventory_covered.

Theorem C15_classification_current : forallb (still_present gen_panic_sites) classification = true.
Proof. vm_compute. reflexivity. Qed.
Print Assumptions C15_classification_current.

(* the peer's ephemeral key (QR code on the reader, SessionEstablishment on the device): the
   conversion in front of ECDH never panics, whatever the COSE key *)
Theorem C15_peer_key_total : forall (valid : bytes -> bool) (dh : bytes -> bytes) (k : cose_key),
  encoded_point k <> KPanic /\ shared_secret valid dh k <> KPanic.
Proof.
  intros valid dh k. split; [apply encoded_point_total|]. destruct (bad_key_refused valid dh k) as [H _]. exact H.
Qed.
Print Assumptions C15_peer_key_total.

(* response handling on the reader: device authentication never panics, whatever device key the
   (issuer-signed) MSO carries *)
Theorem C15_device_authentication_total : forall env d, device_authentication env d <> DaPanic.
Proof. exact device_no_panic. Qed.
Print Assumptions C15_device_authentication_total.

(* the Gallina CBOR decoder that mirrors ciborium is total: it answers for every fuel and input *)
Theorem C15_decoder_total : forall bs, exists r, decode_first bs = r.
Proof. intro bs. eexists. reflexivity. Qed.
Print Assumptions C15_decoder_total.
