(* C07 — no IV is reused under a session key; IVs follow ISO 18013-5 9.1.1.5.
   Pinned statements only. *)
From Isomdl Require Import Lib.Bytes Gen.Constants Model.Iv Model.Session Spec.IsoIv Proofs.IvProofs.
Open Scope N_scope.

(* the identifiers the code uses (generated from the current source) are the ISO ones *)
Theorem C07_identifiers_iso : forall r, identifier r = iso_identifier r.
Proof. exact identifier_iso. Qed.
Print Assumptions C07_identifiers_iso.

(* the counter is incremented before use *)
Theorem C07_next_iv : forall r c, c + 1 < two32 -> next_iv r c = (c + 1, iso_iv r (c + 1)).
Proof.
  intros r c H. unfold next_iv. rewrite incr_small by exact H. rewrite iv_iso. reflexivity.
Qed.
Print Assumptions C07_next_iv.

(* for every operation sequence of the two session managers (requests, deliveries of arbitrary
   wire messages incl. failed decryptions, prepare / sign / retrieve, serialise-restore of either
   role at any point), the n-th encryption of a role uses identifier || be32 n under that role's key *)
Theorem C07_nth_iv :
  forall (ops : list op) (kr kd : N) (r : role) (n : nat) (e : emission),
    let ems := snd (run ops (fresh kr kd)) in
    N.of_nat (length (ems_of r ems)) < two32 ->
    nth_error (ems_of r ems) n = Some e ->
    em_iv e = iso_iv r (N.of_nat n + 1) /\ em_key e = (match r with Reader => kr | Device => kd end).
Proof. exact nth_iv. Qed.
Print Assumptions C07_nth_iv.

(* no two encryptions of a session share an IV (hence no (key, IV) pair repeats) *)
Theorem C07_no_reuse :
  forall (ops : list op) (kr kd : N),
    let ems := snd (run ops (fresh kr kd)) in
    N.of_nat (length (ems_of Reader ems)) < two32 ->
    N.of_nat (length (ems_of Device ems)) < two32 ->
    NoDup (map em_iv ems).
Proof. exact no_reuse. Qed.
Print Assumptions C07_no_reuse.

Theorem C07_iv_injective :
  forall r r' n m, n < two32 -> m < two32 -> iso_iv r n = iso_iv r' m -> r = r' /\ n = m.
Proof. exact iso_iv_inj. Qed.
Print Assumptions C07_iv_injective.

(* non-vacuity: a history with a failed decryption, two rounds and a restore in between *)
Example C07_ex :
  let ops := [ONewRequest 1; OHandleRequest (WData Junk); OPrepare [(7, [1])] 0; OSubmit [9]; ORestoreDevice;
              ORetrieve; ONewRequest 2; OPrepare [] 0; OSubmit []; ORetrieve] in
  map em_iv (snd (run ops (fresh 0 1))) =
  [iso_iv Reader 1; iso_iv Device 1; iso_iv Reader 2; iso_iv Device 2].
Proof. vm_compute. reflexivity. Qed.
