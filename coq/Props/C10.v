(* C10 — issuer-signed bytes survive decoding, storage and transfer byte for byte.  Pinned statements only.

   Reading guide.  [encode_with c v] (Lib/CborLoose.v) is the encoding of the CBOR value [v] under
   the producer's choices [c] : head widths, indefinite framing, chunking -- for every node.
   [tag24_decode / tag24_encode / view / read_item] model Tag24<T> and the IssuerSignedItem reader;
   [sign1_of_cbor] is MaybeTagged<CoseSign1> as coset parses it; [issuer_signed], [mdoc], [document]
   and [response_issuer_signed] are the holders; [doc_cycle] is Document::stringify then ::parse.
   [bytes_ok b] = b is a byte string shorter than 2^64; [cbor_ok v] = v is a well-formed CBOR
   value (valid UTF-8 text, ciborium-minimal floats, no bignum tag holding a 64-bit value) whose
   lengths are below 2^64.  These are the only side conditions; they hold for anything in memory. *)
From Isomdl Require Import Lib.Bytes Lib.Utf8 Lib.Cbor Lib.CborLoose Proofs.CborProofs Proofs.CborLooseProofs
  Model.Cose Model.Tag24 Proofs.Tag24Proofs Proofs.HoldersProofs.
From Coq Require Import Permutation.
Open Scope N_scope.

(* ---------- "whatever encoding choices its producer made" ---------- *)

(* every encoding of a value, under every choice tree, decodes to that value (explicit fuel) *)
Theorem C10_decode_encode_with : forall c v r, wf v = true -> len_ok v = true ->
  decode (fuel_for (encode_with c v ++ r)) (encode_with c v ++ r) = DOk (v, r).
Proof. exact decode_encode_with. Qed.
Print Assumptions C10_decode_encode_with.

Theorem C10_decode_encode_with_fuel : forall v c, wf v = true -> len_ok v = true ->
  forall f r, (2 * length (encode_with c v) <= f)%nat -> decode f (encode_with c v ++ r) = DOk (v, r).
Proof. exact decode_encode_with_fuel. Qed.
Print Assumptions C10_decode_encode_with_fuel.

(* the canonical encoder is the instance "no choice made", so the loose encoder really ranges over
   alternatives to what isomdl itself would emit *)
Theorem C10_canonical_is_an_instance : forall v, encode_with ch_default v = encode v.
Proof. exact encode_with_default. Qed.
Print Assumptions C10_canonical_is_an_instance.

(* ---------- Tag24 ---------- *)

(* decode . encode returns exactly the embedded bytes, whatever they are *)
Theorem C10_tag24_preserved : forall inner r, wf_bytes inner = true -> blen inner < two64 ->
  tag24_decode (tag24_encode inner ++ r) = Some inner.
Proof. exact tag24_preserved. Qed.
Print Assumptions C10_tag24_preserved.

(* re-emission is D8 18, shortest byte-string head, the bytes; and it is a fixed point *)
Theorem C10_tag24_emitted_shape : forall inner, tag24_encode inner = [216; 24] ++ head 2 (blen inner) ++ inner.
Proof. exact tag24_encode_shape. Qed.
Print Assumptions C10_tag24_emitted_shape.

Theorem C10_tag24_fixed_point : forall inner, wf_bytes inner = true -> blen inner < two64 ->
  option_map tag24_encode (tag24_decode (tag24_encode inner)) = Some (tag24_encode inner).
Proof. exact tag24_fixed_point. Qed.
Print Assumptions C10_tag24_fixed_point.

(* any framing of the OUTER item is accepted with the same embedded bytes *)
Theorem C10_tag24_any_outer_framing : forall c inner r, wf_bytes inner = true -> blen inner < two64 ->
  tag24_decode (encode_with c (tag24 inner) ++ r) = Some inner.
Proof. exact tag24_any_outer. Qed.
Print Assumptions C10_tag24_any_outer_framing.

(* the typed view of a Tag24<T> is the typed reading of the kept bytes, nothing else *)
Theorem C10_view_is_decoding : forall (T : Type) (rd : bytes -> option T) bs inner t,
  tag24_decode_as rd bs = Some (inner, t) <-> tag24_decode bs = Some inner /\ rd inner = Some t.
Proof. exact @tag24_view_is_decoding. Qed.
Print Assumptions C10_view_is_decoding.

(* for every value and every producer choice: the view is the value ... *)
Theorem C10_any_encoding : forall c v r, wf v = true -> len_ok v = true ->
  view (encode_with c v ++ r) = Some v.
Proof. exact view_any_encoding. Qed.
Print Assumptions C10_any_encoding.

(* ... and what is kept and re-emitted are the producer's bytes, not a re-encoding of the view *)
Theorem C10_keeps_producer_bytes : forall c v r,
  wf_bytes (encode_with c v) = true -> blen (encode_with c v) < two64 ->
  tag24_decode (tag24_encode (encode_with c v) ++ r) = Some (encode_with c v).
Proof. exact tag24_keeps_producer_bytes. Qed.
Print Assumptions C10_keeps_producer_bytes.

(* ---------- IssuerSignedItem: any encoding, any key order, any unknown extra entries ---------- *)

Theorem C10_item_any_encoding : forall it es extras c r,
  item_cbor_ok it -> Forall extra_ok extras ->
  Permutation es (item_entries it ++ extras) ->
  N.of_nat (length es) < two64 ->
  keys_def (ch_sub c) es ->                  (* named hypothesis: map KEYS have definite length *)
  read_item (encode_with c (CMap es) ++ r) = Some it.
Proof. exact read_item_any_encoding. Qed.
Print Assumptions C10_item_any_encoding.

Theorem C10_tag24_item_any_encoding : forall it es extras c r,
  item_cbor_ok it -> Forall extra_ok extras -> Permutation es (item_entries it ++ extras) ->
  N.of_nat (length es) < two64 -> keys_def (ch_sub c) es ->
  bytes_ok (encode_with c (CMap es)) ->
  tag24_decode_as read_item (tag24_encode (encode_with c (CMap es)) ++ r)
  = Some (encode_with c (CMap es), it).
Proof. exact tag24_item_any_encoding. Qed.
Print Assumptions C10_tag24_item_any_encoding.

(* without that hypothesis the statement is false: an indefinite-length KEY is refused (not altered) *)
Theorem C10_item_any_encoding_refuted :
  let it := ex_item 1 [97] CNull in
  let c := Ch 0 false [] [Ch 0 true [] []] in
  view (encode_with c (CMap (item_entries it))) = Some (CMap (item_entries it)) /\
  read_item (encode_with c (CMap (item_entries it))) = None /\
  read_item (encode_with ch_default (CMap (item_entries it))) = Some it.
Proof. exact item_indefinite_key_refused. Qed.
Print Assumptions C10_item_any_encoding_refuted.

Theorem C10_item_order_insensitive : forall es es', Permutation es es' -> item_of_entries es = item_of_entries es'.
Proof. exact item_of_entries_perm. Qed.
Print Assumptions C10_item_order_insensitive.

Theorem C10_item_unknown_ignored : forall es ex,
  Forall (fun e => known_key (fst e) = false) ex -> item_of_entries (es ++ ex) = item_of_entries es.
Proof. exact item_of_entries_extra. Qed.
Print Assumptions C10_item_unknown_ignored.

Theorem C10_item_duplicate_refused : forall k es v1 v2 rest, known_key k = true ->
  Permutation es ((k, v1) :: (k, v2) :: rest) -> item_of_entries es = None.
Proof. exact item_of_entries_dup. Qed.
Print Assumptions C10_item_duplicate_refused.

(* ---------- issuerAuth: protected bytes, payload, signature, x5chain ---------- *)

(* first reception from any producer *)
Theorem C10_cose_received : forall v c, sign1_of_cbor v = COk c ->
  exists c0, cose1_of_cbor tag_sign1 v = Some c0 /\
    c_protected c = c_protected c0 /\ c_payload c = c_payload c0 /\ c_sig c = c_sig c0 /\
    c_tagged c = c_tagged c0 /\
    (forall k, core_label k = false -> map_get k (c_unprotected c) = map_get k (c_unprotected c0)) /\
    cose_normal c.
Proof. exact sign1_received. Qed.
Print Assumptions C10_cose_received.

(* decode . encode of each holder is the identity on what it holds *)
Theorem C10_cose_preserved :
  (forall c, cose_normal c -> sign1_of_cbor (sign1_to_cbor c) = COk c) /\
  (forall x r, is_ok x -> is_decode (is_encode x ++ r) = Some x) /\
  (forall d, doc_ok d -> doc_parse (doc_stringify d) = Some d).
Proof. exact (conj sign1_roundtrip (conj is_roundtrip doc_stringify_parse)). Qed.
Print Assumptions C10_cose_preserved.

(* coset re-derives the unprotected header; doing so twice changes nothing *)
Theorem C10_unprotected_normal_form_stable : forall kvs u, hdr_norm kvs = HOk u -> hdr_norm u = HOk u.
Proof. exact hdr_norm_idem. Qed.
Print Assumptions C10_unprotected_normal_form_stable.

(* ---------- any number of cycles ---------- *)

Theorem C10_cycles :
  (forall n d, doc_ok d -> iter_opt n doc_cycle d = Some d) /\
  (forall n x, is_ok x -> iter_opt n is_cycle x = Some x).
Proof. exact (conj doc_cycles is_cycles). Qed.
Print Assumptions C10_cycles.

(* ---------- device storage: Mdoc -> Document ---------- *)

Theorem C10_storage_sound : forall id md ns m eid inner,
  In (ns, m) (d_ns (doc_of_mdoc id md)) -> In (eid, inner) m ->
  exists items, In (ns, items) (md_ns md) /\ In inner items /\ eid = id_of inner.
Proof. exact storage_sound. Qed.
Print Assumptions C10_storage_sound.

Theorem C10_storage_auth : forall id md, d_auth (doc_of_mdoc id md) = md_auth md.
Proof. exact storage_auth. Qed.
Print Assumptions C10_storage_auth.

Theorem C10_storage_complete : forall id md ns items inner,
  In (ns, items) (md_ns md) -> Forall item_ok items ->
  NoDup (map id_of items) ->                 (* named hypothesis: identifiers distinct within the namespace *)
  In inner items ->
  exists m, In (ns, m) (d_ns (doc_of_mdoc id md)) /\ In (id_of inner, inner) m.
Proof. exact storage_complete. Qed.
Print Assumptions C10_storage_complete.

(* without it the statement is false: the earlier of two items with one identifier is dropped *)
Theorem C10_storage_complete_refuted :
  ~ (forall id md ns items inner,
       In (ns, items) (md_ns md) -> Forall item_ok items -> In inner items ->
       exists m, In (ns, m) (d_ns (doc_of_mdoc id md)) /\ In (id_of inner, inner) m).
Proof. exact storage_complete_refuted. Qed.
Print Assumptions C10_storage_complete_refuted.

(* ---------- the response ---------- *)

Theorem C10_response_items_held : forall d sel m ns l x,
  is_ns (response_issuer_signed d sel) = Some m -> In (ns, l) m -> In x l -> held d ns x.
Proof. exact response_items_held. Qed.
Print Assumptions C10_response_items_held.

Theorem C10_response_auth : forall d sel, is_auth (response_issuer_signed d sel) = d_auth d.
Proof. exact response_auth. Qed.
Print Assumptions C10_response_auth.

(* received Mdoc -> Document -> n Stringify cycles -> response -> transfer -> reader's IssuerSigned *)
Theorem C10_end_to_end : forall id md n sel d' r,
  doc_ok (doc_of_mdoc id md) ->
  iter_opt n doc_cycle (doc_of_mdoc id md) = Some d' ->
  let resp := response_issuer_signed d' sel in
  is_ok resp ->
  is_decode (is_encode resp ++ r) = Some resp /\
  auth_components (is_auth resp) = auth_components (md_auth md) /\
  issuer_tbs (is_auth resp) = issuer_tbs (md_auth md) /\
  (forall m ns l x, is_ns resp = Some m -> In (ns, l) m -> In x l ->
     exists items, In (ns, items) (md_ns md) /\ In x items).
Proof. exact end_to_end. Qed.
Print Assumptions C10_end_to_end.

(* ---------- digests and the issuer signature input ---------- *)

(* after any number of cycles: the same item bytes (hence the same digest inputs [tag24_encode inner]),
   the same protected / payload / signature / x5chain, the same Sig_structure *)
Theorem C10_digests_stable : forall n d, doc_ok d ->
  forall d', iter_opt n doc_cycle d = Some d' ->
  d_ns d' = d_ns d /\ auth_components (d_auth d') = auth_components (d_auth d) /\
  issuer_tbs (d_auth d') = issuer_tbs (d_auth d).
Proof. exact digest_input_stable. Qed.
Print Assumptions C10_digests_stable.

(* the digest input determines the embedded bytes: any change of them changes the input *)
Theorem C10_digest_input_injective : forall a b, bytes_ok a -> bytes_ok b ->
  digest_input a = digest_input b -> a = b.
Proof. exact tag24_encode_injective. Qed.
Print Assumptions C10_digest_input_injective.

(* ---------- non-vacuity ---------- *)

Example C10_ex_doc_ok : doc_ok (doc_of_mdoc CNull (ex_mdoc [ex_i1; ex_i3])).
Proof. exact ex_doc_ok. Qed.

Example C10_ex_dup_dropped : d_ns (doc_of_mdoc CNull (ex_mdoc [ex_i1; ex_i2])) = [(ex_ns, [([97], ex_i2)])].
Proof. exact storage_dup_drops_item. Qed.

Example C10_ex_outer_framing_normalised :
  let inner := [161; 97; 97; 1] in
  let c := Ch 0 false [] [Ch 0 true [2] []] in
  encode_with c (tag24 inner) = [216; 24; 95; 66; 161; 97; 66; 97; 1; 255] /\
  tag24_decode (encode_with c (tag24 inner)) = Some inner /\
  tag24_encode inner = [216; 24; 68; 161; 97; 97; 1].
Proof. exact outer_framing_normalised. Qed.

Example C10_ex_loose :
  let v := CMap [(CText [97], CArray [CUInt 1; CBytes [1; 2; 3]])] in
  let c2 := Ch 0 true [] [Ch 0 true [0] []; Ch 0 true [] [Ch 0 false [] []; Ch 0 true [1; 1] [Ch 1 false [] []]]] in
  encode v = [161; 97; 97; 130; 1; 67; 1; 2; 3] /\
  encode_with c2 v = [191; 127; 96; 97; 97; 255; 159; 1; 95; 88; 1; 1; 65; 2; 65; 3; 255; 255; 255] /\
  decode_first (encode_with c2 v) = Some v.
Proof. vm_compute. repeat split; reflexivity. Qed.
