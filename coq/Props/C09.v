(* C09 — issued mdocs are internally consistent and verifiable.  Pinned statements only.
   All statements are about Model/Issuance.v (issue / prepare / complete with an explicit random
   tape; the `release` flag stands for "overflow checks off" and, since DigestId::new saturates
   (repair of F3, /repo 0f19958), no longer influences anything: C09_build_mode_irrelevant) and
   hold for every tape, i.e. for every outcome of the random draws.  "Fresh" randomness is not a property of the model (the
   tape is arbitrary): only the length and the use of the random bytes are proved. *)
From Isomdl Require Import Lib.Bytes Lib.Utf8 Lib.Cbor Lib.Sha2 Model.Cose Spec.CoseRfc Proofs.CoseProofs
     Gen.Issuance Model.Issuance Spec.IssuanceSpec Model.IssuanceObs Proofs.IssuanceProofs Proofs.IssuanceSpecProofs.
Open Scope N_scope.

(* ---------- DigestId::new over all 2^32 inputs ---------- *)

(* for EVERY i32 (all 2^32 inputs), in debug and release builds alike, the constructor returns
   min(|i|, 2^31-1), which lies in 0 .. 2^31-1 *)
Theorem C09_digest_id_range : forall (release : bool) (i : Z),
  in_i32 i = true ->
  digest_id_new release i = Z.min (Z.abs i) 2147483647 /\ digest_id_in_range (digest_id_new release i).
Proof. exact c09_digest_id_range. Qed.
Print Assumptions C09_digest_id_range.

(* the former witness of F3: i32::MIN now gives 2^31-1 in both build modes; so do +-(2^31-1) *)
Example C09_ex_digest_id_min :
  digest_id_new false (-2147483648) = 2147483647%Z /\ digest_id_new true (-2147483648) = 2147483647%Z /\
  digest_id_new false (-2147483647) = 2147483647%Z /\ digest_id_new false 2147483647 = 2147483647%Z /\
  digest_id_new false 0 = 0%Z /\ digest_id_new false (-1) = 1%Z.
Proof. repeat split. Qed.

(* every u32 word of the generator is some i32, and every i32 is reached: the model's domain of
   `rng.gen::<i32>()` is exactly the 2^32 inputs *)
Theorem C09_draws_are_i32 :
  (forall w, in_i32 (i32_of_word w) = true) /\
  (forall i, in_i32 i = true -> exists w, w < 4294967296 /\ i32_of_word w = i).
Proof. exact c09_draws_are_i32. Qed.
Print Assumptions C09_draws_are_i32.

(* ---------- issued documents ---------- *)

(* the namespaces of the document and of valueDigests are the supplied namespaces, and every
   supplied element appears exactly once, in map order, with its value, and nothing else appears *)
Theorem C09_every_element_once : forall release q t x5 sign m,
  issue release q t x5 sign = Ok m ->
  map (fun x => (fst x, map (fun it => (it_ident it, it_value it)) (snd x))) (m_namespaces m) = q_namespaces q /\
  map fst (mso_value_digests (m_mso m)) = map fst (q_namespaces q).
Proof. exact c09_every_element_once. Qed.
Print Assumptions C09_every_element_once.

(* every item carries exactly 16 bytes taken from the random tape; no namespace is empty *)
Theorem C09_random_len : forall release q t x5 sign m,
  issue release q t x5 sign = Ok m ->
  forall ns its, In (ns, its) (m_namespaces m) ->
    its <> [] /\ Forall (fun it => length (it_random it) = 16%nat) its.
Proof. exact c09_random_len. Qed.
Print Assumptions C09_random_len.

(* digest ids are unique within a namespace: among the items, among all entries of
   valueDigests[ns], and the decoy ids are distinct from each other and from every item id *)
Theorem C09_ids_unique : forall release q t x5 sign m,
  issue release q t x5 sign = Ok m ->
  forall ns its vd, ns_of m ns its vd ->
    NoDup (map it_id its) /\ NoDup (map fst vd) /\
    exists decoys : list (Z * decoy_fill),
      NoDup (map fst decoys) /\
      (forall z, In z (map fst decoys) -> ~ In z (map it_id its)) /\
      (forall k, In k (map fst vd) <-> In k (map it_id its) \/ In k (map fst decoys)).
Proof. exact c09_ids_unique. Qed.
Print Assumptions C09_ids_unique.

(* every digest id of the document (items and decoys) lies in 0 .. 2^31-1, whatever was drawn *)
Theorem C09_ids_in_range : forall release q t x5 sign m,
  issue release q t x5 sign = Ok m ->
  forall ns its vd, ns_of m ns its vd ->
    (forall it, In it its -> In (it_id it) (map fst vd)) /\
    forall k, In k (map fst vd) -> digest_id_in_range k.
Proof. exact c09_ids_in_range. Qed.
Print Assumptions C09_ids_in_range.

(* issuance never panics, and does not depend on the build mode *)
Theorem C09_never_panics : forall release q t x5 sign,
  prepare release q t <> Panic /\ issue release q t x5 sign <> Panic.
Proof. exact c09_never_panics. Qed.
Print Assumptions C09_never_panics.

Theorem C09_build_mode_irrelevant : forall q t x5 sign,
  (forall i, digest_id_new true i = digest_id_new false i) /\
  prepare true q t = prepare false q t /\ issue true q t x5 sign = issue false q t x5 sign.
Proof. exact c09_build_mode_irrelevant. Qed.
Print Assumptions C09_build_mode_irrelevant.

(* the former witness of F3 at document level: the draw 0x80000000 (i32::MIN) now yields the id
   2^31-1 in both build modes; the draws 0x7fffffff and 0x80000001 (+-(2^31-1)) give the same id
   and are therefore rejected as duplicates by generate_digest_id (it deduplicates on the RESULT),
   so the second element gets the next fresh draw *)
Example C09_ex_min_draw :
  let q := {| q_doc_type := [100]; q_namespaces := [([110], [([101], CUInt 1); ([102], CUInt 2)])]; q_validity := CNull;
              q_alg := SHA256; q_device_key_info := CNull; q_auth := None; q_sig_alg := (-7)%Z; q_decoys := false |} in
  let t := {| t_ids := [2147483648; 2147483647; 2147483649; 5]; t_salt := repeat 0 32; t_counts := []; t_decoy := DecoyBytes [] |} in
  forall release,
  match issue release q t (CBytes [48]) (fun _ => Some [1]) with
  | Ok m => map (fun x => map it_id (snd x)) (m_namespaces m) = [[2147483647; 5]%Z] /\
            map (fun x => map fst (snd x)) (mso_value_digests (m_mso m)) = [[5; 2147483647]%Z] /\
            issued_check (fun _ _ => true) (request_of q (CBytes [48])) (observe m) = None
  | _ => False
  end.
Proof. intros q t [|]; vm_compute; repeat split. Qed.

(* valueDigests[ns][digestID] is the declared hash of the element's IssuerSignedItemBytes,
   #6.24(bstr .cbor IssuerSignedItem), for all three algorithms; and it is the only entry with that id *)
Theorem C09_digests_correct : forall release q t x5 sign m,
  issue release q t x5 sign = Ok m ->
  forall ns its vd, ns_of m ns its vd ->
  forall it, In it its ->
    let item_bytes_tag24 := encode (CTag 24 (CBytes (encode (item_cbor it)))) in
    let digest := match q_alg q with
                  | SHA256 => sha256 item_bytes_tag24
                  | SHA384 => sha384 item_bytes_tag24
                  | SHA512 => sha512 item_bytes_tag24
                  end in
    In (it_id it, digest) vd /\ forall d, In (it_id it, d) vd -> d = digest.
Proof. exact c09_digests_correct. Qed.
Print Assumptions C09_digests_correct.

(* valueDigests[ns] consists of exactly the items' entries and the decoy entries; a decoy's id is
   no element's id (so no element refers to a decoy digest); decoys exist only when enabled, and
   then there are between 5 and 9 of them *)
Theorem C09_decoys_are_decoys : forall release q t x5 sign m,
  issue release q t x5 sign = Ok m ->
  forall ns its vd, ns_of m ns its vd ->
  exists decoys : list (Z * decoy_fill),
    (forall kv, In kv vd <-> In kv (map (item_entry (q_alg q)) its) \/ In kv (map (decoy_entry (q_alg q)) decoys)) /\
    (forall z, In z (map fst decoys) -> ~ In z (map it_id its)) /\
    ((q_decoys q = false /\ decoys = []) \/ (q_decoys q = true /\ (5 <= length decoys <= 9)%nat)).
Proof. exact c09_decoys_are_decoys. Qed.
Print Assumptions C09_decoys_are_decoys.

(* issuerAuth: payload = #6.24(bstr .cbor returned MSO); protected header exactly {1: alg};
   unprotected header = {33: x5chain}; the signature is the signer's answer to the RFC 8152
   Sig_structure over these, inserted unchanged; the returned MSO has the requested docType,
   validity, device key info and algorithm; and a verifier for the signer's algorithm that accepts
   that signature over that structure accepts the issuerAuth *)
Theorem C09_issuer_auth : forall release q t x5 sign m,
  issue release q t x5 sign = Ok m ->
  let payload := encode (CTag 24 (CBytes (encode (mso_cbor (m_mso m))))) in
  let protected := encode (CMap [(CUInt 1, int_cbor (q_sig_alg q))]) in
  c_payload (m_issuer_auth m) = Some payload /\
  c_protected (m_issuer_auth m) = protected /\
  c_unprotected (m_issuer_auth m) = [(CUInt 33, x5)] /\
  sign (rfc_tbs_sign1 protected [] payload) = Some (c_sig (m_issuer_auth m)) /\
  (m_doc_type m = q_doc_type q /\ mso_doc_type (m_mso m) = q_doc_type q /\ mso_validity (m_mso m) = q_validity q /\
   mso_device_key_info (m_mso m) = q_device_key_info q /\ mso_alg (m_mso m) = q_alg q) /\
  forall v : verifier,
    in_i32 (q_sig_alg q) = true -> v_alg v = q_sig_alg q ->
    v_parse v (c_sig (m_issuer_auth m)) = true ->
    v_check v (rfc_tbs_sign1 protected [] payload) (c_sig (m_issuer_auth m)) = true ->
    verify ctx_sign1 v (m_issuer_auth m) None None = VSuccess.
Proof. exact c09_issuer_auth. Qed.
Print Assumptions C09_issuer_auth.

(* direct signing = prepare, sign the offered payload, complete *)
Theorem C09_issue_is_prepare_complete : forall release q t x5 sign,
  issue release q t x5 sign =
  match prepare release q t with
  | Ok p => match sign (pm_tbs p) with Some sg => Ok (complete p x5 sg) | None => Err ESigning end
  | Err e => Err e | Panic => Panic | OutOfTape => OutOfTape
  end.
Proof. exact issue_is_prepare_complete. Qed.
Print Assumptions C09_issue_is_prepare_complete.

(* refusals: prepare answers Err exactly for contradictory key authorisations, an empty namespace
   map, or a namespace without elements (and never for another reason); in these cases nothing is
   ever prepared; the first two are refused before any randomness is drawn *)
Theorem C09_refusals : forall release q t,
  (forall e, prepare release q t = Err e ->
     (exists ns, e = EDoubleAuthorized ns /\ contradictory_auth q) \/
     (e = ENoNamespaces /\ q_namespaces q = []) \/
     (e = EEmptyNamespace /\ exists ns, In (ns, []) (q_namespaces q))) /\
  (refusal_case q -> forall p, prepare release q t <> Ok p) /\
  (contradictory_auth q -> exists ns, prepare release q t = Err (EDoubleAuthorized ns)) /\
  (~ contradictory_auth q -> q_namespaces q = [] -> prepare release q t = Err ENoNamespaces).
Proof. exact c09_refusals. Qed.
Print Assumptions C09_refusals.

(* the model's documents satisfy the ISO-level statement of Spec/IssuanceSpec.v (which is written
   over the encoded document), for well-formed inputs *)
Theorem C09_meets_iso_spec : forall verify_sig release q t x5 sign m,
  request_wf q -> wf_bytes (t_salt t) = true -> stream_wf (t_decoy t) ->
  issue release q t x5 sign = Ok m ->
  sizes_ok m ->
  (forall tbs sg, sign tbs = Some sg -> verify_sig tbs sg = true) ->
  issued_ok verify_sig (request_of q x5) (observe m).
Proof. exact issue_meets_spec. Qed.
Print Assumptions C09_meets_iso_spec.

(* the executable checker run by the harness on the implementation's documents is sound for it *)
Theorem C09_checker_sound : forall verify_sig req o,
  issued_check verify_sig req o = None -> issued_ok verify_sig req o.
Proof. exact issued_check_sound. Qed.
Print Assumptions C09_checker_sound.

Theorem C09_refusal_checker : forall req, must_refuse_b req = true <-> must_refuse req.
Proof. exact must_refuse_b_iff. Qed.
Print Assumptions C09_refusal_checker.

(* ---------- the source shapes the model was written against (regenerated by the translator on
   every run; an edit of these places in /repo makes this file fail to build) ---------- *)

Local Open Scope string_scope.
Example C09_src_constants :
  gen_salt_len = 16 /\ gen_decoy_len = 512 /\ gen_decoy_range = (5, 10) /\ gen_x5chain_label = 33%Z /\
  gen_mso_version = bytes_of_string "1.0".
Proof. repeat split. Qed.

Example C09_src_digest_id_new :
  gen_digest_id_new_body = "{ DigestId (i . saturating_abs ()) }".
Proof. reflexivity. Qed.

(* both callers hand their own used-set to the generator; digest_namespace starts from the items' ids *)
Example C09_src_used_sets :
  gen_digest_id_calls = [("to_issuer_signed_items", "& mut used_ids"); ("digest_namespace", "& mut used_ids")] /\
  gen_used_ids_inits = [("to_issuer_signed_items", "HashSet :: new ()");
                        ("digest_namespace", "elements . iter () . map (| item | item . as_ref () . digest_id) . collect ()")] /\
  gen_generate_digest_id_body =
    "{ let mut digest_id ; loop { digest_id = DigestId :: new (rand :: thread_rng () . gen ()) ; if used_ids . insert (digest_id) { break ; } } digest_id }".
Proof. repeat split. Qed.

(* what is hashed (the Tag24 item, serialised) and with which function per algorithm *)
Example C09_src_digest_input :
  gen_digest_item_closures = [("item", "item . as_ref () . digest_id");
                              ("item", "Ok ((item . as_ref () . digest_id , crate :: cbor :: to_vec (item) ?))")] /\
  gen_digest_alg_arms = [("DigestAlgorithm :: SHA256", "Sha256 :: digest (bytes) . to_vec ()");
                         ("DigestAlgorithm :: SHA384", "Sha384 :: digest (bytes) . to_vec ()");
                         ("DigestAlgorithm :: SHA512", "Sha512 :: digest (bytes) . to_vec ()")].
Proof. repeat split. Qed.

Example C09_src_cose_shape :
  gen_prepare_lets = [("protected", "coset :: HeaderBuilder :: new () . algorithm (signature_algorithm) . build ()");
                      ("mso_bytes", "crate :: cbor :: to_vec (& Tag24 :: new (& mso) ?) ?");
                      ("prepared_sig", "PreparedCoseSign1 :: new (builder , None , None , false) ?")] /\
  gen_complete_pushes = [("issuer_auth . inner . unprotected . rest", "(Label :: Int (X5CHAIN_COSE_HEADER_LABEL) , x5chain . into_cbor ())")].
Proof. repeat split. Qed.

Example C09_src_wire_fields :
  gen_issuer_signed_item_attrs = "serde(rename_all='camelCase')" /\
  gen_issuer_signed_item_fields = [("digest_id", "serde(rename='digestID')", "DigestId"); ("random", "", "ByteStr");
                                   ("element_identifier", "", "String"); ("element_value", "", "ciborium::Value")] /\
  gen_mso_attrs = "serde(rename_all='camelCase')" /\
  gen_mso_fields = [("version", "", "String"); ("digest_algorithm", "", "DigestAlgorithm"); ("value_digests", "", "BTreeMap<String,DigestIds>");
                    ("device_key_info", "", "DeviceKeyInfo"); ("doc_type", "", "String"); ("validity_info", "", "ValidityInfo")] /\
  gen_digest_algorithm_variants = [("SHA256", "serde(rename='SHA-256')", "unit"); ("SHA384", "serde(rename='SHA-384')", "unit");
                                   ("SHA512", "serde(rename='SHA-512')", "unit")].
Proof. repeat split. Qed.

(* ---------- non-vacuity ---------- *)

Definition ex_q : request :=
  {| q_doc_type := bytes_of_string "org.iso.18013.5.1.mDL";
     q_namespaces := [(bytes_of_string "org.iso.18013.5.1",
                       [(bytes_of_string "age_over_18", CBool true); (bytes_of_string "family_name", CText (bytes_of_string "Smith"))])];
     q_validity := CMap [(ctext "signed", CTag 0 (ctext "2024-01-01T00:00:00Z"))];
     q_alg := SHA384; q_device_key_info := CMap [(ctext "deviceKey", CMap [(CUInt 1, CUInt 2)])];
     q_auth := None; q_sig_alg := (-7)%Z; q_decoys := true |}.
Definition ex_t : tape :=
  {| t_ids := [7; 7; 4294967295; 9; 10; 11; 12; 13; 14]; t_salt := repeat 17 32; t_counts := [0]; t_decoy := DecoyBytes (repeat 1 2560) |}.

(* two elements, first id drawn twice (rejected the second time), a negative draw, five decoys:
   the document is issued and passes the executable ISO checker *)
Example C09_ex_issue :
  match issue false ex_q ex_t (CBytes [48]) (fun _ => Some [1; 2; 3]) with
  | Ok m => issued_check (fun _ _ => true) (request_of ex_q (CBytes [48])) (observe m) = None /\
            map (fun x => map it_id (snd x)) (m_namespaces m) = [[7; 1]%Z] /\
            map (fun x => length (snd x)) (mso_value_digests (m_mso m)) = [7%nat]
  | _ => False
  end.
Proof. vm_compute. repeat split. Qed.

Example C09_ex_refusals :
  prepare false {| q_doc_type := []; q_namespaces := []; q_validity := CNull; q_alg := SHA256; q_device_key_info := CNull;
                   q_auth := None; q_sig_alg := (-7)%Z; q_decoys := false |} ex_t = Err ENoNamespaces /\
  prepare false {| q_doc_type := []; q_namespaces := [([1], [])]; q_validity := CNull; q_alg := SHA256; q_device_key_info := CNull;
                   q_auth := None; q_sig_alg := (-7)%Z; q_decoys := false |} ex_t = Err EEmptyNamespace /\
  prepare false {| q_doc_type := []; q_namespaces := [([1], [([2], CNull)])]; q_validity := CNull; q_alg := SHA256; q_device_key_info := CNull;
                   q_auth := Some {| ka_namespaces := Some [[1]]; ka_elements := Some [([1], [[2]])] |}; q_sig_alg := (-7)%Z; q_decoys := false |} ex_t
    = Err (EDoubleAuthorized [1]).
Proof. vm_compute. repeat split. Qed.

(* the hypotheses of C09_meets_iso_spec are inhabited by the example above *)
Example C09_ex_hypotheses :
  request_wf ex_q /\ wf_bytes (t_salt ex_t) = true /\ stream_wf (t_decoy ex_t) /\
  match issue false ex_q ex_t (CBytes [48]) (fun _ => Some [1; 2; 3]) with
  | Ok m => sizes_ok m
  | _ => False
  end.
Proof.
  split.
  - unfold request_wf, text_ok, elem_wf.
    split; [vm_compute; apply NoDup_cons; [intros []|apply NoDup_nil]|].
    split; [|vm_compute; auto].
    apply Forall_cons; [|apply Forall_nil]. split; [vm_compute; auto|].
    apply Forall_cons; [vm_compute; auto|]. apply Forall_cons; [vm_compute; auto|apply Forall_nil].
  - split; [vm_compute; reflexivity|split; [exact I|]].
    let v := eval vm_compute in (issue false ex_q ex_t (CBytes [48]) (fun _ => Some [1; 2; 3])) in
    assert (E : issue false ex_q ex_t (CBytes [48]) (fun _ => Some [1; 2; 3]) = v) by (vm_compute; reflexivity).
    rewrite E. clear E. unfold sizes_ok. cbn [m_mso m_namespaces snd].
    split; [vm_compute; reflexivity|];
      repeat (first [apply Forall_nil | apply Forall_cons]); vm_compute; reflexivity.
Qed.
