(* C19 — mDL / AAMVA element encoding from JSON is faithful and validated.
   Only pinned statements (closed by `exact`) and examples (non-vacuity; the former defect
   witnesses, now handled as the property demands).

   Reading guide.  `ns_elements b64 n j` is the model of  T::from_json(&j).map(|x| x.to_ns_map())
   for the namespace struct T of n (Model/FromJson.v; the derive macros are interpreted over the
   field descriptors Gen/Fields.v, the code tables are Gen/Tables.v).  `b64` is base64::decode,
   universally quantified.  `ns_dm n` is the data-model table written from ISO 18013-5 Table 5 /
   the AAMVA guideline (Spec/MdlDataModel.v); `den .. c j v` says "j is in the domain of class c
   and v is the CBOR value prescribed for it", `dom .. c j` says "j is in the domain".
   `NoDup (map fst kvs)`: a serde_json::Map has unique keys.  No other hypothesis: the eight
   defect classes these theorems once excluded (known_findings.json, status fixed) are repaired
   in the code and the model follows the repaired code; the former witnesses are the positive
   Examples at the end. *)
From Isomdl Require Import Lib.Bytes Lib.Cbor Lib.GenTypes Gen.Tables Gen.Fields Model.FromJson Spec.MdlDataModel.
From Isomdl Require Import Proofs.C19Struct Proofs.C19Main Proofs.C19Theorems.
Open Scope N_scope.

(* the generated field lists (identifier after rename, value class, mandatory / optional / family)
   ARE the data-model tables, for the two namespace structs and every nested struct *)
Theorem C19_fields_iso : forall n, Forall (struct_matches_spec n) (structs n).
Proof. exact fields_iso_all. Qed.
Print Assumptions C19_fields_iso.

(* exactly one element per supplied field of the data model, including every well-formed
   age_over_NN / biometric_template_XX, and nothing else — for EVERY JSON object *)
Theorem C19_exactly_supplied :
  forall b64 n kvs out, NoDup (map fst kvs) ->
    ns_elements b64 n (JObj kvs) = Ok out ->
    NoDup (map fst out) /\ forall k, In k (map fst out) <-> expected_id n kvs k.
Proof. exact exactly_supplied. Qed.
Print Assumptions C19_exactly_supplied.

(* each output value has the CBOR type the data model prescribes for its identifier *)
Theorem C19_types :
  forall b64 n kvs out, NoDup (map fst kvs) ->
    ns_elements b64 n (JObj kvs) = Ok out ->
    forall k v, In (k, v) out -> exists r, row_for (ns_dm n) k = Some r /\ cbor_type_ok (dm_class r) v.
Proof. exact types. Qed.
Print Assumptions C19_types.

(* ... and is the supplied value, up to the documented case and UTC normalisation (den) *)
Theorem C19_value_preserved :
  forall b64 n kvs out, NoDup (map fst kvs) ->
    ns_elements b64 n (JObj kvs) = Ok out ->
    forall k v, In (k, v) out ->
      exists r j, row_for (ns_dm n) k = Some r /\ jget k kvs = Some j /\
                  den b64 spec_fuel n kvs (dm_class r) j v = true.
Proof. exact value_preserved. Qed.
Print Assumptions C19_value_preserved.

(* a record with a missing (absent or null) mandatory field is rejected *)
Theorem C19_missing_rejected :
  forall b64 n kvs r, NoDup (map fst kvs) ->
    In r (ns_dm n) -> dm_presence r = Mandatory -> supplied kvs (dm_id r) = false ->
    exists e, ns_elements b64 n (JObj kvs) = Err e.
Proof. exact missing_rejected. Qed.
Print Assumptions C19_missing_rejected.

(* a record with an out-of-domain value is rejected (not altered, no panic): whole-record form,
   per fixed field, per age_over_NN / biometric_template_XX entry, per leaf type *)
Theorem C19_out_of_domain_rejected :
  forall b64 n kvs, NoDup (map fst kvs) ->
    ns_dom b64 n kvs = false -> exists e, ns_elements b64 n (JObj kvs) = Err e.
Proof. exact out_of_domain_rejected. Qed.
Print Assumptions C19_out_of_domain_rejected.

Theorem C19_bad_value_rejected :
  forall b64 n kvs r j, NoDup (map fst kvs) ->
    In r (ns_dm n) -> is_family r = false -> jget (dm_id r) kvs = Some j -> j <> JNull ->
    dom b64 spec_fuel n kvs (dm_class r) j = false ->
    exists e, ns_elements b64 n (JObj kvs) = Err e.
Proof. exact bad_value_rejected. Qed.
Print Assumptions C19_bad_value_rejected.

Theorem C19_bad_family_value_rejected :
  forall b64 n kvs r f k j, NoDup (map fst kvs) ->
    In r (ns_dm n) -> dm_presence r = Family f -> In (k, j) kvs -> fam_ok f (dm_id r) k = true ->
    dom b64 spec_fuel n kvs (dm_class r) j = false ->
    exists e, ns_elements b64 n (JObj kvs) = Err e.
Proof. exact bad_family_value_rejected. Qed.
Print Assumptions C19_bad_family_value_rejected.

(* per leaf type (every Rust type name of the two namespaces, at every nesting depth):
   Ok v => v is the prescribed encoding and the input is in the domain;
   Err => the input is outside the domain; never a panic *)
Theorem C19_leaf_types :
  forall b64 f n name c ctx j, class_of_name n name = Some c ->
    match name_leaf b64 f n name j with
    | Ok v => den b64 f n ctx c j v = true /\ dom b64 f n ctx c j = true
    | Err _ => dom b64 f n ctx c j = false
    | Panic _ => False
    end.
Proof. exact (fun b64 f n name c ctx j H => name_leaf_spec b64 f n name c ctx j H). Qed.
Print Assumptions C19_leaf_types.

(* completeness: every record of the domain is accepted, and encoded faithfully *)
Theorem C19_accepts_valid :
  forall b64 n kvs, NoDup (map fst kvs) ->
    ns_dom b64 n kvs = true ->
    exists out, ns_elements b64 n (JObj kvs) = Ok out /\ faithful b64 n kvs out.
Proof. exact accepts_valid. Qed.
Print Assumptions C19_accepts_valid.

(* unconditional: any JSON value, any base64 decoder *)
Theorem C19_no_panic : forall b64 n j s, ns_elements b64 n j <> Panic s.
Proof. exact no_panic. Qed.
Print Assumptions C19_no_panic.

Theorem C19_not_object_rejected :
  forall b64 n j, (forall kvs, j <> JObj kvs) -> exists e, ns_elements b64 n j = Err e.
Proof. exact not_object_rejected. Qed.
Print Assumptions C19_not_object_rejected.

(* every code table, every row: from (to v) = v; codes pairwise distinct; from s = v -> to v =
   normalise s.  (Finite sweep over the generated rows, lifted by forallb_forall.) *)
Theorem C19_tables_roundtrip :
  forall n name t, In (name, t) (str_tables n) ->
    (forall v c, In (v, c) (st_to t) -> assoc_b (normalise (st_norm t) c) (st_from t) = Some v) /\
    NoDup (map snd (st_to t)) /\
    (forall s v, assoc_b (normalise (st_norm t) s) (st_from t) = Some v ->
                 assoc_b v (st_to t) = Some (normalise (st_norm t) s)).
Proof. exact tables_roundtrip_str. Qed.
Print Assumptions C19_tables_roundtrip.

Theorem C19_int_tables_roundtrip :
  forall n name t, In (name, t) (int_tables n) ->
    (forall v c, In (v, c) (it_to t) -> assoc_n c (it_from t) = Some v) /\
    NoDup (map snd (it_to t)) /\
    (forall x v, assoc_n x (it_from t) = Some v -> assoc_b v (it_to t) = Some x).
Proof. exact tables_roundtrip_int. Qed.
Print Assumptions C19_int_tables_roundtrip.

(* ---------- examples: the hypotheses are inhabited; the former defect witnesses ---------- *)

Definition jstr (x : String.string) : json := JStr (bytes_of_string x).
Arguments jstr x%string_scope.

(* a record of the domain: the eleven mandatory elements of Table 5 *)
Definition base_mdl : list (bytes * json) := [
  (b "family_name", jstr "Smith"); (b "given_name", jstr "Alice"); (b "birth_date", jstr "1980-01-01");
  (b "issue_date", jstr "2020-01-01"); (b "expiry_date", jstr "2030-01-01T00:00:00Z");
  (b "issuing_country", jstr "US"); (b "issuing_authority", jstr "NY DMV"); (b "document_number", jstr "DL12345678");
  (b "portrait", jstr "AAEC"); (b "driving_privileges", JArr [JObj [(b "vehicle_category_code", jstr "B")]]);
  (b "un_distinguishing_sign", jstr "USA")].

Definition with_field (k : String.string) (v : json) : list (bytes * json) :=
  (bytes_of_string k, v) :: filter (fun kv => negb (bytes_eqb (fst kv) (bytes_of_string k))) base_mdl.
Arguments with_field k%string_scope v.

Definition is_err {A} (r : res A) : bool := match r with Err _ => true | _ => false end.
(* accepted, and the output is the faithful encoding *)
Definition den_of (kvs : list (bytes * json)) : bool :=
  match ns_elements b64_decode Mdl (JObj kvs) with Ok out => ns_den b64_decode Mdl kvs out | _ => false end.
Definition element (kvs : list (bytes * json)) (k : String.string) : option cbor :=
  match ns_elements b64_decode Mdl (JObj kvs) with Ok out => assoc_b (bytes_of_string k) out | _ => None end.
Arguments element kvs k%string_scope.

Example C19_base_ok : ns_dom b64_decode Mdl base_mdl = true /\ den_of base_mdl = true.
Proof. vm_compute. repeat split. Qed.

(* formerly F8a (b94f358): 76 x U+00E9 is 76 Latin-1 characters in 152 bytes: accepted; 151 characters: rejected *)
Example C19_latin1_characters :
  let e n := JStr (flat_map (fun _ => [195; 169]) (repeat tt n)) in
  den_of (with_field "family_name" (e 76%nat)) = true /\ den_of (with_field "family_name" (e 150%nat)) = true /\
  ns_dom b64_decode Mdl (with_field "family_name" (e 151%nat)) = false /\
  is_err (ns_elements b64_decode Mdl (JObj (with_field "family_name" (e 151%nat)))) = true.
Proof. vm_compute. repeat split. Qed.

(* formerly F8b (cb36dbb): the year keeps its leading zeros *)
Example C19_fulldate_year :
  den_of (with_field "birth_date" (jstr "0999-01-01")) = true /\
  element (with_field "birth_date" (jstr "0999-01-01")) "birth_date" = Some (CTag 1004 (CText (b "0999-01-01"))) /\
  element (with_field "birth_date" (jstr "0000-01-01")) "birth_date" = Some (CTag 1004 (CText (b "0000-01-01"))).
Proof. vm_compute. repeat split. Qed.

(* formerly (2004d42): a signed year is not an RFC 3339 full-date: rejected *)
Example C19_fulldate_signed :
  ns_dom b64_decode Mdl (with_field "birth_date" (jstr "-0001-01-01")) = false /\
  is_err (ns_elements b64_decode Mdl (JObj (with_field "birth_date" (jstr "-0001-01-01")))) = true /\
  is_err (ns_elements b64_decode Mdl (JObj (with_field "birth_date" (jstr "+2020-01-01")))) = true.
Proof. vm_compute. repeat split. Qed.

(* formerly F8c (03d9d06): a date-time whose UTC form leaves 0000..9999 is rejected, the boundary ones are kept *)
Example C19_tdate_range :
  is_err (ns_elements b64_decode Mdl (JObj (with_field "issue_date" (jstr "0000-01-01T00:00:00+01:00")))) = true /\
  is_err (ns_elements b64_decode Mdl (JObj (with_field "issue_date" (jstr "9999-12-31T23:59:59-01:00")))) = true /\
  ns_dom b64_decode Mdl (with_field "issue_date" (jstr "0000-01-01T00:00:00+01:00")) = false /\
  element (with_field "issue_date" (jstr "0000-01-01T01:00:00+01:00")) "issue_date" = Some (CTag 0 (CText (b "0000-01-01T00:00:00Z"))) /\
  element (with_field "issue_date" (jstr "9999-12-31T22:59:59-01:00")) "issue_date" = Some (CTag 0 (CText (b "9999-12-31T23:59:59Z"))).
Proof. vm_compute. repeat split. Qed.

(* formerly (863f83b): a leap second has no tdate rendering: rejected, in every spelling *)
Example C19_tdate_leap :
  is_err (ns_elements b64_decode Mdl (JObj (with_field "issue_date" (jstr "2016-12-31T23:59:60Z")))) = true /\
  is_err (ns_elements b64_decode Mdl (JObj (with_field "issue_date" (jstr "2016-12-31T23:59:60.5Z")))) = true /\
  is_err (ns_elements b64_decode Mdl (JObj (with_field "issue_date" (jstr "2017-01-01T00:59:60+01:00")))) = true /\
  ns_dom b64_decode Mdl (with_field "issue_date" (jstr "2016-12-31T23:59:60Z")) = false.
Proof. vm_compute. repeat split. Qed.

(* formerly (6fb87ad): only T, t or a space may separate date and time; the output always has T and Z *)
Example C19_tdate_separator :
  is_err (ns_elements b64_decode Mdl (JObj (with_field "issue_date" (jstr "2020-01-01x12:00:00Z")))) = true /\
  den_of (with_field "issue_date" (jstr "2020-01-01t12:00:00z")) = true /\
  element (with_field "issue_date" (jstr "2020-01-01 12:00:00.75+01:30")) "issue_date" = Some (CTag 0 (CText (b "2020-01-01T10:30:00Z"))).
Proof. vm_compute. repeat split. Qed.

(* formerly (7290d07): the bare prefix is not an identifier of the data model: ignored like any unknown key *)
Example C19_biometric_bare_prefix :
  let kvs := with_field "biometric_template_" (jstr "AAEC") in
  den_of kvs = true /\ element kvs "biometric_template_" = None /\
  element (with_field "biometric_template_face" (jstr "AAEC")) "biometric_template_face" = Some (CBytes [0; 1; 2]).
Proof. vm_compute. repeat split. Qed.

(* formerly (41c99b3): null means absent, for issuing_jurisdiction as for every other optional field *)
Example C19_null_is_absent :
  den_of (with_field "issuing_jurisdiction" JNull) = true /\ element (with_field "issuing_jurisdiction" JNull) "issuing_jurisdiction" = None /\
  den_of (with_field "sex" JNull) = true /\
  element (with_field "issuing_jurisdiction" (jstr "US-NY")) "issuing_jurisdiction" = Some (CText (b "US-NY")).
Proof. vm_compute. repeat split. Qed.
