(* C12 — X.509 validation enforces the Annex B profiles and trust anchoring.
   This file contains only pinned statements, closed by `exact`.

   validate          Model/X509.v   the model of ValidationRuleset::validate(..).errors
   conformant        Spec/AnnexB.v  the Annex B rule, written from the property text / ISO 18013-5 / RFC 5280
   ski_of_key        SHA-1 of the subject public key      (oracle, any function)
   verifies s i      s's signature verifies under i's key (oracle, any relation)

   The equivalence C12_iff is stated on the following domain:
     inputs_wf           the leaf (and, for the issuer rule sets, the IACA anchors) repeat no
                         extension (RFC 5280 4.2).  The property text neither requires nor
                         forbids accepting a certificate that repeats an extension; the
                         restriction is needed for the iff as stated
                         (C12_iff_needs_unique_extensions) and is not a defect.
     unambiguous_anchor  issuer rule sets: at most one registry entry anchors the leaf.
                         Outside it the implementation DEVIATES from the property (finding,
                         C12_iff_refuted / C12_iff_refuted_ambiguous_anchor): only the first
                         candidate is examined.
     clock_ok            0 <= now < 2^63 *)
From Isomdl Require Import Lib.Bytes Gen.X509Consts Model.X509 Spec.AnnexB Proofs.AnnexBProofs Proofs.X509Proofs.
Open Scope N_scope.

(* validation succeeds exactly when the chain is conformant *)
Theorem C12_iff :
  forall (ski_of_key : bytes -> bytes) (verifies : cert -> cert -> bool)
         (rs : ruleset) (now : Z) (x : x5chain) (reg : list anchor),
    clock_ok now -> inputs_wf rs (x_first x) reg -> unambiguous_anchor verifies rs now (x_first x) reg ->
    (validate ski_of_key verifies rs now x reg = [] <-> conformant ski_of_key verifies rs now (x_first x) reg).
Proof. exact validate_iff. Qed.
Print Assumptions C12_iff.

(* success => conformant needs no assumption on the registry's candidates *)
Theorem C12_sound :
  forall (ski_of_key : bytes -> bytes) (verifies : cert -> cert -> bool)
         (rs : ruleset) (now : Z) (x : x5chain) (reg : list anchor),
    clock_ok now -> inputs_wf rs (x_first x) reg ->
    validate ski_of_key verifies rs now x reg = [] -> conformant ski_of_key verifies rs now (x_first x) reg.
Proof. exact validate_sound. Qed.
Print Assumptions C12_sound.

(* conformant => success needs no well-formedness assumption *)
Theorem C12_complete :
  forall (ski_of_key : bytes -> bytes) (verifies : cert -> cert -> bool)
         (rs : ruleset) (now : Z) (x : x5chain) (reg : list anchor),
    clock_ok now -> unambiguous_anchor verifies rs now (x_first x) reg ->
    conformant ski_of_key verifies rs now (x_first x) reg -> validate ski_of_key verifies rs now x reg = [].
Proof. exact validate_complete. Qed.
Print Assumptions C12_complete.

(* every deviation listed in Spec/AnnexB.v [deviation] (leaf validity; each required leaf extension
   absent / with a wrong value; prohibited or unknown critical extension; no matching anchor: empty
   registry, other purpose only, unknown issuer name, AKI absent / without key id / mismatching,
   bad signature, anchor outside its validity; IACA profile; country; state) yields >= 1 error —
   with no well-formedness or uniqueness assumption *)
Theorem C12_single_deviation :
  forall (ski_of_key : bytes -> bytes) (verifies : cert -> cert -> bool)
         (rs : ruleset) (now : Z) (x : x5chain) (reg : list anchor),
    clock_ok now -> deviation ski_of_key verifies rs now (x_first x) reg ->
    validate ski_of_key verifies rs now x reg <> [].
Proof. exact single_deviation. Qed.
Print Assumptions C12_single_deviation.

(* anchors registered for the other purpose never influence the outcome *)
Theorem C12_purpose_separation :
  forall (ski_of_key : bytes -> bytes) (verifies : cert -> cert -> bool)
         (rs : ruleset) (now : Z) (x : x5chain) (reg : list anchor),
    validate ski_of_key verifies rs now x reg =
    validate ski_of_key verifies rs now x (filter (fun a => purpose_eqb (a_purpose a) (anchor_purpose rs)) reg).
Proof. exact purpose_separation. Qed.
Print Assumptions C12_purpose_separation.

(* the literals the translator copied from the source are the Annex B / RFC 5280 values *)
Theorem C12_constants_iso :
  eku_document_signer = eku_mdl_ds /\
  eku_mdoc_reader = eku_mdl_reader_auth /\
  ku_document_signer = ku_digital_signature_only /\
  ku_mdoc_reader = ku_digital_signature_only /\
  ku_iaca = ku_key_cert_sign_and_crl_sign /\
  oid_validator_ski = oid_subject_key_identifier /\
  oid_validator_eku = oid_ext_key_usage /\
  oid_validator_ku = oid_key_usage /\
  oid_validator_bc = oid_basic_constraints /\
  oid_validator_crl = oid_crl_distribution_points /\
  oid_validator_ian = oid_issuer_alt_name /\
  disallowed_extensions = prohibited_extensions /\
  oid_kic_issuer_ext = oid_subject_key_identifier /\
  oid_kic_subject_ext = oid_authority_key_identifier /\
  oid_country_name = at_country_name /\
  oid_state_or_province_name = at_state_or_province_name /\
  oid_mdl_has_rdn = at_state_or_province_name /\
  validators_document_signer = [GSki; GEku eku_mdl_ds; GKu ku_digital_signature_only; GCrl; GIan] /\
  validators_mdoc_reader = [GSki; GEku eku_mdl_reader_auth; GKu ku_digital_signature_only; GCrl; GIan] /\
  validators_iaca = [GSki; GKu ku_key_cert_sign_and_crl_sign; GBc; GCrl; GIan].
Proof. exact constants_iso_holds. Qed.
Print Assumptions C12_constants_iso.

(* the executable specification evaluated by the harness is the specification *)
Theorem C12_spec_executable :
  forall (ski_of_key : bytes -> bytes) (verifies : cert -> cert -> bool)
         (rs : ruleset) (now : Z) (leaf : cert) (reg : list anchor),
    conformant_b ski_of_key verifies rs now leaf reg = true <-> conformant ski_of_key verifies rs now leaf reg.
Proof. exact conformant_b_iff. Qed.
Print Assumptions C12_spec_executable.

(* only the first certificate of the x5chain matters *)
Theorem C12_chain_tail_ignored :
  forall (ski_of_key : bytes -> bytes) (verifies : cert -> cert -> bool)
         (rs : ruleset) (now : Z) (leaf : cert) (rest rest' : list cert) (reg : list anchor),
    validate ski_of_key verifies rs now {| x_first := leaf; x_rest := rest |} reg =
    validate ski_of_key verifies rs now {| x_first := leaf; x_rest := rest' |} reg.
Proof. exact chain_tail_ignored. Qed.
Print Assumptions C12_chain_tail_ignored.

(* ---------- the domain restriction on repeated extensions is needed for the iff as stated ----------
   [conformant] asks for exactly one instance of each required extension; the implementation
   is content when every instance validates.  The property text neither requires nor forbids
   accepting such a certificate, so this is a limit of the statement, not a defect. *)
Theorem C12_iff_needs_unique_extensions :
  exists ski_of_key verifies rs now x reg,
    clock_ok now /\ unambiguous_anchor verifies rs now (x_first x) reg /\
    validate ski_of_key verifies rs now x reg = [] /\
    ~ conformant ski_of_key verifies rs now (x_first x) reg.
Proof. exact needs_unique_extensions. Qed.
Print Assumptions C12_iff_needs_unique_extensions.

(* ---------- finding: the unrestricted equivalence does not hold, even for certificates that
   repeat no extension ---------- *)

Theorem C12_iff_refuted :
  ~ (forall ski_of_key verifies rs now x reg,
       clock_ok now ->
       (validate ski_of_key verifies rs now x reg = [] <-> conformant ski_of_key verifies rs now (x_first x) reg)).
Proof. exact iff_refuted. Qed.
Print Assumptions C12_iff_refuted.

(* rejected although a conformant IACA in the registry anchors the leaf: only the first candidate
   is examined, so the verdict depends on the order of the registry *)
Theorem C12_iff_refuted_ambiguous_anchor :
  exists ski_of_key verifies rs now x reg,
    clock_ok now /\ inputs_wf rs (x_first x) reg /\
    conformant ski_of_key verifies rs now (x_first x) reg /\
    validate ski_of_key verifies rs now x reg <> [] /\
    validate ski_of_key verifies rs now x (rev reg) = [].
Proof. exact refuted_ambiguous_anchor. Qed.
Print Assumptions C12_iff_refuted_ambiguous_anchor.

(* ---------- non-vacuity ---------- *)

Example C12_ex_hypotheses_inhabited :
  clock_ok w_now /\ inputs_wf Mdl w_ds [w_anchor w_iaca] /\ unambiguous_anchor w_verifies Mdl w_now w_ds [w_anchor w_iaca] /\
  validate w_ski w_verifies Mdl w_now (w_chain w_ds) [w_anchor w_iaca] = [] /\
  validate w_ski w_verifies AamvaMdl w_now (w_chain w_ds) [w_anchor w_iaca] = [(CtxComparison, KNameMissing NState)] /\
  validate w_ski w_verifies Mdl w_now (w_chain w_ds_expired) [w_anchor w_iaca] = [(CtxDs, KExpired)] /\
  validate w_ski w_verifies Mdl w_now (w_chain w_ds) [] = [(CtxIaca, KNoTrustAnchor)].
Proof. exact w_hypotheses_inhabited. Qed.

(* criticality of KeyUsage is not enforced (the implementation only logs a warning; the property
   text does not require it) *)
Example C12_ex_noncritical_key_usage_accepted :
  validate w_ski w_verifies Mdl w_now (w_chain w_ds_noncritical_ku) [w_anchor w_iaca] = [].
Proof. exact w_noncritical_key_usage_accepted. Qed.

(* an issuer alternative name without any name is an error, on the leaf and on the IACA *)
Example C12_ex_empty_issuer_alt_name_rejected :
  validate w_ski w_verifies Mdl w_now (w_chain w_ds_empty_ian) [w_anchor w_iaca] = [(CtxDs, KExt XIan VIanEmpty)] /\
  validate w_ski w_verifies MdlReaderOneStep w_now (w_chain w_ds_empty_ian) [] =
    [(CtxReader, KExt XEku VValue); (CtxReader, KExt XIan VIanEmpty); (CtxReaderCa, KNoTrustAnchor)] /\
  validate w_ski w_verifies Mdl w_now (w_chain w_ds) [w_anchor w_iaca_empty_ian] = [(CtxIaca, KExt XIan VIanEmpty)].
Proof. exact w_empty_issuer_alt_name_rejected. Qed.
