(* C02 — the device discloses only requested, permitted and held elements.  Pinned statements only.
   Items are an abstract type A: whatever is disclosed is one of the held items, unchanged. *)
From Isomdl Require Import Lib.Bytes Model.Select Spec.SelectSpec Proofs.SelectProofs Model.Iv Model.Session.
Open Scope N_scope.

(* every disclosed item is the held item of an element that the request being answered asks for
   and that the holder permitted *)
Theorem C02_sound : forall (A : Type) (docs : list (key * document A)) req perm dt ns (it : A),
  disclosed (prepare_response docs req perm) dt ns it ->
  exists id, requested req dt ns id /\ is_permitted perm dt ns id /\ held docs dt ns id it.
Proof. exact (@sound). Qed.
Print Assumptions C02_sound.

(* no document type or namespace appears in the response (not even in an error list) unless it
   is in the request being answered and in the permitted map *)
Theorem C02_nothing_unrequested : forall (A : Type) (docs : list (key * document A)) req perm pd,
  In pd (sel_docs (prepare_response docs req perm)) ->
  (exists nss, In (pd_doc_type pd, nss) perm /\ (exists rq, In (pd_doc_type pd, rq) req) /\
     (forall ns items, In (ns, items) (pd_disclosed pd) ->
        (exists rq, In (pd_doc_type pd, rq) req /\ aget ns rq <> None) /\ exists e, In (ns, e) nss) /\
     (forall ns ids, In (ns, ids) (pd_errors pd) ->
        (exists rq, In (pd_doc_type pd, rq) req /\ aget ns rq <> None) /\ exists e, In (ns, e) nss)).
Proof. exact (@nothing_unrequested). Qed.
Print Assumptions C02_nothing_unrequested.

Theorem C02_document_errors_requested : forall (A : Type) (docs : list (key * document A)) req perm dt,
  document_error (prepare_response docs req perm) dt ->
  (exists rq, In (dt, rq) req) /\ (exists nss, In (dt, nss) perm) /\
  (aget dt docs = None \/ exists d, aget dt docs = Some d /\ d_can_sign d = false).
Proof. exact (@document_errors_requested). Qed.
Print Assumptions C02_document_errors_requested.

(* every requested and permitted element is disclosed (the held item) or listed with an error;
   a docType that is not held (or cannot sign) is listed as a document error *)
Theorem C02_complete : forall (A : Type) (docs : list (key * document A)) req perm dt ns id,
  requested req dt ns id -> is_permitted perm dt ns id ->
  match aget dt docs with
  | None => document_error (prepare_response docs req perm) dt
  | Some d =>
    if d_can_sign d then
      match aget ns (d_ns d) with
      | Some items =>
        match aget id items with
        | Some it => disclosed (prepare_response docs req perm) dt ns it
        | None => element_error (prepare_response docs req perm) dt ns id
        end
      | None => element_error (prepare_response docs req perm) dt ns id
      end
    else document_error (prepare_response docs req perm) dt
  end.
Proof. exact (@complete). Qed.
Print Assumptions C02_complete.

(* nothing of an earlier round survives prepare_response *)
Theorem C02_round_isolated : forall (d : dev) (st : dstate) docs errs,
  dev_prepare (set_state d st) docs errs = dev_prepare d docs errs.
Proof. exact prepare_forgets_state. Qed.
Print Assumptions C02_round_isolated.

Example C02_ex :
  let dt := [100] in let ns := [110] in
  let req : request := [(dt, [(ns, [[1]; [9]])]); (dt, [(ns, [[2]])]); ([101], [(ns, [[1]])])] in
  let perm : permitted := [(dt, [(ns, [[1]; [2]; [3]; [9]])]); ([101], [(ns, [[1]])])] in
  let docs : list (key * document N) := [(dt, {| d_can_sign := true; d_ns := [(ns, [([1], 11); ([2], 22); ([3], 33)])] |})] in
  prepare_response docs req perm =
    {| sel_docs := [{| pd_doc_type := dt; pd_disclosed := [(ns, [11; 22])]; pd_errors := [(ns, [[9]])] |}];
       sel_doc_errors := [[101]] |}.
Proof. vm_compute. reflexivity. Qed.
