(* C06 — the session channel rejects tampered, replayed, reordered and reflected messages.
   Pinned statements only.  Ciphertexts are symbolic (ideal AEAD, DESIGN.md T7): `Enc k iv p` opens
   only under k and iv; `Junk` stands for every byte string that is not an emitted ciphertext
   (bit-modified, truncated, random). *)
From Isomdl Require Import Lib.Bytes Model.Iv Model.Session Spec.IsoIv Proofs.IvProofs Proofs.ChannelProofs.
Open Scope N_scope.

(* in every history of a session, the device acts on a delivered ciphertext only if it is the
   encryption under this session's reader key with IV = reader identifier || (number of
   decryption attempts so far + 1): the peer's next message in sequence *)
Theorem C06_device_accepts_only_next :
  forall (pre : list op) (c : cipher) (kr kd : N),
    count_b dev_attempt pre + 1 < two32 -> count_b rdr_attempt pre < two32 ->
    let s := fst (fst (run pre (fresh kr kd))) in
    forall d' ro em, dev_handle_request (s_dev s) (WData c) = (d', ro, em) ->
    ro <> RoDecryptionError ->
    exists p, c = Enc kr (iso_iv Reader (count_b dev_attempt pre + 1)) p.
Proof. exact accept_only_next_in_history. Qed.
Print Assumptions C06_device_accepts_only_next.

Theorem C06_reader_accepts_only_next :
  forall (pre : list op) (c : cipher) (kr kd : N),
    count_b dev_attempt pre < two32 -> count_b rdr_attempt pre + 1 < two32 ->
    let s := fst (fst (run pre (fresh kr kd))) in
    forall r' ro, rdr_handle_response (s_rdr s) (WData c) = (r', ro) ->
    ro <> RsDecryptionError ->
    exists p, c = Enc kd (iso_iv Device (count_b rdr_attempt pre + 1)) p.
Proof. exact rdr_accept_only_next_in_history. Qed.
Print Assumptions C06_reader_accepts_only_next.

(* every other ciphertext: decryption error, no plaintext-derived data, state and send counter
   untouched (in particular no response is prepared), nothing encrypted *)
Theorem C06_device_reject_shape :
  forall (d : dev) (c : cipher),
    (forall p, c <> Enc (d_kr d) (iv Reader (incr (d_recv d))) p) ->
    dev_handle_request d (WData c) = (bump_recv d, RoDecryptionError, []).
Proof. exact dev_reject_shape. Qed.
Print Assumptions C06_device_reject_shape.

Theorem C06_reader_reject_shape :
  forall (r : rdr) (c : cipher),
    (forall p, c <> Enc (r_kd r) (iv Device (incr (r_recv r))) p) ->
    rdr_handle_response r (WData c) = (bump_rrecv r, RsDecryptionError).
Proof. exact rdr_reject_shape. Qed.
Print Assumptions C06_reader_reject_shape.

(* the named instances *)
Theorem C06_modified_or_truncated :
  forall (d : dev) (r : rdr),
    dev_handle_request d (WData Junk) = (bump_recv d, RoDecryptionError, []) /\
    rdr_handle_response r (WData Junk) = (bump_rrecv r, RsDecryptionError).
Proof. exact junk_rejected. Qed.
Print Assumptions C06_modified_or_truncated.

Theorem C06_other_keys_device : forall (d : dev) k nonce p, k <> d_kr d ->
  dev_handle_request d (WData (Enc k nonce p)) = (bump_recv d, RoDecryptionError, []).
Proof. exact foreign_key_rejected_dev. Qed.
Print Assumptions C06_other_keys_device.

Theorem C06_other_keys_reader : forall (r : rdr) k nonce p, k <> r_kd r ->
  rdr_handle_response r (WData (Enc k nonce p)) = (bump_rrecv r, RsDecryptionError).
Proof. exact foreign_key_rejected_rdr. Qed.
Print Assumptions C06_other_keys_reader.

Theorem C06_replay_or_reorder_device : forall (d : dev) k m p,
  m < two32 -> d_recv d + 1 < two32 -> m <> d_recv d + 1 ->
  dev_handle_request d (WData (Enc k (iv Reader m) p)) = (bump_recv d, RoDecryptionError, []).
Proof. exact wrong_counter_rejected_dev. Qed.
Print Assumptions C06_replay_or_reorder_device.

Theorem C06_replay_or_reorder_reader : forall (r : rdr) k m p,
  m < two32 -> r_recv r + 1 < two32 -> m <> r_recv r + 1 ->
  rdr_handle_response r (WData (Enc k (iv Device m) p)) = (bump_rrecv r, RsDecryptionError).
Proof. exact wrong_counter_rejected_rdr. Qed.
Print Assumptions C06_replay_or_reorder_reader.

Theorem C06_reflection_device : forall (d : dev) k n p,
  dev_handle_request d (WData (Enc k (iv Device n) p)) = (bump_recv d, RoDecryptionError, []).
Proof. exact reflection_rejected_dev. Qed.
Print Assumptions C06_reflection_device.

Theorem C06_reflection_reader : forall (r : rdr) k n p,
  rdr_handle_response r (WData (Enc k (iv Reader n) p)) = (bump_rrecv r, RsDecryptionError).
Proof. exact reflection_rejected_rdr. Qed.
Print Assumptions C06_reflection_reader.

(* and the peer's next message is accepted *)
Theorem C06_device_accepts_next : forall (d : dev) p,
  exists d' ro em, dev_handle_request d (WData (Enc (d_kr d) (iv Reader (incr (d_recv d))) p)) = (d', ro, em)
                   /\ ro <> RoDecryptionError /\ ro <> RoParsingError.
Proof. exact dev_accepts_next. Qed.
Print Assumptions C06_device_accepts_next.

Theorem C06_reader_accepts_next : forall (r : rdr) p,
  exists r' ro, rdr_handle_response r (WData (Enc (r_kd r) (iv Device (incr (r_recv r))) p)) = (r', ro)
                /\ ro <> RsDecryptionError.
Proof. exact rdr_accepts_next. Qed.
Print Assumptions C06_reader_accepts_next.

(* non-vacuity: a replayed request and a reflected response inside one history *)
Example C06_ex :
  let m1 := WData (Enc 0 (iso_iv Reader 1) (PRequest 5)) in
  let '(_, outs, _) := run [ONewRequest 5; OHandleRequest m1; OHandleRequest m1;
                            OPrepare [] 0; ORetrieve;
                            OHandleRequest (WData (Enc 1 (iso_iv Device 1) (PResponse {| rs_status := 0; rs_docs := []; rs_doc_errors := 0 |})))]
                           (fresh 0 1) in
  outs = [OutWire m1; OutReq (RoRequest 5); OutReq RoDecryptionError; OutUnit;
          OutRetrieved (Some (WData (Enc 1 (iso_iv Device 1) (PResponse {| rs_status := 0; rs_docs := []; rs_doc_errors := 0 |}))));
          OutReq RoDecryptionError].
Proof. vm_compute. reflexivity. Qed.

(* sessions far into their life: whatever the receive counter (below 2^32 - 1), a message under the right key is
   opened exactly when its IV counter is the receive counter + 1 — no message "comes round again" modulo 2^8, 2^16
   or 2^24 (the decision `c06.far` of the correspondence run, against the specification `c06.spec_far`) *)
Theorem C06_far_counter_exact :
  forall r ctr crafted, ctr + 1 < two32 -> crafted < two32 ->
    (bytes_eqb (snd (next_iv r ctr)) (iv r crafted) = true <-> crafted = ctr + 1).
Proof. exact far_accept_iff. Qed.
Print Assumptions C06_far_counter_exact.

Example C06_far_ex : bytes_eqb (snd (next_iv Reader 65536)) (iv Reader 1) = false /\ bytes_eqb (snd (next_iv Device 16777215)) (iv Device 16777216) = true.
Proof. vm_compute. split; reflexivity. Qed.
