(* C05 — device authentication is bound to the issued key, this session and this document.  Pinned statements only. *)
From Isomdl Require Import Lib.Bytes Lib.Utf8 Lib.Cbor Model.Cose Model.KeySchedule Model.ReaderAuth Spec.CoseRfc Spec.ReaderAuthSpec
  Proofs.KeyScheduleProofs Proofs.ReaderAuthProofs.
Open Scope N_scope.

(* Valid only if the device signature (detached payload) verifies, under the P-256 key whose
   coordinates are the device key inside the MSO of the issuer-signed payload, over the Sig_structure
   of DeviceAuthenticationBytes built from THIS reader's transcript (exact engagement and reader-key
   bytes, handover), the document's docType and its device namespaces bytes *)
Theorem C05_valid_only_if : forall (env : renv) (d : rdoc),
  o_device (validate_document env d) = Valid ->
  exists c payload mso crv x y,
    rd_device_auth d = DSignature c /\ c_payload c = None /\
    c_payload (rd_issuer_auth d) = Some payload /\ mso_map payload = Some mso /\
    mso_device_key mso = Some (EC2 crv x (YValue y)) /\ length x = 32%nat /\ length y = 32%nat /\
    e_device_point_ok env = true /\
    v_parse (e_device_verifier env) (c_sig c) = true /\
    v_check (e_device_verifier env)
            (iso_device_tbs (c_protected c) (e_de env) (e_erk env) (e_handover env) (rd_doc_type d) (rd_device_ns d))
            (c_sig c) = true.
Proof. exact device_valid_only_if. Qed.
Print Assumptions C05_valid_only_if.

(* another session, another docType or other device namespaces give different signed bytes *)
Theorem C05_dab_injective : forall de erk ho dt ns de' erk' ho' dt' ns',
  cbor_ok (iso_device_authentication de erk ho dt ns) ->
  cbor_ok (iso_device_authentication de' erk' ho' dt' ns') ->
  encode (iso_device_authentication de erk ho dt ns) = encode (iso_device_authentication de' erk' ho' dt' ns') ->
  de = de' /\ erk = erk' /\ ho = ho' /\ dt = dt' /\ ns = ns'.
Proof. exact dab_bytes_injective. Qed.
Print Assumptions C05_dab_injective.

(* the bytes the device hands to the holder's key are exactly that structure *)
Theorem C05_device_payload : forall prot de erk ho dt ns,
  device_signature_payload prot de erk ho dt ns = POk (iso_device_tbs prot de erk ho dt ns).
Proof. exact device_payload_is_iso. Qed.
Print Assumptions C05_device_payload.

(* whatever the MSO device key is, the reader reports; it never panics *)
Theorem C05_no_panic : forall env d, device_authentication env d <> DaPanic.
Proof. exact device_no_panic. Qed.
Print Assumptions C05_no_panic.
