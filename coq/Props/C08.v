(* C08 — session keys and BLE ident are derived exactly as ISO 18013-5 specifies.  Pinned statements only.
   SHA-256, HMAC, HKDF and the CBOR encoding are computed by the Gallina libraries; the labels and
   lengths used by the model are regenerated from the source on every run. *)
From Isomdl Require Import Lib.Bytes Lib.Cbor Lib.Sha2 Lib.Hkdf Gen.Constants Proofs.CborProofs
  Model.KeySchedule Spec.Iso9_1_1 Proofs.KeyScheduleProofs.
Open Scope N_scope.

(* model (with the labels / lengths found in the code) = ISO formula (with the literals of the standard), for all inputs *)
Theorem C08_keys_spec : forall zab de erk ho,
  session_key zab (transcript_bytes de erk ho) true = iso_sk_reader zab (iso_session_transcript de erk ho) /\
  session_key zab (transcript_bytes de erk ho) false = iso_sk_device zab (iso_session_transcript de erk ho).
Proof. exact keys_spec. Qed.
Print Assumptions C08_keys_spec.

Theorem C08_ble_spec : forall ek, ble_ident ek = iso_ble_ident (encode (CTag 24 (CBytes ek))).
Proof. exact ble_spec. Qed.
Print Assumptions C08_ble_spec.

Theorem C08_lengths : forall zab tb r ek, blen (session_key zab tb r) = 32 /\ blen (ble_ident ek) = 16.
Proof. exact key_lengths. Qed.
Print Assumptions C08_lengths.

(* the transcript encoding is injective in (engagement bytes, reader-key bytes, handover) *)
Theorem C08_transcript_injective : forall de erk ho de' erk' ho',
  bytes_ok de -> bytes_ok erk -> cbor_ok ho -> bytes_ok de' -> bytes_ok erk' -> cbor_ok ho' ->
  transcript_bytes de erk ho = transcript_bytes de' erk' ho' -> de = de' /\ erk = erk' /\ ho = ho'.
Proof. exact transcript_injective. Qed.
Print Assumptions C08_transcript_injective.

Theorem C08_both_roles_equal : forall zab zab' tb tb' r,
  zab = zab' -> tb = tb' -> session_key zab tb r = session_key zab' tb' r.
Proof. exact both_roles_equal. Qed.
Print Assumptions C08_both_roles_equal.

(* a peer key that is not a valid P-256 point is refused rather than used, and never panics:
   for every COSE key, every point-validity oracle and every ECDH oracle *)
Theorem C08_bad_key_refused : forall (valid : bytes -> bool) (dh : bytes -> bytes) (k : cose_key),
  shared_secret valid dh k <> KPanic /\
  (well_shaped_b k = false -> shared_secret valid dh k = KErr) /\
  (forall pt, encoded_point k = KOk pt -> valid pt = false -> shared_secret valid dh k = KErr).
Proof. exact bad_key_refused. Qed.
Print Assumptions C08_bad_key_refused.

Theorem C08_good_key_used : forall valid dh k, well_shaped k ->
  exists pt, encoded_point k = KOk pt /\
    shared_secret valid dh k = if valid pt then KOk (dh pt) else KErr.
Proof. exact shared_secret_well_shaped. Qed.
Print Assumptions C08_good_key_used.

(* RFC 5869 test case 1 through the same HKDF the model uses, as a sanity anchor *)
Example C08_ex_labels : hkdf_info_sk_reader = bytes_of_string "SKReader"%string /\ hkdf_info_sk_device = bytes_of_string "SKDevice"%string
  /\ hkdf_info_ble_ident = bytes_of_string "BLEIdent"%string /\ session_key_len = 32 /\ ble_ident_len = 16.
Proof. repeat split; reflexivity. Qed.
