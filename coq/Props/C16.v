(* C16 — wire structures round-trip and have a stable encoding.
   Only pinned statements (closed by `exact`) and Examples showing that the hypotheses are inhabited.

   Reading guide.  [codec_rt P c] (Proofs/WireProofs.v) unfolds to: for every x in the documented
   domain P,  of_cbor (to_cbor x) = Some x,  and — when the encoding is shorter than 2^64 bytes —
   decode_T (encode_T x) = Some x  and re-encoding whatever was decoded reproduces the same bytes.
   [tables_ok tb] are decidable facts about the code tables; [C16_tables] proves them for the tables
   the translator copies from the source and that these equal the standards' values.
   COSE_Sign1 / COSE_Mac0 are an opaque component: the theorems that embed them hold for every codec
   of that component that round-trips on its own domain ([codec_ok]) and never encodes to null. *)
From Isomdl Require Import Lib.Bytes Lib.Utf8 Lib.Cbor Lib.Serde Proofs.CborProofs Proofs.SerdeProofs
  Model.Wire.Time Proofs.TimeProofs Model.Wire.Tables Model.Wire.CoseKey Model.Wire.Engagement Model.Wire.Session
  Model.Wire.Cose Model.Wire.Request Model.Wire.Mso Model.Wire.Signed Model.Wire.Response
  Spec.WireSpec Proofs.WireProofs.
From Coq Require Import ZArith String.
Open Scope N_scope.

(* ---------- tables ---------- *)

(* every code / status / curve / name table copied from the source is a bijection on its documented
   domain (the [tables_ok] facts) and carries the values of ISO 18013-5 / RFC 8152 / RFC 7518;
   the derived structs use the CDDL member names, and the integer labels are the standard's *)
Theorem C16_tables :
  tables_ok gen_tables /\ tables_agree gen_tables iso_tables = true /\ names_agree = true /\ labels_agree = true.
Proof. exact (conj gen_tables_ok (conj eq_refl (conj eq_refl eq_refl))). Qed.
Print Assumptions C16_tables.

(* ---------- per-type round trips ---------- *)

Theorem C16_rt_SessionStatus : forall tb, tables_ok tb -> codec_rt any_P (c_session_status tb).
Proof. exact (fun tb H => codec_rt_of_ok _ _ (ok_session_status tb H)). Qed.
Print Assumptions C16_rt_SessionStatus.
Theorem C16_rt_ResponseStatus : forall tb, tables_ok tb -> codec_rt any_P (c_response_status tb).
Proof. exact (fun tb H => codec_rt_of_ok _ _ (ok_response_status tb H)). Qed.
Print Assumptions C16_rt_ResponseStatus.
Theorem C16_rt_DocumentErrorCode : forall tb, tables_ok tb -> codec_rt doc_error_code_wf (c_doc_error_code tb).
Proof. exact (fun tb H => codec_rt_of_ok _ _ (ok_doc_error_code tb H)). Qed.
Print Assumptions C16_rt_DocumentErrorCode.
Theorem C16_rt_DigestAlgorithm : forall tb, tables_ok tb -> codec_rt any_P (c_digest_alg tb).
Proof. exact (fun tb H => codec_rt_of_ok _ _ (ok_digest_alg tb H)). Qed.
Print Assumptions C16_rt_DigestAlgorithm.
Theorem C16_rt_CoseKey : forall tb, tables_ok tb -> codec_rt cose_key_wf (c_cose_key tb).
Proof. exact (fun tb H => codec_rt_of_ok _ _ (ok_cose_key tb H)). Qed.
Print Assumptions C16_rt_CoseKey.
(* Tag24<T>, for any inner codec at all: the stored bytes are re-emitted verbatim *)
Theorem C16_rt_Tag24 : forall (T : Type) (c : codec T), codec_rt (tag24_P c) (c_tag24 c).
Proof. exact (fun T c => codec_rt_of_ok _ _ (ok_tag24 c)). Qed.
Print Assumptions C16_rt_Tag24.
(* ... and Tag24::new of a round-tripping value is such a consistent Tag24 *)
Theorem C16_Tag24_new : forall (T : Type) (P : T -> Prop) (c : codec T) x,
  codec_ok P c -> P x -> blen (to_bytes c x) < two64 -> tag24_P c (tag24_new c x).
Proof. exact (fun T P c x => tag24_new_P P c x). Qed.
Print Assumptions C16_Tag24_new.
(* BLE / NFC / Wi-Fi options inside their DeviceRetrievalMethod triple *)
Theorem C16_rt_DeviceRetrievalMethod : forall tb, tables_ok tb -> codec_rt (method_wf tb) (c_method tb).
Proof. exact (fun tb H => codec_rt_of_ok _ _ (ok_method tb H)). Qed.
Print Assumptions C16_rt_DeviceRetrievalMethod.
Theorem C16_rt_ServerRetrievalMethods : codec_rt server_wf c_server.
Proof. exact (codec_rt_of_ok _ _ ok_server). Qed.
Print Assumptions C16_rt_ServerRetrievalMethods.
Theorem C16_rt_Security : forall tb, codec_rt (security_wf tb) (c_security tb).
Proof. exact (fun tb => codec_rt_of_ok _ _ (ok_security tb)). Qed.
Print Assumptions C16_rt_Security.
(* every member in its domain; protocol_info (RFU) any well-formed CBOR value or absent *)
Theorem C16_rt_DeviceEngagement : forall tb, tables_ok tb -> codec_rt (engagement_wf tb) (c_engagement tb).
Proof. exact (fun tb H => codec_rt_of_ok _ _ (ok_engagement tb H)). Qed.
Print Assumptions C16_rt_DeviceEngagement.
Theorem C16_rt_SessionEstablishment : forall tb, codec_rt (session_establishment_wf tb) (c_session_establishment tb).
Proof. exact (fun tb => codec_rt_of_ok _ _ (ok_session_establishment tb)). Qed.
Print Assumptions C16_rt_SessionEstablishment.
Theorem C16_rt_SessionData : forall tb, tables_ok tb -> codec_rt session_data_wf (c_session_data tb).
Proof. exact (fun tb H => codec_rt_of_ok _ _ (ok_session_data tb H)). Qed.
Print Assumptions C16_rt_SessionData.
Theorem C16_rt_Handover : forall tb, tables_ok tb -> codec_rt handover_wf (c_handover tb).
Proof. exact (fun tb H => codec_rt_of_ok _ _ (ok_handover tb H)). Qed.
Print Assumptions C16_rt_Handover.
Theorem C16_rt_SessionTranscript : forall tb, tables_ok tb -> codec_rt (session_transcript_wf tb) (c_session_transcript tb).
Proof. exact (fun tb H => codec_rt_of_ok _ _ (ok_session_transcript tb H)). Qed.
Print Assumptions C16_rt_SessionTranscript.
Theorem C16_rt_ItemsRequest : codec_rt items_request_wf c_items_request.
Proof. exact (codec_rt_of_ok _ _ ok_items_request). Qed.
Print Assumptions C16_rt_ItemsRequest.
Theorem C16_rt_KeyAuthorizations : codec_rt key_authorizations_wf c_key_authorizations.
Proof. exact (codec_rt_of_ok _ _ ok_key_authorizations). Qed.
Print Assumptions C16_rt_KeyAuthorizations.
Theorem C16_rt_DeviceKeyInfo : forall tb, tables_ok tb -> codec_rt device_key_info_wf (c_device_key_info tb).
Proof. exact (fun tb H => codec_rt_of_ok _ _ (ok_device_key_info tb H)). Qed.
Print Assumptions C16_rt_DeviceKeyInfo.
Theorem C16_rt_DigestIds : codec_rt digest_ids_P c_digest_ids.
Proof. exact (codec_rt_of_ok _ _ ok_digest_ids). Qed.
Print Assumptions C16_rt_DigestIds.
(* times already UTC without fraction: exact round trip *)
Theorem C16_rt_ValidityInfo : codec_rt validity_exact c_validity_info.
Proof. exact (codec_rt_of_ok _ _ ok_validity_info). Qed.
Print Assumptions C16_rt_ValidityInfo.
Theorem C16_rt_Mso : forall tb, tables_ok tb -> codec_rt mso_exact (c_mso tb).
Proof. exact (fun tb H => codec_rt_of_ok _ _ (ok_mso tb H)). Qed.
Print Assumptions C16_rt_Mso.
Theorem C16_rt_IssuerSignedItem : codec_rt issuer_signed_item_wf c_issuer_signed_item.
Proof. exact (codec_rt_of_ok _ _ ok_issuer_signed_item). Qed.
Print Assumptions C16_rt_IssuerSignedItem.

(* the types that embed COSE structures *)
Theorem C16_rt_DocRequest : forall (sign1 : Type) (c_sign1 : codec sign1) (sign1_P : sign1 -> Prop),
  codec_ok sign1_P c_sign1 -> nonnull sign1_P c_sign1 ->
  codec_rt (doc_request_wf sign1_P) (c_doc_request c_sign1 sign1_P).
Proof. exact (fun s c P H N => codec_rt_of_ok _ _ (ok_doc_request c P H N)). Qed.
Print Assumptions C16_rt_DocRequest.
Theorem C16_rt_DeviceRequest : forall (sign1 : Type) (c_sign1 : codec sign1) (sign1_P : sign1 -> Prop),
  codec_ok sign1_P c_sign1 -> nonnull sign1_P c_sign1 ->
  codec_rt (device_request_wf sign1_P) (c_device_request c_sign1 sign1_P).
Proof. exact (fun s c P H N => codec_rt_of_ok _ _ (ok_device_request c P H N)). Qed.
Print Assumptions C16_rt_DeviceRequest.
Theorem C16_rt_IssuerSigned : forall (sign1 : Type) (c_sign1 : codec sign1) (sign1_P : sign1 -> Prop),
  codec_ok sign1_P c_sign1 ->
  codec_rt (issuer_signed_wf sign1_P) (c_issuer_signed c_sign1 sign1_P).
Proof. exact (fun s c P H => codec_rt_of_ok _ _ (ok_issuer_signed c P H)). Qed.
Print Assumptions C16_rt_IssuerSigned.
Theorem C16_rt_DeviceAuth : forall tb, tables_ok tb ->
  forall (sign1 mac0 : Type) (c_sign1 : codec sign1) (c_mac0 : codec mac0) (sign1_P : sign1 -> Prop) (mac0_P : mac0 -> Prop),
  codec_ok sign1_P c_sign1 -> codec_ok mac0_P c_mac0 ->
  codec_rt (device_auth_wf sign1_P mac0_P) (c_device_auth tb c_sign1 c_mac0).
Proof. exact (fun tb Ht s m c1 c0 P1 P0 H1 H0 => codec_rt_of_ok _ _ (@ok_device_auth tb Ht s m c1 c0 P1 P0 H1 H0)). Qed.
Print Assumptions C16_rt_DeviceAuth.
Theorem C16_rt_DeviceSigned : forall tb, tables_ok tb ->
  forall (sign1 mac0 : Type) (c_sign1 : codec sign1) (c_mac0 : codec mac0) (sign1_P : sign1 -> Prop) (mac0_P : mac0 -> Prop),
  codec_ok sign1_P c_sign1 -> codec_ok mac0_P c_mac0 ->
  codec_rt (device_signed_wf sign1_P mac0_P) (c_device_signed tb c_sign1 c_mac0 sign1_P mac0_P).
Proof. exact (fun tb Ht s m c1 c0 P1 P0 H1 H0 => codec_rt_of_ok _ _ (@ok_device_signed tb Ht s m c1 c0 P1 P0 H1 H0)). Qed.
Print Assumptions C16_rt_DeviceSigned.
Theorem C16_rt_Document : forall tb, tables_ok tb ->
  forall (sign1 mac0 : Type) (c_sign1 : codec sign1) (c_mac0 : codec mac0) (sign1_P : sign1 -> Prop) (mac0_P : mac0 -> Prop),
  codec_ok sign1_P c_sign1 -> codec_ok mac0_P c_mac0 ->
  codec_rt (document_wf sign1_P mac0_P) (c_document tb c_sign1 c_mac0 sign1_P mac0_P).
Proof. exact (fun tb Ht s m c1 c0 P1 P0 H1 H0 => codec_rt_of_ok _ _ (@ok_document tb Ht s m c1 c0 P1 P0 H1 H0)). Qed.
Print Assumptions C16_rt_Document.
Theorem C16_rt_DeviceResponse : forall tb, tables_ok tb ->
  forall (sign1 mac0 : Type) (c_sign1 : codec sign1) (c_mac0 : codec mac0) (sign1_P : sign1 -> Prop) (mac0_P : mac0 -> Prop),
  codec_ok sign1_P c_sign1 -> codec_ok mac0_P c_mac0 ->
  codec_rt (device_response_wf sign1_P mac0_P) (c_device_response tb c_sign1 c_mac0 sign1_P mac0_P).
Proof. exact (fun tb Ht s m c1 c0 P1 P0 H1 H0 => codec_rt_of_ok _ _ (@ok_device_response tb Ht s m c1 c0 P1 P0 H1 H0)). Qed.
Print Assumptions C16_rt_DeviceResponse.
(* the stand-in for the COSE component that the extracted model runs does satisfy those hypotheses *)
Theorem C16_cose_component_instance : forall tag,
  codec_ok (cose_shallow_P tag) (c_cose_shallow tag) /\ nonnull (cose_shallow_P tag) (c_cose_shallow tag).
Proof. exact (fun tag => conj (ok_cose_shallow tag) (nn_cose_shallow tag)). Qed.
Print Assumptions C16_cose_component_instance.

(* ---------- byte level, for any round-tripping codec (instantiated by every theorem above) ---------- *)

Theorem C16_decode_encode : forall (T : Type) (P : T -> Prop) (c : codec T) x,
  codec_ok P c -> P x -> blen (to_bytes c x) < two64 -> from_bytes c (to_bytes c x) = Some x.
Proof. exact (fun T P c x => bytes_rt P c x). Qed.
Print Assumptions C16_decode_encode.
Theorem C16_fixed_point : forall (T : Type) (P : T -> Prop) (c : codec T) x,
  codec_ok P c -> P x -> blen (to_bytes c x) < two64 ->
  exists y, from_bytes c (to_bytes c x) = Some y /\ to_bytes c y = to_bytes c x.
Proof. exact (fun T P c x => bytes_fixed_point P c x). Qed.
Print Assumptions C16_fixed_point.
(* from_slice ignores whatever follows the item *)
Theorem C16_decode_ignores_trailing : forall (T : Type) (P : T -> Prop) (c : codec T) x r,
  codec_ok P c -> P x -> blen (to_bytes c x) < two64 -> from_bytes c (to_bytes c x ++ r) = Some x.
Proof. exact (fun T P c x r => bytes_rt_trailing P c x r). Qed.
Print Assumptions C16_decode_ignores_trailing.

(* ---------- validity times ---------- *)

(* for every valid local date-time, every offset and every fraction whose UTC year has four digits:
   the emitted text has the shape YYYY-MM-DDThh:mm:ssZ, it parses to a UTC, fraction-free date-time,
   and that denotes the same instant truncated to the second *)
Theorem C16_time : forall x, emit_ok x = true ->
  rfc3339_utc_shape (emit x) = true /\
  parse_rfc3339 (emit x) = Some (to_utc_trunc x) /\
  o_offset (to_utc_trunc x) = 0%Z /\ o_nanos (to_utc_trunc x) = 0%Z /\
  instant (to_utc_trunc x) = instant x /\
  emit (to_utc_trunc x) = emit x.
Proof.
  exact (fun x H => conj (emit_shape x H) (conj (emit_parse x H) (conj eq_refl (conj eq_refl
          (conj (to_utc_trunc_instant x) (emit_trunc x)))))).
Qed.
Print Assumptions C16_time.
(* the calendar arithmetic behind it, for all of Z *)
Theorem C16_time_calendar :
  (forall z, let '(y, m, d) := civil_from_days z in days_from_civil y m d = z /\ valid_date y m d = true) /\
  (forall y m d, valid_date y m d = true -> civil_from_days (days_from_civil y m d) = (y, m, d)).
Proof. exact (conj cfd_sound cfd_dfc). Qed.
Print Assumptions C16_time_calendar.

(* ValidityInfo / Mso over the whole domain (any offset, any fraction): decoding the encoding gives
   the value with its times normalised, the normal form is in the exact domain (so it round-trips
   exactly), and it has the same encoding: the encoding is a fixed point *)
Theorem C16_rt_ValidityInfo_norm : forall v, validity_wf v ->
  dec c_validity_info (enc c_validity_info v) = Some (validity_norm v) /\
  validity_exact (validity_norm v) /\
  enc c_validity_info (validity_norm v) = enc c_validity_info v.
Proof. exact (fun v H => conj (validity_rt_norm v H) (conj (validity_norm_exact v H) (validity_norm_enc v))). Qed.
Print Assumptions C16_rt_ValidityInfo_norm.
Theorem C16_rt_Mso_norm : forall tb, tables_ok tb -> forall m, mso_wf m ->
  dec (c_mso tb) (enc (c_mso tb) m) = Some (mso_norm m) /\
  mso_exact (mso_norm m) /\
  enc (c_mso tb) (mso_norm m) = enc (c_mso tb) m.
Proof. exact (fun tb Ht m H => conj (mso_rt_norm tb Ht m H) (conj (mso_norm_exact m H) (mso_norm_enc tb m))). Qed.
Print Assumptions C16_rt_Mso_norm.

(* encoding a ValidityInfo never panics (the outcome type has a Panic constructor for the site that
   used to: OffsetDateTime::to_offset): it succeeds, with the encoding the round-trip theorems are
   about, exactly when every date has a four-digit UTC year, and returns an error otherwise *)
Theorem C16_validity_encode_total : forall v,
  (validity_encodable v = true /\ validity_encode v = EncOk (validity_to_cbor v)) \/
  (validity_encodable v = false /\ exists e, validity_encode v = EncErr e).
Proof. exact validity_encode_total. Qed.
Print Assumptions C16_validity_encode_total.
Theorem C16_validity_encode_no_panic : forall v, validity_encode v <> EncPanic.
Proof. exact validity_encode_no_panic. Qed.
Print Assumptions C16_validity_encode_no_panic.
(* the documented domain is encodable *)
Theorem C16_validity_wf_encodable : forall v, validity_wf v -> validity_encodable v = true.
Proof. exact validity_wf_encodable. Qed.
Print Assumptions C16_validity_wf_encodable.

(* ---------- CoseKey <-> JWK ---------- *)

(* every key with an explicit y (EC2 on P-256 / P-384 / P-521 / secp256k1) and every OKP key converts
   to a JWK and back to the very same key (curve and coordinates untouched); a sign-bit y has no
   JWK form and the conversion is refused *)
Theorem C16_cose_jwk : forall tb, tables_ok tb -> forall k,
  match k with
  | EC2 _ _ (YSign _) => cose_to_jwk tb k = None
  | _ => exists j, cose_to_jwk tb k = Some j /\ jwk_to_cose tb j = Some k
  end.
Proof. exact cose_jwk_rt. Qed.
Print Assumptions C16_cose_jwk.

(* ---------- the hypotheses are inhabited ---------- *)

Ltac ex_tac :=
  repeat match goal with
         | |- _ = _ => vm_compute; reflexivity
         | |- (_ <= _)%Z => vm_compute; discriminate
         | |- (_ < _)%Z => vm_compute; reflexivity
         | |- (_ < _)%N => vm_compute; reflexivity
         | |- _ <> _ => discriminate
         | |- True => exact I
         | |- Forall _ _ => constructor
         | |- _ => split
         end.

Definition ex_key : cose_key := EC2 P256 (repeat 1 32) (YValue (repeat 2 32)).
Definition ex_okp : cose_key := OKP Ed25519 (repeat 3 32).
Definition ex_key24 : tag24 cose_key := tag24_new (c_cose_key gen_tables) ex_key.
Definition ex_methods : list retrieval_method :=
  [RBle (BleOptions (Some (repeat 7 16, Some [1; 2; 3; 4; 5; 6])) (Some (repeat 9 16)));
   RNfc (NfcOptions 255 65536);
   RWifi (WifiOptions (Some (bytes_of_string "pw")) (Some 81) None (Some [1]))].
Definition ex_engagement (pi : option cbor) : device_engagement :=
  DeviceEngagement (version_bytes gen_tables) (Security 1 ex_key24) (Some ex_methods)
                   (Some (ServerMethods (Some (1, bytes_of_string "https://x", bytes_of_string "tok")) None)) pi.

Example C16_ex_CoseKey : cose_key_wf ex_key /\ cose_key_wf ex_okp /\ cose_key_wf (EC2 P256K [] (YSign true)).
Proof. ex_tac. Qed.
Example C16_ex_DeviceEngagement :
  engagement_wf gen_tables (ex_engagement None) /\ engagement_wf gen_tables (ex_engagement (Some (CText (bytes_of_string "x")))) /\
  engagement_wf gen_tables (ex_engagement (Some CNull)).
Proof. ex_tac. Qed.
(* an engagement carrying protocol info comes back whole (it did not before fix 7fcb6ed) *)
Example C16_ex_DeviceEngagement_protocol_info :
  let e := ex_engagement (Some (CMap [(CUInt 1, CText (bytes_of_string "x"))])) in
  from_bytes (c_engagement gen_tables) (to_bytes (c_engagement gen_tables) e) = Some e.
Proof. vm_compute. reflexivity. Qed.
Example C16_ex_SessionEstablishment : session_establishment_wf gen_tables (SessionEstablishment ex_key24 [1; 2; 3]).
Proof. ex_tac. Qed.
Example C16_ex_SessionData :
  session_data_wf (SessionData (Some [255]) (Some SessionTermination)) /\ session_data_wf (SessionData None None).
Proof. ex_tac. Qed.
Example C16_ex_Handover :
  handover_wf HQr /\ handover_wf (HNfc [1] None) /\ handover_wf (HNfc [97] (Some [98])) /\
  handover_wf (HOid4vp (bytes_of_string "a") (bytes_of_string "b")).
Proof. ex_tac. Qed.
Definition ex_transcript : session_transcript :=
  SessionTranscript (tag24_new (c_engagement gen_tables) (ex_engagement None)) ex_key24 (HNfc [1; 2] (Some [3])).
Example C16_ex_SessionTranscript : session_transcript_wf gen_tables ex_transcript.
Proof. ex_tac. Qed.

Definition ex_items_request : items_request :=
  ItemsRequest (bytes_of_string "org.iso.18013.5.1.mDL")
               [(bytes_of_string "org.iso.18013.5.1", [(bytes_of_string "age_over_18", false); (bytes_of_string "family_name", true)])]
               (Some [(bytes_of_string "k", CUInt 1)]).
Example C16_ex_ItemsRequest : items_request_wf ex_items_request.
Proof. ex_tac. Qed.

Definition ex_sign1 : cbor := CTag 18 (CArray [CBytes [161; 1; 38]; CMap []; CNull; CBytes [9; 9]]).
Definition ex_mac0 : cbor := CArray [CBytes [161; 1; 5]; CMap []; CNull; CBytes [7; 7]].
Example C16_ex_cose : cose_shallow_P 18 ex_sign1 /\ cose_shallow_P 17 ex_mac0.
Proof. ex_tac. Qed.
Definition ex_device_request : @device_request cbor :=
  DeviceRequest (bytes_of_string "1.0")
    [DocRequest (tag24_new c_items_request ex_items_request) (Some ex_sign1);
     DocRequest (tag24_new c_items_request ex_items_request) None].
Example C16_ex_DeviceRequest : device_request_wf (cose_shallow_P 18) ex_device_request.
Proof. ex_tac. Qed.

(* 2024-02-29 23:59:59.987654321 at +05:30, and the same instant already normalised *)
Definition ex_date : odt := ODT 2024 2 29 23 59 59 987654321 19800.
Definition ex_date_utc : odt := ODT 2024 2 29 18 29 59 0 0.
Example C16_ex_time : emit_ok ex_date = true /\ odt_valid ex_date = true /\ offset_ok ex_date = true /\
                      to_utc_trunc ex_date = ex_date_utc /\ emit ex_date = bytes_of_string "2024-02-29T18:29:59Z".
Proof. ex_tac. Qed.
Definition ex_validity : validity_info := ValidityInfo ex_date ex_date (ODT 2025 1 1 0 0 0 0 (-86399)) (Some ex_date).
Example C16_ex_ValidityInfo : validity_wf ex_validity /\ validity_exact (validity_norm ex_validity).
Proof. ex_tac. Qed.

(* signed = 9999-12-31T23:59:59-01:00: the decoder accepts it, its UTC form is in year 10000; encoding
   used to panic inside to_offset and now returns Error::UtcOutOfRange (fix 44219c8) *)
Definition ex_date_10000 : odt := ODT 9999 12 31 23 59 59 0 (-3600).
Example C16_ex_validity_utc_out_of_range :
  parse_rfc3339 (bytes_of_string "9999-12-31T23:59:59-01:00") = Some ex_date_10000 /\
  o_year (to_utc_trunc ex_date_10000) = 10000%Z /\
  emit_checked ex_date_10000 = EmitError UtcOutOfRange /\
  validity_encode (ValidityInfo ex_date_10000 ex_date_utc ex_date_utc None) = EncErr UtcOutOfRange /\
  (* 0000-01-01T00:00:00+01:00 is in range for the conversion but its UTC year -1 cannot be formatted *)
  validity_encode (ValidityInfo ex_date_utc (ODT 0 1 1 0 0 0 0 3600) ex_date_utc None) = EncErr UnableToFormatDate.
Proof. vm_compute. repeat split. Qed.

Definition ex_mso : mso :=
  Mso (bytes_of_string "1.0") SHA256
      [(bytes_of_string "org.iso.18013.5.1", [(0%Z, repeat 5 32); (7%Z, repeat 6 32); (2147483647%Z, repeat 7 32)])]
      (DeviceKeyInfo ex_key
         (Some (KeyAuthorizations (Some [bytes_of_string "ns"]) (Some [(bytes_of_string "ns2", [bytes_of_string "el"])])))
         (Some [((-3)%Z, CUInt 1); (5%Z, CText [97])]))
      (bytes_of_string "org.iso.18013.5.1.mDL") ex_validity.
Example C16_ex_Mso : mso_wf ex_mso /\ mso_exact (mso_norm ex_mso).
Proof. ex_tac. Qed.

Definition ex_item : issuer_signed_item := IssuerSignedItem 42 [1; 2; 3] (bytes_of_string "family_name") (CText [68; 111; 101]).
Example C16_ex_IssuerSignedItem : issuer_signed_item_wf ex_item.
Proof. ex_tac. Qed.

Definition ex_document : @document cbor cbor :=
  Document (bytes_of_string "org.iso.18013.5.1.mDL")
    (IssuerSigned (Some [(bytes_of_string "org.iso.18013.5.1", [tag24_new c_issuer_signed_item ex_item])]) ex_sign1)
    (DeviceSigned (tag24_new c_device_namespaces [(bytes_of_string "ns", [(bytes_of_string "e", CBool true)])]) (DeviceMac ex_mac0))
    (Some [(bytes_of_string "org.iso.18013.5.1", [(bytes_of_string "portrait", DataNotReturned);
                                                  (bytes_of_string "sex", ApplicationSpecific (-18446744073709551617))])]).
Definition ex_response : @device_response cbor cbor :=
  DeviceResponse (bytes_of_string "1.0") (Some [ex_document])
                 (Some [[(bytes_of_string "org.example.doc", ApplicationSpecific (-1))]]) StatusOK.
Example C16_ex_DeviceResponse : device_response_wf (cose_shallow_P 18) (cose_shallow_P 17) ex_response.
Proof. ex_tac. Qed.
(* and the whole response does round-trip through bytes in the model *)
Example C16_ex_DeviceResponse_bytes :
  let c := c_device_response gen_tables c_sign1_shallow c_mac0_shallow (cose_shallow_P 18) (cose_shallow_P 17) in
  from_bytes c (to_bytes c ex_response) = Some ex_response.
Proof. vm_compute. reflexivity. Qed.
