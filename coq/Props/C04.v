(* C04 — elements reported as issuer-authenticated are bound to the signed MSO.  Pinned statements only. *)
From Isomdl Require Import Lib.Bytes Lib.Cbor Lib.Sha2 Model.Cose Model.ReaderAuth Spec.ReaderAuthSpec Proofs.ReaderAuthProofs.
Open Scope N_scope.

(* whenever issuer authentication is Valid: the MSO (read from the signed payload) names this
   document's docType, and for EVERY disclosed item of EVERY namespace the MSO's valueDigests
   entry for that namespace and the item's digestID is the digest, under the MSO's algorithm, of
   the item's IssuerSignedItemBytes (#6.24 of the embedded bytes as received) *)
Theorem C04_valid_implies_bound : forall (env : renv) (d : rdoc),
  o_issuer (validate_document env d) = Valid -> bound_spec d.
Proof. exact valid_implies_bound. Qed.
Print Assumptions C04_valid_implies_bound.

Theorem C04_bound_is_checked : forall d, data_bound d = true -> bound_spec d.
Proof. exact data_bound_spec. Qed.
Print Assumptions C04_bound_is_checked.

(* the model's digest input is the ISO one *)
Theorem C04_digest_input : forall alg item,
  digest alg (KeySchedule.tag24_wrap item) =
  iso_item_digest (match alg with Sha256 => 256 | Sha384 => 384 | Sha512 => 512 end) item.
Proof. intros [] item; reflexivity. Qed.
Print Assumptions C04_digest_input.
