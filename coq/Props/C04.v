(* C04 — elements reported as issuer-authenticated are bound to the signed MSO.  Pinned statements only. *)
From Isomdl Require Import Lib.Bytes Lib.Cbor Lib.Sha2 Gen.Constants Model.Cose Model.ReaderAuth Spec.ReaderAuthSpec Proofs.ReaderAuthProofs.
Open Scope N_scope.

(* whenever issuer authentication is Valid: the MSO (read from the signed payload) names this
   document's docType, and for EVERY disclosed item of EVERY namespace the MSO's valueDigests
   entry for that namespace and the item's digestID is the digest, under the MSO's algorithm, of
   the item's IssuerSignedItemBytes (#6.24 of the embedded bytes as received) *)
Theorem C04_valid_implies_bound : forall (env : renv) (d : rdoc),
  o_issuer (validate_document env d) = Valid -> bound_spec d.
Proof. exact valid_implies_bound. Qed.
Print Assumptions C04_valid_implies_bound.

Theorem C04_bound_is_checked : forall d, data_bound d = true -> bound_spec d.
Proof. exact data_bound_spec. Qed.
Print Assumptions C04_bound_is_checked.

(* the model's digest input is the ISO one *)
Theorem C04_digest_input : forall alg item,
  digest alg (KeySchedule.tag24_wrap item) =
  iso_item_digest (match alg with Sha256 => 256 | Sha384 => 384 | Sha512 => 512 end) item.
Proof. intros [] item; reflexivity. Qed.
Print Assumptions C04_digest_input.

(* WHICH document: a response may carry several documents.  The document whose elements the reader reports is
   the document it authenticated — the first one of the mDL docType, for every list of documents — so the
   binding above is about the reported elements and not about some other document of the same response.
   (The two look-ups are separate in reader.rs; the translator checks on every run that both are still the
   first-match look-up by this docType: item reader_document_lookup, literal copied into Gen.) *)
Theorem C04_reported_document_is_authenticated : forall (docs : list rdoc),
  reported_document docs = authenticated_document docs.
Proof. exact reported_is_authenticated. Qed.
Print Assumptions C04_reported_document_is_authenticated.

Theorem C04_document_selection : forall (docs : list rdoc) (d : rdoc),
  authenticated_document docs = Some d ->
  In d docs /\ rd_doc_type d = mdl_doc_type /\
  exists pre post, docs = pre ++ d :: post /\ Forall (fun x => rd_doc_type x <> mdl_doc_type) pre.
Proof. exact select_document_first. Qed.
Print Assumptions C04_document_selection.

(* the docType literal of the source is the model's *)
Theorem C04_document_doc_type_literal : reader_document_doc_type = mdl_doc_type.
Proof. exact eq_refl. Qed.
Print Assumptions C04_document_doc_type_literal.
