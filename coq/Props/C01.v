(* C01 — an honest presentation delivers exactly the agreed data, authenticated.  Pinned statements only.
   The property is a composition; each theorem below is one of its clauses, over the models that the
   per-component properties (C02, C03-C05, C06-C08, C13) tie to the code. *)
From Isomdl Require Import Lib.Bytes Lib.Cbor Lib.Base64 Model.Iv Model.Session Model.Honest Model.Cose Model.KeySchedule
  Model.ReaderAuth Model.Select Model.Render Spec.SelectSpec Spec.ReaderAuthSpec
  Proofs.HonestProofs Proofs.C01Proofs Proofs.SelectProofs.
Open Scope N_scope.

(* both sides derive the same keys: the reader recovers the engagement bytes from the QR code
   exactly, so both hash the same transcript; ECDH commutativity is the hypothesis zab = zab' *)
Theorem C01_keys_agree : forall de erk ho zab_device zab_reader ek reader,
  wf_bytes de = true -> zab_device = zab_reader ->
  exists de', b64url_decode (b64url_encode de) = Some de' /\
    session_key zab_device (transcript_bytes de erk ho) reader = session_key zab_reader (transcript_bytes de' erk ho) reader /\
    ble_ident ek = ble_ident ek.
Proof. exact keys_agree. Qed.

(* every message of every round decrypts at its recipient, the request reaches the holder, the
   response becomes ready and the reader obtains exactly the prepared response — for any number of
   rounds below 2^32, any documents, any signatures *)
Theorem C01_all_rounds_deliver : forall (rounds : list round) (s : sys),
  synced s ->
  r_send (s_rdr s) + N.of_nat (length rounds) < two32 -> d_send (s_dev s) + N.of_nat (length rounds) < two32 ->
  Forall (fun r => length (rn_sigs r) = length (rn_docs r)) rounds ->
  let '(s', os, _) := honest_run rounds s in
  synced s' /\
  Forall2 (fun r o => ro_request o = RoRequest (rn_req r) /\ ro_ready o = true /\ ro_response o = RsResponse (expected_response r)) rounds os.
Proof. exact honest_run_ok. Qed.

Theorem C01_fresh_session_synced : forall kr kd, synced (fresh kr kd).
Proof. exact fresh_synced. Qed.

(* what the reader reports for a namespace: exactly the renderings of the disclosed elements
   (soundness: each entry is the rendering of a disclosed element; completeness: each disclosed
   element whose value can be rendered appears) — and the disclosed elements are exactly the
   requested, permitted and held ones by C02_sound / C02_complete *)
Theorem C01_report_sound : forall items k v,
  In (k, v) (rendered_items items) -> exists x, In (k, x) items /\ render x = Some v.
Proof. exact rendered_sound. Qed.

Theorem C01_report_complete : forall items k x,
  In (k, x) items -> render x <> None -> key_in k (rendered_items items).
Proof. exact rendered_complete. Qed.

(* issuer and device authentication are both Valid, without any error entry, when the chain
   validates against a configured anchor, the issuer's signature is the signer's, the disclosed
   items are the issued ones, and the holder signed with the issued device key *)
Theorem C01_both_valid : forall env d c payload mso crv x y,
  e_x5 env = X5Chain -> e_chain_valid env = true -> e_leaf_key_ok env = true -> e_mso_ok env = true ->
  namespaces_ok d = true ->
  c_payload (rd_issuer_auth d) = Some payload ->
  alg_gate (e_issuer_verifier env) (alg_of_protected (c_protected (rd_issuer_auth d))) = true ->
  v_parse (e_issuer_verifier env) (c_sig (rd_issuer_auth d)) = true ->
  v_check (e_issuer_verifier env) (iso_issuer_tbs (c_protected (rd_issuer_auth d)) payload) (c_sig (rd_issuer_auth d)) = true ->
  data_bound d = true ->
  mso_map payload = Some mso -> mso_device_key mso = Some (EC2 crv x (YValue y)) ->
  length x = 32%nat -> length y = 32%nat -> e_device_point_ok env = true ->
  rd_device_auth d = DSignature c -> c_payload c = None ->
  alg_gate (e_device_verifier env) (alg_of_protected (c_protected c)) = true ->
  v_parse (e_device_verifier env) (c_sig c) = true ->
  v_check (e_device_verifier env)
          (iso_device_tbs (c_protected c) (e_de env) (e_erk env) (e_handover env) (rd_doc_type d) (rd_device_ns d)) (c_sig c) = true ->
  validate_document env d = {| o_issuer := Valid; o_device := Valid; o_errors := []; o_reported := true |}.
Proof. exact honest_both_valid. Qed.

(* non-vacuity: three honest rounds, with 2, 0 and 1 documents *)
Example C01_ex_three_rounds :
  let rounds := [ {| rn_req := 1; rn_docs := [(1, [1]); (2, [2])]; rn_errs := 0; rn_sigs := [[9]; [8]] |};
                  {| rn_req := 2; rn_docs := []; rn_errs := 1; rn_sigs := [] |};
                  {| rn_req := 3; rn_docs := [(1, [1])]; rn_errs := 0; rn_sigs := [[7]] |} ] in
  map ro_response (snd (fst (honest_run rounds (fresh 0 1)))) = map (fun r => RsResponse (expected_response r)) rounds.
Proof. vm_compute. reflexivity. Qed.
