(* C01 — an honest presentation delivers exactly the agreed data, authenticated.  Pinned statements only.
   The property is a composition; each theorem below is one of its clauses, over the models that the
   per-component properties (C02, C03-C05, C06-C08, C13) tie to the code. *)
From Isomdl Require Import Lib.Bytes Lib.Cbor Lib.Base64 Model.Iv Model.Session Model.Honest Model.Cose Model.KeySchedule
  Model.ReaderAuth Model.Select Model.Render Spec.SelectSpec Spec.ReaderAuthSpec
  Spec.SelectCheck Api.C01 Proofs.HonestProofs Proofs.C01Proofs Proofs.SelectProofs Proofs.C01Exact.
Open Scope N_scope.

(* both sides derive the same keys: the reader recovers the engagement bytes from the QR code
   exactly, so both hash the same transcript; ECDH commutativity is the hypothesis zab = zab' *)
Theorem C01_keys_agree : forall de erk ho zab_device zab_reader ek reader,
  wf_bytes de = true -> zab_device = zab_reader ->
  exists de', b64url_decode (b64url_encode de) = Some de' /\
    session_key zab_device (transcript_bytes de erk ho) reader = session_key zab_reader (transcript_bytes de' erk ho) reader /\
    ble_ident ek = ble_ident ek.
Proof. exact keys_agree. Qed.
Print Assumptions C01_keys_agree.

(* every message of every round decrypts at its recipient, the request reaches the holder, the
   response becomes ready and the reader obtains exactly the prepared response — for any number of
   rounds below 2^32, any documents, any signatures *)
Theorem C01_all_rounds_deliver : forall (rounds : list round) (s : sys),
  synced s ->
  r_send (s_rdr s) + N.of_nat (length rounds) < two32 -> d_send (s_dev s) + N.of_nat (length rounds) < two32 ->
  Forall (fun r => length (rn_sigs r) = length (rn_docs r)) rounds ->
  let '(s', os, _) := honest_run rounds s in
  synced s' /\
  Forall2 (fun r o => ro_request o = RoRequest (rn_req r) /\ ro_ready o = true /\ ro_response o = RsResponse (expected_response r)) rounds os.
Proof. exact honest_run_ok. Qed.
Print Assumptions C01_all_rounds_deliver.

Theorem C01_fresh_session_synced : forall kr kd, synced (fresh kr kd).
Proof. exact fresh_synced. Qed.
Print Assumptions C01_fresh_session_synced.

(* what the reader reports for a namespace: exactly the renderings of the disclosed elements
   (soundness: each entry is the rendering of a disclosed element; completeness: each disclosed
   element whose value can be rendered appears) — and the disclosed elements are exactly the
   requested, permitted and held ones by C02_sound / C02_complete *)
Theorem C01_report_sound : forall items k v,
  In (k, v) (rendered_items items) -> exists x, In (k, x) items /\ render x = Some v.
Proof. exact rendered_sound. Qed.
Print Assumptions C01_report_sound.

Theorem C01_report_complete : forall items k x,
  In (k, x) items -> render x <> None -> key_in k (rendered_items items).
Proof. exact rendered_complete. Qed.
Print Assumptions C01_report_complete.

(* the composition of the two, machine-checked: for ALL held documents, requests and permitted maps,
   the model's prediction of the reader's report (C02 selection of the first prepared mDL document,
   then rendering of its disclosed core / aamva namespaces) equals the specification's independent
   computation (the held mDL elements that are requested_any_b && permitted_b, rendered, inserted
   in identifier order).  The hypotheses are the invariants of the Rust map types:
     keys_distinct l  :=  NoDup (map fst l)
     perm_wf perm     :=  keys_distinct perm /\ forall dt nss, In (dt, nss) perm -> keys_distinct nss
                          (BTreeMap<DocType, BTreeMap<Namespace, Vec<Id>>>; element lists are arbitrary)
     req_wf req       :=  forall dt nss, In (dt, nss) req -> keys_distinct nss
                          (Vec<ItemsRequest>, docTypes may repeat; ItemsRequest.namespaces is a NonEmptyMap)
     docs_wf docs     :=  forall d ns items, aget mdl docs = Some d -> aget ns (d_ns d) = Some items ->
                            keys_distinct items /\ forall id it, In (id, it) items -> fst it = id
                          (From<Mdoc> for Document keys each namespace by element_identifier)
     mdl_can_sign docs := forall d, aget mdl docs = Some d -> d_can_sign d = true
   Each of them is necessary: Proofs/C01Exact.v has a counterexample for every one
   (can_sign_needed, perm_doc_types_distinct_needed, perm_namespaces_distinct_needed, req_wf_needed,
   held_identifiers_distinct_needed, held_key_is_identifier_needed). *)
Theorem C01_report_exact : forall (docs : list (key * document vitem)) (req : request) (perm : permitted),
  perm_wf perm -> req_wf req -> docs_wf docs -> mdl_can_sign docs ->
  expected_report docs req perm = spec_report docs req perm.
Proof. exact report_exact. Qed.
Print Assumptions C01_report_exact.

(* per namespace (any namespace, not only the two that the reader reports) *)
Theorem C01_namespace_exact : forall (docs : list (key * document vitem)) (req : request) (perm : permitted) (ns : bytes),
  perm_wf perm -> req_wf req -> docs_wf docs -> mdl_can_sign docs ->
  option_map rendered_items
    (match find (fun pd => bytes_eqb (pd_doc_type pd) mdl) (sel_docs (prepare_response docs req perm)) with
     | Some pd => aget ns (pd_disclosed pd)
     | None => None
     end) = spec_namespace docs req perm ns.
Proof. exact namespace_exact. Qed.
Print Assumptions C01_namespace_exact.

(* the two definitions genuinely differ when the held mDL's device key has no signature algorithm:
   the device lists the docType as a document error and the reader has nothing to report, while
   spec_report does not look at the device key — hence the hypothesis mdl_can_sign *)
Theorem C01_report_exact_cannot_sign_refuted :
  let docs := [(mdl, {| d_can_sign := false; d_ns := [(ns_core, [([97], ([97], CUInt 1))])] |})] in
  let req : request := [(mdl, [(ns_core, [[97]])])] in
  let perm : permitted := [(mdl, [(ns_core, [[97]])])] in
  perm_wf perm /\ req_wf req /\ docs_wf docs /\
  expected_report docs req perm = None /\
  spec_report docs req perm = Some (obj_to_cbor [(ns_core, obj_to_cbor [([97], CUInt 1)])]).
Proof. exact can_sign_needed. Qed.
Print Assumptions C01_report_exact_cannot_sign_refuted.

(* issuer and device authentication are both Valid, without any error entry, when the chain
   validates against a configured anchor, the issuer's signature is the signer's, the disclosed
   items are the issued ones, and the holder signed with the issued device key *)
Theorem C01_both_valid : forall env d c payload mso crv x y,
  e_x5 env = X5Chain -> e_chain_valid env = true -> e_leaf_key_ok env = true -> e_mso_ok env = true ->
  namespaces_ok d = true ->
  c_payload (rd_issuer_auth d) = Some payload ->
  alg_gate (e_issuer_verifier env) (alg_of_protected (c_protected (rd_issuer_auth d))) = true ->
  v_parse (e_issuer_verifier env) (c_sig (rd_issuer_auth d)) = true ->
  v_check (e_issuer_verifier env) (iso_issuer_tbs (c_protected (rd_issuer_auth d)) payload) (c_sig (rd_issuer_auth d)) = true ->
  data_bound d = true ->
  mso_map payload = Some mso -> mso_device_key mso = Some (EC2 crv x (YValue y)) ->
  length x = 32%nat -> length y = 32%nat -> e_device_point_ok env = true ->
  rd_device_auth d = DSignature c -> c_payload c = None ->
  alg_gate (e_device_verifier env) (alg_of_protected (c_protected c)) = true ->
  v_parse (e_device_verifier env) (c_sig c) = true ->
  v_check (e_device_verifier env)
          (iso_device_tbs (c_protected c) (e_de env) (e_erk env) (e_handover env) (rd_doc_type d) (rd_device_ns d)) (c_sig c) = true ->
  validate_document env d = {| o_issuer := Valid; o_device := Valid; o_errors := []; o_reported := true |}.
Proof. exact honest_both_valid. Qed.
Print Assumptions C01_both_valid.

(* non-vacuity: three honest rounds, with 2, 0 and 1 documents *)
Example C01_ex_three_rounds :
  let rounds := [ {| rn_req := 1; rn_docs := [(1, [1]); (2, [2])]; rn_errs := 0; rn_sigs := [[9]; [8]] |};
                  {| rn_req := 2; rn_docs := []; rn_errs := 1; rn_sigs := [] |};
                  {| rn_req := 3; rn_docs := [(1, [1])]; rn_errs := 0; rn_sigs := [[7]] |} ] in
  map ro_response (snd (fst (honest_run rounds (fresh 0 1)))) = map (fun r => RsResponse (expected_response r)) rounds.
Proof. vm_compute. reflexivity. Qed.

(* non-vacuity of C01_report_exact: two namespaces, identifier "a" in both, a permitted list with a
   repeated and a not-held identifier ("z"), a request naming the mDL twice (and another docType in
   between), a held value that does not render (null) *)
Example C01_ex_report_exact :
  let a := [97] in let b := [98] in let c := [99] in let d := [100] in let z := [122] in
  let docs := [([1], {| d_can_sign := false; d_ns := [] |});
               (mdl, {| d_can_sign := true;
                        d_ns := [(ns_core, [(a, (a, CText [120])); (b, (b, CUInt 2)); (c, (c, CBytes [1; 2])); (d, (d, CUInt 4))]);
                                 (ns_aamva, [(a, (a, CBool true)); (d, (d, CNull))])] |})] in
  let req : request := [(mdl, [(ns_core, [b; a; d])]); ([1], [(ns_core, [a])]); (mdl, [(ns_aamva, [a; d; z]); (ns_core, [c; z])])] in
  let perm : permitted := [(mdl, [(ns_aamva, [a; a; d; z]); (ns_core, [c; a; z; a; b])]); ([1], [(ns_core, [a])])] in
  (perm_wf perm /\ req_wf req /\ docs_wf docs /\ mdl_can_sign docs) /\
  expected_report docs req perm =
    Some (obj_to_cbor [(ns_core, obj_to_cbor [(a, CText [120]); (b, CUInt 2); (c, CArray [CUInt 1; CUInt 2])]);
                       (ns_aamva, obj_to_cbor [(a, CBool true)])]) /\
  spec_report docs req perm = expected_report docs req perm.
Proof. intros a b c d z docs req perm. split; [apply wf_b_ok|split]; vm_compute; reflexivity. Qed.
