(* C20 — age attestation selection returns the nearest truthful claim.
   This file contains only pinned statements, closed by `exact`, and Print Assumptions. *)
From Isomdl Require Import Lib.Bytes Lib.Cbor Model.AgeOver Spec.AgeOverSpec Proofs.AgeOverProofs.
Open Scope N_scope.

Theorem C20_correct :
  forall (A : Type) (req : bytes) (held : list (@entry A)) (nn : N),
    parse_age req = AOk nn -> held_wf held ->
    exists r, nearest req held = AOk r /\ nearest_spec nn held r.
Proof. exact (@nearest_correct). Qed.
Print Assumptions C20_correct.

Theorem C20_unchanged :
  forall (A : Type) (req : bytes) (held : list (@entry A)) (c : @entry A),
    nearest req held = AOk (Some c) -> In c held.
Proof. exact (@nearest_unchanged). Qed.
Print Assumptions C20_unchanged.

Theorem C20_answers_request :
  forall (A : Type) (req : bytes) (held : list (@entry A)) (c : @entry A),
    nearest req held = AOk (Some c) ->
    exists nn n, parse_age req = AOk nn /\ parse_age (e_id c) = AOk n /\
      ((e_val c = CBool true /\ nn <= n) \/ (e_val c <> CBool true /\ n <= nn)).
Proof. exact (@nearest_answers). Qed.
Print Assumptions C20_answers_request.

Theorem C20_malformed_rejected :
  forall (A : Type) (req : bytes) (held : list (@entry A)) (e : age_err),
    parse_age req = AErr e -> nearest req held = AErr e.
Proof. exact (@nearest_malformed_request). Qed.
Print Assumptions C20_malformed_rejected.

Theorem C20_age_is_u8 : forall id n, parse_age id = AOk n -> n <= 255.
Proof. exact parse_age_u8. Qed.
Print Assumptions C20_age_is_u8.

(* non-vacuity: a concrete held set meeting the hypotheses, with each of the three outcomes *)
Definition ex_held : list (@entry N) :=
  [ (bytes_of_string "age_over_18"%string, (CBool true, 1));
    (bytes_of_string "age_over_21"%string, (CBool false, 2));
    (bytes_of_string "age_over_22"%string, (CBool false, 3));
    (bytes_of_string "family_name"%string, (CText [68], 4)) ].

Example C20_ex_wf : held_wf ex_held.
Proof.
  intros e He Hc. cbn in He.
  destruct He as [<-|[<-|[<-|[<-|[]]]]]; try (vm_compute in Hc; discriminate);
    (split; [eexists; vm_compute; reflexivity|]); vm_compute; auto.
Qed.

Example C20_ex_values :
  option_map (fun e => snd (snd e)) (match nearest (bytes_of_string "age_over_23"%string) ex_held with AOk r => r | _ => None end) = Some 3
  /\ option_map (fun e => snd (snd e)) (match nearest (bytes_of_string "age_over_16"%string) ex_held with AOk r => r | _ => None end) = Some 1
  /\ nearest (bytes_of_string "age_over_19"%string) ex_held = AOk None
  /\ nearest (bytes_of_string "age_over19"%string) ex_held = AErr PrefixError.
Proof. vm_compute. repeat split. Qed.
