(* C14 — serialised session state resumes the session transparently.  Pinned statements only. *)
From Isomdl Require Import Lib.Bytes Lib.Cbor Proofs.CborProofs Gen.StateFields Model.SessionSer Model.Iv Model.Session
  Proofs.SessionSerProofs.
Open Scope N_scope.
Local Open Scope string_scope.

(* stringify then parse gives back the same session object, for every state of every session
   type; the components with their own encodings (documents, transcript, anchors, prepared and
   signed documents) are arbitrary well-formed CBOR values (cbor_ok) carried unchanged *)
Theorem C14_roundtrip_device : forall d : dev_ser,
  wf_dev d -> cbor_ok (dev_to_cbor d) -> dev_parse (dev_stringify d) = Some d.
Proof. exact dev_parse_stringify. Qed.
Print Assumptions C14_roundtrip_device.

Theorem C14_roundtrip_reader : forall r : rdr_ser,
  wf_rdr r -> cbor_ok (rdr_to_cbor r) -> rdr_parse (rdr_stringify r) = Some r.
Proof. exact rdr_parse_stringify. Qed.
Print Assumptions C14_roundtrip_reader.

Theorem C14_roundtrip_init_engaged : forall e : engaged_ser,
  wf_bytes (es_e_device_key e) = true -> cbor_ok (engaged_to_cbor e) ->
  engaged_parse (match es_handover e with Some _ => true | None => false end) (engaged_stringify e) = Some e.
Proof. exact engaged_parse_stringify. Qed.
Print Assumptions C14_roundtrip_init_engaged.

Theorem C14_cycles : forall (n : nat) (d : dev_ser),
  wf_dev d -> cbor_ok (dev_to_cbor d) -> cycles n d = Some d.
Proof. exact dev_cycles. Qed.
Print Assumptions C14_cycles.

(* for every operation list and every set of positions at which either role is serialised and
   restored, the final state, the emissions and the outputs of the remaining steps are those of
   the run without any restore *)
Theorem C14_transparent : forall (ops : list op) (s : sys),
  let '(s1, outs1, ems1) := run ops s in
  let '(s2, outs2, ems2) := run (filter (fun o => negb (is_restore o)) ops) s in
  s1 = s2 /\ ems1 = ems2 /\ outs_without_restores ops outs1 = outs2.
Proof. exact restore_transparent. Qed.
Print Assumptions C14_transparent.

(* the state structs of the current source have exactly the fields the model serialises, with the
   types it assumes, and no serde attribute (skip / default / rename / with) on any of them *)
Definition plain (names : list String.string) (tys : list String.string) : list (String.string * String.string * String.string) :=
  map (fun nt => (fst nt, "", snd nt)) (combine names tys).

Theorem C14_fields :
  gen_device_sm_fields = plain dev_field_names
    ["Documents"; "SessionTranscript180135"; "[u8;32]"; "u32"; "[u8;32]"; "u32"; "State"; "TrustAnchorRegistry"; "DeviceAuthType"]
  /\ gen_device_sm_fields_container_attrs = ""
  /\ gen_reader_sm_fields = plain rdr_field_names
    ["SessionTranscript180135"; "[u8;32]"; "u32"; "[u8;32]"; "u32"; "TrustAnchorRegistry"]
  /\ gen_reader_sm_fields_container_attrs = ""
  /\ gen_init_fields = plain init_field_names ["Documents"; "Vec<u8>"; "Tag24<DeviceEngagement>"]
  /\ gen_init_fields_container_attrs = ""
  /\ gen_engaged_fields = plain engaged_field_names ["Documents"; "Vec<u8>"; "Tag24<DeviceEngagement>"; "Handover"]
  /\ gen_engaged_fields_container_attrs = ""
  /\ gen_prepared_fields = plain ["prepared_documents"; "signed_documents"; "document_errors"; "status"]
       ["Vec<PreparedDocument>"; "Vec<DeviceResponseDoc>"; "Option<DocumentErrors>"; "Status"]
  /\ gen_prepared_fields_container_attrs = ""
  /\ gen_state_variants = [("AwaitingRequest", "", "unit"); ("Signing", "", "tuple1"); ("ReadyToRespond", "", "tuple1")]
  /\ gen_state_container_attrs = "".
Proof. repeat split; reflexivity. Qed.
Print Assumptions C14_fields.

(* non-vacuity: a mid-signing device state meets the hypotheses *)
Definition ex_dev : dev_ser :=
  {| ds_documents := CMap [(CText [100], CUInt 1)]; ds_transcript := CArray [CNull];
     ds_sk_device := repeat 7 32; ds_device_ctr := 3; ds_sk_reader := repeat 9 32; ds_reader_ctr := 4;
     ds_state := SSigning {| ps_prepared := [CUInt 5]; ps_signed := [CUInt 6]; ps_doc_errors := CNull; ps_status := 0 |};
     ds_trusted := CMap []; ds_auth_type := false |}.
Example C14_ex : wf_dev ex_dev /\ cbor_ok (dev_to_cbor ex_dev) /\ dev_parse (dev_stringify ex_dev) = Some ex_dev.
Proof. split; [|split]; vm_compute; repeat split; try reflexivity; try discriminate. Qed.
