(* Extraction for C05: ExtrOcamlBasic only (bool, option, list, prod, unit, sumbool map to OCaml's;
   N, positive, nat, Z, ascii, string stay the extracted inductives). *)
From Coq Require Extraction.
From Coq Require Import ExtrOcamlBasic.
From Isomdl Require Import Lib.Bytes Lib.Cbor Api.Dispatch Api.Loose Api.ReaderAuth.
Definition dispatch (input : bytes) : bytes := dispatch_with [api_reader_auth; api_loose] input.
Extraction "model_C05.ml" dispatch.
