(* Extraction for C01: ExtrOcamlBasic only. *)
From Coq Require Extraction.
From Coq Require Import ExtrOcamlBasic.
From Isomdl Require Import Lib.Bytes Lib.Cbor Api.Dispatch Api.C01 Api.C08.
Definition dispatch (input : bytes) : bytes := dispatch_with [api_c01; api_c08] input.
Extraction "model_C01.ml" dispatch.
