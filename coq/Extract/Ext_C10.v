(* Extraction for C10: ExtrOcamlBasic only (bool, option, list, prod, unit, sumbool map to OCaml's;
   N, positive, nat, Z, ascii, string stay the extracted inductives). *)
From Coq Require Extraction.
From Coq Require Import ExtrOcamlBasic.
From Isomdl Require Import Lib.Bytes Lib.Cbor Api.Dispatch Api.C10.
Definition dispatch (input : bytes) : bytes := dispatch_with [api_c10] input.
Extraction "model_C10.ml" dispatch.
