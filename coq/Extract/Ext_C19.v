(* Extraction for C19: ExtrOcamlBasic only (bool, option, list, prod, unit, sumbool map to OCaml's;
   N, positive, nat, Z, ascii, string stay the extracted inductives). *)
From Coq Require Extraction.
From Coq Require Import ExtrOcamlBasic.
From Isomdl Require Import Lib.Bytes Lib.Cbor Api.Dispatch Api.C19.
Definition dispatch (input : bytes) : bytes := dispatch_with [api_c19] input.
Extraction "model_C19.ml" dispatch.
