(* Extraction for C15: ExtrOcamlBasic only. *)
From Coq Require Extraction.
From Coq Require Import ExtrOcamlBasic.
From Isomdl Require Import Lib.Bytes Lib.Cbor Api.Dispatch Api.C15.
Definition dispatch (input : bytes) : bytes := dispatch_with [api_c15] input.
Extraction "model_C15.ml" dispatch.
