(* Extraction for C12: ExtrOcamlBasic only (bool, option, list, prod, unit, sumbool map to OCaml's;
   N, positive, nat, Z, ascii, string stay the extracted inductives). *)
From Coq Require Extraction.
From Coq Require Import ExtrOcamlBasic.
From Isomdl Require Import Lib.Bytes Lib.Cbor Api.Dispatch Api.C12.
Definition dispatch (input : bytes) : bytes := dispatch_with [api_c12] input.
Extraction "model_C12.ml" dispatch.
