(* The only file with Extraction commands.  ExtrOcamlBasic only: bool, option, list, prod, unit,
   sumbool map to OCaml's; N, positive, nat, Z, ascii, string stay the extracted inductives. *)
From Coq Require Extraction.
From Coq Require Import ExtrOcamlBasic.
From Isomdl Require Import Lib.Bytes Lib.Cbor Api.Api.
Extraction "model.ml" dispatch.
