(* Extraction for C08: ExtrOcamlBasic only (bool, option, list, prod, unit, sumbool map to OCaml's;
   N, positive, nat, Z, ascii, string stay the extracted inductives). *)
From Coq Require Extraction.
From Coq Require Import ExtrOcamlBasic.
From Isomdl Require Import Lib.Bytes Lib.Cbor Api.Dispatch Api.C08.
Definition dispatch (input : bytes) : bytes := dispatch_with [api_c08] input.
Extraction "model_C08.ml" dispatch.
