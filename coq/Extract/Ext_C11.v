(* Extraction for C11: ExtrOcamlBasic only. *)
From Coq Require Extraction.
From Coq Require Import ExtrOcamlBasic.
From Isomdl Require Import Lib.Bytes Lib.Cbor Api.Dispatch Api.Loose Api.C11.
Definition dispatch (input : bytes) : bytes := dispatch_with [api_c11; api_loose] input.
Extraction "model_C11.ml" dispatch.
