(* Extraction for C16: ExtrOcamlBasic only. *)
From Coq Require Extraction.
From Coq Require Import ExtrOcamlBasic.
From Isomdl Require Import Lib.Bytes Lib.Cbor Api.Dispatch Api.C16.
Definition dispatch (input : bytes) : bytes := dispatch_with [api_c16] input.
Extraction "model_C16.ml" dispatch.
