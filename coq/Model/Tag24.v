(* C10: the holders of issuer-signed bytes.

     Tag24<T>            definitions/helpers/tag24.rs      (inner_bytes kept; typed view = from_slice(inner_bytes))
     IssuerSignedItem    definitions/issuer_signed.rs      (serde-derived struct read by ciborium's streaming deserializer)
     MaybeTagged<CoseSign1>  cose.rs + coset 0.3.8         (protected original_data kept; unprotected re-derived)
     IssuerSigned, issuance::Mdoc, device::Document (From<Mdoc>, Stringify), prepare_response item cloning

   Executable definitions only; theorems in Proofs/Tag24Proofs.v.  Quirks are reproduced, not fixed
   (see the comments marked QUIRK; every one was observed on the real code). *)
From Isomdl Require Import Lib.Bytes Lib.Utf8 Lib.Cbor Lib.Base64 Model.Cose.
Open Scope N_scope.
Local Open Scope string_scope.

Definition obind {A B} (o : option A) (f : A -> option B) : option B :=
  match o with Some a => f a | None => None end.

Definition lit (x : String.string) : bytes := bytes_of_string x.
Definition tx (x : String.string) : cbor := CText (bytes_of_string x).

(* ------------------------------------------------------------------------------------------ *)
(** * Tag24<T>: tag24.rs *)

(* TryFrom<ciborium::Value> (55-73): Tag(24, Bytes(b)) keeps b *)
Definition tag24_of_cbor (v : cbor) : option bytes :=
  match v with CTag 24 (CBytes inner) => Some inner | _ => None end.

(* Deserialize (97-106) through cbor::from_slice: first item of the input, trailing bytes ignored.
   The outer item may use any head widths and an indefinite-length byte string: its chunks are
   concatenated by the CBOR layer (Lib/Cbor.decode), the content is kept. *)
Definition tag24_decode (bs : bytes) : option bytes := obind (decode_first bs) tag24_of_cbor.

(* Serialize (87-95): Value::Tag(24, Bytes(inner_bytes)) through ciborium = shortest heads *)
Definition tag24_encode (inner : bytes) : bytes := encode (tag24 inner).

(* the typed view when T = ciborium::Value: from_slice(inner_bytes) (48-53, 62) *)
Definition view (inner : bytes) : option cbor := decode_first inner.

(* Tag24<T> for a typed reader rd = cbor::from_slice::<T> *)
Definition tag24_decode_as {T} (rd : bytes -> option T) (bs : bytes) : option (bytes * T) :=
  obind (tag24_decode bs) (fun inner => obind (rd inner) (fun t => Some (inner, t))).

(* ------------------------------------------------------------------------------------------ *)
(** * A serde-derived struct read by ciborium 0.2.2 directly from bytes

   ciborium::de::Deserializer::deserialize_map / deserialize_identifier, as observed:
   - any number of tags before the map head and before each key are skipped            QUIRK
   - a key must be a DEFINITE-length text string (valid UTF-8) or a DEFINITE-length byte
     string, at most 4096 bytes (the scratch buffer); a byte-string key matches a field by its
     bytes; integer / null / array / indefinite-length keys are an error                  QUIRK
   - the map itself may be definite (any head width) or indefinite
   - every value is consumed; an unknown key's value must still be a decodable item *)

Definition key_max : N := 4096.

Fixpoint read_key (fuel : nat) (bs : bytes) : dres (bytes * bytes) :=
  match fuel with
  | O => DFuel
  | S f =>
    '(major, _, a, r) <- read_head bs ;;
    match major, a with
    | 6, HVal _ => read_key f r
    | 3, HVal n =>
      if n <=? key_max then
        '(k, r') <- of_opt (split_at n r) ;; if utf8_valid k then DOk (k, r') else DErr
      else DErr
    | 2, HVal n =>
      if n <=? key_max then '(k, r') <- of_opt (split_at n r) ;; DOk (k, r') else DErr
    | _, _ => DErr
    end
  end.

Fixpoint entries_n (fuel : nat) (n : N) (bs : bytes) : dres (list (bytes * cbor) * bytes) :=
  match fuel with
  | O => DFuel
  | S f =>
    if n =? 0 then DOk ([], bs) else
    '(k, r) <- read_key f bs ;;
    '(v, r') <- decode f r ;;
    '(es, r'') <- entries_n f (n - 1) r' ;;
    DOk ((k, v) :: es, r'')
  end.

Fixpoint entries_until (fuel : nat) (bs : bytes) : dres (list (bytes * cbor) * bytes) :=
  match fuel with
  | O => DFuel
  | S f =>
    match bs with
    | 255 :: r => DOk ([], r)
    | _ =>
      '(k, r) <- read_key f bs ;;
      '(v, r') <- decode f r ;;
      '(es, r'') <- entries_until f r' ;;
      DOk ((k, v) :: es, r'')
    end
  end.

Fixpoint read_struct_fuel (fuel : nat) (bs : bytes) : dres (list (bytes * cbor) * bytes) :=
  match fuel with
  | O => DFuel
  | S f =>
    '(major, _, a, r) <- read_head bs ;;
    match major, a with
    | 6, HVal _ => read_struct_fuel f r
    | 5, HVal n => entries_n f n r
    | 5, HIndef => entries_until f r
    | _, _ => DErr
    end
  end.

(* the (key bytes, value) entries of the struct map at the start of bs, in wire order *)
Definition read_struct (bs : bytes) : option (list (bytes * cbor)) :=
  match read_struct_fuel (fuel_for bs) bs with DOk (es, _) => Some es | _ => None end.

(* serde field collection: unknown keys ignored, a repeated known key is an error, a missing
   mandatory key is an error: exactly one entry must carry the key *)
Definition vals (k : bytes) (es : list (bytes * cbor)) : list cbor :=
  map snd (filter (fun e => bytes_eqb k (fst e)) es).

Definition one (k : bytes) (es : list (bytes * cbor)) : option cbor :=
  match vals k es with [v] => Some v | _ => None end.

(* ---------- typed field readers (ciborium's typed deserialize_* calls, on the decoded item) ---------- *)

(* Deserializer::integer: tags other than 2 / 3 are skipped; tag 2 / 3 must be followed by a byte
   string (big-endian magnitude, leading zeros ignored)                                  QUIRK *)
Fixpoint int_of (v : cbor) : option Z :=
  match v with
  | CUInt n => Some (Z.of_N n)
  | CNInt n => Some (- 1 - Z.of_N n)%Z
  | CTag t x =>
    if t =? 2 then match x with CBytes b => Some (Z.of_N (be_value b)) | _ => None end
    else if t =? 3 then match x with CBytes b => Some (- 1 - Z.of_N (be_value b))%Z | _ => None end
    else int_of x
  | _ => None
  end.

Definition in_i32 (z : Z) : bool := ((-2147483648 <=? z) && (z <=? 2147483647))%Z.

(* deserialize_string: tags skipped, definite or indefinite text                          QUIRK *)
Fixpoint text_of (v : cbor) : option bytes :=
  match v with
  | CText b => Some b
  | CTag _ x => text_of x
  | _ => None
  end.

(* ---------- IssuerSignedItem (issuer_signed.rs 41-56) ---------- *)

Record item := {
  it_digest : Z;             (* DigestId(i32): any i32, negative values included        QUIRK *)
  it_random : bytes;         (* ByteStr: try_from Value::Bytes, no tag allowed *)
  it_id : bytes;             (* String *)
  it_value : cbor            (* ciborium::Value *)
}.

Definition k_digest : bytes := lit "digestID".
Definition k_random : bytes := lit "random".
Definition k_id : bytes := lit "elementIdentifier".
Definition k_value : bytes := lit "elementValue".

Definition known_key (k : bytes) : bool :=
  bytes_eqb k_digest k || bytes_eqb k_random k || bytes_eqb k_id k || bytes_eqb k_value k.

Definition item_of_entries (es : list (bytes * cbor)) : option item :=
  match one k_digest es, one k_random es, one k_id es, one k_value es with
  | Some d, Some (CBytes r), Some i, Some v =>
    match int_of d, text_of i with
    | Some z, Some ib =>
      if in_i32 z then Some {| it_digest := z; it_random := r; it_id := ib; it_value := v |} else None
    | _, _ => None
    end
  | _, _, _, _ => None
  end.

(* cbor::from_slice::<IssuerSignedItem> *)
Definition read_item (inner : bytes) : option item := obind (read_struct inner) item_of_entries.

(* the canonical entries of an item, in declaration order (what Tag24::new would emit) *)
Definition z_to_cbor (z : Z) : cbor := if (z <? 0)%Z then CNInt (Z.to_N (- 1 - z)) else CUInt (Z.to_N z).
Definition item_entries (it : item) : list (cbor * cbor) :=
  [ (CText k_digest, z_to_cbor (it_digest it)); (CText k_random, CBytes (it_random it));
    (CText k_id, CText (it_id it)); (CText k_value, it_value it) ].

(* ------------------------------------------------------------------------------------------ *)
(** * BTreeMap<String, V> as a strictly sorted association list *)

Fixpoint bt_insert {V} (k : bytes) (v : V) (m : list (bytes * V)) : list (bytes * V) :=
  match m with
  | [] => [(k, v)]
  | (k', v') :: r =>
    if bytes_ltb k k' then (k, v) :: m
    else if bytes_eqb k k' then (k, v) :: r       (* insert overwrites: the LAST value wins *)
    else (k', v') :: bt_insert k v r
  end.

Fixpoint bt_get {V} (k : bytes) (m : list (bytes * V)) : option V :=
  match m with
  | [] => None
  | (k', v) :: r => if bytes_eqb k k' then Some v else bt_get k r
  end.

(* serde's map visitor for BTreeMap<String, V>: entries inserted in wire order *)
Fixpoint bt_of_entries {V} (dec : cbor -> option V) (kvs : list (cbor * cbor)) (acc : list (bytes * V))
  : option (list (bytes * V)) :=
  match kvs with
  | [] => Some acc
  | (k, x) :: r =>
    match text_of k, dec x with
    | Some kb, Some v => bt_of_entries dec r (bt_insert kb v acc)
    | _, _ => None
    end
  end.

(* NonEmptyMap<String, V> (try_from BTreeMap) *)
Definition nemap_of_cbor {V} (dec : cbor -> option V) (c : cbor) : option (list (bytes * V)) :=
  match c with
  | CMap kvs =>
    match bt_of_entries dec kvs [] with
    | Some [] => None
    | r => r
    end
  | _ => None
  end.

Definition map_to_cbor {V} (enc : V -> cbor) (m : list (bytes * V)) : cbor :=
  CMap (map (fun kv => (CText (fst kv), enc (snd kv))) m).

Fixpoint all_some {A B} (f : A -> option B) (l : list A) : option (list B) :=
  match l with
  | [] => Some []
  | x :: r => match f x, all_some f r with Some y, Some ys => Some (y :: ys) | _, _ => None end
  end.

(* NonEmptyVec<T> (try_from Vec) *)
Definition nevec_of_cbor {V} (dec : cbor -> option V) (c : cbor) : option (list V) :=
  match c with
  | CArray [] => None
  | CArray l => all_some dec l
  | _ => None
  end.

(* ------------------------------------------------------------------------------------------ *)
(** * serde struct <-> CBOR map on decoded values (outer structures: text keys as emitted) *)

Fixpoint lookup_all (k : cbor) (kvs : list (cbor * cbor)) : list cbor :=
  match kvs with
  | [] => []
  | (k', v) :: r => if cbor_eqb k k' then v :: lookup_all k r else lookup_all k r
  end.

Definition req (k : cbor) (kvs : list (cbor * cbor)) : option cbor :=
  match lookup_all k kvs with [v] => Some v | _ => None end.

(* an Option field: absent or null = None; repeated = error *)
Inductive ofield := OAbsent | OValue (v : cbor) | OError.
Definition opt_field (k : cbor) (kvs : list (cbor * cbor)) : ofield :=
  match lookup_all k kvs with
  | [] => OAbsent
  | [CNull] => OAbsent
  | [v] => OValue v
  | _ => OError
  end.

(* ------------------------------------------------------------------------------------------ *)
(** * COSE headers as coset 0.3.8 parses and re-emits them (header/mod.rs)

   Modelled: label kinds, duplicate labels, alg (1), kid (4), IV (5), partial IV (6), all other
   labels ("rest", which is where x5chain = 33 lives).  crit (2), content type (3) and counter
   signature (7) need coset's IANA tables / nested COSE_Signature parsing: a header that contains
   one of them is answered [HUnmodelled] (the harness never produces them). *)

Definition alg_assigned : list Z :=
  [-65535; -260; -259; -258; -257; -47; -46; -45; -44; -43; -42; -41; -40; -39; -38; -37; -36; -35;
   -34; -33; -32; -31; -30; -29; -28; -27; -26; -25; -18; -17; -16; -15; -14; -13; -12; -11; -10;
   -8; -7; -6; -5; -4; -3; 0; 1; 2; 3; 4; 5; 6; 7; 10; 11; 12; 13; 14; 15; 24; 25; 26; 30; 31; 32; 33; 34]%Z.

Definition two63 : N := 9223372036854775808.

(* Label::from_cbor_value: an integer that fits i64, or text *)
Definition label_ok (k : cbor) : bool :=
  match k with
  | CUInt n | CNInt n => n <? two63
  | CText _ => true
  | _ => false
  end.

Definition is_label (n : N) (k : cbor) : bool := cbor_eqb (CUInt n) k.

Definition alg_value_ok (v : cbor) : bool :=
  match v with
  | CText _ => true
  | CUInt n => (n <? two63) && existsb (Z.eqb (Z.of_N n)) alg_assigned
  | CNInt n => (n <? two63) &&
               (existsb (Z.eqb (- 1 - Z.of_N n)%Z) alg_assigned || (- 1 - Z.of_N n <? -65536)%Z)
  | _ => false
  end.

Definition nonempty_bytes (v : cbor) : bool := match v with CBytes (_ :: _) => true | _ => false end.

Definition entry_ok (kv : cbor * cbor) : bool :=
  let '(k, v) := kv in
  label_ok k &&
  (if is_label 1 k then alg_value_ok v
   else if is_label 4 k || is_label 5 k || is_label 6 k then nonempty_bytes v
   else true).

Definition unmodelled_label (kv : cbor * cbor) : bool :=
  is_label 2 (fst kv) || is_label 3 (fst kv) || is_label 7 (fst kv).

Fixpoint nodupb (l : list cbor) : bool :=
  match l with
  | [] => true
  | x :: r => negb (existsb (cbor_eqb x) r) && nodupb r
  end.

Definition core_label (k : cbor) : bool :=
  is_label 1 k || is_label 4 k || is_label 5 k || is_label 6 k.

Definition pick (n : N) (kvs : list (cbor * cbor)) := filter (fun kv => is_label n (fst kv)) kvs.

(* Header::to_cbor_value: alg, kid, iv, partial iv, then the other labels in the order received *)
Definition hdr_emit (kvs : list (cbor * cbor)) : list (cbor * cbor) :=
  pick 1 kvs ++ pick 4 kvs ++ pick 5 kvs ++ pick 6 kvs ++ filter (fun kv => negb (core_label (fst kv))) kvs.

Inductive hres := HOk (u : list (cbor * cbor)) | HReject | HUnmodelled.

Definition hdr_norm (kvs : list (cbor * cbor)) : hres :=
  if negb (forallb entry_ok kvs && nodupb (map fst kvs)) then HReject
  else if existsb (fun kv => is_label 5 (fst kv)) kvs && existsb (fun kv => is_label 6 (fst kv)) kvs then HReject
  else if existsb unmodelled_label kvs then HUnmodelled
  else HOk (hdr_emit kvs).

(* ProtectedHeader::from_cbor_bstr: empty = empty header; otherwise the bytes must be exactly one
   item (CborSerializable::from_slice rejects trailing data) that is an acceptable header map.
   The bytes themselves are kept (original_data). *)
Inductive pres3 := PAccept | PRefuse | PUnmodelled.
Definition protected_check (p : bytes) : pres3 :=
  match p with
  | [] => PAccept
  | _ =>
    match decode_all p with
    | Some (CMap kvs) =>
      match hdr_norm kvs with HOk _ => PAccept | HReject => PRefuse | HUnmodelled => PUnmodelled end
    | _ => PRefuse
    end
  end.

Inductive cres := COk (c : cose1) | CReject | CUnmodelled.

(* MaybeTagged<CoseSign1> deserialisation: Captured tag (absent or 18), then CoseSign1::from_cbor_value *)
Definition sign1_of_cbor (v : cbor) : cres :=
  match cose1_of_cbor tag_sign1 v with
  | None => CReject
  | Some c =>
    match hdr_norm (c_unprotected c), protected_check (c_protected c) with
    | HReject, _ | _, PRefuse => CReject
    | HUnmodelled, _ | _, PUnmodelled => CUnmodelled
    | HOk u, PAccept =>
      COk {| c_tagged := c_tagged c; c_protected := c_protected c; c_unprotected := u;
             c_payload := c_payload c; c_sig := c_sig c |}
    end
  end.

Definition sign1_opt (v : cbor) : option cose1 := match sign1_of_cbor v with COk c => Some c | _ => None end.
Definition sign1_to_cbor (c : cose1) : cbor := cose1_to_cbor tag_sign1 c.

(* the certificates an x5chain header value carries (x5chain.rs from_cbor: bstr or array of bstr) *)
Definition bytes_of_cbor (v : cbor) : option bytes := match v with CBytes b => Some b | _ => None end.
Definition x5_ders (v : cbor) : option (list bytes) :=
  match v with
  | CBytes d => Some [d]
  | CArray l => all_some bytes_of_cbor l
  | _ => None
  end.
Definition x5chain_value (c : cose1) : option cbor := map_get (CUInt 33) (c_unprotected c).
Definition x5chain_ders (c : cose1) : option (list bytes) := obind (x5chain_value c) x5_ders.

(* X5Chain::into_cbor (x5chain.rs 70-81): the kept DER, one certificate = bstr, several = array *)
Definition x5_into_cbor (ders : list bytes) : cbor :=
  match ders with [d] => CBytes d | _ => CArray (map CBytes ders) end.

(* ------------------------------------------------------------------------------------------ *)
(** * IssuerSigned, Mdoc, Document *)

(* an item is held as its embedded bytes; the typed view is read_item of them (cached in Rust) *)
Definition item_of_cbor (v : cbor) : option bytes :=
  obind (tag24_of_cbor v) (fun inner => match read_item inner with Some _ => Some inner | None => None end).

Definition nss := list (bytes * list bytes).          (* IssuerNamespaces *)

Definition nss_of_cbor : cbor -> option nss := nemap_of_cbor (nevec_of_cbor item_of_cbor).
Definition nss_to_cbor (m : nss) : cbor := map_to_cbor (fun items => CArray (map tag24 items)) m.

Record issuer_signed := { is_ns : option nss; is_auth : cose1 }.

Definition is_to_cbor (x : issuer_signed) : cbor :=
  CMap (match is_ns x with Some m => [(tx "nameSpaces", nss_to_cbor m)] | None => [] end
        ++ [(tx "issuerAuth", sign1_to_cbor (is_auth x))]).

Definition is_of_cbor (v : cbor) : option issuer_signed :=
  match v with
  | CMap kvs =>
    obind (req (tx "issuerAuth") kvs) (fun a => obind (sign1_opt a) (fun c =>
      match opt_field (tx "nameSpaces") kvs with
      | OAbsent => Some {| is_ns := None; is_auth := c |}
      | OValue n => obind (nss_of_cbor n) (fun m => Some {| is_ns := Some m; is_auth := c |})
      | OError => None
      end))
  | _ => None
  end.

Definition is_encode (x : issuer_signed) : bytes := encode (is_to_cbor x).
Definition is_decode (bs : bytes) : option issuer_signed := obind (decode_first bs) is_of_cbor.

(* issuance::Mdoc (mdoc.rs 26-33).  The typed `mso: Mso` copy is carried as an uninterpreted value:
   it is not issuer-signed bytes (the signed MSO is the issuerAuth payload) and its own round trip is C16's. *)
Record mdoc := { md_doc_type : bytes; md_mso : cbor; md_ns : nss; md_auth : cose1 }.

Definition mdoc_of_cbor (v : cbor) : option mdoc :=
  match v with
  | CMap kvs =>
    obind (req (tx "docType") kvs) (fun d => obind (text_of d) (fun dt =>
    obind (req (tx "mso") kvs) (fun m =>
    obind (req (tx "namespaces") kvs) (fun n => obind (nss_of_cbor n) (fun ns =>
    obind (req (tx "issuerAuth") kvs) (fun a => obind (sign1_opt a) (fun c =>
      Some {| md_doc_type := dt; md_mso := m; md_ns := ns; md_auth := c |})))))))
  | _ => None
  end.

Definition mdoc_decode (bs : bytes) : option mdoc := obind (decode_first bs) mdoc_of_cbor.

(* device::Document (device.rs 172-179) *)
Definition dns := list (bytes * list (bytes * bytes)).  (* namespace -> element identifier -> item bytes *)
Record document := { d_id : cbor; d_auth : cose1; d_mso : cbor; d_ns : dns }.

(* From<Mdoc> for Document (device.rs 973-1008): items re-keyed by their element identifier through
   a BTreeMap collect; of two items with the same identifier in one namespace the LATER one is
   kept and the earlier one is dropped silently                                           QUIRK *)
Definition rekey (items : list bytes) : list (bytes * bytes) :=
  fold_left (fun m inner => match read_item inner with
                            | Some it => bt_insert (it_id it) inner m
                            | None => m
                            end) items [].

Definition doc_of_mdoc (id : cbor) (md : mdoc) : document :=
  {| d_id := id; d_auth := md_auth md; d_mso := md_mso md;
     d_ns := map (fun kv => (fst kv, rekey (snd kv))) (md_ns md) |}.

Definition dns_to_cbor (m : dns) : cbor := map_to_cbor (map_to_cbor tag24) m.
Definition dns_of_cbor : cbor -> option dns := nemap_of_cbor (nemap_of_cbor item_of_cbor).

Definition doc_to_cbor (d : document) : cbor :=
  CMap [ (tx "id", d_id d); (tx "issuer_auth", sign1_to_cbor (d_auth d));
         (tx "mso", d_mso d); (tx "namespaces", dns_to_cbor (d_ns d)) ].

Definition doc_of_cbor (v : cbor) : option document :=
  match v with
  | CMap kvs =>
    obind (req (tx "id") kvs) (fun i =>
    obind (req (tx "issuer_auth") kvs) (fun a => obind (sign1_opt a) (fun c =>
    obind (req (tx "mso") kvs) (fun m =>
    obind (req (tx "namespaces") kvs) (fun n => obind (dns_of_cbor n) (fun ns =>
      Some {| d_id := i; d_auth := c; d_mso := m; d_ns := ns |}))))))
  | _ => None
  end.

(* Stringify (presentation/mod.rs 52-101): base64(standard, padded) of the CBOR encoding *)
Definition doc_stringify (d : document) : bytes := b64_encode (encode (doc_to_cbor d)).
Definition doc_parse (st : bytes) : option document :=
  obind (b64_decode st) (fun data => obind (decode_first data) doc_of_cbor).

(* ------------------------------------------------------------------------------------------ *)
(** * The response path: prepare_response clones the held items (device.rs 815-824) *)

Definition bt_push (ns : bytes) (x : bytes) (m : nss) : nss :=
  match bt_get ns m with
  | Some l => bt_insert ns (l ++ [x]) m
  | None => bt_insert ns [x] m
  end.

(* sel: the (namespace, element identifiers) that survived request / permission filtering *)
Definition select_items (d : document) (sel : list (bytes * list bytes)) : nss :=
  fold_left (fun acc e =>
    match bt_get (fst e) (d_ns d) with
    | None => acc
    | Some held =>
      fold_left (fun acc' id => match bt_get id held with Some x => bt_push (fst e) x acc' | None => acc' end)
                (snd e) acc
    end) sel [].

(* the issuerSigned part of the response document (namespaces: try_into().ok()) *)
Definition response_issuer_signed (d : document) (sel : list (bytes * list bytes)) : issuer_signed :=
  {| is_ns := match select_items d sel with [] => None | m => Some m end; is_auth := d_auth d |}.

(* ------------------------------------------------------------------------------------------ *)
(** * What the issuer signed and what verifiers recompute *)

(* the digest of an element is taken over the tag-24 item as transferred *)
Definition digest_input (inner : bytes) : bytes := tag24_encode inner.
(* the issuer's Sig_structure *)
Definition issuer_tbs (c : cose1) : option bytes :=
  match c_payload c with Some p => Some (tbs_structure ctx_sign1 (c_protected c) [] p) | None => None end.

(* the issuer-signed components of a COSE_Sign1 *)
Definition auth_components (c : cose1) : bytes * option bytes * bytes * option cbor :=
  (c_protected c, c_payload c, c_sig c, x5chain_value c).
