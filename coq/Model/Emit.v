(* C18: how isomdl ASSEMBLES the messages it emits, as small executable composers over CBOR values.
   Each composer mirrors one piece of Rust code (named at the definition); components that other
   models own (the issuer-signed part of a document, COSE keys, ciphertexts, signatures) are
   parameters.  Field names are the serde names (rename_all = "camelCase" plus explicit renames),
   order is declaration order, `skip_serializing_if = "Option::is_none"` omits.  Literals the code
   takes from constants or tables come from Gen (translator).  Executable definitions only. *)
From Isomdl Require Import Lib.Bytes Lib.Cbor Model.Cose Gen.SigAlgTable Gen.EmitLiterals.
Open Scope N_scope.
Local Open Scope string_scope.

(* ---------- serde struct -> ciborium map ---------- *)

Definition entries := list (cbor * option cbor).

Fixpoint build (es : entries) : list (cbor * cbor) :=
  match es with
  | [] => []
  | (k, Some v) :: r => (k, v) :: build r
  | (_, None) :: r => build r
  end.

Definition mk_map (es : entries) : cbor := CMap (build es).

(* Vec<T> -> NonEmptyVec::try_from(v).ok() -> Option, then skip_serializing_if *)
Definition opt_array (l : list cbor) : option cbor :=
  match l with [] => None | _ => Some (CArray l) end.
(* BTreeMap -> NonEmptyMap::try_from(m).ok() *)
Definition opt_map (l : list (cbor * cbor)) : option cbor :=
  match l with [] => None | _ => Some (CMap l) end.

Definition int_cbor (z : Z) : cbor :=
  if (0 <=? z)%Z then CUInt (Z.to_N z) else CNInt (Z.to_N (- 1 - z)).

Fixpoint assoc {A} (k : String.string) (l : list (String.string * A)) : option A :=
  match l with
  | [] => None
  | (k', v) :: r => if String.eqb k k' then Some v else assoc k r
  end.

Definition assoc_n (k : String.string) (l : list (String.string * N)) : N :=
  match assoc k l with Some n => n | None => 0 end.

(* ---------- CoseKey (definitions/device_key/cose_key.rs) ---------- *)

(* a curve as the Rust enums name it: key type "EC2" / "OKP", curve "P256", "Ed25519", ... *)
Record key_curve := { kc_kty : String.string; kc_crv : String.string }.

(* CoseKey::signature_algorithm: first arm that matches, `_ => None` *)
Fixpoint first_arm (kty crv : String.string) (arms : list (String.string * String.string * String.string)) : option String.string :=
  match arms with
  | [] => None
  | (k, c, a) :: r => if String.eqb k kty && String.eqb c crv then Some a else first_arm kty crv r
  end.

(* coset::iana::Algorithm as i64 (IANA COSE Algorithms registry) *)
Definition iana_alg (name : String.string) : option Z :=
  if String.eqb name "ES256" then Some (-7)%Z
  else if String.eqb name "ES384" then Some (-35)%Z
  else if String.eqb name "ES512" then Some (-36)%Z
  else if String.eqb name "EdDSA" then Some (-8)%Z
  else None.

Definition signature_algorithm (k : key_curve) : option Z :=
  match first_arm (kc_kty k) (kc_crv k) gen_sig_alg_arms with
  | Some a => iana_alg a
  | None => None
  end.

(* From<CoseKey> for ciborium::Value: kty 2 for EC2, 1 for OKP; crv through From<EC2Curve> / From<OKPCurve> *)
Definition curve_ids (k : key_curve) : option (N * Z) :=
  if String.eqb (kc_kty k) "EC2" then option_map (fun c => (2, c)) (assoc (kc_crv k) gen_ec2_curve_ids)
  else if String.eqb (kc_kty k) "OKP" then option_map (fun c => (1, c)) (assoc (kc_crv k) gen_okp_curve_ids)
  else None.

(* every curve the Rust enums have *)
Definition all_key_curves : list key_curve :=
  map (fun r => {| kc_kty := "EC2"; kc_crv := fst r |}) gen_ec2_curve_ids ++
  map (fun r => {| kc_kty := "OKP"; kc_crv := fst r |}) gen_okp_curve_ids.

Inductive ec2_y := YValue (y : bytes) | YSign (b : bool).

Definition compose_cose_key_ec2 (crv : Z) (x : bytes) (y : ec2_y) : cbor :=
  CMap [(CUInt 1, CUInt 2); (CNInt 0, int_cbor crv); (CNInt 1, CBytes x);
        (CNInt 2, match y with YValue b => CBytes b | YSign s => CBool s end)].
Definition compose_cose_key_okp (crv : Z) (x : bytes) : cbor :=
  CMap [(CUInt 1, CUInt 1); (CNInt 0, int_cbor crv); (CNInt 1, CBytes x)].

(* session::create_p256_ephemeral_keys: EC2, EC2Curve::try_from(1), affine coordinates *)
Definition compose_ephemeral_key (x y : bytes) : cbor := compose_cose_key_ec2 1 x (YValue y).

(* ---------- session messages (definitions/session.rs, presentation/{device,reader}.rs) ---------- *)

(* SessionData { data: Option<ByteStr>, status: Option<Status> }, both skipped when None *)
Definition compose_session_data (data : option bytes) (status : option N) : cbor :=
  mk_map [(ctext "data", option_map CBytes data); (ctext "status", option_map CUInt status)].

Definition session_status (name : String.string) : N := assoc_n name gen_session_data_status.

(* device.rs finalize_if_complete: encrypt_device_data(..).unwrap_or_else(|_| { status = Some(SessionEncryptionError); .. });
   data = if status.is_some() { None } else { Some(ciphertext) }.   [enc] = the encryption result *)
Definition finalize_session_data (enc : option bytes) : cbor :=
  let status := match enc with Some _ => None | None => Some (session_status "SessionEncryptionError") end in
  let data := match status with Some _ => None | None => enc end in
  compose_session_data data status.

(* reader.rs new_request: SessionData { data: Some(request), status: None } *)
Definition new_request_session_data (ciphertext : bytes) : cbor :=
  compose_session_data (Some ciphertext) None.

(* SessionEstablishment { e_reader_key: Tag24<CoseKey>, data } (camelCase), reader.rs establish_session *)
Definition compose_session_establishment (e_reader_key : cbor) (ciphertext : bytes) : cbor :=
  mk_map [(ctext "eReaderKey", Some (tag24 (encode e_reader_key))); (ctext "data", Some (CBytes ciphertext))].

(* ---------- DeviceRequest (definitions/device_request.rs, reader.rs build_request) ---------- *)

(* Namespaces = NonEmptyMap<String, NonEmptyMap<String, bool>>, BTreeMap order is the caller's concern *)
Definition req_namespaces := list (bytes * list (bytes * bool)).

Definition compose_data_elements (els : list (bytes * bool)) : cbor :=
  CMap (map (fun e => (CText (fst e), CBool (snd e))) els).
Definition compose_namespaces (nss : req_namespaces) : cbor :=
  CMap (map (fun n => (CText (fst n), compose_data_elements (snd n))) nss).

(* ItemsRequest { doc_type, namespaces (renamed "nameSpaces"), request_info: None } *)
Definition compose_items_request (doc_type : bytes) (nss : req_namespaces) : cbor :=
  mk_map [(ctext "docType", Some (CText doc_type)); (ctext "nameSpaces", Some (compose_namespaces nss));
          (ctext "requestInfo", None)].

(* DocRequest { items_request: Tag24::new(items_request), reader_auth: None };
   DeviceRequest { version: VERSION, doc_requests: NonEmptyVec::new(doc_request) } *)
Definition build_request (nss : req_namespaces) : cbor :=
  let doc_request := mk_map [(ctext "itemsRequest", Some (tag24 (encode (compose_items_request gen_request_doc_type nss))));
                             (ctext "readerAuth", None)] in
  mk_map [(ctext "version", Some (CText gen_device_request_version));
          (ctext "docRequests", Some (CArray [doc_request]))].

(* ---------- DeviceResponse (definitions/device_response.rs, device_signed.rs, device.rs) ---------- *)

(* coset HeaderBuilder::new().algorithm(alg).build() as the protected bucket: the encoding of {1: alg} *)
Definition protected_alg (alg : Z) : bytes := encode (CMap [(CUInt 1, int_cbor alg)]).

(* PreparedCoseSign1::new(builder.protected(header), Some(detached), None, tagged = false) then
   finalize(signature): no unprotected entries, payload absent (nil), untagged *)
Definition compose_device_signature (alg : Z) (sg : bytes) : cbor :=
  cose1_to_cbor tag_sign1
    {| c_tagged := false; c_protected := protected_alg alg; c_unprotected := []; c_payload := None; c_sig := sg |}.

(* Tag24::new(DeviceNamespaces::default()): the empty map *)
Definition empty_device_namespaces : cbor := tag24 (encode (CMap [])).

(* DeviceAuth::DeviceSignature(..): externally tagged enum, camelCase -> {"deviceSignature": ..};
   DeviceSigned { namespaces ("nameSpaces"), device_auth } *)
Definition compose_device_auth_signature (alg : Z) (sg : bytes) : cbor :=
  CMap [(ctext "deviceSignature", compose_device_signature alg sg)].
Definition compose_device_signed (alg : Z) (sg : bytes) : cbor :=
  mk_map [(ctext "nameSpaces", Some empty_device_namespaces);
          (ctext "deviceAuth", Some (compose_device_auth_signature alg sg))].

(* Errors = NonEmptyMap<ns, NonEmptyMap<id, DocumentErrorCode>> as i128 *)
Definition element_errors := list (bytes * list (bytes * Z)).
Definition compose_errors (errs : element_errors) : option cbor :=
  opt_map (map (fun n => (CText (fst n), CMap (map (fun e => (CText (fst e), int_cbor (snd e))) (snd n)))) errs).

(* a prepared document whose signature arrived: PreparedDocument::finalize.  [d_issuer_signed] is the
   IssuerSigned value the device selected (owned by the issuance / selection models); [d_key] the
   curve of the MSO's device key, whose signature_algorithm() went into the protected header. *)
Record signed_doc := {
  d_doc_type : bytes;
  d_issuer_signed : cbor;
  d_key : key_curve;
  d_signature : bytes;
  d_errors : element_errors
}.

(* None: signature_algorithm() is None, prepare_response records a DocumentError instead *)
Definition compose_document (d : signed_doc) : option cbor :=
  match signature_algorithm (d_key d) with
  | Some alg =>
    Some (mk_map [(ctext "docType", Some (CText (d_doc_type d)));
                  (ctext "issuerSigned", Some (d_issuer_signed d));
                  (ctext "deviceSigned", Some (compose_device_signed alg (d_signature d)));
                  (ctext "errors", compose_errors (d_errors d))])
  | None => None
  end.

(* DocumentError = BTreeMap with the one entry prepare_response puts: {docType: DataNotReturned (0)} *)
Definition compose_document_error (doc_type : bytes) : cbor := CMap [(CText doc_type, int_cbor 0)].

Definition response_status (name : String.string) : N := assoc_n name gen_device_response_status.

(* PreparedDeviceResponse::finalize_response (complete): version, documents = signed_documents.try_into().ok(),
   document_errors, status *)
Definition finalize_response (documents document_errors : list cbor) (status : N) : cbor :=
  mk_map [(ctext "version", Some (CText gen_device_response_version));
          (ctext "documents", opt_array documents);
          (ctext "documentErrors", opt_array document_errors);
          (ctext "status", Some (CUInt status))].

(* prepare_response: status OK with whatever was signed / refused *)
Definition ok_response (documents : list cbor) (error_doc_types : list bytes) : cbor :=
  finalize_response documents (map compose_document_error error_doc_types) (response_status "OK").
(* PreparedDeviceResponse::empty(status).finalize_response(): parse_request failures (11, 12) and
   the incomplete-finalisation fallback (10) *)
Definition error_response (status_name : String.string) : cbor :=
  finalize_response [] [] (response_status status_name).

(* ---------- DeviceEngagement (definitions/device_engagement.rs, device.rs initialise) ---------- *)

Record ble_opts := {
  ble_central_uuid : option bytes;                        (* CentralClientMode { uuid } *)
  ble_peripheral : option (bytes * option bytes)          (* PeripheralServerMode { uuid, ble_device_address } *)
}.

(* From<BleOptions> for ciborium::Value: central client entries (1, 11) first, then peripheral (0, 10, 20) *)
Definition compose_ble (o : ble_opts) : cbor :=
  CMap (match ble_central_uuid o with
        | Some u => [(CUInt 1, CBool true); (CUInt 11, CBytes u)]
        | None => [(CUInt 1, CBool false)]
        end ++
        match ble_peripheral o with
        | Some (u, addr) => [(CUInt 0, CBool true); (CUInt 10, CBytes u)] ++
                            match addr with Some a => [(CUInt 20, CBytes a)] | None => [] end
        | None => [(CUInt 0, CBool false)]
        end).

Record wifi_opts := {
  wifi_pass_phrase : option bytes;
  wifi_operating_class : option N;
  wifi_channel_number : option N;
  wifi_band_info : option bytes
}.
Definition compose_wifi (o : wifi_opts) : cbor :=
  mk_map [(CUInt 0, option_map CText (wifi_pass_phrase o)); (CUInt 1, option_map CUInt (wifi_operating_class o));
          (CUInt 2, option_map CUInt (wifi_channel_number o)); (CUInt 3, option_map CBytes (wifi_band_info o))].

Record nfc_opts := { nfc_max_command : N; nfc_max_response : N }.
Definition compose_nfc (o : nfc_opts) : cbor :=
  CMap [(CUInt 0, CUInt (nfc_max_command o)); (CUInt 1, CUInt (nfc_max_response o))].
(* what the Rust types guarantee: CommandDataLength in 255..=65535, ResponseDataLength in 256..=65536
   (both bounds are checked by every constructor, incl. TryFrom<ciborium::Value> / Deserialize) *)
Definition nfc_rust_domain (o : nfc_opts) : bool :=
  (255 <=? nfc_max_command o) && (nfc_max_command o <? 65536) &&
  (256 <=? nfc_max_response o) && (nfc_max_response o <=? 65536).

Inductive retrieval_method := DrmWifi (o : wifi_opts) | DrmBle (o : ble_opts) | DrmNfc (o : nfc_opts).

Definition transport_type (m : retrieval_method) : N :=
  assoc_n (match m with DrmNfc _ => "NFC" | DrmBle _ => "BLE" | DrmWifi _ => "WIFI" end) gen_transport_type.

(* From<DeviceRetrievalMethod>: [transport_type, version() = 1, options] *)
Definition compose_retrieval_method (m : retrieval_method) : cbor :=
  CArray [CUInt (transport_type m); CUInt 1;
          match m with DrmWifi o => compose_wifi o | DrmBle o => compose_ble o | DrmNfc o => compose_nfc o end].

(* WebApi / Oidc = (u64, String, String) *)
Definition server_method_t := (N * bytes * bytes)%type.
Definition compose_server_method (m : server_method_t) : cbor :=
  let '(v, a, b) := m in CArray [CUInt v; CText a; CText b].
Definition compose_server_methods (web_api oidc : option server_method_t) : cbor :=
  mk_map [(ctext "webApi", option_map compose_server_method web_api);
          (ctext "oidc", option_map compose_server_method oidc)].

(* SessionManagerInit::initialise + From<DeviceEngagement>: {0: version, 1: [suite, Tag24(key)],
   2: methods (when Some; NonEmptyVec), 3: server methods (when Some)}; protocol_info is never written *)
Definition compose_engagement (e_device_key : cbor) (methods : option (list retrieval_method))
           (server : option (option server_method_t * option server_method_t)) : cbor :=
  mk_map [(CUInt 0, Some (CText gen_engagement_version));
          (CUInt 1, Some (CArray [CUInt gen_engagement_cipher_suite; tag24 (encode e_device_key)]));
          (CUInt 2, option_map (fun ms => CArray (map compose_retrieval_method ms)) methods);
          (CUInt 3, option_map (fun s => compose_server_methods (fst s) (snd s)) server);
          (CUInt 4, None)].   (* protocol_info: None, and From<DeviceEngagement> drops it anyway *)
