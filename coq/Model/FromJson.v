(* C19: executable model of  FromJson::from_json  followed by  ToNamespaceMap::to_ns_map  for the
   two mDL namespaces (src/definitions/namespaces/**, src/definitions/traits/{from_json,to_cbor}.rs,
   macros/src/{from_json,to_cbor}.rs).  Definitions only.

   - the JSON value is serde_json::Value (built with `arbitrary_precision`: a number either is a
     u64 literal or it is not; the leaf parsers distinguish nothing else);
   - the derive macros are ONE generic interpreter over the field descriptors that the translator
     copies from the source (Gen/Fields.v); code tables come from Gen/Tables.v, literals from
     Gen/Constants.v;
   - leaf types are hand-written, including what the `time` 0.3 and `base64` 0.13 crates do for
     the calls isomdl makes (those crates are oracles: the correspondence run checks these parts);
   - every Rust site that can panic is an explicit Panic outcome. *)
From Isomdl Require Import Lib.Bytes Lib.Utf8 Lib.Cbor Lib.GenTypes Lib.Civil.
From Isomdl Require Import Gen.Constants Gen.Tables Gen.Fields.
Open Scope N_scope.

(* ---------- JSON ---------- *)

Inductive json :=
| JNull
| JBool (x : bool)
| JNumU (n : N)            (* Number::as_u64() = Some n *)
| JNumOther                (* any other number: negative, fractional, exponent, above u64 *)
| JStr (s : bytes)         (* UTF-8 bytes of the string *)
| JArr (l : list json)
| JObj (kvs : list (bytes * json)).   (* serde_json::Map: keys are unique *)

(* FromJsonError, without the message texts *)
Inductive jerr :=
| EMissing
| EUnexpectedType
| EExpectedPositiveInteger
| EIntegerTooLarge
| EParsing
| EMultiple (l : list jerr)
| EWithContext (field : bytes) (e : jerr)
| EModel.      (* generated data inconsistent or a type the model does not know: proved absent *)

Inductive res (A : Type) :=
| Ok (a : A)
| Err (e : jerr)
| Panic (site : N).
Arguments Ok {A} a.
Arguments Err {A} e.
Arguments Panic {A} site.

Definition rmap {A B} (f : A -> B) (r : res A) : res B :=
  match r with Ok a => Ok (f a) | Err e => Err e | Panic s => Panic s end.

Definition rbind {A B} (r : res A) (f : A -> res B) : res B :=
  match r with Ok a => f a | Err e => Err e | Panic s => Panic s end.

(* panic sites.  The conversions modelled here have one left: tdate.rs
   `.replace_millisecond(0).unwrap()`, which cannot fail (0 is a valid millisecond); the former two
   (to_offset, format(..).unwrap()) were removed by 03d9d06.  Panic stays in the result type so that
   C19_no_panic is a statement about the model and the harness can report a panic of the code. *)

Fixpoint jget (k : bytes) (kvs : list (bytes * json)) : option json :=
  match kvs with
  | [] => None
  | (k', v) :: r => if bytes_eqb k k' then Some v else jget k r
  end.

Definition is_null (j : json) : bool := match j with JNull => true | _ => false end.

(* Iterator::collect::<Result<Vec<_>, _>>: stops at the first failure *)
Fixpoint collect_res {A B} (f : A -> res B) (l : list A) : res (list B) :=
  match l with
  | [] => Ok []
  | x :: r => match f x with
              | Ok y => match collect_res f r with
                        | Ok ys => Ok (y :: ys)
                        | Err e => Err e
                        | Panic s => Panic s
                        end
              | Err e => Err e
              | Panic s => Panic s
              end
  end.

(* ---------- primitive leaves ---------- *)

Definition string_leaf (j : json) : res bytes :=
  match j with JStr s => Ok s | _ => Err EUnexpectedType end.

Definition two32 : N := 4294967296.

Definition u32_leaf (j : json) : res N :=
  match j with
  | JNumU n => if n <? two32 then Ok n else Err EIntegerTooLarge
  | JNumOther => Err EExpectedPositiveInteger
  | _ => Err EUnexpectedType
  end.

Definition bool_leaf (j : json) : res bool :=
  match j with JBool x => Ok x | _ => Err EUnexpectedType end.

(* ---------- case normalisation ---------- *)

Definition ascii_lower (c : N) : N := if (65 <=? c) && (c <=? 90) then c + 32 else c.
Definition ascii_upper (c : N) : N := if (97 <=? c) && (c <=? 122) then c - 32 else c.

(* str::to_lowercase, exact as far as equality with an all-ASCII literal goes: ASCII letters fold;
   U+212A KELVIN SIGN (E2 84 AA) is the only non-ASCII scalar whose lowercase is all ASCII;
   every other non-ASCII scalar lowercases to something containing a non-ASCII scalar, and is
   left unchanged here (so it keeps the string from matching, as in Rust). *)
Fixpoint to_lower_m (s : bytes) : bytes :=
  match s with
  | [] => []
  | c :: r =>
    match r with
    | c2 :: c3 :: r' =>
      if (c =? 226) && (c2 =? 132) && (c3 =? 170) then 107 :: to_lower_m r'
      else ascii_lower c :: to_lower_m r
    | _ => ascii_lower c :: to_lower_m r
    end
  end.

(* str::to_uppercase, in the same sense.  Non-ASCII scalars with an all-ASCII uppercase:
   U+00DF -> SS, U+0131 -> I, U+017F -> S, U+FB00..FB06 -> FF FI FL FFI FFL ST ST. *)
Definition fb_upper (c : N) : option bytes :=
  if c =? 128 then Some [70; 70] else if c =? 129 then Some [70; 73] else if c =? 130 then Some [70; 76]
  else if c =? 131 then Some [70; 70; 73] else if c =? 132 then Some [70; 70; 76]
  else if (c =? 133) || (c =? 134) then Some [83; 84] else None.

Fixpoint to_upper_m (s : bytes) : bytes :=
  match s with
  | [] => []
  | c :: r =>
    match r with
    | [] => [ascii_upper c]
    | c2 :: r2 =>
      if (c =? 195) && (c2 =? 159) then 83 :: 83 :: to_upper_m r2
      else if (c =? 196) && (c2 =? 177) then 73 :: to_upper_m r2
      else if (c =? 197) && (c2 =? 191) then 83 :: to_upper_m r2
      else match r2 with
           | c3 :: r3 =>
             if (c =? 239) && (c2 =? 172) then
               match fb_upper c3 with
               | Some u => u ++ to_upper_m r3
               | None => ascii_upper c :: to_upper_m r
               end
             else ascii_upper c :: to_upper_m r
           | [] => ascii_upper c :: to_upper_m r
           end
    end
  end.

Definition normalise (k : norm_kind) (s : bytes) : bytes :=
  match k with NormNone => s | NormLower => to_lower_m s | NormUpper => to_upper_m s end.

(* ---------- code tables (rows from Gen/Tables.v) ---------- *)

Fixpoint assoc_b {A} (k : bytes) (l : list (bytes * A)) : option A :=
  match l with
  | [] => None
  | (k', v) :: r => if bytes_eqb k k' then Some v else assoc_b k r
  end.

Fixpoint assoc_n {A} (k : N) (l : list (N * A)) : option A :=
  match l with
  | [] => None
  | (k', v) :: r => if k =? k' then Some v else assoc_n k r
  end.

(* the from-match (first arm that matches) followed by the to-function of the variant found *)
Definition str_table_code (t : str_table) (s : bytes) : res bytes :=
  match assoc_b (normalise (st_norm t) s) (st_from t) with
  | Some variant => match assoc_b variant (st_to t) with
                    | Some code => Ok code
                    | None => Err EModel
                    end
  | None => if st_passthrough t then Ok s else Err EParsing
  end.

Definition int_table_code (t : int_table) (n : N) : res N :=
  match assoc_n n (it_from t) with
  | Some variant => match assoc_b variant (it_to t) with
                    | Some code => Ok code
                    | None => Err EModel
                    end
  | None => Err EParsing
  end.

Definition str_enum_leaf (t : str_table) (j : json) : res cbor :=
  rbind (string_leaf j) (fun s => rmap CText (str_table_code t s)).

Definition int_enum_leaf (t : int_table) (j : json) : res cbor :=
  rbind (u32_leaf j) (fun n => rmap CUInt (int_table_code t n)).

(* ---------- Latin1 (latin1.rs) ---------- *)

(* all scalars in U+0020..U+007E or U+00A0..U+00FF.  The input is a Rust String, hence valid UTF-8:
   a lead byte C2 / C3 is followed by a continuation byte (checked here too, so that the function
   is meaningful on every byte list) *)
Fixpoint latin1_chars_ok (s : bytes) : bool :=
  match s with
  | [] => true
  | c :: r =>
    if c <? 128 then (32 <=? c) && (c <? 127) && latin1_chars_ok r
    else match r with
         | c2 :: r' => (((c =? 194) && (160 <=? c2)) || ((c =? 195) && (128 <=? c2))) && (c2 <=? 191)
                       && latin1_chars_ok r'
         | [] => false
         end
  end.

(* s.chars().count(): the scalars of a UTF-8 string are its non-continuation bytes *)
Definition latin1_leaf (j : json) : res cbor :=
  rbind (string_leaf j) (fun s =>
    if latin1_max_len <? utf8_chars s then Err EParsing
    else if latin1_chars_ok s then Ok (CText s) else Err EParsing).

(* ---------- decimal digits ---------- *)

Definition digit_z (c : N) : option Z :=
  if (48 <=? c) && (c <=? 57) then Some (Z.of_N (c - 48)) else None.

Definition digits2 (a c : N) : option Z :=
  match digit_z a, digit_z c with
  | Some x, Some y => Some (10 * x + y)%Z
  | _, _ => None
  end.

Definition digits4 (a c d e : N) : option Z :=
  match digits2 a c, digits2 d e with
  | Some x, Some y => Some (100 * x + y)%Z
  | _, _ => None
  end.

(* decimal rendering of a natural number below 10^k on at least one digit *)
Fixpoint dec_fuel (k : nat) (n : N) : bytes :=
  match k with
  | O => []
  | S k' => if n <? 10 then [48 + n] else dec_fuel k' (n / 10) ++ [48 + n mod 10]
  end.
Definition dec_n (n : N) : bytes := dec_fuel 40 n.
(* Rust Display for i32 *)
Definition dec_z (z : Z) : bytes :=
  if (z <? 0)%Z then 45 :: dec_n (Z.to_N (- z)) else dec_n (Z.to_N z).
(* {:0>2} / [..] zero padded to 2 (values below 100) and 4 digits (values below 10000) *)
Definition pad2 (z : Z) : bytes := let n := Z.to_N z in [48 + n / 10; 48 + n mod 10].
Definition pad4 (z : Z) : bytes :=
  let n := Z.to_N z in [48 + n / 1000; 48 + (n / 100) mod 10; 48 + (n / 10) mod 10; 48 + n mod 10].

(* ---------- FullDate (fulldate.rs; time::Date::parse with "[year]-[month]-[day]") ---------- *)

(* time::Date::parse(s, "[year]-[month]-[day]").  [year]: optional sign, then exactly four digits
   (large-dates is off); [month], [day]: exactly two digits; Date::from_calendar_date checks the
   calendar; nothing may follow *)
Definition time_date_parse (s : bytes) : option (Z * Z * Z) :=
  let '(neg, r) := match s with
                   | c :: r => if c =? 43 then (false, r) else if c =? 45 then (true, r) else (false, s)
                   | [] => (false, s)
                   end in
  match r with
  | [y1; y2; y3; y4; c1; m1; m2; c2; d1; d2] =>
    if (c1 =? 45) && (c2 =? 45) then
      match digits4 y1 y2 y3 y4, digits2 m1 m2, digits2 d1 d2 with
      | Some y, Some m, Some d =>
        let y := if neg then (- y)%Z else y in
        if valid_date y m d then Some (y, m, d) else None
      | _, _, _ => None
      end
    else None
  | _ => None
  end.

Definition is_digit (c : N) : bool := (48 <=? c) && (c <=? 57).

(* FullDate::from_str: the first byte must be an ASCII digit (so no sign reaches time), then
   Date::parse *)
Definition fulldate_parse (s : bytes) : option (Z * Z * Z) :=
  match s with
  | c :: _ => if is_digit c then time_date_parse s else None
  | [] => None
  end.

(* {:04} of an i32: zero padded to four characters (a sign counts), never truncated *)
Definition fmt04 (y : Z) : bytes :=
  if ((0 <=? y) && (y <? 10000))%Z then pad4 y
  else if (y <? 0)%Z then
    (if (-1000 <? y)%Z then 45 :: (let n := Z.to_N (- y) in [48 + n / 100; 48 + (n / 10) mod 10; 48 + n mod 10])
     else dec_z y)
  else dec_z y.

(* write!(f, "{:04}-{:0>2}-{:0>2}", year, month, day) *)
Definition fulldate_render (y m d : Z) : bytes := fmt04 y ++ [45] ++ pad2 m ++ [45] ++ pad2 d.

Definition fulldate_leaf (j : json) : res cbor :=
  rbind (string_leaf j) (fun s =>
    match fulldate_parse s with
    | Some (y, m, d) => Ok (CTag fulldate_tag (CText (fulldate_render y m d)))
    | None => Err EParsing
    end).

(* ---------- TDate (tdate.rs; time::OffsetDateTime::parse(.., &Rfc3339)) ---------- *)

Fixpoint skip_digits (s : bytes) : bytes :=
  match s with
  | c :: r => if is_digit c then skip_digits r else s
  | [] => []
  end.

(* offset: "Z" / "z" / sign hh ":" mm with hh <= 23 and mm <= 59; result in seconds *)
Definition tdate_offset (s : bytes) : option Z :=
  match s with
  | [z] => if (z =? 90) || (z =? 122) then Some 0%Z else None
  | [sg; h1; h2; c; m1; m2] =>
    if ((sg =? 43) || (sg =? 45)) && (c =? 58) then
      match digits2 h1 h2, digits2 m1 m2 with
      | Some h, Some m =>
        if ((h <=? 23) && (m <=? 59))%Z then
          let o := (h * 3600 + m * 60)%Z in Some (if sg =? 45 then (- o)%Z else o)
        else None
      | _, _ => None
      end
    else None
  | _ => None
  end.

(* optional fraction: '.' and at least one digit *)
Definition tdate_skip_fraction (rest : bytes) : option bytes :=
  match rest with
  | c :: r =>
    if c =? 46 then
      match r with
      | d :: r' => if is_digit d then Some (skip_digits r') else None
      | [] => None
      end
    else Some rest
  | [] => Some rest
  end.

(* lexical structure of an RFC 3339 date-time: year month day hour minute second offset-seconds
   and the separator byte, unvalidated (second may be 60; any single byte may separate date and
   time, as time's parser allows) *)
Definition tdate_fields (s : bytes) : option (Z * Z * Z * Z * Z * Z * Z * N) :=
  match s with
  | y1 :: y2 :: y3 :: y4 :: c1 :: m1 :: m2 :: c2 :: d1 :: d2 :: sep :: h1 :: h2 :: c3 :: i1 :: i2 :: c4 :: s1 :: s2 :: rest =>
    if (c1 =? 45) && (c2 =? 45) && (c3 =? 58) && (c4 =? 58) then
      match digits4 y1 y2 y3 y4, digits2 m1 m2, digits2 d1 d2, digits2 h1 h2, digits2 i1 i2, digits2 s1 s2,
            tdate_skip_fraction rest with
      | Some y, Some mo, Some d, Some h, Some mi, Some sec, Some r =>
        match tdate_offset r with
        | Some off => Some (y, mo, d, h, mi, sec, off, sep)
        | None => None
        end
      | _, _, _, _, _, _, _ => None
      end
    else None
  | _ => None
  end.

Definition tdate_render (y mo d h mi sec : Z) : bytes :=
  pad4 y ++ [45] ++ pad2 mo ++ [45] ++ pad2 d ++ [84] ++ pad2 h ++ [58] ++ pad2 mi ++ [58] ++ pad2 sec ++ [90].

(* OffsetDateTime::parse(&s, &Rfc3339) followed by checked_to_offset(UTC), replace_millisecond(0),
   format(&Rfc3339): parse, validate, convert to UTC, drop the sub-second part, print.  A UTC
   year above 9999 makes checked_to_offset return None, one below 0 makes format fail: both are
   mapped to a parsing error. *)
Definition time_convert (s : bytes) : res bytes :=
  match tdate_fields s with
  | None => Err EParsing
  | Some (y, mo, d, h, mi, sec, off, _) =>
    let leap := (sec =? 60)%Z in
    let sec' := if leap then 59%Z else sec in
    if negb (valid_date y mo d && (h <=? 23) && (mi <=? 59) && (sec' <=? 59))%Z then Err EParsing else
    let total := epoch_seconds y mo d h mi sec' off in
    let days := (total / 86400)%Z in
    let sod := (total mod 86400)%Z in
    let '(uy, um, ud) := civil_from_days days in
    (* a leap second must be 23:59:59 UTC on the last day of a month (and the UTC date must exist) *)
    if leap && negb ((sod =? 86399) && (ud =? days_in_month uy um) && (uy <=? 9999))%Z then Err EParsing
    else if (9999 <? uy)%Z then Err EParsing      (* checked_to_offset -> None *)
    else if (uy <? 0)%Z then Err EParsing         (* format(&Rfc3339) -> Err *)
    else Ok (tdate_render uy um ud (sod / 3600)%Z ((sod mod 3600) / 60)%Z (sod mod 60)%Z)
  end.

(* TDate::from_json, the two byte-position checks made before time sees the string:
   bytes.get(10) must be 'T', 't' or ' ' (a shorter string fails here), and bytes.get(17..19) must
   not be "60" (None for a string shorter than 19 bytes: the check passes, time then rejects) *)
Definition tdate_convert (s : bytes) : res bytes :=
  match nth_error s 10 with
  | Some sep =>
    if (sep =? 84) || (sep =? 116) || (sep =? 32) then
      match nth_error s 17, nth_error s 18 with
      | Some a, Some c => if (a =? 54) && (c =? 48) then Err EParsing else time_convert s
      | _, _ => time_convert s
      end
    else Err EParsing
  | None => Err EParsing
  end.

Definition tdate_leaf (j : json) : res cbor :=
  rbind (string_leaf j) (fun s => rmap (fun t => CTag tdate_tag (CText t)) (tdate_convert s)).

(* TDateOrFullDate::from_json: TDate first (a panic there propagates), then FullDate *)
Definition tdate_or_fulldate_leaf (j : json) : res cbor :=
  match tdate_leaf j with
  | Ok v => Ok v
  | Panic s => Panic s
  | Err _ => match fulldate_leaf j with
             | Ok v => Ok v
             | Panic s => Panic s
             | Err _ => Err EParsing
             end
  end.

(* ---------- ByteStr: base64::decode (0.13, STANDARD) ---------- *)

Definition b64_val (c : N) : option N :=
  if (65 <=? c) && (c <=? 90) then Some (c - 65)
  else if (97 <=? c) && (c <=? 122) then Some (c - 71)
  else if (48 <=? c) && (c <=? 57) then Some (c + 4)
  else if c =? 43 then Some 62
  else if c =? 47 then Some 63
  else None.

(* symbols before the first '=', and what follows *)
Fixpoint b64_syms (s : bytes) : option (list N * bytes) :=
  match s with
  | [] => Some ([], [])
  | c :: r =>
    if c =? 61 then Some ([], s)
    else match b64_val c with
         | None => None
         | Some v => match b64_syms r with
                     | Some (vs, p) => Some (v :: vs, p)
                     | None => None
                     end
         end
  end.

(* trailing bits of the last symbol must be zero (decode_allow_trailing_bits = false) *)
Fixpoint b64_groups (l : list N) : option bytes :=
  match l with
  | [] => Some []
  | [_] => None
  | [a; c] => if c mod 16 =? 0 then Some [a * 4 + c / 16] else None
  | [a; c; d] => if d mod 4 =? 0 then Some [a * 4 + c / 16; (c mod 16) * 16 + d / 4] else None
  | a :: c :: d :: e :: r =>
    match b64_groups r with
    | Some o => Some (a * 4 + c / 16 :: (c mod 16) * 16 + d / 4 :: (d mod 4) * 64 + e :: o)
    | None => None
    end
  end.

(* padding is optional, but a '=' may only stand at a position that is 2 or 3 mod 4 and only
   '=' may follow it *)
Definition b64_decode (s : bytes) : option bytes :=
  match b64_syms s with
  | None => None
  | Some (syms, pads) =>
    let n := (blen syms) mod 4 in
    let p := blen pads in
    if forallb (fun c => c =? 61) pads &&
       (((n =? 0) && (p =? 0)) || ((n =? 2) && (p <=? 2)) || ((n =? 3) && (p <=? 1)))
    then b64_groups syms else None
  end.

(* ---------- namespaces, generated data ---------- *)

Inductive ns := Mdl | Aamva.

Definition str_tables (n : ns) := match n with Mdl => str_tables_mdl | Aamva => str_tables_aamva end.
Definition int_tables (n : ns) := match n with Mdl => int_tables_mdl | Aamva => int_tables_aamva end.
Definition structs (n : ns) := match n with Mdl => structs_mdl | Aamva => structs_aamva end.

(* value of one struct field after from_json *)
Inductive fval :=
| FVal (v : cbor)                       (* plain field, or Some(..) of an Option field *)
| FNone                                 (* None of an Option field *)
| FMany (l : list (bytes * cbor)).      (* #[isomdl(many)]: its own to_ns_map() *)

(* BTreeMap<String, Value>::insert on a list sorted by key (byte-lexicographic = String::cmp) *)
Fixpoint bt_insert (k : bytes) (v : cbor) (m : list (bytes * cbor)) : list (bytes * cbor) :=
  match m with
  | [] => [(k, v)]
  | (k', v') :: r =>
    if bytes_ltb k k' then (k, v) :: m
    else if bytes_eqb k k' then (k, v) :: r
    else (k', v') :: bt_insert k v r
  end.

Definition bt_extend (l m : list (bytes * cbor)) : list (bytes * cbor) :=
  fold_left (fun m kv => bt_insert (fst kv) (snd kv) m) l m.

Definition is_option (t : rty) : bool := match t with TOption _ => true | _ => false end.

(* macros/src/to_cbor.rs named_fields: many => extend; Option => insert when Some; else insert *)
Definition to_ns_map (vals : list (field_desc * fval)) : list (bytes * cbor) :=
  fold_left (fun m fv =>
    let '(f, v) := fv in
    if fd_many f then match v with FMany l => bt_extend l m | _ => m end
    else match v with
         | FVal c => bt_insert (fd_wire f) c m
         | _ => m
         end) vals [].

Inductive fres :=
| FR (vals : list (field_desc * fval)) (errs : list jerr)
| FPanic (site : N).

Section WithBase64.
  (* base64::decode; the theorems keep it abstract, the runner uses b64_decode *)
  Variable b64 : bytes -> option bytes.

  Definition bytestr_leaf (j : json) : res cbor :=
    rbind (string_leaf j) (fun s =>
      match b64 s with Some x => Ok (CBytes x) | None => Err EParsing end).

  (* ---------- AAMVA leaves ---------- *)

  (* CountyCode: exactly three ASCII digits *)
  Definition county_leaf (j : json) : res cbor :=
    rbind (string_leaf j) (fun s =>
      match s with
      | [a; c; d] => if is_digit a && is_digit c && is_digit d then Ok (CText s) else Err EParsing
      | _ => Err EParsing
      end).

  (* Present: the number 1 *)
  Definition present_leaf (j : json) : res cbor :=
    rbind (u32_leaf j) (fun n => if n =? 1 then Ok (CUInt 1) else Err EParsing).

  (* ---------- namespaces, generated data ---------- *)

  (* leaf types that are neither a generated table nor a derived struct *)
  Definition prim (name : bytes) : option (json -> res cbor) :=
    if bytes_eqb name (b "String") then Some (fun j => rmap CText (string_leaf j))
    else if bytes_eqb name (b "u32") then Some (fun j => rmap CUInt (u32_leaf j))
    else if bytes_eqb name (b "Latin1") then Some latin1_leaf
    else if bytes_eqb name (b "FullDate") then Some fulldate_leaf
    else if bytes_eqb name (b "TDate") then Some tdate_leaf
    else if bytes_eqb name (b "TDateOrFullDate") then Some tdate_or_fulldate_leaf
    else if bytes_eqb name (b "ByteStr") then Some bytestr_leaf
    else if bytes_eqb name (b "CountyCode") then Some county_leaf
    else if bytes_eqb name (b "Present") then Some present_leaf
    else None.

  (* ---------- the derive macros ---------- *)

  Section Struct.
    (* <T as FromJson>::from_json followed by to_cbor, T not an Option *)
    Variable leaf : rty -> json -> res cbor.
    (* <T as FromJsonMap>::from_map for #[isomdl(many)] / #[isomdl(dynamic_parse)] fields *)
    Variable map_leaf : rty -> list (bytes * json) -> res fval.

    (* macros/src/from_json.rs named_fields, one field; Option<T>::from_json_opt: absent or
       null => None *)
    Definition field_from_json (f : field_desc) (kvs : list (bytes * json)) : res fval :=
      if fd_many f || fd_dyn f then map_leaf (fd_ty f) kvs
      else match fd_ty f with
           | TOption t =>
             match jget (fd_wire f) kvs with
             | None | Some JNull => Ok FNone
             | Some v => rmap FVal (leaf t v)
             end
           | t =>
             match jget (fd_wire f) kvs with
             | None => Err EMissing
             | Some v => rmap FVal (leaf t v)
             end
           end.

    (* fields are evaluated in declaration order; errors are collected, a panic ends everything *)
    Fixpoint run_fields (fds : list field_desc) (kvs : list (bytes * json)) : fres :=
      match fds with
      | [] => FR [] []
      | f :: r =>
        match field_from_json f kvs with
        | Panic s => FPanic s
        | Ok v => match run_fields r kvs with
                  | FR vs es => FR ((f, v) :: vs) es
                  | FPanic s => FPanic s
                  end
        | Err e => match run_fields r kvs with
                   | FR vs es => FR vs (EWithContext (fd_wire f) e :: es)
                   | FPanic s => FPanic s
                   end
        end
      end.

    Definition struct_from_json (fds : list field_desc) (j : json) : res (list (field_desc * fval)) :=
      match j with
      | JObj kvs =>
        match run_fields fds kvs with
        | FPanic s => Panic s
        | FR vs [] => Ok vs
        | FR _ [e] => Err e
        | FR _ es => Err (EMultiple es)
        end
      | _ => Err EUnexpectedType
      end.

    (* derived ToCbor of a named struct: the ns map as a CBOR map with text keys *)
    Definition struct_leaf (fds : list field_desc) (j : json) : res cbor :=
      rmap (fun vals => CMap (map (fun kv => (CText (fst kv), snd kv)) (to_ns_map vals)))
           (struct_from_json fds j).
  End Struct.

  Definition no_map_leaf (_ : rty) (_ : list (bytes * json)) : res fval := Err EModel.

  (* Vec<T> / NonEmptyVec<T> / names *)
  Fixpoint ty_leaf (name_leaf : bytes -> json -> res cbor) (t : rty) (j : json) : res cbor :=
    match t with
    | TName n => name_leaf n j
    | TVec t' =>
      match j with
      | JArr l => rmap CArray (collect_res (ty_leaf name_leaf t') l)
      | _ => Err EUnexpectedType
      end
    | TNonEmptyVec t' =>
      match j with
      | JArr l => match collect_res (ty_leaf name_leaf t') l with
                  | Ok [] => Err EParsing
                  | Ok vs => Ok (CArray vs)
                  | Err e => Err e
                  | Panic s => Panic s
                  end
      | _ => Err EUnexpectedType
      end
    | TOption _ => Err EModel
    end.

  (* resolution of a type name: generated tables, then hand-written leaves, then derived structs
     (nested ones use this function again with less fuel) *)
  Fixpoint name_leaf (fuel : nat) (n : ns) (name : bytes) (j : json) : res cbor :=
    match assoc_b name (str_tables n) with
    | Some t => str_enum_leaf t j
    | None =>
    match assoc_b name (int_tables n) with
    | Some t => int_enum_leaf t j
    | None =>
    match prim name with
    | Some f => f j
    | None =>
    match fuel with
    | O => Err EModel
    | S fuel' =>
      match assoc_b name (structs n) with
      | Some (SNamed fds) => struct_leaf (ty_leaf (name_leaf fuel' n)) no_map_leaf fds j
      | Some (SNewtype t) => ty_leaf (name_leaf fuel' n) t j
      | None => Err EModel
      end
    end end end end.

  (* ---------- #[isomdl(many)] and #[isomdl(dynamic_parse)] types of org.iso.18013.5.1 ---------- *)

  (* age_over.rs to_age: exactly two ASCII digits *)
  Definition age_suffix_ok (s : bytes) : bool :=
    match s with [a; c] => is_digit a && is_digit c | _ => false end.

  (* AgeOver::from_map: entries whose key is age_over_NN; any other key is skipped; the value must
     be a boolean *)
  Fixpoint age_over_entries (kvs : list (bytes * json)) : res (list (bytes * cbor)) :=
    match kvs with
    | [] => Ok []
    | (k, v) :: r =>
      match strip_prefix c19_age_over_prefix k with
      | Some sfx =>
        if age_suffix_ok sfx then
          match bool_leaf v with
          | Ok x => rmap (cons (k, CBool x)) (age_over_entries r)
          | Err e => Err e
          | Panic s => Panic s
          end
        else age_over_entries r
      | None => age_over_entries r
      end
    end.

  (* BiometricTemplate::from_map: every key starting with biometric_template_ followed by a
     non-empty suffix; the value is a ByteStr *)
  Fixpoint biometric_entries (kvs : list (bytes * json)) : res (list (bytes * cbor)) :=
    match kvs with
    | [] => Ok []
    | (k, v) :: r =>
      match strip_prefix c19_biometric_prefix k with
      | Some [] => biometric_entries r           (* .filter(|k| !k.is_empty()) *)
      | Some _ =>
        match bytestr_leaf v with
        | Ok x => rmap (cons (k, x)) (biometric_entries r)
        | Err e => Err e
        | Panic s => Panic s
        end
      | None => biometric_entries r
      end
    end.

  (* Option<IssuingJurisdiction>::from_map (issuing_jurisdiction.rs): Missing from either lookup
     turns into None; a null issuing_jurisdiction counts as missing *)
  Definition issuing_jurisdiction_map (kvs : list (bytes * json)) : res fval :=
    match jget (b "issuing_jurisdiction") kvs with
    | None | Some JNull => Ok FNone              (* .filter(|v| !v.is_null()).ok_or(Missing) *)
    | Some v =>
      match string_leaf v with
      | Err e => Err e
      | Panic s => Panic s
      | Ok jur =>
        match jget (b "issuing_country") kvs with
        | None => Ok FNone
        | Some c =>
          match str_enum_leaf tbl_mdl_Alpha2 c with
          | Ok (CText cc) => if is_prefix cc jur then Ok (FVal (CText jur)) else Err EParsing
          | Ok _ => Err EModel
          | Err e => Err e
          | Panic s => Panic s
          end
        end
      end
    end.

  Definition top_map_leaf (t : rty) (kvs : list (bytes * json)) : res fval :=
    match t with
    | TName n =>
      if bytes_eqb n (b "AgeOver") then rmap FMany (age_over_entries kvs)
      else if bytes_eqb n (b "BiometricTemplate") then rmap FMany (biometric_entries kvs)
      else Err EModel
    | TOption (TName n) =>
      if bytes_eqb n (b "IssuingJurisdiction") then issuing_jurisdiction_map kvs else Err EModel
    | _ => Err EModel
    end.

  (* ---------- the two entry points ---------- *)

  Definition top_fuel : nat := 8.

  Definition ns_struct_name (n : ns) : bytes :=
    match n with Mdl => b "OrgIso1801351" | Aamva => b "OrgIso1801351Aamva" end.

  Definition ns_fields (n : ns) : list field_desc :=
    match assoc_b (ns_struct_name n) (structs n) with
    | Some (SNamed fds) => fds
    | _ => []
    end.

  Definition top_leaf (n : ns) : rty -> json -> res cbor := ty_leaf (name_leaf top_fuel n).

  (* T::from_json(&value) *)
  Definition ns_from_json (n : ns) (j : json) : res (list (field_desc * fval)) :=
    struct_from_json (top_leaf n) top_map_leaf (ns_fields n) j.

  (* T::from_json(&value).map(|x| x.to_ns_map()) : the observation of C19 *)
  Definition ns_elements (n : ns) (j : json) : res (list (bytes * cbor)) :=
    rmap to_ns_map (ns_from_json n j).
End WithBase64.
