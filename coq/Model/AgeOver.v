(* C20: model of presentation::device::{parse_age_from_element_identifier, nearest_age_attestation}.
   Executable definitions only. *)
From Isomdl Require Import Lib.Bytes Lib.Cbor.
Open Scope N_scope.

Inductive age_err := PrefixError | ParseIntError.
Inductive ares (A : Type) := AOk (a : A) | AErr (e : age_err).
Arguments AOk {A} a.
Arguments AErr {A} e.

Definition age_over_prefix : bytes := bytes_of_string "age_over_"%string.
Definition age_over_infix : bytes := bytes_of_string "age_over"%string.

Definition digit (b : N) : option N :=
  if (48 <=? b) && (b <=? 57) then Some (b - 48) else None.

(* Rust <u8 as FromStr>: checked multiply-add; any digit that makes the value exceed 255 fails *)
Fixpoint parse_digits (acc : N) (bs : bytes) : option N :=
  match bs with
  | [] => Some acc
  | b :: r =>
    match digit b with
    | None => None
    | Some d => let acc' := acc * 10 + d in
                if acc' <=? 255 then parse_digits acc' r else None
    end
  end.

Definition parse_u8 (bs : bytes) : option N :=
  let ds := match bs with 43 :: r => r | _ => bs end in   (* optional leading '+' *)
  match ds with
  | [] => None
  | _ => parse_digits 0 ds
  end.

Definition parse_age (id : bytes) : ares N :=
  match strip_prefix age_over_prefix id with
  | None => AErr PrefixError
  | Some x => match parse_u8 x with Some n => AOk n | None => AErr ParseIntError end
  end.

Section Nearest.
  Context {A : Type}.
  (* a held element: identifier, element value, and the (opaque) issuer-signed item *)
  Definition entry : Type := bytes * (cbor * A).
  Definition e_id (e : entry) : bytes := fst e.
  Definition e_val (e : entry) : cbor := fst (snd e).

  Definition is_true_val (v : cbor) : bool := match v with CBool true => true | _ => false end.

  (* map with early failure, as Iterator::collect::<Result<Vec<_>,_>> *)
  Fixpoint number_claims (l : list entry) : ares (list (N * entry)) :=
    match l with
    | [] => AOk []
    | e :: r =>
      match parse_age (e_id e) with
      | AErr x => AErr x
      | AOk n => match number_claims r with
                 | AErr x => AErr x
                 | AOk r' => AOk ((n, e) :: r')
                 end
      end
    end.

  (* Iterator::min_by_key: the first minimal element *)
  Fixpoint min_first_acc (best : N * entry) (l : list (N * entry)) : N * entry :=
    match l with
    | [] => best
    | x :: r => min_first_acc (if fst x <? fst best then x else best) r
    end.
  Definition min_first (l : list (N * entry)) : option (N * entry) :=
    match l with [] => None | x :: r => Some (min_first_acc x r) end.

  (* Iterator::max_by_key: the last maximal element *)
  Fixpoint max_last_acc (best : N * entry) (l : list (N * entry)) : N * entry :=
    match l with
    | [] => best
    | x :: r => max_last_acc (if fst best <=? fst x then x else best) r
    end.
  Definition max_last (l : list (N * entry)) : option (N * entry) :=
    match l with [] => None | x :: r => Some (max_last_acc x r) end.

  Definition nearest (req : bytes) (held : list entry) : ares (option entry) :=
    match parse_age req with
    | AErr x => AErr x
    | AOk nn =>
      let owned := filter (fun e => contains age_over_infix (e_id e)) held in
      match number_claims owned with
      | AErr x => AErr x
      | AOk numbered =>
        let '(ts, fs) := partition (fun x => is_true_val (e_val (snd x))) numbered in
        match min_first (filter (fun x => nn <=? fst x) ts) with
        | Some c => AOk (Some (snd c))
        | None =>
          match max_last (filter (fun x => fst x <=? nn) fs) with
          | Some c => AOk (Some (snd c))
          | None => AOk None
          end
        end
      end
    end.
End Nearest.
