(* C07: the IV construction of definitions::session::get_initialization_vector.
   Identifiers come from the generated constants (copied from the current source). *)
From Isomdl Require Import Lib.Bytes Gen.Constants.
Open Scope N_scope.

Inductive role := Reader | Device.

Definition role_eqb (a b : role) : bool :=
  match a, b with Reader, Reader | Device, Device => true | _, _ => false end.

Definition two32 : N := 4294967296.

Definition identifier (r : role) : bytes :=
  match r with Reader => iv_identifier_reader | Device => iv_identifier_device end.

Definition iv (r : role) (n : N) : bytes := identifier r ++ be_bytes 4 n.

(* `*message_count += 1` on a u32 (release build wraps; debug build panics at 2^32 - 1) *)
Definition incr (c : N) : N := (c + 1) mod two32.

(* get_initialization_vector(&mut count, reader): pre-increment, then identifier || counter *)
Definition next_iv (r : role) (ctr : N) : N * bytes :=
  let c := incr ctr in (c, iv r c).
