(* C09: issuance (issuance/mdoc.rs: Mdoc::prepare / issue, PreparedMdoc::complete,
   to_issuer_namespaces, to_issuer_signed_items, digest_namespaces, digest_namespace,
   generate_digest_id; definitions/mso.rs: DigestId::new, Mso, DigestAlgorithm;
   definitions/device_key/mod.rs: KeyAuthorizations::validate).  Executable definitions only.

   Randomness.  The code draws from rand::thread_rng() in four ways; the model reads them from
   an explicit tape with one stream per kind of draw (any single-stream execution corresponds to
   the tape obtained by sorting its draws by kind, so quantifying over all tapes covers it):
     t_ids    : u32 words; `rng.gen::<i32>()` is the word reinterpreted as i32
     t_salt   : raw bytes; `rng.gen::<[u8; 16]>()` takes the next 16
     t_counts : words; `rng.gen_range(5..10)` is modelled as 5 + w mod (10 - 5)
     t_decoy  : raw bytes; each decoy takes the next 512 and hashes them -- or, for the relational
                correspondence check only, the digests themselves (the 512-byte preimages of a real
                run cannot be recovered from its output, so the harness supplies the observed decoy
                digests as oracle answers); no theorem depends on which form is used
   `generate_digest_id` loops until it draws an unused id; the model's loop is structural on the
   id stream (fuel = tape length) and answers OutOfTape when the stream ends first. *)
From Isomdl Require Import Lib.Bytes Lib.Cbor Lib.Sha2 Model.Cose Gen.Issuance.
Open Scope N_scope.
Local Open Scope string_scope.

(* ---------- DigestAlgorithm (mso.rs) ---------- *)

Inductive digest_alg := SHA256 | SHA384 | SHA512.

(* #[serde(rename = "SHA-256")] ... *)
Definition alg_name (a : digest_alg) : bytes :=
  match a with
  | SHA256 => bytes_of_string "SHA-256"
  | SHA384 => bytes_of_string "SHA-384"
  | SHA512 => bytes_of_string "SHA-512"
  end.

(* digest_namespace: match digest_algorithm { SHA256 => Sha256::digest(bytes) ... } *)
Definition hash (a : digest_alg) (m : bytes) : bytes :=
  match a with
  | SHA256 => sha256 m
  | SHA384 => sha384 m
  | SHA512 => sha512 m
  end.

(* ---------- i32 arithmetic and DigestId::new ---------- *)

Definition i32_min : Z := (-2147483648)%Z.
Definition i32_max : Z := 2147483647%Z.
Definition in_i32 (z : Z) : bool := ((i32_min <=? z) && (z <=? i32_max))%Z.
(* two's-complement reduction into the i32 range *)
Definition wrap_i32 (z : Z) : Z := ((z + 2147483648) mod 4294967296 - 2147483648)%Z.

(* i32::saturating_abs: the negation is checked, an overflow (only at i32::MIN) saturates to
   i32::MAX.  No overflow check is involved, so debug and release builds agree and nothing panics. *)
Definition saturating_abs_i32 (i : Z) : Z :=
  if (i <? 0)%Z then (let n := (- i)%Z in if in_i32 n then n else i32_max) else i.

(* DigestId(i.saturating_abs())  (mso.rs, after the repair of F3, commit 0f19958).
   The `release` flag (overflow checks off) is threaded through the model for the harness protocol;
   no modelled site depends on it any more (C09_build_mode_irrelevant). *)
Definition digest_id_new (release : bool) (i : Z) : Z := saturating_abs_i32 i.

(* rng.gen::<i32>(): next_u32() as i32 *)
Definition i32_of_word (w : N) : Z := wrap_i32 (Z.of_N w).

(* ---------- outcomes ---------- *)

Inductive issue_err :=
| EDoubleAuthorized (ns : bytes)   (* KeyAuthorizations::validate *)
| EEmptyNamespace                  (* "at least one element required in each namespace" *)
| ENoNamespaces                    (* "at least one namespace required" *)
| ESigning                         (* signer.try_sign failed *)
| ECose (e : prep_err).            (* PreparedCoseSign1::new failed *)

Inductive res (A : Type) :=
| Ok (a : A)
| Err (e : issue_err)
| Panic                            (* a panic inside isomdl; no modelled site can panic since DigestId::new
                                      saturates (C09_never_panics) -- kept as an outcome of the protocol *)
| OutOfTape.
Arguments Ok {A} a.
Arguments Err {A} e.
Arguments Panic {A}.
Arguments OutOfTape {A}.

Definition bind {A B} (r : res A) (f : A -> res B) : res B :=
  match r with Ok a => f a | Err e => Err e | Panic => Panic | OutOfTape => OutOfTape end.
Notation "x <~ r ;; k" := (bind r (fun x => k)) (at level 61, r at next level, right associativity).
Notation "' p <~ r ;; k" := (bind r (fun p => k)) (at level 61, p pattern, r at next level, right associativity).

(* ---------- the tape ---------- *)

Inductive decoy_fill := FillBytes (b : bytes) | FillDigest (d : bytes).
Inductive decoy_stream := DecoyBytes (s : bytes) | DecoyDigests (ds : list bytes).

Record tape := { t_ids : list N; t_salt : bytes; t_counts : list N; t_decoy : decoy_stream }.

(* the literals are regenerated from issuance/mdoc.rs by the translator (Gen/Issuance.v):
   gen::<[u8; 16]>(), .take(512), gen_range(5..10) *)
Definition salt_len : nat := N.to_nat gen_salt_len.
Definition decoy_len : nat := N.to_nat gen_decoy_len.
Definition decoy_lo : N := fst gen_decoy_range.
Definition decoy_span : N := snd gen_decoy_range - fst gen_decoy_range.

Definition take_tape (n : nat) (s : bytes) : res (bytes * bytes) :=
  match take_drop n s with Some p => Ok p | None => OutOfTape end.

(* repeat_with(|| rng.gen::<u8>()).take(512).collect() *)
Definition take_decoy (s : decoy_stream) : res (decoy_fill * decoy_stream) :=
  match s with
  | DecoyBytes b => '(x, r) <~ take_tape decoy_len b ;; Ok (FillBytes x, DecoyBytes r)
  | DecoyDigests [] => OutOfTape
  | DecoyDigests (d :: r) => Ok (FillDigest d, DecoyDigests r)
  end.

Definition zmem (z : Z) (l : list Z) : bool := existsb (Z.eqb z) l.

(* generate_digest_id: loop { id = DigestId::new(rng.gen()); if used_ids.insert(id) { break } } ;
   returns the id and the rest of the id stream (the caller's set gains the id) *)
Fixpoint gen_id (release : bool) (used : list Z) (draws : list N) : res (Z * list N) :=
  match draws with
  | [] => OutOfTape
  | w :: rest =>
    let z := digest_id_new release (i32_of_word w) in
    if zmem z used then gen_id release used rest else Ok (z, rest)
  end.

(* ---------- IssuerSignedItem (issuer_signed.rs) ---------- *)

Record item := { it_id : Z; it_random : bytes; it_ident : bytes; it_value : cbor }.

(* an i32 as ciborium writes it *)
Definition int_cbor (z : Z) : cbor :=
  if (z <? 0)%Z then CNInt (Z.to_N (- 1 - z)) else CUInt (Z.to_N z).

(* serde field order with #[serde(rename_all = "camelCase")] and rename = "digestID" *)
Definition item_cbor (it : item) : cbor :=
  CMap [(ctext "digestID", int_cbor (it_id it));
        (ctext "random", CBytes (it_random it));
        (ctext "elementIdentifier", CText (it_ident it));
        (ctext "elementValue", it_value it)].

(* Tag24::new(item): inner_bytes = cbor::to_vec(&item) *)
Definition item_bytes (it : item) : bytes := encode (item_cbor it).
(* cbor::to_vec(&Tag24<IssuerSignedItem>) = #6.24(bstr inner_bytes): what digest_namespace hashes *)
Definition item_tagged (it : item) : bytes := encode (tag24 (item_bytes it)).

Definition set_ids (t : tape) (ids : list N) : tape :=
  {| t_ids := ids; t_salt := t_salt t; t_counts := t_counts t; t_decoy := t_decoy t |}.
Definition set_salt (t : tape) (s : bytes) : tape :=
  {| t_ids := t_ids t; t_salt := s; t_counts := t_counts t; t_decoy := t_decoy t |}.
Definition set_counts (t : tape) (c : list N) : tape :=
  {| t_ids := t_ids t; t_salt := t_salt t; t_counts := c; t_decoy := t_decoy t |}.
Definition set_decoy (t : tape) (d : decoy_stream) : tape :=
  {| t_ids := t_ids t; t_salt := t_salt t; t_counts := t_counts t; t_decoy := d |}.

(* to_issuer_signed_items: one item per (identifier, value) in map order, ids unique within the
   namespace through the used set, 16 random bytes each *)
Fixpoint make_items (release : bool) (used : list Z) (elems : list (bytes * cbor)) (t : tape)
  : res (list item * tape) :=
  match elems with
  | [] => Ok ([], t)
  | (k, v) :: r =>
    '(id, ids') <~ gen_id release used (t_ids t) ;;
    '(salt, salt') <~ take_tape salt_len (t_salt t) ;;
    let it := {| it_id := id; it_random := salt; it_ident := k; it_value := v |} in
    '(its, t') <~ make_items release (id :: used) r (set_salt (set_ids t ids') salt') ;;
    Ok (it :: its, t')
  end.

(* to_issuer_namespaces: BTreeMap order; NonEmptyVec per namespace, NonEmptyMap overall.
   The input list is the BTreeMap in iteration order (keys strictly increasing). *)
Fixpoint make_namespaces (release : bool) (nss : list (bytes * list (bytes * cbor))) (t : tape)
  : res (list (bytes * list item) * tape) :=
  match nss with
  | [] => Ok ([], t)
  | (name, elems) :: r =>
    '(its, t1) <~ make_items release [] elems t ;;
    match its with
    | [] => Err EEmptyNamespace
    | _ :: _ =>
      '(rest, t2) <~ make_namespaces release r t1 ;;
      Ok ((name, its) :: rest, t2)
    end
  end.

Definition to_issuer_namespaces (release : bool) (nss : list (bytes * list (bytes * cbor))) (t : tape)
  : res (list (bytes * list item) * tape) :=
  '(out, t') <~ make_namespaces release nss t ;;
  match out with
  | [] => Err ENoNamespaces
  | _ :: _ => Ok (out, t')
  end.

(* ---------- digest_namespace ---------- *)

(* BTreeMap<DigestId, ByteStr> collected from an iterator: sorted by the i32, a later entry with
   an equal key replaces the earlier one *)
Fixpoint zmap_insert (k : Z) (v : bytes) (m : list (Z * bytes)) : list (Z * bytes) :=
  match m with
  | [] => [(k, v)]
  | (k', v') :: r =>
    if (k <? k')%Z then (k, v) :: m
    else if (k =? k')%Z then (k, v) :: r
    else (k', v') :: zmap_insert k v r
  end.
Definition zmap_collect (l : list (Z * bytes)) : list (Z * bytes) :=
  fold_left (fun m kv => zmap_insert (fst kv) (snd kv) m) l [].

(* the random (id, 512 bytes) pairs; each id enters the used set *)
Fixpoint gen_decoys (release : bool) (n : nat) (used : list Z) (t : tape) : res (list (Z * decoy_fill) * tape) :=
  match n with
  | O => Ok ([], t)
  | S n' =>
    '(id, ids') <~ gen_id release used (t_ids t) ;;
    '(b, d') <~ take_decoy (t_decoy t) ;;
    '(r, t') <~ gen_decoys release n' (id :: used) (set_decoy (set_ids t ids') d') ;;
    Ok ((id, b) :: r, t')
  end.

(* rng.gen_range(5..10) when decoys are enabled, else 0 *)
Definition decoy_count (decoys : bool) (t : tape) : res (nat * tape) :=
  if decoys then
    match t_counts t with
    | [] => OutOfTape
    | w :: r => Ok (N.to_nat (decoy_lo + w mod decoy_span), set_counts t r)
    end
  else Ok (O, t).

Definition item_entry (alg : digest_alg) (it : item) : Z * bytes := (it_id it, hash alg (item_tagged it)).
Definition fill_digest (alg : digest_alg) (f : decoy_fill) : bytes :=
  match f with FillBytes b => hash alg b | FillDigest d => d end.
Definition decoy_entry (alg : digest_alg) (d : Z * decoy_fill) : Z * bytes := (fst d, fill_digest alg (snd d)).

Definition digest_namespace (release : bool) (alg : digest_alg) (decoys : bool) (its : list item) (t : tape)
  : res (list (Z * bytes) * tape) :=
  '(n, t1) <~ decoy_count decoys t ;;
  '(ds, t2) <~ gen_decoys release n (map it_id its) t1 ;;
  Ok (zmap_collect (map (item_entry alg) its ++ map (decoy_entry alg) ds), t2).

Fixpoint digest_namespaces (release : bool) (alg : digest_alg) (decoys : bool)
         (nss : list (bytes * list item)) (t : tape) : res (list (bytes * list (Z * bytes)) * tape) :=
  match nss with
  | [] => Ok ([], t)
  | (name, its) :: r =>
    '(d, t1) <~ digest_namespace release alg decoys its t ;;
    '(rest, t2) <~ digest_namespaces release alg decoys r t1 ;;
    Ok ((name, d) :: rest, t2)
  end.

(* ---------- KeyAuthorizations::validate (device_key/mod.rs) ---------- *)

Record key_auth := {
  ka_namespaces : option (list bytes);                   (* nameSpaces *)
  ka_elements : option (list (bytes * list bytes))       (* dataElements *)
}.

Definition bmem (b : bytes) (l : list bytes) : bool := existsb (bytes_eqb b) l.

(* first namespace that is authorised both wholly and per element, if any *)
Definition double_authorized (a : key_auth) : option bytes :=
  match ka_elements a with
  | None => None
  | Some ds =>
    match ka_namespaces a with
    | None => None
    | Some nss => find (fun ns => bmem ns (map fst ds)) nss
    end
  end.

(* ---------- Mso (mso.rs) ---------- *)

Record mso := {
  mso_version : bytes;
  mso_alg : digest_alg;
  mso_value_digests : list (bytes * list (Z * bytes));
  mso_device_key_info : cbor;          (* DeviceKeyInfo as it serialises; opaque here *)
  mso_doc_type : bytes;
  mso_validity : cbor                  (* ValidityInfo as it serialises; opaque here *)
}.

Definition digest_ids_cbor (ds : list (Z * bytes)) : cbor :=
  CMap (map (fun kv => (int_cbor (fst kv), CBytes (snd kv))) ds).
Definition value_digests_cbor (vd : list (bytes * list (Z * bytes))) : cbor :=
  CMap (map (fun kv => (CText (fst kv), digest_ids_cbor (snd kv))) vd).

(* #[serde(rename_all = "camelCase")], declaration order *)
Definition mso_cbor (m : mso) : cbor :=
  CMap [(ctext "version", CText (mso_version m));
        (ctext "digestAlgorithm", CText (alg_name (mso_alg m)));
        (ctext "valueDigests", value_digests_cbor (mso_value_digests m));
        (ctext "deviceKeyInfo", mso_device_key_info m);
        (ctext "docType", CText (mso_doc_type m));
        (ctext "validityInfo", mso_validity m)].

(* cbor::to_vec(&Tag24::new(&mso)?) *)
Definition mso_payload (m : mso) : bytes := encode (tag24 (encode (mso_cbor m))).

(* ---------- Mdoc::prepare / PreparedMdoc::complete / Mdoc::issue ---------- *)

Record request := {
  q_doc_type : bytes;
  q_namespaces : list (bytes * list (bytes * cbor));
  q_validity : cbor;
  q_alg : digest_alg;
  q_device_key_info : cbor;
  q_auth : option key_auth;            (* device_key_info.key_authorizations *)
  q_sig_alg : Z;                       (* coset::iana::Algorithm as its integer *)
  q_decoys : bool
}.

Record prepared_mdoc := {
  pm_doc_type : bytes;
  pm_mso : mso;
  pm_namespaces : list (bytes * list item);
  pm_cose : cose1;
  pm_tbs : bytes                       (* PreparedCoseSign1::signature_payload *)
}.

Record mdoc := {
  m_doc_type : bytes;
  m_mso : mso;
  m_namespaces : list (bytes * list item);
  m_issuer_auth : cose1
}.

(* coset::HeaderBuilder::new().algorithm(alg).build(), serialised: {1: alg} *)
Definition protected_header (sig_alg : Z) : bytes := encode (CMap [(CUInt 1, int_cbor sig_alg)]).

(* version: "1.0".to_string() (literal from Gen) *)
Definition mso_version_1_0 : bytes := gen_mso_version.

Definition prepare (release : bool) (q : request) (t : tape) : res prepared_mdoc :=
  match match q_auth q with Some a => double_authorized a | None => None end with
  | Some ns => Err (EDoubleAuthorized ns)
  | None =>
    '(nss, t1) <~ to_issuer_namespaces release (q_namespaces q) t ;;
    '(vd, _) <~ digest_namespaces release (q_alg q) (q_decoys q) nss t1 ;;
    let m := {| mso_version := mso_version_1_0; mso_alg := q_alg q; mso_value_digests := vd;
                mso_device_key_info := q_device_key_info q; mso_doc_type := q_doc_type q;
                mso_validity := q_validity q |} in
    let c := {| c_tagged := false; c_protected := protected_header (q_sig_alg q); c_unprotected := [];
                c_payload := Some (mso_payload m); c_sig := [] |} in
    match Cose.prepare ctx_sign1 c None None with
    | PErr e => Err (ECose e)
    | POk tbs =>
      Ok {| pm_doc_type := q_doc_type q; pm_mso := m; pm_namespaces := nss; pm_cose := c; pm_tbs := tbs |}
    end
  end.

(* Label::Int(X5CHAIN_COSE_HEADER_LABEL) (constant from Gen) *)
Definition x5chain_label : cbor := int_cbor gen_x5chain_label.

(* X5Chain::into_cbor: a single certificate is a bstr, several are an array of bstr *)
Definition x5chain_cbor (certs : list bytes) : cbor :=
  match certs with
  | [c] => CBytes c
  | _ => CArray (map CBytes certs)
  end.

Definition complete (p : prepared_mdoc) (x5chain : cbor) (sg : bytes) : mdoc :=
  let c := finalize (pm_cose p) sg in
  {| m_doc_type := pm_doc_type p; m_mso := pm_mso p; m_namespaces := pm_namespaces p;
     m_issuer_auth := {| c_tagged := c_tagged c; c_protected := c_protected c;
                         c_unprotected := c_unprotected c ++ [(x5chain_label, x5chain)];
                         c_payload := c_payload c; c_sig := c_sig c |} |}.

(* the signer is an oracle: to-be-signed bytes -> signature, or failure *)
Definition issue (release : bool) (q : request) (t : tape) (x5chain : cbor) (sign : bytes -> option bytes)
  : res mdoc :=
  p <~ prepare release q t ;;
  match sign (pm_tbs p) with
  | None => Err ESigning
  | Some sg => Ok (complete p x5chain sg)
  end.
