(* Executable model of src/definitions/x509/validation/** (property C12) over an ABSTRACT parsed
   certificate.  Definitions only; proofs are in Proofs/X509Proofs.v.

   What is abstract (oracles, see DESIGN.md T6/T10):
   - DER parsing: a certificate arrives parsed; each extension value arrives decoded by the
     x509-cert type its OID selects ([decoded]); a value x509-cert rejects is [DUndecodable];
   - SHA-1 of the subject public key: [ski_of_key];
   - ECDSA P-256 verification of the subject's signature under the issuer's key, including the
     parsing of that key and of the signature: [verifies subject issuer];
   - the clock: [now] (seconds since the epoch, as returned by OffsetDateTime::unix_timestamp).
   What is modelled: everything else, in the code's order, with its quirks (first matching
   validator, `found` flags, first candidate wins, only the first
   certificate of the x5chain is looked at).  Literals come from Gen/X509Consts.v. *)
From Isomdl Require Import Lib.Bytes Gen.X509Consts.
Open Scope N_scope.

(* ---------- abstract certificates ---------- *)

Definition oid := list N.                      (* arcs *)
Definition oid_eqb (a b : oid) : bool := bytes_eqb a b.

(* GeneralName alternatives the validators tell apart *)
Inductive gn_kind := GnRfc822 | GnUri | GnOther.

(* DistributionPoint.distribution_point *)
Inductive dp_name := DpAbsent | DpFullName (names : list gn_kind) | DpRelative.
Record dist_point := { dp_name_of : dp_name; dp_reasons : bool; dp_crl_issuer : bool }.

Inductive decoded :=
| DKeyUsage (bits : N)                               (* FlagSet<KeyUsages>::bits() *)
| DExtKeyUsage (oids : list oid)
| DBasicConstraints (ca : bool) (path_len : option N)
| DCrlDp (points : list dist_point)
| DIssuerAltName (names : list gn_kind)
| DSki (id : bytes)
| DAki (key_id : option bytes)
| DOther                                             (* an OID no validator decodes *)
| DUndecodable.                                      (* from_der failed *)

Record ext := { e_oid : oid; e_crit : bool; e_val : decoded }.

(* Name = RdnSequence(Vec<SetOfVec<AttributeTypeAndValue>>); a value is the DER of the `Any`
   (tag, length, content), so that equality of values is x509-cert's derived equality. *)
Definition attr := (oid * bytes)%type.
Definition rdn := list attr.
Definition name := list rdn.

Record cert := {
  c_not_before : Z;            (* validity.not_before.to_unix_duration().as_secs() *)
  c_not_after : Z;
  c_issuer : name;
  c_subject : name;
  c_key : bytes;               (* subject_public_key bit string, raw bytes (input of the SKI digest) *)
  c_spki : bytes;              (* whole SubjectPublicKeyInfo; only used by Api to instantiate [verifies] *)
  c_sigkeys : list bytes;      (* oracle answers carried along: SPKIs under which this certificate's
                                  signature verifies; only used by Api to instantiate [verifies] *)
  c_exts : list ext
}.

Inductive purpose := Iaca | ReaderCa.
Record anchor := { a_cert : cert; a_purpose : purpose }.
Inductive ruleset := Mdl | AamvaMdl | MdlReaderOneStep.

(* X5Chain(NonEmptyVec<CertificateWithDer>) *)
Record x5chain := { x_first : cert; x_rest : list cert }.
Definition end_entity_certificate (x : x5chain) : cert := x_first x.

(* ---------- error kinds (the implementation produces strings; these are their shapes) ---------- *)

Inductive ext_name := XSki | XEku | XKu | XBc | XCrl | XIan.
Inductive verr := VDecode | VValue | VCrlEmpty | VCrlIssuer | VCrlReasons | VCrlPoint | VIanEmpty.
Inductive name_attr := NCountry | NState.
Inductive ekind :=
| KExpired | KNotYetValid
| KDisallowed | KUnknownCritical
| KExt (x : ext_name) (v : verr)
| KMissingExt (x : ext_name)
| KNoTrustAnchor
| KNameMissing (a : name_attr) | KNameMultiple (a : name_attr) | KNameMismatch (a : name_attr).
Inductive context := CtxDs | CtxIaca | CtxReader | CtxReaderCa | CtxComparison.
Definition error := (context * ekind)%type.

Definition is_nil {A} (l : list A) : bool := match l with [] => true | _ => false end.

(* ---------- equality on names ---------- *)

Definition attr_eqb (a b : attr) : bool := oid_eqb (fst a) (fst b) && bytes_eqb (snd a) (snd b).
Fixpoint list_eqb {A} (eqb : A -> A -> bool) (a b : list A) : bool :=
  match a, b with
  | [], [] => true
  | x :: a', y :: b' => eqb x y && list_eqb eqb a' b'
  | _, _ => false
  end.
Definition name_eqb (a b : name) : bool := list_eqb (list_eqb attr_eqb) a b.

Definition purpose_eqb (a b : purpose) : bool :=
  match a, b with Iaca, Iaca | ReaderCa, ReaderCa => true | _, _ => false end.

(* ---------- validity.rs ---------- *)

(* `OffsetDateTime::now_utc().unix_timestamp() as u64` *)
Definition i64_as_u64 (z : Z) : Z := (z mod 18446744073709551616)%Z.

Definition check_validity_period (now : Z) (c : cert) : list ekind :=
  (if (c_not_after c <? i64_as_u64 now)%Z then [KExpired] else []) ++
  (if (i64_as_u64 now <? c_not_before c)%Z then [KNotYetValid] else []).

(* ---------- names.rs ---------- *)

(* get_rdns: subject, all RDNs flattened, attributes of the given type, in order *)
Definition get_rdns (c : cert) (o : oid) : list bytes :=
  flat_map (fun r : rdn => flat_map (fun a : attr => if oid_eqb (fst a) o then [snd a] else []) r) (c_subject c).

Definition has_rdn (c : cert) (o : oid) : bool := negb (is_nil (get_rdns c o)).

Definition name_matches (o : oid) (which : name_attr) (this that : cert) : option ekind :=
  match get_rdns this o with
  | [] => Some (KNameMissing which)
  | this_c :: this_more =>
    match get_rdns that o with
    | [] => Some (KNameMissing which)
    | that_c :: that_more =>
      if negb (is_nil this_more) then Some (KNameMultiple which)
      else if negb (is_nil that_more) then Some (KNameMultiple which)
      else if negb (bytes_eqb this_c that_c) then Some (KNameMismatch which)
      else None
    end
  end.

Definition country_name_matches := name_matches oid_country_name NCountry.
Definition state_or_province_name_matches := name_matches oid_state_or_province_name NState.

(* ---------- extension validators ---------- *)

Definition validator := gen_validator.

Definition v_oid (v : validator) : oid :=
  match v with
  | GSki => oid_validator_ski
  | GEku _ => oid_validator_eku
  | GKu _ => oid_validator_ku
  | GBc => oid_validator_bc
  | GCrl => oid_validator_crl
  | GIan => oid_validator_ian
  end.

Definition v_name (v : validator) : ext_name :=
  match v with GSki => XSki | GEku _ => XEku | GKu _ => XKu | GBc => XBc | GCrl => XCrl | GIan => XIan end.

Definition gn_is_uri (g : gn_kind) : bool := match g with GnUri => true | _ => false end.
Definition gn_is_rfc822_or_uri (g : gn_kind) : bool := match g with GnRfc822 | GnUri => true | GnOther => false end.

(* crl_distribution_points.rs, body of the loop over points *)
Definition crl_point_errors (p : dist_point) : list verr :=
  (if dp_crl_issuer p then [VCrlIssuer] else []) ++
  (if dp_reasons p then [VCrlReasons] else []) ++
  (if match dp_name_of p with
      | DpFullName names => existsb gn_is_uri names
      | DpRelative => false
      | DpAbsent => false
      end then [] else [VCrlPoint]).

Section Oracles.
Variable ski_of_key : bytes -> bytes.          (* Sha1::digest *)
Variable verifies : cert -> cert -> bool.      (* signature.rs issuer_signed_subject subject issuer *)

(* <V as ExtensionValidator>::validate: decode with V's type, then V::check.  [key] is the
   certificate's subject public key (SubjectKeyIdentifierValidator::from_certificate). *)
Definition v_validate (key : bytes) (v : validator) (d : decoded) : list verr :=
  match v, d with
  | GSki, DSki id => if bytes_eqb (ski_of_key key) id then [] else [VValue]
  | GEku expected, DExtKeyUsage oids =>
    if negb (forallb (fun o => oid_eqb o expected) oids) then [VValue]
    else if is_nil oids then [VValue]
    else []
  | GKu expected, DKeyUsage bits => if bits =? expected then [] else [VValue]
  | GBc, DBasicConstraints ca path_len =>
    if (match path_len with None => true | Some n => negb (n =? 0) end) || negb ca then [VValue] else []
  | GCrl, DCrlDp points =>
    if is_nil points then [VCrlEmpty] else flat_map crl_point_errors points
  | GIan, DIssuerAltName names =>
    if is_nil names then [VIanEmpty]
    else if negb (forallb gn_is_rfc822_or_uri names) then [VValue] else []
  | _, _ => [VDecode]
  end.

(* ---------- extensions/mod.rs: ExtensionValidators::validate_extensions ---------- *)

Record required_extension := { r_found : bool; r_validator : validator }.
Definition required_new (v : validator) : required_extension := {| r_found := false; r_validator := v |}.

(* validators.iter_mut().find(|v| v.oid() == ext.extn_id), then validate and set found *)
Fixpoint visit (key : bytes) (e : ext) (rs : list required_extension)
  : option (list required_extension * list ekind) :=
  match rs with
  | [] => None
  | r :: rest =>
    if oid_eqb (v_oid (r_validator r)) (e_oid e) then
      Some ({| r_found := true; r_validator := r_validator r |} :: rest,
            map (KExt (v_name (r_validator r))) (v_validate key (r_validator r) (e_val e)))
    else match visit key e rest with
         | Some (rest', errs) => Some (r :: rest', errs)
         | None => None
         end
  end.

Fixpoint validate_loop (key : bytes) (exts : list ext) (rs : list required_extension) (errs : list ekind)
  : list required_extension * list ekind :=
  match exts with
  | [] => (rs, errs)
  | e :: more =>
    match visit key e rs with
    | Some (rs', es) => validate_loop key more rs' (errs ++ es)
    | None =>
      if e_crit e then validate_loop key more rs (errs ++ [KUnknownCritical])
      else validate_loop key more rs errs
    end
  end.

Definition validate_extensions (key : bytes) (vs : list validator) (exts : list ext) : list ekind :=
  let '(rs, errs) := validate_loop key exts (map required_new vs) [] in
  errs ++ map (fun r => KMissingExt (v_name (r_validator r))) (filter (fun r => negb (r_found r)) rs).

Definition check_for_disallowed_x509_extensions (exts : list ext) : list ekind :=
  flat_map (fun e => if existsb (fun d => oid_eqb d (e_oid e)) disallowed_extensions then [KDisallowed] else []) exts.

(* validate_iaca_extensions / validate_document_signer_certificate_extensions /
   validate_mdoc_reader_certificate_extensions: disallowed first, then the validators *)
Definition validate_role_extensions (vs : list validator) (c : cert) : list ekind :=
  check_for_disallowed_x509_extensions (c_exts c) ++ validate_extensions (c_key c) vs (c_exts c).

Definition validate_iaca_extensions := validate_role_extensions validators_iaca.
Definition validate_document_signer_certificate_extensions := validate_role_extensions validators_document_signer.
Definition validate_mdoc_reader_certificate_extensions := validate_role_extensions validators_mdoc_reader.

(* key_identifier_check: any AKI key identifier of the subject equals any SKI of the issuer;
   undecodable instances are skipped *)
Definition issuer_skis (exts : list ext) : list bytes :=
  flat_map (fun e => if oid_eqb (e_oid e) oid_kic_issuer_ext
                     then match e_val e with DSki id => [id] | _ => [] end else []) exts.
Definition subject_akis (exts : list ext) : list bytes :=
  flat_map (fun e => if oid_eqb (e_oid e) oid_kic_subject_ext
                     then match e_val e with DAki (Some id) => [id] | _ => [] end else []) exts.
Definition key_identifier_check (issuer_exts subject_exts : list ext) : bool :=
  existsb (fun ki => existsb (fun ski => bytes_eqb ki ski) (issuer_skis issuer_exts)) (subject_akis subject_exts).

(* ---------- validation/mod.rs ---------- *)

Definition find_trust_anchor_candidates (now : Z) (subject : cert) (reg : list anchor) (p : purpose) : list cert :=
  filter (fun candidate => is_nil (check_validity_period now candidate))
    (filter (fun candidate => verifies subject candidate)
      (filter (fun candidate => key_identifier_check (c_exts candidate) (c_exts subject))
        (filter (fun candidate => name_eqb (c_subject candidate) (c_issuer subject))
          (flat_map (fun a => if purpose_eqb p (a_purpose a) then [a_cert a] else []) reg)))).

Definition with_ctx (c : context) (l : list ekind) : list error := map (pair c) l.
Definition opt_err (c : context) (o : option ekind) : list error :=
  match o with Some e => [(c, e)] | None => [] end.

(* Err(outcome) = (errors, None) ; Ok((outcome, ds, iaca)) = (errors, Some (ds, iaca)) *)
Definition mdl_validate_inner (now : Z) (x : x5chain) (reg : list anchor) : list error * option (cert * cert) :=
  let document_signer := end_entity_certificate x in
  let errors := with_ctx CtxDs (check_validity_period now document_signer) in
  let errors := errors ++ with_ctx CtxDs (validate_document_signer_certificate_extensions document_signer) in
  match find_trust_anchor_candidates now document_signer reg Iaca with
  | [] => (errors ++ [(CtxIaca, KNoTrustAnchor)], None)
  | iaca :: _ =>
    let errors := errors ++ opt_err CtxComparison (country_name_matches document_signer iaca) in
    let errors := errors ++ with_ctx CtxIaca (validate_iaca_extensions iaca) in
    (errors, Some (document_signer, iaca))
  end.

Definition mdl_validate (now : Z) (x : x5chain) (reg : list anchor) : list error :=
  match mdl_validate_inner now x reg with
  | (errors, Some (ds, iaca)) =>
    if has_rdn ds oid_mdl_has_rdn || has_rdn iaca oid_mdl_has_rdn
    then errors ++ opt_err CtxComparison (state_or_province_name_matches ds iaca)
    else errors
  | (errors, None) => errors
  end.

Definition aamva_mdl_validate (now : Z) (x : x5chain) (reg : list anchor) : list error :=
  match mdl_validate_inner now x reg with
  | (errors, Some (ds, iaca)) => errors ++ opt_err CtxComparison (state_or_province_name_matches ds iaca)
  | (errors, None) => errors
  end.

Definition mdl_reader_one_step_validate (now : Z) (x : x5chain) (reg : list anchor) : list error :=
  let reader := end_entity_certificate x in
  let errors := with_ctx CtxReader (check_validity_period now reader) in
  let errors := errors ++ with_ctx CtxReader (validate_mdoc_reader_certificate_extensions reader) in
  match find_trust_anchor_candidates now reader reg ReaderCa with
  | [] => errors ++ [(CtxReaderCa, KNoTrustAnchor)]
  | _reader_ca :: _ => errors
  end.

(* ValidationRuleset::validate(..).errors ; success() = errors.is_empty() *)
Definition validate (rs : ruleset) (now : Z) (x : x5chain) (reg : list anchor) : list error :=
  match rs with
  | Mdl => mdl_validate now x reg
  | AamvaMdl => aamva_mdl_validate now x reg
  | MdlReaderOneStep => mdl_reader_one_step_validate now x reg
  end.

Definition success (errors : list error) : bool := is_nil errors.

End Oracles.
