(* The device and reader session machines of presentation::{device,reader}::SessionManager,
   reduced to what C06 / C07 / C13 / C14 talk about: the two message counters of each role, the
   device's State, symbolic ciphertexts, and the observable result of every API call.
   Executable definitions only. *)
From Isomdl Require Import Lib.Bytes Model.Iv.
Open Scope N_scope.

(* ---------- symbolic messages ---------- *)

(* a document in a response: (document id, signature bytes put on it) *)
Definition sdoc : Type := N * bytes.

Record response := { rs_status : N; rs_docs : list sdoc; rs_doc_errors : N }.

Inductive plain :=
| PRequest (id : N)            (* plaintext is a valid DeviceRequest (abstract identity) *)
| PNotCbor                     (* plaintext is not CBOR at all *)
| PNotRequest                  (* plaintext is CBOR but not a DeviceRequest *)
| PResponse (r : response)     (* plaintext is a DeviceResponse *)
| PBadResponse.                (* plaintext is not a DeviceResponse *)

(* AES-GCM as an ideal AEAD: a ciphertext opens only under its own key and IV *)
Inductive cipher :=
| Enc (k : N) (iv : bytes) (p : plain)
| Junk.                        (* any byte string that is not an emitted ciphertext *)

Inductive wire :=
| WGarbage                     (* outer bytes are not a SessionData structure *)
| WNoData                      (* SessionData without `data` *)
| WData (c : cipher).

Definition decrypt (k : N) (iv : bytes) (c : cipher) : option plain :=
  match c with
  | Enc k' iv' p => if (k =? k') && bytes_eqb iv iv' then Some p else None
  | Junk => None
  end.

(* ---------- device ---------- *)

(* a document waiting for its signature: (document id, payload offered for signing) *)
Definition pdoc : Type := N * bytes.

Record prepared := {
  pr_prepared : list pdoc;       (* Vec: signed from the END (pop) *)
  pr_signed : list sdoc;         (* in the order signed *)
  pr_doc_errors : N;
  pr_status : N
}.

Inductive dstate :=
| Awaiting
| Signing (p : prepared)
| Ready (msg : wire).

Record dev := {
  d_kr : N;                      (* key id of sk_reader *)
  d_kd : N;                      (* key id of sk_device *)
  d_send : N;                    (* device_message_counter *)
  d_recv : N;                    (* reader_message_counter *)
  d_state : dstate
}.

Definition status_ok : N := 0.
Definition status_general : N := 10.
Definition status_cbor_decoding : N := 11.
Definition status_cbor_validation : N := 12.

Definition empty_prepared (status : N) : prepared :=
  {| pr_prepared := []; pr_signed := []; pr_doc_errors := 0; pr_status := status |}.

Inductive req_out :=
| RoParsingError               (* outer decode failed, or no data *)
| RoDecryptionError
| RoEmpty                      (* decrypted, not a DeviceRequest: default outcome, error response prepared *)
| RoRequest (id : N).          (* the request is handed to the holder *)

Definition set_state (d : dev) (s : dstate) : dev :=
  {| d_kr := d_kr d; d_kd := d_kd d; d_send := d_send d; d_recv := d_recv d; d_state := s |}.

Definition finalize (p : prepared) : response :=
  {| rs_status := pr_status p; rs_docs := pr_signed p; rs_doc_errors := pr_doc_errors p |}.

(* emission: what was encrypted, under which key and IV *)
Record emission := { em_role : role; em_key : N; em_iv : bytes; em_plain : plain }.

(* SessionManager::finalize_if_complete: a prepared response with no document left to sign is
   encoded, encrypted under sk_device with the next device IV, and becomes ReadyToRespond *)
Definition dev_finalize (d : dev) : dev * list emission :=
  match d_state d with
  | Signing p =>
    match pr_prepared p with
    | [] =>
      let '(ctr, nonce) := next_iv Device (d_send d) in
      let pl := PResponse (finalize p) in
      ({| d_kr := d_kr d; d_kd := d_kd d; d_send := ctr; d_recv := d_recv d;
          d_state := Ready (WData (Enc (d_kd d) nonce pl)) |},
       [{| em_role := Device; em_key := d_kd d; em_iv := nonce; em_plain := pl |}])
    | _ => (d, [])
    end
  | _ => (d, [])
  end.

Definition dev_handle_request (d : dev) (w : wire) : dev * req_out * list emission :=
  match w with
  | WGarbage => (d, RoParsingError, [])
  | WNoData => (d, RoParsingError, [])
  | WData c =>
    let '(ctr, nonce) := next_iv Reader (d_recv d) in
    let d' := {| d_kr := d_kr d; d_kd := d_kd d; d_send := d_send d; d_recv := ctr; d_state := d_state d |} in
    match decrypt (d_kr d) nonce c with
    | None => (d', RoDecryptionError, [])
    | Some (PRequest id) => (d', RoRequest id, [])
    | Some PNotCbor =>
      let '(d'', em) := dev_finalize (set_state d' (Signing (empty_prepared status_cbor_decoding))) in
      (d'', RoEmpty, em)
    | Some _ =>
      let '(d'', em) := dev_finalize (set_state d' (Signing (empty_prepared status_cbor_validation))) in
      (d'', RoEmpty, em)
    end
  end.

(* SessionManager::prepare_response: whatever the state was, it becomes Signing *)
Definition dev_prepare (d : dev) (docs : list pdoc) (doc_errors : N) : dev * list emission :=
  dev_finalize
    (set_state d (Signing {| pr_prepared := docs; pr_signed := []; pr_doc_errors := doc_errors; pr_status := status_ok |})).

Definition dev_next_payload (d : dev) : option pdoc :=
  match d_state d with
  | Signing p => last_opt (pr_prepared p)
  | _ => None
  end.

Definition dev_submit (d : dev) (sg : bytes) : dev * list emission :=
  match d_state d with
  | Signing p =>
    let p' := match pop_last (pr_prepared p) with
              | Some (rest, (id, _)) =>
                {| pr_prepared := rest; pr_signed := pr_signed p ++ [(id, sg)];
                   pr_doc_errors := pr_doc_errors p; pr_status := pr_status p |}
              | None => p
              end in
    dev_finalize (set_state d (Signing p'))
  | _ => (d, [])
  end.

Definition dev_ready (d : dev) : bool :=
  match d_state d with Ready _ => true | _ => false end.

Definition dev_retrieve (d : dev) : dev * option wire :=
  match d_state d with
  | Ready m => (set_state d Awaiting, Some m)
  | _ => (d, None)
  end.

(* ---------- reader ---------- *)

Record rdr := {
  r_kr : N;
  r_kd : N;
  r_send : N;                    (* reader_message_counter *)
  r_recv : N                     (* device_message_counter *)
}.

Inductive resp_out :=
| RsDecodeError                (* outer decode failed *)
| RsHolderError                (* no data *)
| RsDecryptionError
| RsPlainDecodeError           (* decrypted but not a DeviceResponse *)
| RsResponse (r : response).

Definition rdr_new_request (r : rdr) (id : N) : rdr * wire * list emission :=
  let '(ctr, nonce) := next_iv Reader (r_send r) in
  ({| r_kr := r_kr r; r_kd := r_kd r; r_send := ctr; r_recv := r_recv r |},
   WData (Enc (r_kr r) nonce (PRequest id)),
   [{| em_role := Reader; em_key := r_kr r; em_iv := nonce; em_plain := PRequest id |}]).

Definition rdr_handle_response (r : rdr) (w : wire) : rdr * resp_out :=
  match w with
  | WGarbage => (r, RsDecodeError)
  | WNoData => (r, RsHolderError)
  | WData c =>
    let '(ctr, nonce) := next_iv Device (r_recv r) in
    let r' := {| r_kr := r_kr r; r_kd := r_kd r; r_send := r_send r; r_recv := ctr |} in
    match decrypt (r_kd r) nonce c with
    | None => (r', RsDecryptionError)
    | Some (PResponse x) => (r', RsResponse x)
    | Some _ => (r', RsPlainDecodeError)
    end
  end.

(* ---------- the two-party system and its operation language ---------- *)

Record sys := { s_dev : dev; s_rdr : rdr }.

Inductive op :=
| ONewRequest (id : N)                 (* reader.new_request / the request inside establish_session *)
| OHandleRequest (w : wire)            (* device.handle_request / process_session_establishment *)
| OPrepare (docs : list pdoc) (errs : N)
| ONextPayload
| OSubmit (sg : bytes)
| OReady
| ORetrieve
| OHandleResponse (w : wire)           (* reader.handle_response *)
| ORestoreDevice                       (* device := parse (stringify device) *)
| ORestoreReader.

Inductive out :=
| OutWire (w : wire)
| OutReq (o : req_out)
| OutResp (o : resp_out)
| OutPayload (p : option pdoc)
| OutBool (b : bool)
| OutRetrieved (w : option wire)
| OutUnit.

Definition step (s : sys) (o : op) : sys * out * list emission :=
  match o with
  | ONewRequest id =>
    let '(r', w, em) := rdr_new_request (s_rdr s) id in
    ({| s_dev := s_dev s; s_rdr := r' |}, OutWire w, em)
  | OHandleRequest w =>
    let '(d', ro, em) := dev_handle_request (s_dev s) w in
    ({| s_dev := d'; s_rdr := s_rdr s |}, OutReq ro, em)
  | OPrepare docs errs =>
    let '(d', em) := dev_prepare (s_dev s) docs errs in
    ({| s_dev := d'; s_rdr := s_rdr s |}, OutUnit, em)
  | ONextPayload => (s, OutPayload (dev_next_payload (s_dev s)), [])
  | OSubmit sg =>
    let '(d', em) := dev_submit (s_dev s) sg in
    ({| s_dev := d'; s_rdr := s_rdr s |}, OutUnit, em)
  | OReady => (s, OutBool (dev_ready (s_dev s)), [])
  | ORetrieve =>
    let '(d', w) := dev_retrieve (s_dev s) in
    ({| s_dev := d'; s_rdr := s_rdr s |}, OutRetrieved w, [])
  | OHandleResponse w =>
    let '(r', ro) := rdr_handle_response (s_rdr s) w in
    ({| s_dev := s_dev s; s_rdr := r' |}, OutResp ro, [])
  | ORestoreDevice => (s, OutUnit, [])
  | ORestoreReader => (s, OutUnit, [])
  end.

Fixpoint run (ops : list op) (s : sys) : sys * list out * list emission :=
  match ops with
  | [] => (s, [], [])
  | o :: rest =>
    let '(s', x, em) := step s o in
    let '(s'', xs, ems) := run rest s' in
    (s'', x :: xs, em ++ ems)
  end.

Definition fresh (kr kd : N) : sys :=
  {| s_dev := {| d_kr := kr; d_kd := kd; d_send := 0; d_recv := 0; d_state := Awaiting |};
     s_rdr := {| r_kr := kr; r_kd := kd; r_send := 0; r_recv := 0 |} |}.
