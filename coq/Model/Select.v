(* C02: presentation::device::{filter_permitted, DeviceSession::prepare_response} — which issuer-signed
   items go into a response, which element / document errors are listed.  Items are an abstract
   type: the code can only move them.  BTreeMaps are association lists looked up by first match
   (the harness supplies them with unique, sorted keys).  Executable definitions only. *)
From Isomdl Require Import Lib.Bytes.
Open Scope N_scope.

Definition key := bytes.

Fixpoint aget {V} (k : key) (l : list (key * V)) : option V :=
  match l with
  | [] => None
  | (k', v) :: r => if bytes_eqb k k' then Some v else aget k r
  end.

Definition mem (k : key) (l : list key) : bool := existsb (bytes_eqb k) l.

(* Vec<ItemsRequest>: (docType, namespace -> requested identifiers) *)
Definition request := list (key * list (key * list key)).
(* BTreeMap<DocType, BTreeMap<Namespace, Vec<ElementIdentifier>>> *)
Definition permitted := list (key * list (key * list key)).

(* all entries of the request that name docType dt (a request may name it more than once) *)
Definition entries_of (dt : key) (req : request) : list (list (key * list key)) :=
  map snd (filter (fun e => bytes_eqb (fst e) dt) req).

(* the element lists requested under namespace ns by those entries *)
Definition req_elems_of (ns : key) (entries : list (list (key * list key))) : list (list key) :=
  flat_map (fun nss => match aget ns nss with Some ids => [ids] | None => [] end) entries.

Definition filter_ns (entries : list (list (key * list key))) (nss : list (key * list key)) : list (key * list key) :=
  flat_map (fun ne => let '(ns, elems) := ne in
                      match req_elems_of ns entries with
                      | [] => []
                      | res => [(ns, filter (fun e => existsb (mem e) res) elems)]
                      end) nss.

Definition filter_permitted (req : request) (perm : permitted) : permitted :=
  flat_map (fun dn => let '(dt, nss) := dn in
                      match entries_of dt req with
                      | [] => []
                      | es => [(dt, filter_ns es nss)]
                      end) perm.

Section Prepare.
  Context {A : Type}.

  Record document := {
    d_can_sign : bool;                                  (* device key has a signature algorithm *)
    d_ns : list (key * list (key * A))                  (* namespace -> identifier -> issuer-signed item *)
  }.

  Record prepared_doc := {
    pd_doc_type : key;
    pd_disclosed : list (key * list A);                 (* namespace -> items, only namespaces with >= 1 item *)
    pd_errors : list (key * list key)                   (* namespace -> identifiers listed DataNotReturned *)
  }.

  Record selection := {
    sel_docs : list prepared_doc;
    sel_doc_errors : list key                           (* docTypes listed DataNotReturned *)
  }.

  Definition pick (items : list (key * A)) (elems : list key) : list A :=
    flat_map (fun id => match aget id items with Some it => [it] | None => [] end) elems.
  Definition missing (items : list (key * A)) (elems : list key) : list key :=
    filter (fun id => match aget id items with Some _ => false | None => true end) elems.

  Definition select_doc (d : document) (dt : key) (nss : list (key * list key)) : prepared_doc :=
    {| pd_doc_type := dt;
       pd_disclosed :=
         flat_map (fun ne => let '(ns, elems) := ne in
                             match aget ns (d_ns d) with
                             | Some items => match pick items elems with [] => [] | l => [(ns, l)] end
                             | None => []
                             end) nss;
       pd_errors :=
         flat_map (fun ne => let '(ns, elems) := ne in
                             let miss := match aget ns (d_ns d) with
                                         | Some items => missing items elems
                                         | None => elems
                                         end in
                             match miss with [] => [] | l => [(ns, l)] end) nss |}.

  Fixpoint select_all (docs : list (key * document)) (filtered : permitted) : selection :=
    match filtered with
    | [] => {| sel_docs := []; sel_doc_errors := [] |}
    | (dt, nss) :: rest =>
      let r := select_all docs rest in
      match aget dt docs with
      | None => {| sel_docs := sel_docs r; sel_doc_errors := dt :: sel_doc_errors r |}
      | Some d =>
        if d_can_sign d
        then {| sel_docs := select_doc d dt nss :: sel_docs r; sel_doc_errors := sel_doc_errors r |}
        else {| sel_docs := sel_docs r; sel_doc_errors := dt :: sel_doc_errors r |}
      end
    end.

  Definition prepare_response (docs : list (key * document)) (req : request) (perm : permitted) : selection :=
    select_all docs (filter_permitted req perm).
End Prepare.
Arguments document A : clear implicits.
Arguments prepared_doc A : clear implicits.
Arguments selection A : clear implicits.
