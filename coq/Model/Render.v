(* C01: reader::{parse_response, parse_namespaces} — how disclosed element values are rendered in
   the reader's outcome (a JSON-like tree, here as cbor: objects are CMap with text keys sorted
   byte-lexicographically as serde_json's BTreeMap-backed Map does).  Executable definitions only. *)
From Isomdl Require Import Lib.Bytes Lib.Cbor Model.Select.
Open Scope N_scope.

(* insert / overwrite in a key-sorted association list (serde_json::Map::insert) *)
Fixpoint obj_insert (k : bytes) (v : cbor) (l : list (bytes * cbor)) : list (bytes * cbor) :=
  match l with
  | [] => [(k, v)]
  | (k', v') :: r =>
    if bytes_eqb k k' then (k, v) :: r
    else if bytes_ltb k k' then (k, v) :: l
    else (k', v') :: obj_insert k v r
  end.

Definition obj_to_cbor (l : list (bytes * cbor)) : cbor := CMap (map (fun kv => (CText (fst kv), snd kv)) l).

(* parse_response: None = Err(ParsingError) *)
Fixpoint render (v : cbor) : option cbor :=
  match v with
  | CText s => Some (CText s)
  | CTag _ (CText s) => Some (CText s)
  | CTag _ _ => None
  | CArray l =>
    option_map CArray
      ((fix go (l : list cbor) : option (list cbor) :=
          match l with
          | [] => Some []
          | x :: r => match render x, go r with Some x', Some r' => Some (x' :: r') | _, _ => None end
          end) l)
  | CMap kvs =>
    option_map obj_to_cbor
      ((fix go (kvs : list (cbor * cbor)) (acc : list (bytes * cbor)) : option (list (bytes * cbor)) :=
          match kvs with
          | [] => Some acc
          | (CText k, x) :: r => match render x with Some x' => go r (obj_insert k x' acc) | None => None end
          | (_, _) :: r => go r acc            (* entries whose key is not text are skipped *)
          end) kvs [])
  | CBytes b => Some (CArray (map CUInt b))
  | CBool b => Some (CBool b)
  | CUInt n => Some (CUInt n)
  | CNInt n => Some (CNInt n)
  | CNull | CFloat _ _ => None
  end.

Definition ns_core : bytes := bytes_of_string "org.iso.18013.5.1"%string.
Definition ns_aamva : bytes := bytes_of_string "org.iso.18013.5.1.aamva"%string.

(* one namespace: elements whose value renders, later identifiers overwriting earlier ones *)
Definition render_namespace (items : list (bytes * cbor)) : cbor :=
  obj_to_cbor (fold_left (fun acc it => match render (snd it) with Some v => obj_insert (fst it) v acc | None => acc end) items []).

(* parse_namespaces over the disclosed namespaces of the mDL document; None = the error cases
   (no namespaces at all / the core namespace missing) *)
Definition reported (nss : list (bytes * list (bytes * cbor))) : option cbor :=
  match aget ns_core nss with
  | None => None
  | Some core =>
    Some (obj_to_cbor
            ((ns_core, render_namespace core) ::
             match aget ns_aamva nss with
             | Some a => [(ns_aamva, render_namespace a)]
             | None => []
             end))
  end.
