(* C08: session key and BLE ident derivation (definitions::session::{get_shared_secret,
   derive_session_key}, presentation::calculate_ble_ident) and the COSE key -> SEC1 point
   conversion in front of ECDH.  Labels and lengths come from the generated constants.
   Executable definitions only. *)
From Isomdl Require Import Lib.Bytes Lib.Cbor Lib.Sha2 Lib.Hkdf Gen.Constants.
Open Scope N_scope.

(* SessionTranscript = [DeviceEngagementBytes, EReaderKeyBytes, Handover]; the first two are the
   tag-24 wrapped bytes exactly as exchanged *)
Definition transcript_cbor (de_bytes erk_bytes : bytes) (handover : cbor) : cbor :=
  CArray [tag24 de_bytes; tag24 erk_bytes; handover].

(* Tag24::new(transcript).inner_bytes *)
Definition transcript_bytes (de_bytes erk_bytes : bytes) (handover : cbor) : bytes :=
  encode (transcript_cbor de_bytes erk_bytes handover).

(* cbor::to_vec(&Tag24<..>) = #6.24(bstr inner) *)
Definition tag24_wrap (inner : bytes) : bytes := encode (tag24 inner).

(* derive_session_key: salt = SHA-256(SessionTranscriptBytes), IKM = Z_AB, info by role *)
Definition session_key (zab : bytes) (transcript_inner : bytes) (reader : bool) : bytes :=
  hkdf_sha256 (sha256 (tag24_wrap transcript_inner)) zab
              (if reader then hkdf_info_sk_reader else hkdf_info_sk_device) session_key_len.

(* calculate_ble_ident: IKM = cbor::to_vec(&Tag24<CoseKey>) = EDeviceKeyBytes, no salt *)
Definition ble_ident (e_device_key_inner : bytes) : bytes :=
  hkdf_sha256 [] (tag24_wrap e_device_key_inner) hkdf_info_ble_ident ble_ident_len.

(* ---------- CoseKey -> EncodedPoint<NistP256> -> PublicKey ---------- *)

Inductive ec2y := YValue (b : bytes) | YSign (s : bool).
Inductive cose_key :=
| EC2 (crv : N) (x : bytes) (y : ec2y)      (* crv: 1 P-256, 2 P-384, 3 P-521, 8 secp256k1 *)
| OKP (crv : N) (x : bytes).

Inductive kres (A : Type) := KOk (a : A) | KErr | KPanic.
Arguments KOk {A} a.
Arguments KErr {A}.
Arguments KPanic {A}.

(* TryFrom<CoseKey> for EncodedPoint: SEC1 bytes of the point.  Coordinates of the wrong length and
   OKP keys are refused (the two GenericArray::from_slice sites are guarded by length checks) *)
Definition encoded_point (k : cose_key) : kres bytes :=
  match k with
  | EC2 1 x (YValue y) =>
    if negb (Nat.eqb (length x) 32) then KErr
    else if negb (Nat.eqb (length y) 32) then KErr
    else KOk (4 :: x ++ y)
  | EC2 1 x (YSign s) =>
    if negb (Nat.eqb (length x) 32) then KErr else KOk ((if s then 3 else 2) :: x)
  | EC2 _ _ _ => KErr
  | OKP _ _ => KErr
  end.

(* get_shared_secret: conversion, then PublicKey::from_encoded_point (point validation is an
   oracle), then ECDH (an oracle) *)
Definition shared_secret (valid_point : bytes -> bool) (dh : bytes -> bytes) (k : cose_key) : kres bytes :=
  match encoded_point k with
  | KOk pt => if valid_point pt then KOk (dh pt) else KErr
  | KErr => KErr
  | KPanic => KPanic
  end.
