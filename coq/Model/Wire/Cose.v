(* Cose.v — cose.rs MaybeTagged<CoseSign1> / MaybeTagged<CoseMac0> as seen by C16.
   The COSE structures themselves belong to coset (and to property C17); for C16 they are an
   opaque component: every wire type that embeds one is modelled over an abstract codec with its
   own assumed round trip (Section variables in the files that use it).  For running the model a
   shallow instance is provided: the value is its own CBOR, accepted when it has the outer shape
   coset requires — [ bstr, map, bstr / nil, bstr ], optionally under the type's tag (18 / 17);
   another tag is refused ("unexpected tag").  The shallow instance round-trips (WireProofs). *)
From Isomdl Require Import Lib.Bytes Lib.Cbor Lib.Serde.
Open Scope N_scope.

Definition cose_body_ok (v : cbor) : bool :=
  match v with
  | CArray [CBytes _; CMap _; CBytes _; CBytes _] => true
  | CArray [CBytes _; CMap _; CNull; CBytes _] => true
  | _ => false
  end.
Definition cose_shape_ok (tag : N) (v : cbor) : bool :=
  match v with
  | CTag t x => (t =? tag) && cose_body_ok x
  | _ => cose_body_ok v
  end.
Definition c_cose_shallow (tag : N) : codec cbor :=
  Codec (fun v => v) (fun v => if cose_shape_ok tag v then Some v else None).
Definition c_sign1_shallow : codec cbor := c_cose_shallow 18.
Definition c_mac0_shallow : codec cbor := c_cose_shallow 17.
Definition cose_shallow_P (tag : N) (v : cbor) : Prop := wf v = true /\ cose_shape_ok tag v = true.
