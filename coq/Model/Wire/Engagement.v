(* Engagement.v — device_engagement.rs and nfc_options.rs: DeviceEngagement, Security,
   DeviceRetrievalMethod (BLE / NFC / Wi-Fi options), ServerRetrievalMethods.  All of these use
   hand-written From / TryFrom<ciborium::Value> conversions over integer-keyed maps, except
   ServerRetrievalMethods (derived Deserialize, read with cbor::from_value, i.e. out of a Value). *)
From Isomdl Require Import Lib.Bytes Lib.Cbor Lib.Serde Model.Wire.Tables Model.Wire.CoseKey.
From Coq Require Import ZArith String.
Open Scope Z_scope.

Record ble_options := BleOptions {
  ble_peripheral : option (bytes * option bytes);   (* uuid (16 bytes), BLE device address *)
  ble_central : option bytes                        (* uuid (16 bytes) *)
}.
Record wifi_options := WifiOptions {
  wifi_pass_phrase : option bytes;
  wifi_operating_class : option N;
  wifi_channel_number : option N;
  wifi_band_info : option bytes
}.
Record nfc_options := NfcOptions { nfc_max_command : N; nfc_max_response : N }.

Inductive retrieval_method := RWifi (o : wifi_options) | RBle (o : ble_options) | RNfc (o : nfc_options).

Definition token := (N * bytes * bytes)%type.      (* (u64, String, String) *)
Record server_methods := ServerMethods { srm_web_api : option token; srm_oidc : option token }.

Record security := Security { sec_cipher_suite : N; sec_key : tag24 cose_key }.

Record device_engagement := DeviceEngagement {
  de_version : bytes;
  de_security : security;
  de_methods : option (list retrieval_method);
  de_server : option server_methods;
  de_protocol_info : option cbor
}.

Definition opt_entry (k : cbor) (o : option cbor) : list (cbor * cbor) :=
  match o with Some v => [(k, v)] | None => [] end.

(* ---- BleOptions ---- *)
Definition ble_to_cbor (o : ble_options) : cbor :=
  CMap ((match ble_central o with
         | Some uuid => [(CUInt 1, CBool true); (CUInt 11, CBytes uuid)]
         | None => [(CUInt 1, CBool false)]
         end) ++
        (match ble_peripheral o with
         | Some (uuid, addr) =>
           [(CUInt 0, CBool true); (CUInt 10, CBytes uuid)] ++ opt_entry (CUInt 20) (option_map CBytes addr)
         | None => [(CUInt 0, CBool false)]
         end)).

Definition uuid_ok (b : bytes) : bool := Nat.eqb (List.length b) 16.

Definition ble_of_cbor (v : cbor) : option ble_options :=
  match v with
  | CMap kvs =>
    m <-? int_map kvs ;;
    central <-? match zm_get 1 m, zm_get 11 m with
                | Some (CBool true), Some (CBytes u) => if uuid_ok u then Some (Some u) else None
                | Some (CBool false), _ => Some None
                | _, _ => None
                end ;;
    peripheral <-? match zm_get 0 m, zm_get 10 m with
                   | Some (CBool true), Some (CBytes u) =>
                     if uuid_ok u then
                       match zm_get 20 m with
                       | Some (CBytes a) => Some (Some (u, Some a))
                       | Some _ => None
                       | None => Some (Some (u, None))
                       end
                     else None
                   | Some (CBool false), _ => Some None
                   | _, _ => None
                   end ;;
    Some (BleOptions peripheral central)
  | _ => None
  end.

(* ---- WifiOptions ---- *)
Definition wifi_to_cbor (o : wifi_options) : cbor :=
  CMap (opt_entry (CUInt 0) (option_map CText (wifi_pass_phrase o)) ++
        opt_entry (CUInt 1) (option_map CUInt (wifi_operating_class o)) ++
        opt_entry (CUInt 2) (option_map CUInt (wifi_channel_number o)) ++
        opt_entry (CUInt 3) (option_map CBytes (wifi_band_info o))).

(* each lookup: absent => None; present with the right type => Some; anything else is an error *)
Definition wifi_text (o : option cbor) : option (option bytes) :=
  match o with None => Some None | Some (CText t) => Some (Some t) | Some _ => None end.
Definition wifi_u64 (o : option cbor) : option (option N) :=
  match o with None => Some None | Some (CUInt n) => Some (Some n) | Some _ => None end.
Definition wifi_bytes (o : option cbor) : option (option bytes) :=
  match o with None => Some None | Some (CBytes b) => Some (Some b) | Some _ => None end.

Definition wifi_of_cbor (v : cbor) : option wifi_options :=
  match v with
  | CMap kvs =>
    m <-? int_map kvs ;;
    p <-? wifi_text (zm_get 0 m) ;; c <-? wifi_u64 (zm_get 1 m) ;;
    n <-? wifi_u64 (zm_get 2 m) ;; b <-? wifi_bytes (zm_get 3 m) ;;
    Some (WifiOptions p c n b)
  | _ => None
  end.

Section WithTables.
  Variable tb : tables.

  (* ---- NfcOptions: command u16 >= MIN (<= MAX by its width); response u32 within MIN .. MAX ---- *)
  Definition nfc_to_cbor (o : nfc_options) : cbor :=
    CMap [(CUInt 0, CUInt (nfc_max_command o)); (CUInt 1, CUInt (nfc_max_response o))].
  Definition nfc_of_cbor (v : cbor) : option nfc_options :=
    match v with
    | CMap kvs =>
      m <-? int_map kvs ;;
      c <-? match zm_get 0 m with
            | Some (CUInt n) => if (Z.of_N n <? 65536) && (tb_nfc_command_min tb <=? Z.of_N n) then Some n else None
            | _ => None
            end ;;
      r <-? match zm_get 1 m with
            | Some (CUInt n) => if (Z.of_N n <? 4294967296) && (tb_nfc_response_min tb <=? Z.of_N n) && (Z.of_N n <=? tb_nfc_response_max tb) then Some n else None
            | _ => None
            end ;;
      Some (NfcOptions c r)
    | _ => None
    end.

  (* ---- DeviceRetrievalMethod: [type, version, options] ---- *)
  Definition method_transport (m : retrieval_method) : transport :=
    match m with RNfc _ => TNfc | RBle _ => TBle | RWifi _ => TWifi end.
  Definition method_to_cbor (m : retrieval_method) : cbor :=
    CArray [int_to_cbor (transport_code tb (method_transport m)); int_to_cbor (tb_transport_version tb);
            match m with RNfc o => nfc_to_cbor o | RBle o => ble_to_cbor o | RWifi o => wifi_to_cbor o end].
  Definition method_of_cbor (v : cbor) : option retrieval_method :=
    match v with
    | CArray [t; ver; opts] =>
      t' <-? int_of_cbor t ;; ver' <-? int_of_cbor ver ;;
      tr <-? transport_of_code tb t' ver' ;;
      match tr with
      | TNfc => option_map RNfc (nfc_of_cbor opts)
      | TBle => option_map RBle (ble_of_cbor opts)
      | TWifi => option_map RWifi (wifi_of_cbor opts)
      end
    | _ => None
    end.
  Definition c_method : codec retrieval_method := Codec method_to_cbor method_of_cbor.

  (* ---- ServerRetrievalMethods: derived, rename_all = camelCase, read out of a Value ---- *)
  Definition c_token : codec token := c_tuple3 (c_uint_v two64) c_text c_text.
  Definition token_P : token -> Prop := tuple3_P (uint_P two64) text_ok text_ok.
  Definition server_fields : fields (option token * (option token * unit)) :=
    FOpt (bytes_of_string "webApi") c_token token_P
   (FOpt (bytes_of_string "oidc") c_token token_P FNil).
  Definition server_tuple (s : server_methods) := (srm_web_api s, (srm_oidc s, tt)).
  Definition server_untuple (t : option token * (option token * unit)) := ServerMethods (fst t) (fst (snd t)).
  Definition c_server : codec server_methods := c_iso server_tuple server_untuple (c_struct false server_fields).

  (* ---- Security(u64, Tag24<CoseKey>): tuple struct, read out of a Value ---- *)
  Definition security_tuple (s : security) := (sec_cipher_suite s, sec_key s).
  Definition security_untuple (t : N * tag24 cose_key) := Security (fst t) (snd t).
  Definition c_security : codec security :=
    c_iso security_tuple security_untuple (c_tuple2 (c_uint_v two64) (c_tag24 (c_cose_key tb))).

  (* ---- DeviceEngagement: { 0: version, 1: security, 2: methods, 3: server methods, 4: protocol info };
     key 4 (RFU) is carried unchanged: whatever Value the map holds under 4 (null included) is stored
     and written back last (fix 7fcb6ed) ---- *)
  Definition version_bytes : bytes := bytes_of_string (tb_engagement_version tb).
  Definition engagement_to_cbor (e : device_engagement) : cbor :=
    CMap ([(CUInt 0, CText (de_version e)); (CUInt 1, enc c_security (de_security e))]
          ++ opt_entry (CUInt 2) (option_map (enc (c_nelist c_method)) (de_methods e))
          ++ opt_entry (CUInt 3) (option_map (enc c_server) (de_server e))
          ++ opt_entry (CUInt 4) (de_protocol_info e)).

  Definition opt_dec {T} (c : codec T) (o : option cbor) : option (option T) :=
    match o with None => Some None | Some v => option_map Some (dec c v) end.

  Definition engagement_of_cbor (v : cbor) : option device_engagement :=
    match v with
    | CMap kvs =>
      m <-? int_map kvs ;;
      match zm_get 0 m with
      | Some (CText ver) =>
        if bytes_eqb ver version_bytes then
          sv <-? zm_get 1 m ;; sec <-? dec c_security sv ;;
          methods <-? opt_dec (c_nelist c_method) (zm_get 2 m) ;;
          server <-? opt_dec c_server (zm_get 3 m) ;;
          Some (DeviceEngagement version_bytes sec methods server (zm_get 4 m))
        else None
      | _ => None
      end
    | _ => None
    end.
  Definition c_engagement : codec device_engagement := Codec engagement_to_cbor engagement_of_cbor.

  (* ---- documented domains ---- *)
  Definition ble_wf (o : ble_options) : Prop :=
    opt_P (fun u => bytes_ok u /\ List.length u = 16%nat) (ble_central o) /\
    opt_P (fun p => (bytes_ok (fst p) /\ List.length (fst p) = 16%nat) /\ opt_P bytes_ok (snd p)) (ble_peripheral o).
  Definition wifi_wf (o : wifi_options) : Prop :=
    opt_P text_ok (wifi_pass_phrase o) /\ opt_P (uint_P two64) (wifi_operating_class o) /\
    opt_P (uint_P two64) (wifi_channel_number o) /\ opt_P bytes_ok (wifi_band_info o).
  (* ISO 18013-5 8.3.3.1.2 note 2: command 255..65535, response 256..65536 *)
  Definition nfc_wf (o : nfc_options) : Prop :=
    tb_nfc_command_min tb <= Z.of_N (nfc_max_command o) <= tb_nfc_command_max tb /\
    tb_nfc_response_min tb <= Z.of_N (nfc_max_response o) <= tb_nfc_response_max tb.
  Definition method_wf (m : retrieval_method) : Prop :=
    match m with RNfc o => nfc_wf o | RBle o => ble_wf o | RWifi o => wifi_wf o end.
  Definition server_wf (s : server_methods) : Prop := opt_P token_P (srm_web_api s) /\ opt_P token_P (srm_oidc s).
  Definition security_wf (s : security) : Prop :=
    uint_P two64 (sec_cipher_suite s) /\ tag24_P (c_cose_key tb) (sec_key s).
  (* protocol_info is RFU: any well-formed CBOR value *)
  Definition engagement_wf (e : device_engagement) : Prop :=
    de_version e = version_bytes /\ security_wf (de_security e) /\ opt_P (ne_P method_wf) (de_methods e) /\
    opt_P server_wf (de_server e) /\ opt_P value_ok (de_protocol_info e).
End WithTables.
