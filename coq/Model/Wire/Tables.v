(* Tables.v — the code / status / curve / name tables of the wire types, as a record so that the
   same codec can be run with the tables copied from the source (Gen/WireTables.v, [gen_tables])
   and with the tables written from ISO 18013-5 / RFC 8152 / RFC 7518 (Spec/WireSpec.v).
   Enumerations are Coq inductives; the link to a table row is the Rust variant name. *)
From Isomdl Require Import Lib.Bytes Lib.Cbor Lib.Serde Gen.WireTables.
From Coq Require Import ZArith String.
Open Scope Z_scope.

Record tables := Tables {
  tb_session_status_to : list (string * Z);   tb_session_status_of : list (Z * string);
  tb_response_status_to : list (string * Z);  tb_response_status_of : list (Z * string);
  tb_doc_error_to : list (string * Z);        tb_doc_error_of : list (Z * string);
  tb_ec2_to : list (string * Z);              tb_ec2_of : list (Z * string);
  tb_okp_to : list (string * Z);              tb_okp_of : list (Z * string);
  tb_ec2_jwk_to : list (string * string);     tb_ec2_jwk_of : list (string * string);
  tb_okp_jwk_to : list (string * string);     tb_okp_jwk_of : list (string * string);
  tb_transport_to : list (string * Z);        tb_transport_of : list (Z * Z * string);
  tb_transport_version : Z;
  tb_engagement_version : string;
  tb_digest_alg : list (string * string);
  tb_device_auth : list (string * string);
  tb_handover_order : list string;
  tb_nfc_command_min : Z;  tb_nfc_command_max : Z;
  tb_nfc_response_min : Z; tb_nfc_response_max : Z
}.

Definition gen_tables : tables := {|
  tb_session_status_to := session_status_to;   tb_session_status_of := session_status_of;
  tb_response_status_to := response_status_to; tb_response_status_of := response_status_of;
  tb_doc_error_to := doc_error_to;             tb_doc_error_of := doc_error_of;
  tb_ec2_to := ec2_curve_to;                   tb_ec2_of := ec2_curve_of;
  tb_okp_to := okp_curve_to;                   tb_okp_of := okp_curve_of;
  tb_ec2_jwk_to := ec2_jwk_to;                 tb_ec2_jwk_of := ec2_jwk_of;
  tb_okp_jwk_to := okp_jwk_to;                 tb_okp_jwk_of := okp_jwk_of;
  tb_transport_to := transport_type_to;        tb_transport_of := transport_type_of;
  tb_transport_version := retrieval_method_version;
  tb_engagement_version := engagement_version;
  tb_digest_alg := digest_algorithm_names;
  tb_device_auth := device_auth_names;
  tb_handover_order := handover_variant_order;
  tb_nfc_command_min := nfc_command_min;   tb_nfc_command_max := nfc_command_max;
  tb_nfc_response_min := nfc_response_min; tb_nfc_response_max := nfc_response_max
|}.

(* ---- lookups ---- *)
Fixpoint s_assoc {V} (k : string) (l : list (string * V)) : option V :=
  match l with [] => None | (k', v) :: r => if String.eqb k k' then Some v else s_assoc k r end.
Fixpoint z_assoc {V} (k : Z) (l : list (Z * V)) : option V :=
  match l with [] => None | (k', v) :: r => if (k =? k') then Some v else z_assoc k r end.
Fixpoint by_name {T} (name : T -> string) (all : list T) (n : string) : option T :=
  match all with [] => None | x :: r => if String.eqb (name x) n then Some x else by_name name r n end.

(* `match x { Enum::V => code, .. }`; a missing row cannot happen in compiled Rust (-1 is never a code) *)
Definition enum_to {T} (name : T -> string) (tb : list (string * Z)) (x : T) : Z :=
  match s_assoc (name x) tb with Some z => z | None => -1 end.
(* `match n { code => Ok(Enum::V), .., _ => Err }` *)
Definition enum_of {T} (name : T -> string) (all : list T) (tb : list (Z * string)) (z : Z) : option T :=
  match z_assoc z tb with Some n => by_name name all n | None => None end.

(* ---- the enumerations ---- *)
Inductive session_status := SessionEncryptionError | SessionCborDecodingError | SessionTermination.
Definition session_status_name (s : session_status) : string :=
  match s with SessionEncryptionError => "SessionEncryptionError" | SessionCborDecodingError => "CborDecodingError"
             | SessionTermination => "SessionTermination" end.
Definition all_session_status := [SessionEncryptionError; SessionCborDecodingError; SessionTermination].

Inductive response_status := StatusOK | GeneralError | CborDecodingError | CborValidationError.
Definition response_status_name (s : response_status) : string :=
  match s with StatusOK => "OK" | GeneralError => "GeneralError" | CborDecodingError => "CborDecodingError"
             | CborValidationError => "CborValidationError" end.
Definition all_response_status := [StatusOK; GeneralError; CborDecodingError; CborValidationError].

Inductive doc_error_code := DataNotReturned | ApplicationSpecific (z : Z).

Inductive ec2_curve := P256 | P384 | P521 | P256K.
Definition ec2_curve_name (c : ec2_curve) : string :=
  match c with P256 => "P256" | P384 => "P384" | P521 => "P521" | P256K => "P256K" end.
Definition all_ec2 := [P256; P384; P521; P256K].
Inductive okp_curve := X25519 | X448 | Ed25519 | Ed448.
Definition okp_curve_name (c : okp_curve) : string :=
  match c with X25519 => "X25519" | X448 => "X448" | Ed25519 => "Ed25519" | Ed448 => "Ed448" end.
Definition all_okp := [X25519; X448; Ed25519; Ed448].

Inductive digest_alg := SHA256 | SHA384 | SHA512.
Definition digest_alg_name (a : digest_alg) : string :=
  match a with SHA256 => "SHA256" | SHA384 => "SHA384" | SHA512 => "SHA512" end.
Definition all_digest_alg := [SHA256; SHA384; SHA512].

Inductive transport := TNfc | TBle | TWifi.
Definition transport_name (t : transport) : string := match t with TNfc => "NFC" | TBle => "BLE" | TWifi => "WIFI" end.
Definition all_transport := [TNfc; TBle; TWifi].

Section WithTables.
  Variable tb : tables.

  (* `try_from = "u64", into = "u64"` *)
  Definition session_status_code (s : session_status) : N := Z.to_N (enum_to session_status_name (tb_session_status_to tb) s).
  Definition session_status_of_code (n : N) : option session_status :=
    enum_of session_status_name all_session_status (tb_session_status_of tb) (Z.of_N n).
  Definition c_session_status : codec session_status := c_code_enum session_status_code session_status_of_code.

  Definition response_status_code (s : response_status) : N := Z.to_N (enum_to response_status_name (tb_response_status_to tb) s).
  Definition response_status_of_code (n : N) : option response_status :=
    enum_of response_status_name all_response_status (tb_response_status_of tb) (Z.of_N n).
  Definition c_response_status : codec response_status := c_code_enum response_status_code response_status_of_code.

  (* DocumentErrorCode: `try_from = "i128", into = "i128"`; 0 => DataNotReturned, i < 0 => ApplicationSpecific(i) *)
  Definition doc_error_to_i128 (c : doc_error_code) : Z :=
    match c with
    | DataNotReturned => match s_assoc "DataNotReturned"%string (tb_doc_error_to tb) with Some z => z | None => -1 end
    | ApplicationSpecific z => z
    end.
  Definition doc_error_of_i128 (z : Z) : option doc_error_code :=
    match z_assoc z (tb_doc_error_of tb) with
    | Some n => if String.eqb n "DataNotReturned" then Some DataNotReturned else None
    | None => if z <? 0 then Some (ApplicationSpecific z) else None
    end.
  Definition c_doc_error_code : codec doc_error_code :=
    Codec (fun c => i128_to_cbor (doc_error_to_i128 c)) (fun v => z <-? i128_of_cbor v ;; doc_error_of_i128 z).

  Definition ec2_code (c : ec2_curve) : Z := enum_to ec2_curve_name (tb_ec2_to tb) c.
  Definition ec2_of_code (z : Z) : option ec2_curve := enum_of ec2_curve_name all_ec2 (tb_ec2_of tb) z.
  Definition okp_code (c : okp_curve) : Z := enum_to okp_curve_name (tb_okp_to tb) c.
  Definition okp_of_code (z : Z) : option okp_curve := enum_of okp_curve_name all_okp (tb_okp_of tb) z.

  (* DigestAlgorithm: externally tagged unit variants with #[serde(rename)] *)
  Definition digest_alg_wire (a : digest_alg) : bytes :=
    match s_assoc (digest_alg_name a) (tb_digest_alg tb) with Some n => bytes_of_string n | None => [] end.
  Definition digest_alg_of_wire (n : bytes) : option digest_alg :=
    find (fun a => bytes_eqb (digest_alg_wire a) n) all_digest_alg.
  Definition c_digest_alg : codec digest_alg :=
    Codec (fun a => CText (digest_alg_wire a))
          (fun v => match untag v with CText n => digest_alg_of_wire n | _ => None end).

  Definition transport_code (t : transport) : Z := enum_to transport_name (tb_transport_to tb) t.
  Fixpoint transport_lookup (ty ver : Z) (l : list (Z * Z * string)) : option transport :=
    match l with
    | [] => None
    | (a, b, n) :: r => if (ty =? a) && (ver =? b) then by_name transport_name all_transport n else transport_lookup ty ver r
    end.
  Definition transport_of_code (ty ver : Z) : option transport := transport_lookup ty ver (tb_transport_of tb).
End WithTables.
