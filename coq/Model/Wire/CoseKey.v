(* CoseKey.v — device_key/cose_key.rs: COSE_Key restricted to EC2 / OKP, its hand-written
   conversions to and from ciborium::Value, and the JWK view. *)
From Isomdl Require Import Lib.Bytes Lib.Cbor Lib.Serde Model.Wire.Tables.
From Coq Require Import ZArith String.
Open Scope Z_scope.

Inductive ec2_y := YValue (b : bytes) | YSign (s : bool).
Inductive cose_key :=
| EC2 (crv : ec2_curve) (x : bytes) (y : ec2_y)
| OKP (crv : okp_curve) (x : bytes).

(* map.into_iter().map(|(k,v)| Ok((k.into_integer()?.into(), v))).collect::<BTreeMap<i128,_>>():
   every key must be an integer (no tag skipping: this is a ciborium::Value); a repeated key
   keeps the last value *)
Definition int_map (kvs : list (cbor * cbor)) : option (list (Z * cbor)) :=
  mapM (fun kv => k <-? int_of_cbor (fst kv) ;; Some (k, snd kv)) kvs.
Fixpoint zm_get (k : Z) (l : list (Z * cbor)) : option cbor :=
  match l with
  | [] => None
  | (k', v) :: r => match zm_get k r with
                    | Some x => Some x
                    | None => if k =? k' then Some v else None
                    end
  end.

Definition y_to_cbor (y : ec2_y) : cbor := match y with YValue b => CBytes b | YSign s => CBool s end.
Definition y_of_cbor (v : cbor) : option ec2_y :=
  match v with CBytes b => Some (YValue b) | CBool s => Some (YSign s) | _ => None end.

Section WithTables.
  Variable tb : tables.

  (* labels: kty = 1, crv = -1, x = -2, y = -3; kty values: OKP = 1, EC2 = 2 *)
  Definition cose_key_to_cbor (k : cose_key) : cbor :=
    match k with
    | EC2 crv x y =>
      CMap [(CUInt 1, CUInt 2); (CNInt 0, int_to_cbor (ec2_code tb crv)); (CNInt 1, CBytes x); (CNInt 2, y_to_cbor y)]
    | OKP crv x =>
      CMap [(CUInt 1, CUInt 1); (CNInt 0, int_to_cbor (okp_code tb crv)); (CNInt 1, CBytes x)]
    end.

  Definition cose_key_of_cbor (v : cbor) : option cose_key :=
    match v with
    | CMap kvs =>
      m <-? int_map kvs ;;
      match zm_get 1 m, zm_get (-1) m, zm_get (-2) m with
      | Some kty, Some crv, Some (CBytes x) =>
        k <-? int_of_cbor kty ;; c <-? int_of_cbor crv ;;
        if k =? 2 then
          crv' <-? ec2_of_code tb c ;;
          yv <-? zm_get (-3) m ;; y <-? y_of_cbor yv ;;
          Some (EC2 crv' x y)
        else if k =? 1 then
          crv' <-? okp_of_code tb c ;; Some (OKP crv' x)
        else None
      | _, _, _ => None
      end
    | _ => None
    end.

  Definition c_cose_key : codec cose_key := Codec cose_key_to_cbor cose_key_of_cbor.

  (* ---- JWK view (ssi_jwk::Params::EC / ::OKP; only the members isomdl reads or writes) ---- *)
  Inductive jwk :=
  | JwkEC (crv : option bytes) (x : option bytes) (y : option bytes)
  | JwkOKP (crv : bytes) (x : bytes)
  | JwkOther.

  Definition ec2_jwk_name (c : ec2_curve) : bytes :=
    match s_assoc (ec2_curve_name c) (tb_ec2_jwk_to tb) with Some n => bytes_of_string n | None => [] end.
  Definition okp_jwk_name (c : okp_curve) : bytes :=
    match s_assoc (okp_curve_name c) (tb_okp_jwk_to tb) with Some n => bytes_of_string n | None => [] end.
  Fixpoint jwk_lookup {T} (name : T -> string) (all : list T) (n : bytes) (l : list (string * string)) : option T :=
    match l with
    | [] => None
    | (jn, vn) :: r => if bytes_eqb n (bytes_of_string jn) then by_name name all vn else jwk_lookup name all n r
    end.

  (* impl TryFrom<CoseKey> for JWK: a sign-bit y is refused (UnsupportedFormat) *)
  Definition cose_to_jwk (k : cose_key) : option jwk :=
    match k with
    | EC2 crv x (YValue y) => Some (JwkEC (Some (ec2_jwk_name crv)) (Some x) (Some y))
    | EC2 _ _ (YSign _) => None
    | OKP crv x => Some (JwkOKP (okp_jwk_name crv) x)
    end.

  (* impl TryFrom<JWK> for CoseKey *)
  Definition jwk_to_cose (j : jwk) : option cose_key :=
    match j with
    | JwkEC crv x y =>
      x' <-? x ;; n <-? crv ;; c <-? jwk_lookup ec2_curve_name all_ec2 n (tb_ec2_jwk_of tb) ;;
      y' <-? y ;; Some (EC2 c x' (YValue y'))
    | JwkOKP crv x => c <-? jwk_lookup okp_curve_name all_okp crv (tb_okp_jwk_of tb) ;; Some (OKP c x)
    | JwkOther => None
    end.
End WithTables.

(* documented domain: coordinates are byte strings *)
Definition cose_key_wf (k : cose_key) : Prop :=
  match k with
  | EC2 _ x (YValue y) => wf_bytes x = true /\ wf_bytes y = true
  | EC2 _ x (YSign _) => wf_bytes x = true
  | OKP _ x => wf_bytes x = true
  end.
