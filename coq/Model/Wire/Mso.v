(* Mso.v — validity_info.rs, device_key/mod.rs, mso.rs: ValidityInfo (hand-written conversion,
   dates through Model/Wire/Time), KeyAuthorizations, DeviceKeyInfo, DigestIds, Mso. *)
From Isomdl Require Import Lib.Bytes Lib.Cbor Lib.Serde Model.Wire.Time Model.Wire.Tables Model.Wire.CoseKey.
From Coq Require Import ZArith String.
Open Scope N_scope.

(* ---------- ValidityInfo ---------- *)
Record validity_info := ValidityInfo {
  vi_signed : odt; vi_valid_from : odt; vi_valid_until : odt; vi_expected_update : option odt }.

Definition date_to_cbor (d : odt) : cbor := CTag 0 (CText (emit d)).
Definition date_of_cbor (v : cbor) : option odt :=
  match v with CTag 0 (CText s) => parse_rfc3339 s | _ => None end.

Definition n_signed := bytes_of_string "signed".
Definition n_valid_from := bytes_of_string "validFrom".
Definition n_valid_until := bytes_of_string "validUntil".
Definition n_expected_update := bytes_of_string "expectedUpdate".

Definition validity_to_cbor (v : validity_info) : cbor :=
  CMap ([(CText n_signed, date_to_cbor (vi_signed v)); (CText n_valid_from, date_to_cbor (vi_valid_from v));
         (CText n_valid_until, date_to_cbor (vi_valid_until v))]
        ++ match vi_expected_update v with Some d => [(CText n_expected_update, date_to_cbor d)] | None => [] end).

(* map.into_iter().map(|(k, v)| Ok((k.into_text()?, v))).collect::<BTreeMap<String, Value>>():
   every key must be a text string (a Value: no tag skipping); a repeated key keeps the last value *)
Definition text_map (kvs : list (cbor * cbor)) : option (list (bytes * cbor)) :=
  mapM (fun kv => match fst kv with CText k => Some (k, snd kv) | _ => None end) kvs.
Fixpoint tm_get (k : bytes) (l : list (bytes * cbor)) : option cbor :=
  match l with
  | [] => None
  | (k', v) :: r => match tm_get k r with
                    | Some x => Some x
                    | None => if bytes_eqb k k' then Some v else None
                    end
  end.

Definition validity_of_cbor (v : cbor) : option validity_info :=
  match v with
  | CMap kvs =>
    m <-? text_map kvs ;;
    s <-? (x <-? tm_get n_signed m ;; date_of_cbor x) ;;
    f <-? (x <-? tm_get n_valid_from m ;; date_of_cbor x) ;;
    u <-? (x <-? tm_get n_valid_until m ;; date_of_cbor x) ;;
    e <-? match tm_get n_expected_update m with
          | Some x => option_map Some (date_of_cbor x)
          | None => Some None
          end ;;
    Some (ValidityInfo s f u e)
  | _ => None
  end.
Definition c_validity_info : codec validity_info := Codec validity_to_cbor validity_of_cbor.

(* impl TryFrom<ValidityInfo> for ciborium::Value with its failure modes: the dates are converted in the
   order signed, validFrom, validUntil, expectedUpdate and the first `?` that fires aborts.  When none
   does, the result is [validity_to_cbor]. *)
Inductive encoded := EncOk (c : cbor) | EncErr (e : enc_error) | EncPanic.
Definition validity_dates (v : validity_info) : list odt :=
  [vi_signed v; vi_valid_from v; vi_valid_until v] ++ match vi_expected_update v with Some d => [d] | None => [] end.
Fixpoint first_failure (ds : list odt) : option emitted :=
  match ds with
  | [] => None
  | d :: r => match emit_checked d with Emitted _ => first_failure r | o => Some o end
  end.
Definition validity_encode (v : validity_info) : encoded :=
  match first_failure (validity_dates v) with
  | None => EncOk (validity_to_cbor v)
  | Some (EmitError e) => EncErr e
  | Some _ => EncPanic
  end.
Definition validity_encodable (v : validity_info) : bool := forallb emit_ok (validity_dates v).

(* what decode-after-encode gives: every date in UTC with the sub-second part dropped *)
Definition validity_norm (v : validity_info) : validity_info :=
  ValidityInfo (to_utc_trunc (vi_signed v)) (to_utc_trunc (vi_valid_from v)) (to_utc_trunc (vi_valid_until v))
               (option_map to_utc_trunc (vi_expected_update v)).

(* a date the serialiser can emit: a valid civil date-time whose UTC year has four digits *)
Definition date_ok (d : odt) : Prop := odt_valid d = true /\ emit_ok d = true.
(* ... already in emitted form *)
Definition date_exact (d : odt) : Prop := date_ok d /\ odt_normal d = true.
Definition validity_wf (v : validity_info) : Prop :=
  date_ok (vi_signed v) /\ date_ok (vi_valid_from v) /\ date_ok (vi_valid_until v) /\ opt_P date_ok (vi_expected_update v).
Definition validity_exact (v : validity_info) : Prop :=
  date_exact (vi_signed v) /\ date_exact (vi_valid_from v) /\ date_exact (vi_valid_until v) /\
  opt_P date_exact (vi_expected_update v).

(* ---------- KeyAuthorizations / DeviceKeyInfo ---------- *)
Record key_authorizations := KeyAuthorizations {
  ka_namespaces : option (list bytes);                      (* NonEmptyVec<String> *)
  ka_data_elements : option (list (bytes * list bytes)) }.  (* NonEmptyMap<String, NonEmptyVec<String>> *)

Definition ka_fields : fields (option (list bytes) * (option (list (bytes * list bytes)) * unit)) :=
  FOpt (bytes_of_string "nameSpaces") (c_nelist c_text) (ne_P text_ok)
 (FOpt (bytes_of_string "dataElements") (c_nemap bytes_ltb c_text (c_nelist c_text)) (nemap_P bytes_ltb text_ok (ne_P text_ok)) FNil).
Definition ka_tuple (x : key_authorizations) := (ka_namespaces x, (ka_data_elements x, tt)).
Definition ka_untuple (t : option (list bytes) * (option (list (bytes * list bytes)) * unit)) :=
  KeyAuthorizations (fst t) (fst (snd t)).
Definition c_key_authorizations : codec key_authorizations := c_iso ka_tuple ka_untuple (c_struct true ka_fields).
Definition key_authorizations_wf (x : key_authorizations) : Prop :=
  opt_P (ne_P text_ok) (ka_namespaces x) /\ opt_P (nemap_P bytes_ltb text_ok (ne_P text_ok)) (ka_data_elements x).

(* DigestId(i32): newtype over i32 (negative values decode too; the documented domain is 0 .. 2^31-1) *)
Definition c_digest_id : codec Z := c_int (-2147483648) 2147483648.
Definition digest_id_P : Z -> Prop := int_P 0 2147483648.
Definition digest_ids := list (Z * bytes).                  (* BTreeMap<DigestId, ByteStr> *)
Definition c_digest_ids : codec digest_ids := c_map zltb c_digest_id c_bytestr.
Definition digest_ids_P : digest_ids -> Prop := map_P zltb digest_id_P bytes_ok.

Section WithTables.
  Variable tb : tables.

  Record device_key_info := DeviceKeyInfo {
    dk_device_key : cose_key;
    dk_key_authorizations : option key_authorizations;
    dk_key_info : option (list (Z * cbor)) }.               (* BTreeMap<i128, Value> *)

  Definition key_info_P : list (Z * cbor) -> Prop := map_P zltb (int_P (- two127z) two127z) value_ok.
  Definition dk_fields : fields (cose_key * (option key_authorizations * (option (list (Z * cbor)) * unit))) :=
    FReq (bytes_of_string "deviceKey") (c_cose_key tb) cose_key_wf
   (FOpt (bytes_of_string "keyAuthorizations") c_key_authorizations key_authorizations_wf
   (FOpt (bytes_of_string "keyInfo") (c_map zltb c_i128 c_value) key_info_P FNil)).
  Definition dk_tuple (x : device_key_info) := (dk_device_key x, (dk_key_authorizations x, (dk_key_info x, tt))).
  Definition dk_untuple (t : cose_key * (option key_authorizations * (option (list (Z * cbor)) * unit))) :=
    DeviceKeyInfo (fst t) (fst (snd t)) (fst (snd (snd t))).
  Definition c_device_key_info : codec device_key_info := c_iso dk_tuple dk_untuple (c_struct true dk_fields).
  Definition device_key_info_wf (x : device_key_info) : Prop :=
    cose_key_wf (dk_device_key x) /\ opt_P key_authorizations_wf (dk_key_authorizations x) /\ opt_P key_info_P (dk_key_info x).

  (* ---------- Mso ---------- *)
  Record mso := Mso {
    mso_version : bytes;
    mso_digest_algorithm : digest_alg;
    mso_value_digests : list (bytes * digest_ids);            (* BTreeMap<String, DigestIds> *)
    mso_device_key_info : device_key_info;
    mso_doc_type : bytes;
    mso_validity_info : validity_info }.

  Definition value_digests_P : list (bytes * digest_ids) -> Prop := map_P bytes_ltb text_ok digest_ids_P.
  Definition mso_tuple_t := (bytes * (digest_alg * (list (bytes * digest_ids) * (device_key_info * (bytes * (validity_info * unit))))))%type.
  Definition mso_fields : fields mso_tuple_t :=
    FReq (bytes_of_string "version") c_text text_ok
   (FReq (bytes_of_string "digestAlgorithm") (c_digest_alg tb) any_P
   (FReq (bytes_of_string "valueDigests") (c_map bytes_ltb c_text c_digest_ids) value_digests_P
   (FReq (bytes_of_string "deviceKeyInfo") c_device_key_info device_key_info_wf
   (FReq (bytes_of_string "docType") c_text text_ok
   (FReq (bytes_of_string "validityInfo") c_validity_info validity_exact FNil))))).
  Definition mso_tuple (x : mso) : mso_tuple_t :=
    (mso_version x, (mso_digest_algorithm x, (mso_value_digests x, (mso_device_key_info x, (mso_doc_type x, (mso_validity_info x, tt)))))).
  Definition mso_untuple (t : mso_tuple_t) : mso :=
    Mso (fst t) (fst (snd t)) (fst (snd (snd t))) (fst (snd (snd (snd t)))) (fst (snd (snd (snd (snd t)))))
        (fst (snd (snd (snd (snd (snd t)))))).
  Definition c_mso : codec mso := c_iso mso_tuple mso_untuple (c_struct true mso_fields).

  (* all but the times *)
  Definition mso_wf_but_times (x : mso) : Prop :=
    text_ok (mso_version x) /\ value_digests_P (mso_value_digests x) /\ device_key_info_wf (mso_device_key_info x) /\
    text_ok (mso_doc_type x).
  (* exact round trip: times already UTC without fraction *)
  Definition mso_exact (x : mso) : Prop := mso_wf_but_times x /\ validity_exact (mso_validity_info x).
  (* the full documented domain: any offset, any fraction *)
  Definition mso_wf (x : mso) : Prop := mso_wf_but_times x /\ validity_wf (mso_validity_info x).
  Definition mso_norm (x : mso) : mso :=
    Mso (mso_version x) (mso_digest_algorithm x) (mso_value_digests x) (mso_device_key_info x) (mso_doc_type x)
        (validity_norm (mso_validity_info x)).
End WithTables.
