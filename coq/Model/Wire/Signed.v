(* Signed.v — issuer_signed.rs and device_signed.rs. *)
From Isomdl Require Import Lib.Bytes Lib.Cbor Lib.Serde Model.Wire.Tables Model.Wire.Mso.
From Coq Require Import ZArith String.
Open Scope N_scope.

Record issuer_signed_item := IssuerSignedItem {
  isi_digest_id : Z; isi_random : bytes; isi_element_identifier : bytes; isi_element_value : cbor }.

Definition isi_fields : fields (Z * (bytes * (bytes * (cbor * unit)))) :=
  FReq (bytes_of_string "digestID") c_digest_id digest_id_P
 (FReq (bytes_of_string "random") c_bytestr bytes_ok
 (FReq (bytes_of_string "elementIdentifier") c_text text_ok
 (FReq (bytes_of_string "elementValue") c_value value_ok FNil))).
Definition isi_tuple (x : issuer_signed_item) :=
  (isi_digest_id x, (isi_random x, (isi_element_identifier x, (isi_element_value x, tt)))).
Definition isi_untuple (t : Z * (bytes * (bytes * (cbor * unit)))) :=
  IssuerSignedItem (fst t) (fst (snd t)) (fst (snd (snd t))) (fst (snd (snd (snd t)))).
Definition c_issuer_signed_item : codec issuer_signed_item := c_iso isi_tuple isi_untuple (c_struct true isi_fields).
Definition issuer_signed_item_wf (x : issuer_signed_item) : Prop :=
  digest_id_P (isi_digest_id x) /\ bytes_ok (isi_random x) /\ text_ok (isi_element_identifier x) /\
  value_ok (isi_element_value x).

(* NonEmptyMap<String, NonEmptyVec<Tag24<IssuerSignedItem>>> *)
Definition issuer_namespaces := list (bytes * list (tag24 issuer_signed_item)).
Definition c_issuer_namespaces : codec issuer_namespaces :=
  c_nemap bytes_ltb c_text (c_nelist (c_tag24 c_issuer_signed_item)).
Definition issuer_namespaces_P : issuer_namespaces -> Prop :=
  nemap_P bytes_ltb text_ok (ne_P (tag24_P c_issuer_signed_item)).

(* BTreeMap<String, NonEmptyMap<String, Value>> *)
Definition device_namespaces := list (bytes * list (bytes * cbor)).
Definition c_device_namespaces : codec device_namespaces := c_map bytes_ltb c_text (c_nemap bytes_ltb c_text c_value).
Definition device_namespaces_P : device_namespaces -> Prop := map_P bytes_ltb text_ok (nemap_P bytes_ltb text_ok value_ok).

Section WithCose.
  Variable tb : tables.
  Context {sign1 mac0 : Type} (c_sign1 : codec sign1) (c_mac0 : codec mac0)
          (sign1_P : sign1 -> Prop) (mac0_P : mac0 -> Prop).

  Record issuer_signed := IssuerSigned { is_namespaces : option issuer_namespaces; is_issuer_auth : sign1 }.
  Definition is_fields : fields (option issuer_namespaces * (sign1 * unit)) :=
    FOpt (bytes_of_string "nameSpaces") c_issuer_namespaces issuer_namespaces_P
   (FReq (bytes_of_string "issuerAuth") c_sign1 sign1_P FNil).
  Definition is_tuple (x : issuer_signed) := (is_namespaces x, (is_issuer_auth x, tt)).
  Definition is_untuple (t : option issuer_namespaces * (sign1 * unit)) := IssuerSigned (fst t) (fst (snd t)).
  Definition c_issuer_signed : codec issuer_signed := c_iso is_tuple is_untuple (c_struct true is_fields).
  Definition issuer_signed_wf (x : issuer_signed) : Prop :=
    opt_P issuer_namespaces_P (is_namespaces x) /\ sign1_P (is_issuer_auth x).

  (* #[serde(rename_all = "camelCase")] enum DeviceAuth { DeviceSignature(..), DeviceMac(..) }:
     externally tagged newtype variants *)
  Inductive device_auth := DeviceSignature (s : sign1) | DeviceMac (m : mac0).
  Definition auth_name (variant : string) : bytes :=
    match s_assoc variant (tb_device_auth tb) with Some n => bytes_of_string n | None => [] end.
  Definition device_auth_to_cbor (a : device_auth) : cbor :=
    match a with
    | DeviceSignature s => variant_cbor (auth_name "DeviceSignature") (enc c_sign1 s)
    | DeviceMac m => variant_cbor (auth_name "DeviceMac") (enc c_mac0 m)
    end.
  Definition device_auth_of_cbor (v : cbor) : option device_auth :=
    '(n, x) <-? variant_entry true v ;;
    if bytes_eqb n (auth_name "DeviceSignature") then option_map DeviceSignature (dec c_sign1 x)
    else if bytes_eqb n (auth_name "DeviceMac") then option_map DeviceMac (dec c_mac0 x)
    else None.
  Definition c_device_auth : codec device_auth := Codec device_auth_to_cbor device_auth_of_cbor.
  Definition device_auth_wf (a : device_auth) : Prop :=
    match a with DeviceSignature s => sign1_P s | DeviceMac m => mac0_P m end.

  Record device_signed := DeviceSigned { ds_namespaces : tag24 device_namespaces; ds_device_auth : device_auth }.
  Definition ds_fields : fields (tag24 device_namespaces * (device_auth * unit)) :=
    FReq (bytes_of_string "nameSpaces") (c_tag24 c_device_namespaces) (tag24_P c_device_namespaces)
   (FReq (bytes_of_string "deviceAuth") c_device_auth device_auth_wf FNil).
  Definition ds_tuple (x : device_signed) := (ds_namespaces x, (ds_device_auth x, tt)).
  Definition ds_untuple (t : tag24 device_namespaces * (device_auth * unit)) := DeviceSigned (fst t) (fst (snd t)).
  Definition c_device_signed : codec device_signed := c_iso ds_tuple ds_untuple (c_struct true ds_fields).
  Definition device_signed_wf (x : device_signed) : Prop :=
    tag24_P c_device_namespaces (ds_namespaces x) /\ device_auth_wf (ds_device_auth x).
End WithCose.
