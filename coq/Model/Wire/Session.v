(* Session.v — session.rs: SessionEstablishment, SessionData (+ status), Handover (untagged),
   SessionTranscript180135. *)
From Isomdl Require Import Lib.Bytes Lib.Utf8 Lib.Cbor Lib.Serde Model.Wire.Tables Model.Wire.CoseKey Model.Wire.Engagement.
From Coq Require Import ZArith String.
Open Scope N_scope.

Record session_establishment := SessionEstablishment { se_reader_key : tag24 cose_key; se_data : bytes }.
Record session_data := SessionData { sd_data : option bytes; sd_status : option session_status }.

(* #[serde(untagged)] enum Handover { QR, NFC(ByteStr, Option<ByteStr>), OID4VP(String, String) } *)
Inductive handover := HQr | HNfc (select : bytes) (request : option bytes) | HOid4vp (a b : bytes).

Record session_transcript := SessionTranscript {
  st_engagement : tag24 device_engagement; st_reader_key : tag24 cose_key; st_handover : handover }.

Definition handover_to_cbor (h : handover) : cbor :=
  match h with
  | HQr => CNull
  | HNfc s r => CArray [CBytes s; match r with Some b => CBytes b | None => CNull end]
  | HOid4vp a b => CArray [CText a; CText b]
  end.

(* untagged: the input is buffered as serde Content (no tags representable), then each variant is
   tried in declaration order against the buffer.  A Content byte string that is valid UTF-8 is
   accepted where a String is expected. *)
Definition try_qr (v : cbor) : option handover := match v with CNull => Some HQr | _ => None end.
Definition try_nfc (v : cbor) : option handover :=
  match v with
  | CArray [CBytes s; CNull] => Some (HNfc s None)
  | CArray [CBytes s; CBytes r] => Some (HNfc s (Some r))
  | _ => None
  end.
Definition content_string (v : cbor) : option bytes :=
  match v with CText t => Some t | CBytes b => if utf8_valid b then Some b else None | _ => None end.
Definition try_oid4vp (v : cbor) : option handover :=
  match v with
  | CArray [a; b] => x <-? content_string a ;; y <-? content_string b ;; Some (HOid4vp x y)
  | _ => None
  end.
Definition try_variant (name : string) (v : cbor) : option handover :=
  if String.eqb name "QR" then try_qr v
  else if String.eqb name "NFC" then try_nfc v
  else if String.eqb name "OID4VP" then try_oid4vp v
  else None.
Fixpoint first_variant (order : list string) (v : cbor) : option handover :=
  match order with
  | [] => None
  | n :: r => match try_variant n v with Some h => Some h | None => first_variant r v end
  end.

Section WithTables.
  Variable tb : tables.

  Definition handover_of_cbor (v : cbor) : option handover :=
    if tag_free v then first_variant (tb_handover_order tb) v else None.
  Definition c_handover : codec handover := Codec handover_to_cbor handover_of_cbor.

  Definition se_fields : fields (tag24 cose_key * (bytes * unit)) :=
    FReq (bytes_of_string "eReaderKey") (c_tag24 (c_cose_key tb)) (tag24_P (c_cose_key tb))
   (FReq (bytes_of_string "data") c_bytestr bytes_ok FNil).
  Definition se_tuple (x : session_establishment) := (se_reader_key x, (se_data x, tt)).
  Definition se_untuple (t : tag24 cose_key * (bytes * unit)) := SessionEstablishment (fst t) (fst (snd t)).
  Definition c_session_establishment : codec session_establishment := c_iso se_tuple se_untuple (c_struct true se_fields).

  Definition sd_fields : fields (option bytes * (option session_status * unit)) :=
    FOpt (bytes_of_string "data") c_bytestr bytes_ok
   (FOpt (bytes_of_string "status") (c_session_status tb) any_P FNil).
  Definition sd_tuple (x : session_data) := (sd_data x, (sd_status x, tt)).
  Definition sd_untuple (t : option bytes * (option session_status * unit)) := SessionData (fst t) (fst (snd t)).
  Definition c_session_data : codec session_data := c_iso sd_tuple sd_untuple (c_struct true sd_fields).

  Definition st_tuple (x : session_transcript) := (st_engagement x, st_reader_key x, st_handover x).
  Definition st_untuple (t : tag24 device_engagement * tag24 cose_key * handover) :=
    SessionTranscript (fst (fst t)) (snd (fst t)) (snd t).
  Definition c_session_transcript : codec session_transcript :=
    c_iso st_tuple st_untuple (c_tuple3 (c_tag24 (c_engagement tb)) (c_tag24 (c_cose_key tb)) c_handover).

  (* documented domains *)
  Definition handover_wf (h : handover) : Prop :=
    match h with
    | HQr => True
    | HNfc s r => bytes_ok s /\ opt_P bytes_ok r
    | HOid4vp a b => text_ok a /\ text_ok b
    end.
  Definition session_establishment_wf (x : session_establishment) : Prop :=
    tag24_P (c_cose_key tb) (se_reader_key x) /\ bytes_ok (se_data x).
  Definition session_data_wf (x : session_data) : Prop := opt_P bytes_ok (sd_data x).
  Definition session_transcript_wf (x : session_transcript) : Prop :=
    tag24_P (c_engagement tb) (st_engagement x) /\ tag24_P (c_cose_key tb) (st_reader_key x) /\ handover_wf (st_handover x).
End WithTables.
