(* Request.v — device_request.rs: DeviceRequest / DocRequest / ItemsRequest (all derived,
   rename_all = camelCase). *)
From Isomdl Require Import Lib.Bytes Lib.Cbor Lib.Serde.
From Coq Require Import String.
Open Scope N_scope.

Definition data_elements := list (bytes * bool).            (* NonEmptyMap<String, bool> *)
Definition namespaces := list (bytes * data_elements).      (* NonEmptyMap<String, DataElements> *)

Record items_request := ItemsRequest {
  ir_doc_type : bytes;
  ir_namespaces : namespaces;
  ir_request_info : option (list (bytes * cbor))            (* BTreeMap<String, Value> *)
}.

Definition c_data_elements : codec data_elements := c_nemap bytes_ltb c_text c_bool.
Definition c_namespaces : codec namespaces := c_nemap bytes_ltb c_text c_data_elements.
Definition data_elements_P : data_elements -> Prop := nemap_P bytes_ltb text_ok any_P.
Definition namespaces_P : namespaces -> Prop := nemap_P bytes_ltb text_ok data_elements_P.
Definition request_info_P : list (bytes * cbor) -> Prop := map_P bytes_ltb text_ok value_ok.

Definition ir_fields : fields (bytes * (namespaces * (option (list (bytes * cbor)) * unit))) :=
  FReq (bytes_of_string "docType") c_text text_ok
 (FReq (bytes_of_string "nameSpaces") c_namespaces namespaces_P
 (FOpt (bytes_of_string "requestInfo") (c_map bytes_ltb c_text c_value) request_info_P FNil)).
Definition ir_tuple (x : items_request) := (ir_doc_type x, (ir_namespaces x, (ir_request_info x, tt))).
Definition ir_untuple (t : bytes * (namespaces * (option (list (bytes * cbor)) * unit))) :=
  ItemsRequest (fst t) (fst (snd t)) (fst (snd (snd t))).
Definition c_items_request : codec items_request := c_iso ir_tuple ir_untuple (c_struct true ir_fields).
Definition items_request_wf (x : items_request) : Prop :=
  text_ok (ir_doc_type x) /\ namespaces_P (ir_namespaces x) /\ opt_P request_info_P (ir_request_info x).

Section WithCose.
  Context {sign1 : Type} (c_sign1 : codec sign1) (sign1_P : sign1 -> Prop).

  Record doc_request := DocRequest { dr_items_request : tag24 items_request; dr_reader_auth : option sign1 }.
  Record device_request := DeviceRequest { dq_version : bytes; dq_doc_requests : list doc_request }.

  Definition dr_fields : fields (tag24 items_request * (option sign1 * unit)) :=
    FReq (bytes_of_string "itemsRequest") (c_tag24 c_items_request) (tag24_P c_items_request)
   (FOpt (bytes_of_string "readerAuth") c_sign1 sign1_P FNil).
  Definition dr_tuple (x : doc_request) := (dr_items_request x, (dr_reader_auth x, tt)).
  Definition dr_untuple (t : tag24 items_request * (option sign1 * unit)) := DocRequest (fst t) (fst (snd t)).
  Definition c_doc_request : codec doc_request := c_iso dr_tuple dr_untuple (c_struct true dr_fields).
  Definition doc_request_wf (x : doc_request) : Prop :=
    tag24_P c_items_request (dr_items_request x) /\ opt_P sign1_P (dr_reader_auth x).

  Definition dq_fields : fields (bytes * (list doc_request * unit)) :=
    FReq (bytes_of_string "version") c_text text_ok
   (FReq (bytes_of_string "docRequests") (c_nelist c_doc_request) (ne_P doc_request_wf) FNil).
  Definition dq_tuple (x : device_request) := (dq_version x, (dq_doc_requests x, tt)).
  Definition dq_untuple (t : bytes * (list doc_request * unit)) := DeviceRequest (fst t) (fst (snd t)).
  Definition c_device_request : codec device_request := c_iso dq_tuple dq_untuple (c_struct true dq_fields).
  Definition device_request_wf (x : device_request) : Prop :=
    text_ok (dq_version x) /\ ne_P doc_request_wf (dq_doc_requests x).
End WithCose.
